(* C10 proofs, part 4: justification of reports.  Every reported breakage that is not excused (Model/C10_ext.v:excuse)
   comes with the explicit witness call of Model/C10_ext.v:witness, which old binds and new rejects. *)
From Coq Require Import List Arith Bool Lia.
From Verif Require Import Lib.Sexp Model.C10_kinds Gen.C10_tables Gen.C10_rules Model.C10_diff Model.C10_defaults Model.C10_ext
  Proofs.C10_diff Proofs.C10_complete.
Import ListNotations.
Open Scope list_scope. Open Scope nat_scope.

(* ---- mem / nodupb ---- *)
Lemma mem_in k K : mem k K = true <-> In k K.
Proof.
  unfold mem. rewrite existsb_exists. split.
  - intros [x [Hx E]]. apply Nat.eqb_eq in E. subst. exact Hx.
  - intros H. exists k. split; [exact H|apply Nat.eqb_refl].
Qed.
Lemma mem_false k K : mem k K = false <-> ~ In k K.
Proof.
  split.
  - intros H Hin. apply mem_in in Hin. congruence.
  - intros H. destruct (mem k K) eqn:E; [exfalso; apply H; apply mem_in; exact E|reflexivity].
Qed.
Lemma mem_app k a b : mem k (a ++ b) = mem k a || mem k b.
Proof. unfold mem. apply existsb_app. Qed.

Lemma nodupb_app a : forall b, nodupb a = true -> nodupb b = true -> (forall x, In x a -> ~ In x b) -> nodupb (a ++ b) = true.
Proof.
  induction a as [|x a IH]; intros b Ha Hb Hd; simpl; [exact Hb|].
  simpl in Ha. apply andb_prop in Ha. destruct Ha as [Hx Ha].
  apply andb_true_intro. split.
  - rewrite mem_app. apply negb_true_iff in Hx. rewrite Hx. simpl. apply negb_true_iff. apply mem_false. apply Hd. left. reflexivity.
  - apply IH; [exact Ha|exact Hb|]. intros y Hy. apply Hd. right. exact Hy.
Qed.

Lemma nodupb_map_filter (f : param -> bool) : forall s, nodup_names s = true -> nodupb (map pname (filter f s)) = true.
Proof.
  induction s as [|p s IH]; intros H; simpl; [reflexivity|].
  simpl in H. apply andb_prop in H. destruct H as [Hp Hs].
  destruct (f p); simpl; [|apply IH; exact Hs].
  apply andb_true_intro. split; [|apply IH; exact Hs].
  apply negb_true_iff. apply mem_false. intros Hin. apply in_map_iff in Hin. destruct Hin as [q [Hq Hin]].
  apply filter_In in Hin. destruct Hin as [Hin _].
  apply negb_true_iff in Hp. assert (existsb (fun q => Nat.eqb (pname q) (pname p)) s = true).
  { apply existsb_exists. exists q. split; [exact Hin|]. apply Nat.eqb_eq. exact Hq. }
  congruence.
Qed.

(* ---- the keywords a witness call adds ---- *)
Lemma reqkw_in s n extra k : In k (reqkw s n extra) ->
  exists p, In p s /\ pname p = k /\ needs_kw s n extra p = true.
Proof.
  unfold reqkw. intros H. apply in_map_iff in H. destruct H as [p [Hk Hp]]. apply filter_In in Hp. destruct Hp as [Hin Hf].
  exists p. auto.
Qed.
Lemma in_reqkw s n extra p : In p s -> needs_kw s n extra p = true -> In (pname p) (reqkw s n extra).
Proof. intros Hin Hf. unfold reqkw. apply in_map. apply filter_In. auto. Qed.

(* ---- required positional-only parameters are a prefix ---- *)
Lemma pdo_true_optional : forall s, pos_defaults_ok true s = true -> forall q, In q s -> pos_kind (pkind q) = true -> required q = false.
Proof.
  induction s as [|p s IH]; intros H q Hq Hk; [destruct Hq|].
  simpl in H. destruct Hq as [<-|Hq].
  - rewrite Hk in H. destruct (required p); [discriminate|reflexivity].
  - apply IH; [|exact Hq|exact Hk]. destruct (pos_kind (pkind p)); [destruct (required p); [discriminate|exact H]|exact H].
Qed.

Lemma nreqpo_cons p s : nreqpo (p :: s) = (if kind_eqb (pkind p) PO && required p then 1 else 0) + nreqpo s.
Proof. unfold nreqpo. simpl. destruct (kind_eqb (pkind p) PO && required p); reflexivity. Qed.

Lemma reqpo_prefix : forall s, sorted_kinds s = true -> pos_defaults_ok false s = true ->
  forall i q, nth_error s i = Some q -> pkind q = PO -> required q = true -> i < nreqpo s.
Proof.
  induction s as [|p s IH]; intros Hs Hd i q Hn Hk Hr; [destruct i; discriminate|].
  rewrite nreqpo_cons. destruct i as [|j]; simpl in Hn.
  - inversion Hn; subst. rewrite Hk, Hr. simpl. lia.
  - assert (Hq : In q s) by (eapply nth_error_In; eauto).
    destruct (sorted_head_le p s Hs) as [Hle Hs'].
    assert (Hp : pkind p = PO).
    { specialize (Hle q Hq). rewrite Hk in Hle. simpl in Hle. destruct (pkind p); simpl in Hle; try lia. reflexivity. }
    simpl in Hd. rewrite Hp in Hd. simpl in Hd.
    destruct (required p) eqn:Rp.
    + rewrite Hp. simpl in *. specialize (IH Hs' Hd j q Hn Hk Hr). lia.
    + exfalso. simpl in Hd. pose proof (pdo_true_optional s Hd q Hq) as X. rewrite Hk in X. specialize (X eq_refl). congruence.
Qed.

Lemma nreqpo_zero s : (forall p, In p s -> pkind p <> PO) -> nreqpo s = 0.
Proof.
  induction s as [|p s IH]; intros H; [reflexivity|]. rewrite nreqpo_cons.
  assert (kind_eqb (pkind p) PO = false) by (apply kind_eqb_neq; apply H; left; reflexivity).
  rewrite H0. simpl. apply IH. intros q Hq. apply H. right. exact Hq.
Qed.

Lemma nreqpo_le_index : forall s, sorted_kinds s = true -> forall i q, nth_error s i = Some q -> pkind q <> PO -> nreqpo s <= i.
Proof.
  induction s as [|p s IH]; intros Hs i q Hn Hk; [destruct i; discriminate|].
  destruct (sorted_head_le p s Hs) as [Hle Hs']. rewrite nreqpo_cons.
  destruct i as [|j]; simpl in Hn.
  - inversion Hn; subst.
    assert (kind_eqb (pkind q) PO = false) by (apply kind_eqb_neq; exact Hk). rewrite H. simpl.
    rewrite nreqpo_zero; [lia|]. intros x Hx E. specialize (Hle x Hx). rewrite E in Hle. simpl in Hle.
    destruct (pkind q); simpl in Hle; try lia. apply Hk. reflexivity.
  - specialize (IH Hs' j q Hn Hk). destruct (kind_eqb (pkind p) PO && required p); simpl; lia.
Qed.

Lemma nreqpo_le_npos s : nreqpo s <= npos s.
Proof.
  induction s as [|p s IH]; [unfold nreqpo, npos; simpl; lia|].
  rewrite nreqpo_cons, npos_cons. destruct (pkind p); simpl; destruct (required p); simpl; lia.
Qed.

(* ---- well-formedness, unpacked ---- *)
Record wfx (s : sig) : Prop := {
  wx_sorted : sorted_kinds s = true;
  wx_nodup : nodup_names s = true;
  wx_pdo : pos_defaults_ok false s = true;
  wx_var : forall p, In p s -> var_kind (pkind p) = true -> required p = false }.
Lemma wf_wfx s : wf s = true -> wfx s.
Proof.
  intros H. pose proof (wf_wfp s H) as [A B C]. constructor; auto.
  unfold wf in H. repeat (apply andb_prop in H; destruct H as [H ?]). assumption.
Qed.

Lemma in_index s p : nodup_names s = true -> In p s -> nth_error s (index_of (pname p) s) = Some p.
Proof. intros Hnd Hin. apply find_nth. apply nodup_in_find; assumption. Qed.

(* ---- the witness call binds against old ---- *)
Lemma binds_wcall s n extra : wfx s ->
  nreqpo s <= n -> (n <= npos s \/ has_kind VP s = true) ->
  nodupb extra = true -> (forall k, In k extra -> kw_ok s n k = true) ->
  binds s n (extra ++ reqkw s n extra) = true.
Proof.
  intros [Hs Hnd Hd Hv] Hn0 Hcnt Hex Hkw. unfold binds.
  apply andb_true_intro. split; [apply andb_true_intro; split; [apply andb_true_intro; split|]|].
  - (* no keyword twice *)
    apply nodupb_app; [exact Hex|apply nodupb_map_filter; exact Hnd|].
    intros x Hx Hin. apply reqkw_in in Hin. destruct Hin as [p [_ [Hp Hf]]]. unfold needs_kw in Hf.
    apply andb_prop in Hf. destruct Hf as [Hf _]. apply andb_prop in Hf. destruct Hf as [_ Hf].
    apply negb_true_iff in Hf. apply mem_false in Hf. apply Hf. rewrite Hp. exact Hx.
  - destruct Hcnt as [H|H]; [apply orb_true_intro; left; apply Nat.leb_le; exact H|rewrite H; apply orb_true_r].
  - apply forallb_forall. intros k Hk. apply in_app_or in Hk. destruct Hk as [Hk|Hk]; [apply Hkw; exact Hk|].
    apply reqkw_in in Hk. destruct Hk as [p [Hin [Hp Hf]]]. unfold kw_ok. rewrite <- Hp.
    rewrite (nodup_in_find s p Hnd Hin). unfold needs_kw in Hf. apply andb_prop in Hf. destruct Hf as [_ Hf].
    destruct (pkind p); try discriminate; [exact Hf|reflexivity].
  - apply forallb_forall. intros q Hq. unfold param_ok.
    destruct (required q) eqn:Rq; [|destruct (pkind q); rewrite ?orb_true_r; reflexivity].
    assert (Hmem : mem (pname q) extra = false -> needs_kw s n extra q = true -> mem (pname q) (extra ++ reqkw s n extra) = true).
    { intros _ Hf. rewrite mem_app. apply orb_true_intro. right. apply mem_in. apply in_reqkw; assumption. }
    destruct (pkind q) eqn:Kq; try reflexivity; simpl; rewrite ?orb_false_r.
    + (* PO *) apply Nat.ltb_lt.
      pose proof (reqpo_prefix s Hs Hd _ q (in_index s q Hnd Hq) Kq Rq). lia.
    + (* PK *) destruct (Nat.ltb (index_of (pname q) s) n) eqn:L; [reflexivity|]. simpl.
      destruct (mem (pname q) extra) eqn:M; [rewrite mem_app, M; reflexivity|].
      apply Hmem; [reflexivity|]. unfold needs_kw. rewrite Rq, M, Kq, L. reflexivity.
    + (* KO *) destruct (mem (pname q) extra) eqn:M; [rewrite mem_app, M; reflexivity|].
      apply Hmem; [reflexivity|]. unfold needs_kw. rewrite Rq, M, Kq. reflexivity.
Qed.

(* ---- three ways new rejects a call ---- *)
Lemma binds_false_count s n K : Nat.leb n (npos s) = false -> has_kind VP s = false -> binds s n K = false.
Proof. intros A B. unfold binds. rewrite A, B. simpl. rewrite andb_false_r. reflexivity. Qed.
Lemma binds_false_kw s n K k : In k K -> kw_ok s n k = false -> binds s n K = false.
Proof.
  intros Hk Hf. unfold binds. destruct (forallb (kw_ok s n) K) eqn:E.
  - rewrite forallb_forall in E. rewrite (E k Hk) in Hf. discriminate.
  - rewrite andb_false_r. reflexivity.
Qed.
Lemma binds_false_param s n K q : In q s -> param_ok s n K q = false -> binds s n K = false.
Proof.
  intros Hq Hf. unfold binds. destruct (forallb (param_ok s n K) s) eqn:E.
  - rewrite forallb_forall in E. rewrite (E q Hq) in Hf. discriminate.
  - apply andb_false_r.
Qed.

(* ---- a fresh keyword name ---- *)
Lemma le_fold_max l x : In x l -> x <= fold_right Nat.max 0 l.
Proof. induction l as [|y l IH]; intros H; [destruct H|]. simpl. destruct H as [<-|H]; [lia|specialize (IH H); lia]. Qed.
Lemma find_fresh old new s : (forall p, In p s -> In p (old ++ new)) -> find (fresh old new) s = None.
Proof.
  intros Hsub. destruct (find (fresh old new) s) as [p|] eqn:E; [|reflexivity]. exfalso.
  destruct (find_some_in _ _ _ E) as [Hin Hn].
  assert (pname p <= fold_right Nat.max 0 (map pname (old ++ new))) by (apply le_fold_max; apply in_map; apply Hsub; exact Hin).
  unfold fresh in Hn. lia.
Qed.

(* ---- where a report comes from ---- *)
Lemma in_olds_inv new : forall s i b, In b (olds new i s) -> exists k p, nth_error s k = Some p /\ In b (per_old new (i + k) p).
Proof.
  induction s as [|q s IH]; intros i b H; [destruct H|]. simpl in H. apply in_app_or in H. destruct H as [H|H].
  - exists 0, q. split; [reflexivity|]. replace (i + 0) with i by lia. exact H.
  - destruct (IH (S i) b H) as [k [p [Hn Hb]]]. exists (S k), p. split; [exact Hn|]. replace (i + S k) with (S i + k) by lia. exact Hb.
Qed.

Lemma collide_only_kind ck old new b : In b (collide ck old new) -> exists n, b = ChKind n.
Proof.
  unfold collide. intros H. apply in_flat_map in H. destruct H as [op [_ H]]. unfold collide_one in H.
  destruct (find (pname op) new); [|destruct H].
  match type of H with In _ (if ?c then _ else _) => destruct c end; [|destruct H].
  destruct H as [<-|[]]. eauto.
Qed.

Lemma removed_inv old new n : In (Removed n) (fdiff old new) ->
  exists op, In op old /\ pname op = n /\ find n new = None /\ swallowed (pkind op) (has_kind VP new) (has_kind VK new) = false.
Proof.
  unfold fdiff. intros H. apply in_app_or in H. destruct H as [H|H].
  - destruct (in_olds_inv new old 0 _ H) as [k [op [Hn Hb]]]. exists op.
    assert (Hin : In op old) by (eapply nth_error_In; eauto).
    unfold per_old in Hb. destruct (find (pname op) new) as [np|] eqn:Hf.
    + exfalso. repeat (apply in_app_or in Hb; destruct Hb as [Hb|Hb]);
        match type of Hb with In _ (if ?c then _ else _) => destruct c end; try destruct Hb as [Hb|[]]; try discriminate; destruct Hb.
    + destruct (swallowed (pkind op) (has_kind VP new) (has_kind VK new)) eqn:Sw; [destruct Hb|].
      destruct Hb as [Hb|[]]. inversion Hb; subst. auto.
  - exfalso. unfold added in H. apply in_flat_map in H. destruct H as [np [_ H]].
    destruct (find (pname np) old); [destruct H|]. destruct (required np); [destruct H as [H|[]]; discriminate|destruct H].
Qed.

Lemma chreq_inv old new n : In (ChReq n) (fdiff old new) ->
  exists op np, In op old /\ pname op = n /\ find n new = Some np /\ required op = false /\ required np = true.
Proof.
  intros H. pose proof (reports_sound old new _ H) as C. simpl in C. exact C.
Qed.

Lemma addedreq_inv old new n : In (AddedReq n) (fdiff old new) ->
  exists np, In np new /\ pname np = n /\ required np = true /\ find n old = None.
Proof.
  intros H. pose proof (reports_sound old new _ H) as C. simpl in C. destruct C as [[np [A [B D]]] E]. exists np. auto.
Qed.

Lemma chdef_inv old new n : In (ChDef n) (fdiff old new) ->
  exists op np, In op old /\ pname op = n /\ find n new = Some np /\ required op = false /\ required np = false /\
                is_var (pkind op) = false /\ is_var (pkind np) = false /\ pdef op <> pdef np.
Proof.
  unfold fdiff. intros H. apply in_app_or in H. destruct H as [H|H].
  - destruct (in_olds_inv new old 0 _ H) as [k [op [Hn Hb]]].
    assert (Hin : In op old) by (eapply nth_error_In; eauto).
    unfold per_old in Hb. destruct (find (pname op) new) as [np|] eqn:Hf.
    + apply in_app_or in Hb. destruct Hb as [Hb|Hb].
      { match type of Hb with In _ (if ?c then _ else _) => destruct c end; [destruct Hb as [Hb|[]]; discriminate|destruct Hb]. }
      apply in_app_or in Hb. destruct Hb as [Hb|Hb].
      { match type of Hb with In _ (if ?c then _ else _) => destruct c end; [destruct Hb as [Hb|[]]; discriminate|destruct Hb]. }
      apply in_app_or in Hb. destruct Hb as [Hb|Hb].
      { match type of Hb with In _ (if ?c then _ else _) => destruct c end; [destruct Hb as [Hb|[]]; discriminate|destruct Hb]. }
      match type of Hb with In _ (if ?c then _ else _) => destruct c eqn:C end; [|destruct Hb].
      destruct Hb as [Hb|[]]. inversion Hb; subst. exists op, np.
      repeat (apply andb_prop in C; destruct C as [C ?]).
      repeat match goal with X : negb _ = true |- _ => apply negb_true_iff in X end.
      repeat split; auto. intros E. rewrite E, odef_eqb_refl in *. discriminate.
    + exfalso. destruct (swallowed (pkind op) (has_kind VP new) (has_kind VK new)); [destruct Hb|destruct Hb as [Hb|[]]; discriminate].
  - exfalso. unfold added in H. apply in_flat_map in H. destruct H as [np [_ H]].
    destruct (find (pname np) old); [destruct H|]. destruct (required np); [destruct H as [H|[]]; discriminate|destruct H].
Qed.

(* ---- the theorem ---- *)
Definition call_breaking (old new : sig) : Prop := exists n K, binds old n K = true /\ binds new n K = false.

Section Justified.
Variables old new : sig.
Hypothesis Hwo : wf old = true.
Hypothesis Hwn : wf new = true.
Let Xo := wf_wfx old Hwo.
Let Xn := wf_wfx new Hwn.
Let n0 := nreqpo old.

Lemma old_binds n extra : n0 <= n -> (n <= npos old \/ has_kind VP old = true) ->
  nodupb extra = true -> (forall k, In k extra -> kw_ok old n k = true) ->
  binds old (fst (wcall old n extra)) (snd (wcall old n extra)) = true.
Proof. intros. simpl. apply binds_wcall; auto. Qed.

Lemma reqkw_only_required n extra k : In k (reqkw old n extra) -> exists p, find k old = Some p /\ required p = true.
Proof.
  intros H. apply reqkw_in in H. destruct H as [p [Hin [Hp Hf]]]. exists p. split.
  - rewrite <- Hp. apply nodup_in_find; [apply Xo|exact Hin].
  - unfold needs_kw in Hf. apply andb_prop in Hf. destruct Hf as [Hf _]. apply andb_prop in Hf. destruct Hf as [Hf _]. exact Hf.
Qed.

(* a parameter that is required in new and that the minimal old call neither fills positionally nor names *)
Lemma minimal_call_misses np : In np new -> required np = true ->
  (forall p, find (pname np) old = Some p -> required p = false) ->
  (pos_kind (pkind np) && Nat.ltb (index_of (pname np) new) n0) = false ->
  binds new n0 (reqkw old n0 []) = false.
Proof.
  intros Hin Hr Hold Hex. apply (binds_false_param new n0 _ np Hin). unfold param_ok. rewrite Hr. simpl. rewrite !orb_false_r.
  assert (Hm : mem (pname np) (reqkw old n0 []) = false).
  { apply mem_false. intros H. apply reqkw_only_required in H. destruct H as [p [Hf Rp]]. rewrite (Hold p Hf) in Rp. discriminate. }
  destruct (pkind np) eqn:K; simpl in Hex.
  - exact Hex.
  - rewrite Hex, Hm. reflexivity.
  - exfalso. rewrite (wx_var new Xn np Hin) in Hr; [discriminate|rewrite K; reflexivity].
  - exact Hm.
  - exfalso. rewrite (wx_var new Xn np Hin) in Hr; [discriminate|rewrite K; reflexivity].
Qed.

Lemma minimal_call_binds : binds old n0 (reqkw old n0 []) = true.
Proof.
  apply (binds_wcall old n0 [] Xo); [unfold n0; lia|left; apply nreqpo_le_npos|reflexivity|intros k []].
Qed.

Theorem reports_justified ck b : In b (fdiff_g ck old new) -> excuse old new b = false ->
  exists n K, witness old new b = Some (n, K) /\ binds old n K = true /\ binds new n K = false.
Proof.
  intros Hin Hex. destruct b as [n|n|n|n|n|n]; simpl in Hex; try discriminate.
  - (* Removed *)
    assert (H : In (Removed n) (fdiff old new)).
    { unfold fdiff_g in Hin. apply in_app_or in Hin. destruct Hin as [H|H]; [exact H|].
      apply collide_only_kind in H. destruct H as [m H]. discriminate. }
    destruct (removed_inv old new n H) as [op [Hop [Hn [Hfn Hsw]]]].
    assert (Hfo : find n old = Some op) by (rewrite <- Hn; apply nodup_in_find; [apply Xo|exact Hop]).
    rewrite swallowed_spec in Hsw. unfold witness. rewrite Hfo in *. fold n0.
    assert (Hidx : nth_error old (index_of n old) = Some op) by (apply find_nth; exact Hfo).
    destruct (pkind op) eqn:K; simpl in Hsw.
    + (* PO *) apply Nat.leb_gt in Hex. eexists. eexists. split; [reflexivity|]. split.
      * apply binds_wcall; [exact Xo|apply nreqpo_le_npos|left; lia|reflexivity|intros k []].
      * apply binds_false_count; [apply Nat.leb_gt; exact Hex|exact Hsw].
    + (* PK *) destruct (has_kind VK new) eqn:VKn.
      * simpl in Hex. apply Nat.leb_gt in Hex. rewrite andb_true_r in Hsw.
        eexists. eexists. split; [reflexivity|]. split.
        -- apply binds_wcall; [exact Xo|apply nreqpo_le_npos|left; lia|reflexivity|intros k []].
        -- apply binds_false_count; [apply Nat.leb_gt; exact Hex|exact Hsw].
      * eexists. eexists. split; [reflexivity|]. split.
        -- apply binds_wcall; [exact Xo|unfold n0; lia|left; apply nreqpo_le_npos|reflexivity|].
           intros k [<-|[]]. unfold kw_ok. rewrite Hfo, K. apply negb_true_iff. apply Nat.ltb_ge.
           apply (nreqpo_le_index old (wx_sorted old Xo) _ op Hidx). rewrite K. discriminate.
        -- apply (binds_false_kw new _ _ n); [left; reflexivity|]. unfold kw_ok. rewrite Hfn. exact VKn.
    + (* VP *) eexists. eexists. split; [reflexivity|]. split.
      * apply binds_wcall; [exact Xo|pose proof (nreqpo_le_npos old); lia|right; apply has_kind_iff; exists op; auto|reflexivity|intros k []].
      * apply binds_false_count; [apply Nat.leb_gt; lia|exact Hex].
    + (* KO *) eexists. eexists. split; [reflexivity|]. split.
      * apply binds_wcall; [exact Xo|unfold n0; lia|left; apply nreqpo_le_npos|reflexivity|].
        intros k [<-|[]]. unfold kw_ok. rewrite Hfo, K. reflexivity.
      * apply (binds_false_kw new _ _ n); [left; reflexivity|]. unfold kw_ok. rewrite Hfn. exact Hsw.
    + (* VK *) eexists. eexists. split; [reflexivity|]. split.
      * apply binds_wcall; [exact Xo|unfold n0; lia|left; apply nreqpo_le_npos|reflexivity|].
        intros k [<-|[]]. unfold kw_ok. rewrite (find_fresh old new old); [apply has_kind_iff; exists op; auto|].
        intros p Hp. apply in_or_app. left. exact Hp.
      * apply (binds_false_kw new _ _ (fresh old new)); [left; reflexivity|]. unfold kw_ok.
        rewrite (find_fresh old new new); [exact Hex|]. intros p Hp. apply in_or_app. right. exact Hp.
  - (* ChReq *)
    assert (H : In (ChReq n) (fdiff old new)).
    { unfold fdiff_g in Hin. apply in_app_or in Hin. destruct Hin as [H|H]; [exact H|].
      apply collide_only_kind in H. destruct H as [m H]. discriminate. }
    destruct (chreq_inv old new n H) as [op [np [Hop [Hn [Hfn [Ro Rn]]]]]].
    rewrite Hfn in Hex. destruct (find_some_in _ _ _ Hfn) as [Hnp Hnn].
    exists n0, (reqkw old n0 []). split; [reflexivity|]. split; [apply minimal_call_binds|].
    apply (minimal_call_misses np Hnp Rn); [|rewrite Hnn; exact Hex].
    intros p Hp. rewrite Hnn, <- Hn in Hp. rewrite (nodup_in_find old op (wx_nodup old Xo) Hop) in Hp. inversion Hp; subst. exact Ro.
  - (* ChKind: positional and keyword collide *)
    apply negb_false_iff in Hex. unfold collides in Hex.
    destruct (find n old) as [op|] eqn:Hfo; [|discriminate]. destruct (find n new) as [np|] eqn:Hfn; [|discriminate].
    apply andb_prop in Hex. destruct Hex as [Hk Hc]. unfold collision_doc in Hc.
    apply andb_prop in Hc. destruct Hc as [Hc Hacc]. apply andb_prop in Hc. destruct Hc as [Hpk Hkw].
    apply kind_eqb_eq in Hpk. apply negb_true_iff, kind_eqb_neq in Hk.
    set (m := Nat.max n0 (S (index_of n new))).
    exists m, ([n] ++ reqkw old m [n]). split; [reflexivity|]. split.
    + apply binds_wcall; [exact Xo|unfold m; lia| |reflexivity|].
      * unfold accepts_more_than in Hacc. apply orb_prop in Hacc. destruct Hacc as [H|H]; [|right; exact H].
        left. apply Nat.ltb_lt in H. pose proof (nreqpo_le_npos old). unfold m, n0. lia.
      * intros k [<-|[]]. unfold kw_ok. rewrite Hfo.
        destruct (pkind op) eqn:K; simpl in Hkw; try exact Hkw; try reflexivity.
        exfalso. apply Hk. rewrite Hpk. reflexivity.
    + apply (binds_false_kw new _ _ n); [left; reflexivity|]. unfold kw_ok. rewrite Hfn, Hpk.
      apply negb_false_iff. apply Nat.ltb_lt. unfold m. lia.
  - (* AddedReq *)
    assert (H : In (AddedReq n) (fdiff old new)).
    { unfold fdiff_g in Hin. apply in_app_or in Hin. destruct Hin as [H|H]; [exact H|].
      apply collide_only_kind in H. destruct H as [m H]. discriminate. }
    destruct (addedreq_inv old new n H) as [np [Hnp [Hnn [Rn Hfo]]]].
    rewrite <- Hnn in Hex. rewrite (nodup_in_find new np (wx_nodup new Xn) Hnp) in Hex.
    exists n0, (reqkw old n0 []). split; [reflexivity|]. split; [apply minimal_call_binds|].
    apply (minimal_call_misses np Hnp Rn); [|exact Hex].
    intros p Hp. rewrite Hnn, Hfo in Hp. discriminate.
Qed.

Corollary reports_call_breaking_or_excused ck b : In b (fdiff_g ck old new) ->
  call_breaking old new \/ excuse old new b = true.
Proof.
  intros Hin. destruct (excuse old new b) eqn:E; [right; reflexivity|left].
  destruct (reports_justified ck b Hin E) as [n [K [_ [A B]]]]. exists n, K. auto.
Qed.
End Justified.

(* the excuses are what they say: each names the documented non-call reason *)
Lemma excuse_meaning old new b : excuse old new b = true ->
  match b with
  | ChDef _ | Moved _ => True
  | ChKind n => collides old new n = false
  | AddedReq n | ChReq n => forall np, find n new = Some np -> pos_kind (pkind np) = true /\ index_of n new < nreqpo old
  | Removed n => forall op, find n old = Some op ->
      match pkind op with
      | KO => False
      | PK => has_kind VK new = true /\ npos old <= npos new
      | PO => npos old <= npos new
      | VP => has_kind VP new = true
      | VK => has_kind VK new = true end
  end.
Proof.
  destruct b as [n|n|n|n|n|n]; simpl; intros H; auto.
  - intros op Hf. rewrite Hf in H. destruct (pkind op); try discriminate; try exact H.
    + apply Nat.leb_le. exact H.
    + apply andb_prop in H. destruct H as [A B]. split; [exact A|apply Nat.leb_le; exact B].
  - intros np Hf. rewrite Hf in H. apply andb_prop in H. destruct H as [A B]. split; [exact A|apply Nat.ltb_lt; exact B].
  - apply negb_true_iff. exact H.
  - intros np Hf. rewrite Hf in H. apply andb_prop in H. destruct H as [A B]. split; [exact A|apply Nat.ltb_lt; exact B].
Qed.

(* non-vacuity: a witness is produced and separates; an excuse holds on a renamed positional-only parameter *)
Example justified_witness :
  let old := [mk 0 PK None; mk 1 VP (Some 0); mk 2 VK (Some 0)] in let new := [mk 0 PK None; mk 2 VK (Some 0)] in
  wf old = true /\ wf new = true /\ fdiff_g collision_kind old new = [Removed 1] /\ excuse old new (Removed 1) = false /\
  witness old new (Removed 1) = Some (3, []) /\ binds old 3 [] = true /\ binds new 3 [] = false.
Proof. repeat split; reflexivity. Qed.
Example justified_excuse :
  let old := [mk 0 PO None] in let new := [mk 1 PO None] in
  wf old = true /\ wf new = true /\ fdiff_g collision_kind old new = [Removed 0; AddedReq 1] /\
  excuse old new (Removed 0) = true /\ excuse old new (AddedReq 1) = true /\
  (forall n K, binds old n K = binds new n K).
Proof.
  repeat split; try reflexivity. intros n K.
  assert (H1 : forallb (kw_ok [mk 0 PO None] n) K = forallb (kw_ok [mk 1 PO None] n) K).
  { induction K as [|k K IH]; [reflexivity|]. simpl. rewrite IH. f_equal. unfold kw_ok. simpl. destruct k as [|[|k]]; reflexivity. }
  unfold binds. rewrite H1. reflexivity.
Qed.
