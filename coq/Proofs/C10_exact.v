(* C10 proofs, part 8: the excuse of a "became required" / "added required" report is exact.  The report on parameter n is
   excused iff NO call that old binds leaves n unfilled in new (n sits at a position every old call fills positionally);
   otherwise the witness call leaves it unfilled. *)
From Coq Require Import List Arith Bool Lia.
From Verif Require Import Lib.Sexp Model.C10_kinds Gen.C10_tables Gen.C10_rules Model.C10_diff Model.C10_defaults Model.C10_ext
  Proofs.C10_diff Proofs.C10_complete Proofs.C10_sound.
Import ListNotations.
Open Scope list_scope. Open Scope nat_scope.

(* the first nreqpo parameters are exactly the required positional-only ones *)
Lemma reqpo_prefix_conv : forall s, sorted_kinds s = true -> pos_defaults_ok false s = true ->
  forall i q, i < nreqpo s -> nth_error s i = Some q -> pkind q = PO /\ required q = true.
Proof.
  induction s as [|p s IH]; intros Hs Hd i q Hi Hn; [destruct i; discriminate|].
  destruct (sorted_head_le p s Hs) as [Hle Hs']. rewrite nreqpo_cons in Hi.
  destruct (kind_eqb (pkind p) PO && required p) eqn:E.
  - apply andb_prop in E. destruct E as [Ek Er]. apply kind_eqb_eq in Ek.
    destruct i as [|j]; simpl in Hn; [inversion Hn; subst; auto|].
    simpl in Hd. rewrite Ek in Hd. simpl in Hd. rewrite Er in Hd. simpl in Hd.
    apply (IH Hs' Hd j q); [simpl in Hi; lia|exact Hn].
  - exfalso. assert (Z : nreqpo s = 0).
    { apply andb_false_iff in E. destruct E as [E|E].
      - apply kind_eqb_neq in E. apply nreqpo_zero. intros x Hx Ex. specialize (Hle x Hx). rewrite Ex in Hle. simpl in Hle.
        destruct (pkind p); simpl in Hle; try lia. apply E. reflexivity.
      - destruct (pos_kind (pkind p)) eqn:Pp.
        + simpl in Hd. rewrite Pp, E in Hd.
          assert (forall x, In x s -> kind_eqb (pkind x) PO && required x = false).
          { intros x Hx. destruct (kind_eqb (pkind x) PO) eqn:Kx; [|reflexivity]. apply kind_eqb_eq in Kx. simpl.
            apply (pdo_true_optional s Hd x Hx). rewrite Kx. reflexivity. }
          unfold nreqpo. clear -H. induction s as [|x s IHs]; [reflexivity|]. simpl. rewrite (H x (or_introl eq_refl)). apply IHs.
          intros y Hy. apply H. right. exact Hy.
        + apply nreqpo_zero. intros x Hx Ex. specialize (Hle x Hx). rewrite Ex in Hle. simpl in Hle.
          destruct (pkind p); simpl in *; try discriminate; lia. }
    simpl in Hi. lia.
Qed.

Lemma filter_len {A} (f : A -> bool) l : List.length (filter f l) <= List.length l.
Proof. induction l as [|x l IH]; simpl; [lia|]. destruct (f x); simpl; lia. Qed.

(* every call that old binds passes at least nreqpo positionals *)
Lemma binds_fills_reqpo s c K : wf s = true -> binds s c K = true -> nreqpo s <= c.
Proof.
  intros Hw Hb. destruct (wf_wfx s Hw) as [Hs Hnd Hd Hv].
  destruct (le_lt_dec (nreqpo s) c) as [H|H]; [exact H|exfalso].
  assert (Hlen : c < List.length s).
  { unfold nreqpo in H. pose proof (filter_len (fun p => kind_eqb (pkind p) PO && required p) s). lia. }
  destruct (nth_error s c) as [q|] eqn:Hn; [|apply nth_error_None in Hn; lia].
  destruct (reqpo_prefix_conv s Hs Hd c q H Hn) as [Kq Rq].
  unfold binds in Hb. apply andb_prop in Hb. destruct Hb as [_ Hb]. rewrite forallb_forall in Hb.
  specialize (Hb q (nth_error_In _ _ Hn)). unfold param_ok in Hb. rewrite Kq, Rq in Hb. simpl in Hb. rewrite orb_false_r in Hb.
  apply Nat.ltb_lt in Hb. rewrite (nodup_nth_index s c q Hnd Hn) in Hb. lia.
Qed.

Section Exact.
Variables old new : sig.
Hypothesis Hwo : wf old = true.
Hypothesis Hwn : wf new = true.

(* excused => never unfilled *)
Theorem excused_required_never_unfilled n np :
  find n new = Some np -> pos_kind (pkind np) = true -> index_of n new < nreqpo old ->
  forall c K, binds old c K = true -> param_ok new c K np = true.
Proof.
  intros Hf Hp Hi c K Hb. pose proof (binds_fills_reqpo old c K Hwo Hb) as Hc.
  destruct (find_some_in _ _ _ Hf) as [_ Hn]. unfold param_ok. rewrite Hn.
  assert (L : Nat.ltb (index_of n new) c = true) by (apply Nat.ltb_lt; lia). rewrite L.
  destruct (pkind np); simpl in Hp; try discriminate; reflexivity.
Qed.

(* not excused => the witness call leaves it unfilled *)
Theorem unexcused_required_unfilled n np :
  find n new = Some np -> required np = true -> (forall p, find n old = Some p -> required p = false) ->
  (pos_kind (pkind np) && Nat.ltb (index_of n new) (nreqpo old)) = false ->
  binds old (nreqpo old) (reqkw old (nreqpo old) []) = true /\ param_ok new (nreqpo old) (reqkw old (nreqpo old) []) np = false.
Proof.
  intros Hf Hr Hold Hex. split; [apply minimal_call_binds; exact Hwo|].
  destruct (find_some_in _ _ _ Hf) as [Hin Hn]. unfold param_ok. rewrite Hr, Hn. simpl. rewrite !orb_false_r.
  assert (Hm : mem n (reqkw old (nreqpo old) []) = false).
  { apply mem_false. intros H. apply (reqkw_only_required old Hwo) in H. destruct H as [p [Hfp Rp]]. rewrite (Hold p Hfp) in Rp. discriminate. }
  destruct (pkind np) eqn:K; simpl in Hex.
  - exact Hex.
  - rewrite Hex, Hm. reflexivity.
  - exfalso. rewrite (wx_var new (wf_wfx new Hwn) np Hin) in Hr; [discriminate|rewrite K; reflexivity].
  - exact Hm.
  - exfalso. rewrite (wx_var new (wf_wfx new Hwn) np Hin) in Hr; [discriminate|rewrite K; reflexivity].
Qed.

(* together: for a parameter required in new and absent or optional in old, the excuse is exact *)
Theorem required_excuse_exact n np :
  find n new = Some np -> required np = true -> (forall p, find n old = Some p -> required p = false) ->
  (excuse old new (AddedReq n) = true <-> forall c K, binds old c K = true -> param_ok new c K np = true).
Proof.
  intros Hf Hr Hold. simpl. rewrite Hf. split.
  - intros H. apply andb_prop in H. destruct H as [Hp Hi]. apply Nat.ltb_lt in Hi.
    apply (excused_required_never_unfilled n np Hf Hp Hi).
  - intros H. destruct (pos_kind (pkind np) && Nat.ltb (index_of n new) (nreqpo old)) eqn:E; [reflexivity|exfalso].
    destruct (unexcused_required_unfilled n np Hf Hr Hold E) as [Hb Hu]. rewrite (H _ _ Hb) in Hu. discriminate.
Qed.
End Exact.

Example exact_excused : (* old f(a, /), new f(b, /): b is added as required, and never unfilled *)
  excuse [mk 0 PO None] [mk 1 PO None] (AddedReq 1) = true.
Proof. reflexivity. Qed.
Example exact_unexcused : (* old f(a, /), new f(a, b, /): the call f(0) leaves b unfilled *)
  excuse [mk 0 PO None] [mk 0 PO None; mk 1 PO None] (AddedReq 1) = false /\
  param_ok [mk 0 PO None; mk 1 PO None] 1 [] (mk 1 PO None) = false.
Proof. split; reflexivity. Qed.
