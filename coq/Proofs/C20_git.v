(* C20 — proofs about the model in Model/C20_git.v. *)
From Coq Require Import List ZArith String Ascii Bool Arith Lia.
From Verif Require Import Lib.Sexp Model.C20_git.
Import ListNotations.
Open Scope string_scope. Open Scope list_scope. Open Scope nat_scope.

(* ------------------------------------------------------------------ list facts *)

Lemma filter_id : forall {A} (f : A -> bool) l, (forall x, In x l -> f x = true) -> filter f l = l.
Proof.
  induction l as [|a l IH]; simpl; intros H; [reflexivity|].
  rewrite (H a (or_introl eq_refl)). f_equal. apply IH. intros x Hx. apply H. right. exact Hx.
Qed.

Lemma map_id_on : forall {A} (f : A -> A) l, (forall x, In x l -> f x = x) -> map f l = l.
Proof.
  induction l as [|a l IH]; simpl; intros H; [reflexivity|].
  rewrite (H a (or_introl eq_refl)). f_equal. apply IH. intros x Hx. apply H. right. exact Hx.
Qed.

Lemma nlookup_none_neq : forall {A} (l : list (nat * A)) p, nlookup p l = None -> forall x, In x l -> Nat.eqb (fst x) p = false.
Proof.
  induction l as [|[k v] l IH]; simpl; intros p H x Hx; [contradiction|].
  destruct (Nat.eqb k p) eqn:E; [discriminate|].
  destruct Hx as [<-|Hx]; [exact E|]. apply IH; assumption.
Qed.

Lemma slookup_none_neq : forall {A} (l : list (string * A)) b, slookup b l = None -> forall x, In x l -> String.eqb (fst x) b = false.
Proof.
  induction l as [|[k v] l IH]; simpl; intros b H x Hx; [contradiction|].
  destruct (String.eqb k b) eqn:E; [discriminate|].
  destruct Hx as [<-|Hx]; [exact E|]. apply IH; assumption.
Qed.

Lemma existsb_false_all : forall {A} (f : A -> bool) l, existsb f l = false -> forall x, In x l -> f x = false.
Proof.
  induction l as [|a l IH]; simpl; intros H x Hx; [contradiction|].
  apply orb_false_iff in H. destruct H as [Ha Hl]. destruct Hx as [<-|Hx]; [exact Ha|]. apply IH; assumption.
Qed.

Lemma is_some_false : forall {A} (o : option A), is_some o = false -> o = None.
Proof. destruct o; simpl; intros; [discriminate|reflexivity]. Qed.

Lemma find_none_of_existsb : forall {A} (f : A -> bool) l, existsb f l = false -> find f l = None.
Proof.
  induction l as [|a l IH]; simpl; intros H; [reflexivity|].
  apply orb_false_iff in H. destruct H as [Ha Hl]. rewrite Ha. apply IH. exact Hl.
Qed.

Lemma repo_eta : forall s, mkRepo (head_branch s) (head_commit s) (main_status s) (branches s) (names s) (regs s) (dirs s) (tmps s) = s.
Proof. destruct s; reflexivity. Qed.

(* ------------------------------------------------------------------ the states tmp_worktree moves through *)

(* between `worktree add` and the end of the finally block; the temp dir p exists in all of them *)
Inductive aclean := AFull (d : bool) | ANoWt | AClean.

Definition conc (s : repo) (p : path) (b : string) (c : commit) (a : aclean) : repo :=
  match a with
  | AFull d => mkRepo (head_branch s) (head_commit s) (main_status s) ((b, c) :: branches s) (names s)
                      (mkReg p (Some b) false :: regs s) ((p, d) :: dirs s) (p :: tmps s)
  | ANoWt => mkRepo (head_branch s) (head_commit s) (main_status s) ((b, c) :: branches s) (names s)
                    (regs s) (dirs s) (p :: tmps s)
  | AClean => mkRepo (head_branch s) (head_commit s) (main_status s) (branches s) (names s) (regs s) (dirs s) (p :: tmps s)
  end.

(* what is left once the TemporaryDirectory has been removed *)
Definition leak_reg (s : repo) (p : path) (b : string) (c : commit) : repo :=
  mkRepo (head_branch s) (head_commit s) (main_status s) ((b, c) :: branches s) (names s)
         (mkReg p (Some b) false :: regs s) (dirs s) (tmps s).
Definition leak_branch (s : repo) (b : string) (c : commit) : repo :=
  mkRepo (head_branch s) (head_commit s) (main_status s) ((b, c) :: branches s) (names s) (regs s) (dirs s) (tmps s).

Definition final (s : repo) (p : path) (b : string) (c : commit) (a : aclean) : repo :=
  match a with AFull _ => leak_reg s p b c | ANoWt => leak_branch s b c | AClean => s end.

Definition a_remove (a : aclean) : option aclean := match a with AFull _ => Some ANoWt | _ => None end.
Definition a_branchD (a : aclean) : option aclean := match a with ANoWt => Some AClean | _ => None end.

Definition a_apply (step : aclean -> option aclean) (a : aclean) := match step a with Some a' => a' | None => a end.
Definition a_git_call (f : fault) (step : aclean -> option aclean) (a : aclean) : aclean * signal :=
  match f with
  | NoFault => match step a with Some a' => (a', Rc0) | None => (a, RcFail) end
  | FailBefore => (a, RcFail)
  | FailAfter => (a_apply step a, RcFail)
  | RaiseBefore e => (a, Exn e)
  | RaiseAfter e => (a_apply step a, Exn e)
  end.

Definition a_cleanup (F : faults) (a : aclean) : aclean * option exn :=
  let (a1, g1) := a_git_call (f_remove F) a_remove a in
  match g1 with
  | Exn e => (a1, Some e)
  | _ =>
    let (a3, g3) := a_git_call (f_branchD F) a_branchD a1 in
    match g3 with
    | Exn e => (a3, Some e)
    | _ => (a3, None)
    end
  end.

Lemma git_call_sim : forall (cn : aclean -> repo) step astep f a,
  (forall a, step (cn a) = option_map cn (astep a)) ->
  git_call f step (cn a) = (cn (fst (a_git_call f astep a)), snd (a_git_call f astep a)).
Proof.
  intros cn step astep f a H. destruct f; simpl; unfold apply_step, a_apply; rewrite ?H; destruct (astep a); reflexivity.
Qed.

Fixpoint dirty_after (evs : list event) (d : bool) : bool :=
  match evs with
  | [] => d
  | EvStep :: r => dirty_after r d
  | EvWrite :: r => dirty_after r true
  | EvRaise _ :: _ => d
  end.

Fixpoint raised_by (evs : list event) : option exn :=
  match evs with
  | [] => None
  | EvRaise e :: _ => Some e
  | _ :: r => raised_by r
  end.

Section Flow.
  Variable s : repo.
  Variable p : path.
  Variable b : string.
  Variable c : commit.
  Hypothesis Hwf : wf s = true.
  Hypothesis Hfresh : fresh p s = true.
  Hypothesis Hnob : has_branch b s = false.

  Let cn := conc s p b c.

  Lemma fresh_tmp : existsb (Nat.eqb p) (tmps s) = false.
  Proof. unfold fresh in Hfresh. apply andb_true_iff in Hfresh. destruct Hfresh as [H _]. apply andb_true_iff in H. destruct H as [H _]. apply negb_true_iff in H. exact H. Qed.
  Lemma fresh_dir : nlookup p (dirs s) = None.
  Proof. unfold fresh in Hfresh. apply andb_true_iff in Hfresh. destruct Hfresh as [H _]. apply andb_true_iff in H. destruct H as [_ H]. apply negb_true_iff in H. apply is_some_false. exact H. Qed.
  Lemma fresh_reg : registered p s = false.
  Proof. unfold fresh in Hfresh. apply andb_true_iff in Hfresh. destruct Hfresh as [_ H]. apply negb_true_iff in H. exact H. Qed.

  Lemma drop_dir_fresh : drop_dir p (dirs s) = dirs s.
  Proof. apply filter_id. intros x Hx. rewrite (nlookup_none_neq _ _ fresh_dir x Hx). reflexivity. Qed.
  Lemma drop_reg_fresh : drop_reg p (regs s) = regs s.
  Proof. apply filter_id. intros x Hx. rewrite (existsb_false_all _ _ fresh_reg x Hx). reflexivity. Qed.
  Lemma drop_tmp_fresh : drop_tmp p (tmps s) = tmps s.
  Proof.
    apply filter_id. intros x Hx. pose proof (existsb_false_all _ _ fresh_tmp x Hx) as H. simpl in H.
    rewrite Nat.eqb_sym. rewrite H. reflexivity.
  Qed.
  Lemma drop_branch_fresh : drop_branch b (branches s) = branches s.
  Proof.
    apply filter_id. intros x Hx. unfold has_branch in Hnob. apply is_some_false in Hnob.
    rewrite (slookup_none_neq _ _ Hnob x Hx). reflexivity.
  Qed.
  Lemma find_reg_fresh : find (fun r => Nat.eqb (rpath r) p) (regs s) = None.
  Proof. apply find_none_of_existsb. exact fresh_reg. Qed.

  (* no worktree of s, and not its HEAD, is on the temporary branch: their branches exist, b does not *)
  Lemma not_checked_out : checked_out b s = false.
  Proof.
    unfold checked_out. unfold wf in Hwf. apply andb_true_iff in Hwf. destruct Hwf as [Hr Hh].
    apply orb_false_iff. split.
    - destruct (head_branch s) as [hb|]; simpl; [|reflexivity].
      destruct (String.eqb hb b) eqn:E; [|reflexivity]. apply String.eqb_eq in E. subst hb. congruence.
    - apply not_true_is_false. intro H. apply existsb_exists in H. destruct H as [r [Hin Hon]].
      rewrite forallb_forall in Hr. specialize (Hr r Hin). destruct (rbranch r) as [rb|]; simpl in Hon; [|discriminate].
      apply String.eqb_eq in Hon. subst rb. congruence.
  Qed.

  (* ---- git steps on the three cleanup states *)

  Lemma remove_sim : forall a, wt_remove true p (cn a) = option_map cn (a_remove a).
  Proof.
    intros [d| |]; unfold wt_remove, find_reg, cn, conc; simpl.
    - rewrite ?Nat.eqb_refl. simpl. rewrite ?andb_false_r.
      unfold set_dirs, set_regs; simpl. rewrite ?Nat.eqb_refl. simpl. rewrite drop_reg_fresh, drop_dir_fresh. reflexivity.
    - rewrite find_reg_fresh. reflexivity.
    - rewrite find_reg_fresh. reflexivity.
  Qed.

  Lemma branchD_sim : forall a, branch_D b (cn a) = option_map cn (a_branchD a).
  Proof.
    intros [d| |]; unfold branch_D, has_branch, checked_out, cn, conc; simpl.
    - rewrite ?String.eqb_refl. simpl. rewrite orb_true_r. reflexivity.
    - rewrite ?String.eqb_refl. simpl. pose proof not_checked_out as H. unfold checked_out in H. rewrite H. simpl.
      unfold set_branches; simpl. rewrite ?String.eqb_refl. simpl. rewrite drop_branch_fresh. reflexivity.
    - unfold has_branch in Hnob. rewrite Hnob. reflexivity.
  Qed.

  Lemma rmtree_final : forall a, rmtree p (cn a) = final s p b c a.
  Proof.
    intros [d| |]; unfold rmtree, set_tmps, set_dirs, cn, conc, final, leak_reg, leak_branch; simpl;
      rewrite ?Nat.eqb_refl; simpl; rewrite ?drop_dir_fresh, ?drop_tmp_fresh; try reflexivity.
    apply repo_eta.
  Qed.

  Lemma final_clean_iff : forall a, final s p b c a = s <-> a = AClean.
  Proof.
    intros a. split.
    - destruct a as [d| |]; simpl; intros H; try reflexivity; exfalso.
      + assert (E : has_branch b (leak_reg s p b c) = true) by (unfold has_branch, leak_reg; simpl; rewrite String.eqb_refl; reflexivity).
        rewrite H in E. congruence.
      + assert (E : has_branch b (leak_branch s b c) = true) by (unfold has_branch, leak_branch; simpl; rewrite String.eqb_refl; reflexivity).
        rewrite H in E. congruence.
    - intros ->. reflexivity.
  Qed.
  Lemma touch_full : forall d, touch p (cn (AFull d)) = cn (AFull true).
  Proof.
    intros d. unfold touch, set_dirs, cn, conc; simpl. rewrite Nat.eqb_refl.
    rewrite map_id_on; [reflexivity|]. intros x Hx. rewrite (nlookup_none_neq _ _ fresh_dir x Hx). reflexivity.
  Qed.

  Lemma run_events_full : forall evs d,
    run_events evs p (cn (AFull d)) = (cn (AFull (dirty_after evs d)), raised_by evs).
  Proof.
    induction evs as [|[| |e] evs IH]; intros d; cbn [run_events dirty_after raised_by]; try reflexivity.
    - apply IH.
    - rewrite touch_full. apply IH.
  Qed.

  Lemma rmtree_mkdtemp : rmtree p (mkdtemp p s) = s.
  Proof.
    unfold rmtree, mkdtemp, set_tmps, set_dirs; simpl. rewrite ?Nat.eqb_refl. simpl.
    rewrite drop_dir_fresh, drop_tmp_fresh. apply repo_eta.
  Qed.

  Lemma add_refused : forall r, resolve s r = None -> wt_add b p r (mkdtemp p s) = None.
  Proof. intros r H. unfold wt_add, resolve in *. simpl. unfold resolve in H. rewrite H. reflexivity. Qed.

  Lemma add_done : forall r, resolve s r = Some c -> wt_add b p r (mkdtemp p s) = Some (cn (AFull false)).
  Proof.
    intros r H. unfold wt_add. replace (resolve (mkdtemp p s) r) with (resolve s r) by reflexivity. rewrite H.
    replace (has_branch b (mkdtemp p s)) with (has_branch b s) by reflexivity.
    replace (registered p (mkdtemp p s)) with (registered p s) by reflexivity.
    replace (dir_exists p (mkdtemp p s)) with (dir_exists p s) by reflexivity.
    rewrite Hnob, fresh_reg. unfold dir_exists. rewrite fresh_dir. simpl.
    unfold add_tmp. simpl. rewrite ?Nat.eqb_refl. simpl. reflexivity.
  Qed.

  Lemma cleanup_sim : forall F a,
    cleanup true F b p (cn a) = (cn (fst (a_cleanup F a)), snd (a_cleanup F a)).
  Proof.
    intros F a. unfold cleanup, a_cleanup.
    rewrite (git_call_sim cn (wt_remove true p) a_remove (f_remove F) a remove_sim).
    destruct (a_git_call (f_remove F) a_remove a) as [a1 g1]; simpl.
    destruct g1; try reflexivity;
      rewrite (git_call_sim cn (branch_D b) a_branchD (f_branchD F) a1 branchD_sim);
      destruct (a_git_call (f_branchD F) a_branchD a1) as [a3 g3]; simpl; destruct g3; reflexivity.
  Qed.

  (* ---- prune needs the extra hypothesis on s *)
  Hypothesis Hnp : no_prunable s = true.

  Lemma prune_sim : forall a, wt_prune (cn a) = cn a.
  Proof.
    assert (K : forall (dd : list (path * bool)), (forall q, Nat.eqb q p = false -> is_some (nlookup q dd) = is_some (nlookup q (dirs s))) ->
                forall l, (forall r, In r l -> In r (regs s)) ->
                filter (fun r => negb (negb (rlocked r) && negb (is_some (nlookup (rpath r) dd)))) l = l).
    { intros dd Hdd l Hl. apply filter_id. intros r Hr. specialize (Hl r Hr).
      unfold no_prunable in Hnp. rewrite forallb_forall in Hnp. specialize (Hnp r Hl).
      unfold prunable, dir_exists in Hnp. rewrite Hdd; [exact Hnp|].
      exact (existsb_false_all _ _ fresh_reg r Hl). }
    intros [d| |]; unfold wt_prune, prunable, dir_exists, set_regs, cn, conc; simpl.
    - rewrite ?Nat.eqb_refl. simpl. f_equal. f_equal.
      apply (K ((p, d) :: dirs s)); [|auto]. intros q Hq. simpl. rewrite Nat.eqb_sym in Hq. rewrite Hq. reflexivity.
    - f_equal. apply (K (dirs s)); auto.
    - f_equal. apply (K (dirs s)); auto.
  Qed.

End Flow.

(* the finite part, decided by computation: the cleanup reaches the clean state exactly under cleanup_benign *)
Lemma a_cleanup_benign_iff : forall F d, fst (a_cleanup F (AFull d)) = AClean <-> cleanup_benign F = true.
Proof.
  intros [fa fm fd fr fb] d. unfold cleanup_benign, a_cleanup; simpl.
  destruct fr, fb; simpl; split; intro H; try reflexivity; try discriminate.
Qed.

(* ------------------------------------------------------------------ load_git: closed form after a successful add *)

Lemma after_add :
  forall s p ref c tree evs F,
  wf s = true -> fresh p s = true ->
  has_branch (tmp_branch ref) s = false ->
  exists d r,
    finish true F (tmp_branch ref) p (git_body ref tree evs p) (conc s p (tmp_branch ref) c (AFull false))
    = (final s p (tmp_branch ref) c (fst (a_cleanup F (AFull d))), r).
Proof.
  intros s p ref c tree evs F Hwf Hfr Hnob. unfold finish, git_body.
  set (b := tmp_branch ref).
  assert (E : slookup b (branches (conc s p b c (AFull false))) = Some c) by (simpl; rewrite String.eqb_refl; reflexivity).
  rewrite E. unfold load_body.
  destruct (content_at tree c).
  - exists false. eexists. rewrite (cleanup_sim s p b c Hwf Hfr Hnob). rewrite (rmtree_final s p b c Hfr). reflexivity.
  - exists false. eexists. rewrite (cleanup_sim s p b c Hwf Hfr Hnob). rewrite (rmtree_final s p b c Hfr). reflexivity.
  - rewrite (run_events_full s p b c Hfr). exists (dirty_after evs false). eexists.
    rewrite (cleanup_sim s p b c Hwf Hfr Hnob). rewrite (rmtree_final s p b c Hfr). reflexivity.
Qed.

Lemma add_possible_inv : forall s ref, add_possible s ref = true ->
  exists c, resolve s ref = Some c /\ has_branch (tmp_branch ref) s = false.
Proof.
  intros s ref H. unfold add_possible in H. apply andb_true_iff in H. destruct H as [H1 H2].
  destruct (resolve s ref) as [c|]; [|discriminate]. exists c. split; [reflexivity|]. apply negb_true_iff in H2. exact H2.
Qed.

Lemma add_impossible : forall s p ref, fresh p s = true -> add_possible s ref = false ->
  wt_add (tmp_branch ref) p ref (mkdtemp p s) = None.
Proof.
  intros s p ref Hfr H. unfold wt_add. replace (resolve (mkdtemp p s) ref) with (resolve s ref) by reflexivity.
  unfold add_possible in H. destruct (resolve s ref) as [c|]; [|reflexivity]. simpl in H.
  apply negb_false_iff in H. replace (has_branch (tmp_branch ref) (mkdtemp p s)) with (has_branch (tmp_branch ref) s) by reflexivity.
  rewrite H. reflexivity.
Qed.

(* The main theorem: for every repository, reference, loader behaviour and fault placement, the state after load_git
   is the state before it EXACTLY WHEN the placement is benign. *)
Theorem load_git_restored_iff :
  forall s p ref tree evs isrepo F,
  wf s = true -> fresh p s = true ->
  (fst (load_git true isrepo F p ref tree evs s) = s <-> benign isrepo s ref F = true).
Proof.
  intros s p ref tree evs isrepo F Hwf Hfr.
  unfold benign, gap_add_after, excluded_cleanup_fault, reaches_cleanup, reaches_add.
  unfold load_git, tmp_worktree.
  destruct isrepo; destruct (f_assert F) eqn:Ea; cbn [git_call apply_step is_nofault andb negb fst]; try (split; reflexivity).
  destruct (f_mkdtemp F) eqn:Em; cbn [andb negb fst]; [split; reflexivity|].
  destruct (add_possible s ref) eqn:Eap; cbn [andb negb].
  - destruct (add_possible_inv _ _ Eap) as [c [Hres Hnob]].
    pose proof (add_done s p (tmp_branch ref) c Hfr Hnob ref Hres) as Hadd.
    destruct (f_add F) eqn:Ed; cbn [git_call is_nofault andb negb]; unfold apply_step; rewrite ?Hadd; cbn [fst andb negb].
    + (* add succeeds: body, cleanup, rmtree *)
      destruct (after_add s p ref c tree evs F Hwf Hfr Hnob) as [d [r H]].
      rewrite H. cbn [fst].
      rewrite (final_clean_iff s p (tmp_branch ref) c Hnob). rewrite a_cleanup_benign_iff.
      destruct (cleanup_benign F); cbn [negb]; split; congruence.
    + rewrite (rmtree_mkdtemp s p Hfr). split; reflexivity.
    + rewrite (rmtree_final s p (tmp_branch ref) c Hfr).
      split; [|discriminate]. intro H. exfalso.
      apply (final_clean_iff s p (tmp_branch ref) c Hnob (AFull false)) in H. discriminate.
    + rewrite (rmtree_mkdtemp s p Hfr). split; reflexivity.
    + rewrite (rmtree_final s p (tmp_branch ref) c Hfr).
      split; [|discriminate]. intro H. exfalso.
      apply (final_clean_iff s p (tmp_branch ref) c Hnob (AFull false)) in H. discriminate.
  - pose proof (add_impossible s p ref Hfr Eap) as Hadd.
    destruct (f_add F) eqn:Ed; cbn [git_call is_nofault andb negb]; unfold apply_step; rewrite ?Hadd; cbn [fst andb negb];
      rewrite ?andb_false_r; cbn [negb andb];
      rewrite (rmtree_mkdtemp s p Hfr); split; reflexivity.
Qed.

Theorem load_git_state_restored :
  forall s p ref tree evs isrepo F,
  wf s = true -> fresh p s = true -> benign isrepo s ref F = true ->
  fst (load_git true isrepo F p ref tree evs s) = s.
Proof. intros. apply load_git_restored_iff; assumption. Qed.

(* ------------------------------------------------------------------ facts that hold for EVERY fault placement *)

Section Preserve.
  Variable P : repo -> Prop.
  Variable p : path.
  Hypothesis P_mkdtemp : forall x, P x -> P (mkdtemp p x).
  Hypothesis P_add : forall b r x y, wt_add b p r x = Some y -> P x -> P y.
  Hypothesis P_remove : forall f x y, wt_remove f p x = Some y -> P x -> P y.
  Hypothesis P_branchD : forall b x y, branch_D b x = Some y -> P x -> P y.
  Hypothesis P_touch : forall x, P x -> P (touch p x).

  Lemma P_git_call : forall f step x, (forall a y, step a = Some y -> P a -> P y) -> P x -> P (fst (git_call f step x)).
  Proof.
    intros f step x Hs Hx. destruct f; simpl; unfold apply_step; try assumption;
      destruct (step x) eqn:E; simpl; try assumption; eapply Hs; eassumption.
  Qed.

  Lemma P_cleanup : forall force F b x, P x -> P (fst (cleanup force F b p x)).
  Proof.
    intros force F b x Hx. unfold cleanup.
    pose proof (P_git_call (f_remove F) (wt_remove force p) x (P_remove force) Hx) as H1.
    destruct (git_call (f_remove F) (wt_remove force p) x) as [s1 g1]. simpl in H1.
    pose proof (P_git_call (f_branchD F) (branch_D b) s1 (P_branchD b) H1) as H3.
    destruct (git_call (f_branchD F) (branch_D b) s1) as [s3 g3]. simpl in H3.
    destruct g1; simpl; try assumption; destruct g3; simpl; assumption.
  Qed.

  Lemma P_run_events : forall evs x, P x -> P (fst (run_events evs p x)).
  Proof.
    induction evs as [|[| |e] evs IH]; intros x Hx; simpl; try assumption.
    - apply IH. exact Hx.
    - apply IH. apply P_touch. exact Hx.
  Qed.

  Lemma P_git_body : forall ref tree evs x, P x -> P (fst (git_body ref tree evs p x)).
  Proof.
    intros ref tree evs x Hx. unfold git_body. destruct (slookup (tmp_branch ref) (branches x)); [|exact Hx].
    unfold load_body. destruct (content_at tree c); try exact Hx.
    pose proof (P_run_events evs x Hx) as H. destruct (run_events evs p x). exact H.
  Qed.

  (* every way out of tmp_worktree is either "nothing happened" or the removal of the temporary directory *)
  Lemma tmp_worktree_exits : forall force isrepo F ref body s,
    (forall x, P x -> P (fst (body x))) -> P s ->
    fst (tmp_worktree force isrepo F p ref body s) = s \/
    exists x, P x /\ fst (tmp_worktree force isrepo F p ref body s) = rmtree p x.
  Proof.
    intros force isrepo F ref body s Hb Hs. unfold tmp_worktree.
    assert (E0 : fst (git_call (f_assert F) (fun x => if isrepo then Some x else None) s) = s).
    { destruct (f_assert F); simpl; unfold apply_step; destruct isrepo; reflexivity. }
    destruct (git_call (f_assert F) (fun x => if isrepo then Some x else None) s) as [s0 g0]. simpl in E0. subst s0.
    destruct g0; try (left; reflexivity).
    destruct (f_mkdtemp F); [left; reflexivity|]. right.
    pose proof (P_git_call (f_add F) (wt_add (tmp_branch ref) p ref) (mkdtemp p s) (P_add (tmp_branch ref) ref) (P_mkdtemp s Hs)) as H2.
    destruct (git_call (f_add F) (wt_add (tmp_branch ref) p ref) (mkdtemp p s)) as [s2 g2]. simpl in H2.
    destruct g2.
    - unfold finish. pose proof (Hb s2 H2) as H3. destruct (body s2) as [s3 r]. simpl in H3.
      pose proof (P_cleanup force F (tmp_branch ref) s3 H3) as H4.
      destruct (cleanup force F (tmp_branch ref) p s3) as [s4 ce]. simpl in H4. exists s4. split; [exact H4|reflexivity].
    - exists s2. split; [exact H2|reflexivity].
    - exists s2. split; [exact H2|reflexivity].
  Qed.
End Preserve.

Lemma filter_idem : forall {A} (f : A -> bool) l, filter f (filter f l) = filter f l.
Proof.
  induction l as [|a l IH]; simpl; [reflexivity|]. destruct (f a) eqn:E; simpl; rewrite ?E, IH; reflexivity.
Qed.

Lemma drop_dir_map_touch : forall p (l : list (path * bool)),
  drop_dir p (map (fun x => if Nat.eqb (fst x) p then (fst x, true) else x) l) = drop_dir p l.
Proof.
  induction l as [|[k v] l IH]; simpl; [reflexivity|].
  destruct (Nat.eqb k p) eqn:E; simpl; rewrite E; simpl; rewrite IH; reflexivity.
Qed.

(* the temporary directory and the checkout inside it: gone on every path, whatever fails *)
Definition only_p_differs (s : repo) (p : path) (x : repo) : Prop :=
  drop_tmp p (tmps x) = tmps s /\ drop_dir p (dirs x) = dirs s.

Theorem no_tmp_left :
  forall force isrepo F p ref tree evs s,
  fresh p s = true ->
  tmps (fst (load_git force isrepo F p ref tree evs s)) = tmps s /\
  dirs (fst (load_git force isrepo F p ref tree evs s)) = dirs s.
Proof.
  intros force isrepo F p ref tree evs s Hfr. unfold load_git.
  assert (H0 : only_p_differs s p s) by (split; [apply drop_tmp_fresh|apply drop_dir_fresh]; exact Hfr).
  destruct (tmp_worktree_exits (only_p_differs s p) p) with (force := force) (isrepo := isrepo) (F := F) (ref := ref)
    (body := git_body ref tree evs p) (s := s) as [E|[x [[Hx1 Hx2] E]]].
  - intros x [H1 H2]. split; simpl; [rewrite Nat.eqb_refl; simpl; exact H1|exact H2].
  - intros b r x y E [H1 H2]. unfold wt_add in E. destruct (resolve x r); [|discriminate].
    destruct (has_branch b x || registered p x || dir_exists p x); [discriminate|]. inversion E; subst; clear E.
    split; simpl.
    + unfold add_tmp. destruct (existsb (Nat.eqb p) (tmps x)); [exact H1|]. simpl. rewrite Nat.eqb_refl. simpl. exact H1.
    + rewrite Nat.eqb_refl. simpl. exact H2.
  - intros f x y E [H1 H2]. unfold wt_remove in E. destruct (find_reg p x) as [r|]; [|discriminate].
    destruct (rlocked r); [discriminate|]. destruct (nlookup p (dirs x)) as [dirty|].
    + destruct (dirty && negb f); [discriminate|]. inversion E; subst; clear E. split; simpl; [exact H1|].
      unfold drop_dir in *. rewrite filter_idem. exact H2.
    + inversion E; subst; clear E. split; simpl; assumption.
  - intros b x y E [H1 H2]. unfold branch_D in E. destruct (has_branch b x && negb (checked_out b x)); [|discriminate].
    inversion E; subst; clear E. split; simpl; assumption.
  - intros x Hx. apply P_git_body; [|exact Hx]. intros y [H1 H2]. split; simpl; [exact H1|]. rewrite drop_dir_map_touch. exact H2.
  - exact H0.
  - rewrite E. split; reflexivity.
  - rewrite E. simpl. split; assumption.
Qed.

(* HEAD, the index / working tree / stash token of the main worktree, tags and other names: never written, whatever fails *)
Definition same_main (s x : repo) : Prop :=
  head_branch x = head_branch s /\ head_commit x = head_commit s /\ main_status x = main_status s /\ names x = names s.

Theorem main_worktree_untouched :
  forall force isrepo F p ref tree evs s, same_main s (fst (load_git force isrepo F p ref tree evs s)).
Proof.
  intros force isrepo F p ref tree evs s. unfold load_git.
  assert (T : forall x, same_main s x -> same_main s (touch p x)) by (intros x H; exact H).
  destruct (tmp_worktree_exits (same_main s) p) with (force := force) (isrepo := isrepo) (F := F) (ref := ref)
    (body := git_body ref tree evs p) (s := s) as [E|[x [Hx E]]].
  - intros x H. exact H.
  - intros b r x y E H. unfold wt_add in E. destruct (resolve x r); [|discriminate].
    destruct (has_branch b x || registered p x || dir_exists p x); [discriminate|]. inversion E; subst. exact H.
  - intros f x y E H. unfold wt_remove in E. destruct (find_reg p x) as [r|]; [|discriminate].
    destruct (rlocked r); [discriminate|]. destruct (nlookup p (dirs x)) as [dirty|].
    + destruct (dirty && negb f); [discriminate|]. inversion E; subst. exact H.
    + inversion E; subst. exact H.
  - intros b x y E H. unfold branch_D in E. destruct (has_branch b x && negb (checked_out b x)); [|discriminate].
    inversion E; subst. exact H.
  - intros x Hx. apply P_git_body; [exact T|exact Hx].
  - repeat split.
  - rewrite E. repeat split.
  - rewrite E. exact Hx.
Qed.

(* ------------------------------------------------------------------ check *)

Lemma load_new_restored : forall s a tree isrepo,
  wf s = true -> fresh (c_p2 a) s = true ->
  match c_base a with Some r => benign isrepo s r (c_F2 a) | None => true end = true ->
  fst (load_new true isrepo a tree s) = s.
Proof.
  intros s a tree isrepo Hwf Hfr Hb. unfold load_new. destruct (c_base a) as [r|].
  - apply load_git_state_restored; assumption.
  - destruct (c_work a); try reflexivity. destruct (run_events (c_evs2 a) (c_p2 a) s) as [x [e|]]; reflexivity.
Qed.

Lemma against_effective : forall a ag, against_of a = inl ag -> effective_against a = Some ag.
Proof.
  intros a ag. unfold against_of, effective_against. destruct (c_against a) as [r|].
  - intros H. inversion H. reflexivity.
  - destruct (ro_call (c_f_tag a) true); try discriminate. destruct (c_latest a); [|discriminate].
    intros H. inversion H. reflexivity.
Qed.

Theorem check_state_restored :
  forall s a tree breaking isrepo,
  wf s = true -> fresh (c_p1 a) s = true -> fresh (c_p2 a) s = true ->
  check_benign isrepo s a = true ->
  fst (check true isrepo a tree breaking s) = s.
Proof.
  intros s a tree breaking isrepo Hwf Hf1 Hf2 Hb. unfold check.
  destruct (against_of a) as [ag|r] eqn:Eag; [|reflexivity].
  destruct (ro_call (c_f_root a) isrepo); try reflexivity.
  destruct (c_ext_fails a); [reflexivity|].
  unfold check_benign in Hb. rewrite (against_effective a ag Eag) in Hb. apply andb_true_iff in Hb. destruct Hb as [Hb1 Hb2].
  pose proof (load_git_state_restored s (c_p1 a) ag tree (c_evs1 a) isrepo (c_F1 a) Hwf Hf1 Hb1) as H1.
  destruct (load_git true isrepo (c_F1 a) (c_p1 a) ag tree (c_evs1 a) s) as [s1 r1]. simpl in H1. subst s1.
  destruct r1 as [vo|e]; [|reflexivity].
  pose proof (load_new_restored s a tree isrepo Hwf Hf2 Hb2) as H2.
  destruct (load_new true isrepo a tree s) as [s2 r2]. simpl in H2. subst s2.
  destruct r2; reflexivity.
Qed.

(* exit code: what check() returns once both sides have been loaded *)
Theorem check_exit_code :
  forall force isrepo a tree breaking s ag s1 vo s2 vn,
  against_of a = inl ag -> ro_call (c_f_root a) isrepo = Rc0 -> c_ext_fails a = false ->
  load_git force isrepo (c_F1 a) (c_p1 a) ag tree (c_evs1 a) s = (s1, Returned vo) ->
  load_new force isrepo a tree s1 = (s2, Returned vn) ->
  check force isrepo a tree breaking s = (s2, Returned (if breaking_pair breaking vo vn then 1 else 0)).
Proof.
  intros force isrepo a tree breaking s ag s1 vo s2 vn Hag Hroot Hext H1 H2.
  unfold check. rewrite Hag, Hroot, Hext, H1, H2. reflexivity.
Qed.

(* exit 0 is only ever returned after both sides were loaded and compared without a breaking change *)
Theorem check_zero_sound :
  forall force isrepo a tree breaking s,
  snd (check force isrepo a tree breaking s) = Returned 0 ->
  exists ag s1 vo s2 vn,
    against_of a = inl ag /\
    load_git force isrepo (c_F1 a) (c_p1 a) ag tree (c_evs1 a) s = (s1, Returned vo) /\
    load_new force isrepo a tree s1 = (s2, Returned vn) /\
    breaking_pair breaking vo vn = false.
Proof.
  intros force isrepo a tree breaking s. unfold check.
  destruct (against_of a) as [ag|r] eqn:Eag.
  - destruct (ro_call (c_f_root a) isrepo); simpl; try discriminate.
    destruct (c_ext_fails a); simpl; [discriminate|].
    destruct (load_git force isrepo (c_F1 a) (c_p1 a) ag tree (c_evs1 a) s) as [s1 [vo|e]] eqn:E1; simpl; [|discriminate].
    destruct (load_new force isrepo a tree s1) as [s2 [vn|e]] eqn:E2; simpl; [|discriminate].
    destruct (breaking_pair breaking vo vn) eqn:Eb; [discriminate|]. intros _.
    exists ag, s1, vo, s2, vn. repeat split; assumption.
  - simpl. intros H. subst r. unfold against_of in Eag. destruct (c_against a); [discriminate|].
    destruct (ro_call (c_f_tag a) true); try discriminate. destruct (c_latest a); discriminate.
Qed.

(* ------------------------------------------------------------------ histories *)

Theorem history_restored :
  forall tree breaking ops s,
  wf s = true -> forallb (op_ok s) ops = true ->
  fold_left (run_op tree breaking) ops s = s.
Proof.
  intros tree breaking ops s Hwf. induction ops as [|o ops IH]; simpl; intros H; [reflexivity|].
  apply andb_true_iff in H. destruct H as [Ho Hops].
  assert (E : run_op tree breaking s o = s).
  { destruct o as [isrepo F p ref evs|isrepo a]; simpl in *.
    - apply andb_true_iff in Ho. destruct Ho as [Hf Hb]. apply load_git_state_restored; assumption.
    - apply andb_true_iff in Ho. destruct Ho as [Hf Hb]. apply andb_true_iff in Hf. destruct Hf as [Hf1 Hf2].
      apply check_state_restored; assumption. }
  rewrite E. apply IH. exact Hops.
Qed.

(* ------------------------------------------------------------------ witnesses *)

Definition s_wit : repo := mkRepo (Some "main") 1 0 [("main", 1)] [("v1", 0)] [] [] [].
Definition tree_wit : list (commit * content) := [(0, CPackage); (1, CPackage)].

(* the defect repaired by the --force commit: without the flag a file written into the checkout leaves
   the temporary branch and a stale registration behind; with it the same run restores the state *)
Lemma without_force_refuted :
  exists s p ref tree evs,
    wf s = true /\ fresh p s = true /\ benign true s ref no_faults = true /\
    fst (load_git false true no_faults p ref tree evs s) <> s /\
    fst (load_git true true no_faults p ref tree evs s) = s.
Proof.
  exists s_wit, 7, "v1", tree_wit, [EvStep; EvWrite].
  repeat split; try reflexivity. vm_compute. intro H. discriminate H.
Qed.

(* F2: `worktree add` takes effect and then reports failure *)
Lemma add_after_refuted :
  exists s p ref tree evs F,
    wf s = true /\ fresh p s = true /\ f_add F = FailAfter /\
    fst (load_git true true F p ref tree evs s) <> s /\
    snd (load_git true true F p ref tree evs s) = Raised "RuntimeError".
Proof.
  exists s_wit, 7, "v1", tree_wit, [], (mkFaults NoFault false FailAfter NoFault NoFault).
  repeat split; try reflexivity. vm_compute. intro H. discriminate H.
Qed.

(* the repaired finding F3, now a positive statement: a stale, unlocked registration of the user's own survives *)
Definition s_wit_stale : repo :=
  mkRepo (Some "main") 1 0 [("main", 1); ("user", 0)] [("v1", 0)] [mkReg 3 (Some "user") false] [] [].

Example stale_registration_survives :
  wf s_wit_stale = true /\ fresh 7 s_wit_stale = true /\ no_prunable s_wit_stale = false /\
  load_git true true no_faults 7 "v1" tree_wit [] s_wit_stale = (s_wit_stale, Returned 0).
Proof. repeat split; reflexivity. Qed.

(* why the cleanup faults are excluded by hypothesis: when `branch -D` itself fails nothing can remove the branch *)
Lemma cleanup_fault_refuted :
  exists s p ref tree evs F,
    wf s = true /\ fresh p s = true /\ f_branchD F = FailBefore /\
    fst (load_git true true F p ref tree evs s) <> s.
Proof.
  exists s_wit, 7, "v1", tree_wit, [], (mkFaults NoFault false NoFault NoFault FailBefore).
  repeat split; try reflexivity. vm_compute. intro H. discriminate H.
Qed.

(* the hypotheses of the main theorem are satisfiable together with a non-trivial run *)
Example restored_nonvacuous :
  wf s_wit = true /\ fresh 7 s_wit = true /\
  benign true s_wit "v1" (mkFaults NoFault false NoFault FailAfter (RaiseAfter "KeyboardInterrupt")) = true /\
  load_git true true (mkFaults NoFault false NoFault FailAfter (RaiseAfter "KeyboardInterrupt")) 7 "v1" tree_wit
           [EvWrite; EvRaise "Injected"] s_wit = (s_wit, Raised "KeyboardInterrupt").
Proof. repeat split; reflexivity. Qed.

(* ------------------------------------------------------------------ _normalize *)

Fixpoint all_chars (P : ascii -> Prop) (s : string) : Prop :=
  match s with EmptyString => True | String c r => P c /\ all_chars P r end.

Definition safe_char (c : ascii) : Prop := is_word c = true \/ c = dash.

Lemma norm_aux_safe : forall s b, all_chars safe_char (norm_aux b s).
Proof.
  induction s as [|c r IH]; intros b; simpl; [exact I|].
  destruct (is_word c) eqn:E.
  - simpl. split; [left; exact E|apply IH].
  - destruct b; [apply IH|]. simpl. split; [right; reflexivity|apply IH].
Qed.

Lemma strip_last_dash_all : forall P s, all_chars P s -> all_chars P (strip_last_dash s).
Proof.
  intros P. induction s as [|c r IH]; simpl; intros H; [exact I|].
  destruct H as [Hc Hr]. destruct r as [|c' r'].
  - destruct (Ascii.eqb c dash); simpl; auto.
  - simpl. split; [exact Hc|]. apply IH. exact Hr.
Qed.

Theorem normalize_safe : forall s, all_chars safe_char (normalize s).
Proof. intros s. unfold normalize. apply strip_last_dash_all. apply norm_aux_safe. Qed.

Lemma all_chars_impl : forall (P Q : ascii -> Prop) s, (forall c, P c -> Q c) -> all_chars P s -> all_chars Q s.
Proof. intros P Q. induction s as [|c r IH]; simpl; intros H K; [exact I|]. destruct K. split; auto. Qed.

(* the checkout directory <tmp>/<normref> is a direct child of the temporary directory: no separator, no dot *)
Theorem normalize_no_separator :
  forall s, all_chars (fun c => c <> "/"%char /\ c <> "."%char /\ c <> " "%char /\ c <> "\"%char) (normalize s).
Proof.
  intros s. apply (all_chars_impl safe_char); [|apply normalize_safe].
  intros c [H|H].
  - repeat split; intro E; subst c; vm_compute in H; discriminate H.
  - subst c. repeat split; intro E; discriminate E.
Qed.

(* ------------------------------------------------------------------ Breakage._location *)

Lemma prefix_app : forall a b, String.prefix a (a ++ b) = true.
Proof.
  induction a as [|c a IH]; intros b; simpl; [destruct b; reflexivity|].
  destruct (ascii_dec c c) as [_|N]; [apply IH|contradiction].
Qed.

Lemma location_abs_skip : forall root rest,
  Forall (fun x => String.prefix wt_prefix x = false) root ->
  location_abs (root ++ rest) = location_abs rest.
Proof.
  induction root as [|x root IH]; intros rest H; simpl; [reflexivity|].
  inversion H; subst. rewrite H2. apply IH. assumption.
Qed.

Theorem location_prefix_stripped :
  forall root suffix dirname rel,
  Forall (fun x => String.prefix wt_prefix x = false) root ->
  location true (checkout_parts root (wt_prefix ++ suffix) dirname ++ rel) = rel.
Proof.
  intros root suffix dirname rel Hroot. unfold checkout_parts.
  unfold location. rewrite <- app_assoc. rewrite (location_abs_skip root _ Hroot).
  cbn [app location_abs]. rewrite prefix_app. reflexivity.
Qed.

(* the repaired finding F4: the checkout directory name is never empty (so the checkout is a sub-directory of the
   temporary directory, which is what checkout_parts assumes) and is a single path component *)
Theorem checkout_name_safe :
  forall ref, checkout_name ref <> "" /\
    all_chars (fun c => c <> "/"%char /\ c <> "."%char /\ c <> " "%char /\ c <> "\"%char) (checkout_name ref).
Proof.
  intros ref. unfold checkout_name. destruct (String.eqb (normalize ref) "") eqn:E.
  - split; [discriminate|]. simpl. repeat split; intro H; discriminate H.
  - split; [apply String.eqb_neq; exact E|apply normalize_no_separator].
Qed.

Example checkout_name_at : checkout_name "@" = "ref" /\ checkout_name "feat/x" = "feat-x" /\ tmp_branch "@" = "griffe-ref".
Proof. repeat split; reflexivity. Qed.

(* ------------------------------------------------------------------ lines collection *)

Lemma parts_eqb_refl : forall a, parts_eqb a a = true.
Proof. induction a as [|x a IH]; simpl; [reflexivity|]. rewrite String.eqb_refl. exact IH. Qed.

Lemma parts_eqb_eq : forall a b, parts_eqb a b = true -> a = b.
Proof.
  induction a as [|x a IH]; destruct b as [|y b]; simpl; intros H; try discriminate; [reflexivity|].
  apply andb_true_iff in H. destruct H as [H1 H2]. apply String.eqb_eq in H1. subst y. f_equal. apply IH. exact H2.
Qed.

Lemma visit_files_other : forall checkout files lc k,
  ~ In k (map (fun f => checkout ++ fst f) files) ->
  lc_get (visit_files checkout files lc) k = lc_get lc k.
Proof.
  induction files as [|[rel ls] files IH]; intros lc k H; simpl; [reflexivity|].
  rewrite IH.
  - unfold lc_set. simpl. destruct (parts_eqb (checkout ++ rel) k) eqn:E; [|reflexivity].
    apply parts_eqb_eq in E. exfalso. apply H. left. exact E.
  - intro K. apply H. right. exact K.
Qed.

(* every file the loader visited in the checkout is in the collection, with the text it had at that reference;
   obj_lines / obj_source take no file-system argument: what happens to the checkout afterwards cannot matter *)
Theorem objects_self_contained :
  forall checkout files lc rel ls,
  NoDup (map fst files) -> In (rel, ls) files ->
  obj_lines (visit_files checkout files lc) (checkout ++ rel) = ls.
Proof.
  intros checkout. induction files as [|[rel0 ls0] files IH]; intros lc rel ls Hnd Hin; [contradiction|].
  simpl in Hnd. inversion Hnd as [|? ? Hnot Hnd']; subst. simpl.
  destruct Hin as [E|Hin].
  - inversion E; subst. unfold obj_lines. rewrite visit_files_other.
    + unfold lc_set. simpl. rewrite parts_eqb_refl. reflexivity.
    + intro K. apply in_map_iff in K. destruct K as [[rel1 ls1] [K1 K2]]. simpl in K1.
      apply app_inv_head in K1. subst rel1. apply Hnot. apply in_map_iff. exists (rel, ls1). split; [reflexivity|exact K2].
  - apply IH; assumption.
Qed.

(* `git worktree prune` never does anything for Griffe's own worktree in the states the finally block can be in:
   its only possible effect is on registrations that were already prunable before the call (finding F3) *)
Theorem prune_is_noop_in_cleanup :
  forall s p b c a, fresh p s = true -> no_prunable s = true -> wt_prune (conc s p b c a) = conc s p b c a.
Proof. intros s p b c a Hfr Hnp. apply prune_sim; assumption. Qed.
