(* C20 — proofs about the model in Model/C20_git.v. *)
From Coq Require Import List ZArith String Ascii Bool Arith Lia.
From Verif Require Import Lib.Sexp Model.C20_git.
Import ListNotations.
Open Scope string_scope. Open Scope list_scope. Open Scope nat_scope.

(* ------------------------------------------------------------------ list facts *)

Lemma filter_id : forall {A} (f : A -> bool) l, (forall x, In x l -> f x = true) -> filter f l = l.
Proof.
  induction l as [|a l IH]; simpl; intros H; [reflexivity|].
  rewrite (H a (or_introl eq_refl)). f_equal. apply IH. intros x Hx. apply H. right. exact Hx.
Qed.

Lemma map_id_on : forall {A} (f : A -> A) l, (forall x, In x l -> f x = x) -> map f l = l.
Proof.
  induction l as [|a l IH]; simpl; intros H; [reflexivity|].
  rewrite (H a (or_introl eq_refl)). f_equal. apply IH. intros x Hx. apply H. right. exact Hx.
Qed.

Lemma nlookup_none_neq : forall {A} (l : list (nat * A)) p, nlookup p l = None -> forall x, In x l -> Nat.eqb (fst x) p = false.
Proof.
  induction l as [|[k v] l IH]; simpl; intros p H x Hx; [contradiction|].
  destruct (Nat.eqb k p) eqn:E; [discriminate|].
  destruct Hx as [<-|Hx]; [exact E|]. apply IH; assumption.
Qed.

Lemma slookup_none_neq : forall {A} (l : list (string * A)) b, slookup b l = None -> forall x, In x l -> String.eqb (fst x) b = false.
Proof.
  induction l as [|[k v] l IH]; simpl; intros b H x Hx; [contradiction|].
  destruct (String.eqb k b) eqn:E; [discriminate|].
  destruct Hx as [<-|Hx]; [exact E|]. apply IH; assumption.
Qed.

Lemma existsb_false_all : forall {A} (f : A -> bool) l, existsb f l = false -> forall x, In x l -> f x = false.
Proof.
  induction l as [|a l IH]; simpl; intros H x Hx; [contradiction|].
  apply orb_false_iff in H. destruct H as [Ha Hl]. destruct Hx as [<-|Hx]; [exact Ha|]. apply IH; assumption.
Qed.

Lemma is_some_false : forall {A} (o : option A), is_some o = false -> o = None.
Proof. destruct o; simpl; intros; [discriminate|reflexivity]. Qed.

Lemma find_none_of_existsb : forall {A} (f : A -> bool) l, existsb f l = false -> find f l = None.
Proof.
  induction l as [|a l IH]; simpl; intros H; [reflexivity|].
  apply orb_false_iff in H. destruct H as [Ha Hl]. rewrite Ha. apply IH. exact Hl.
Qed.

Lemma repo_eta : forall s, mkRepo (head_branch s) (head_commit s) (main_status s) (branches s) (names s) (regs s) (dirs s) (tmps s) = s.
Proof. destruct s; reflexivity. Qed.

(* ------------------------------------------------------------------ the states tmp_worktree moves through *)

(* between mkdtemp and the exit of `with TemporaryDirectory`; the temp dir p exists in all of them.
   AFull d: branch, registration, checkout (d: it holds modified or untracked files); AStale: branch and registration,
   the checkout is gone (torn `worktree remove`); ANoWt: the branch only; AClean: nothing but the temp dir *)
Inductive aclean := AFull (d : bool) | AStale | ANoWt | AClean.

Definition conc (s : repo) (p : path) (b : string) (c : commit) (a : aclean) : repo :=
  match a with
  | AFull d => mkRepo (head_branch s) (head_commit s) (main_status s) ((b, c) :: branches s) (names s)
                      (mkReg p (Some b) false :: regs s) ((p, d) :: dirs s) (p :: tmps s)
  | AStale => mkRepo (head_branch s) (head_commit s) (main_status s) ((b, c) :: branches s) (names s)
                      (mkReg p (Some b) false :: regs s) (dirs s) (p :: tmps s)
  | ANoWt => mkRepo (head_branch s) (head_commit s) (main_status s) ((b, c) :: branches s) (names s)
                    (regs s) (dirs s) (p :: tmps s)
  | AClean => mkRepo (head_branch s) (head_commit s) (main_status s) (branches s) (names s) (regs s) (dirs s) (p :: tmps s)
  end.

(* what is left once the TemporaryDirectory has been removed *)
Definition leak_reg (s : repo) (p : path) (b : string) (c : commit) : repo :=
  mkRepo (head_branch s) (head_commit s) (main_status s) ((b, c) :: branches s) (names s)
         (mkReg p (Some b) false :: regs s) (dirs s) (tmps s).
Definition leak_branch (s : repo) (b : string) (c : commit) : repo :=
  mkRepo (head_branch s) (head_commit s) (main_status s) ((b, c) :: branches s) (names s) (regs s) (dirs s) (tmps s).

Definition final (s : repo) (p : path) (b : string) (c : commit) (a : aclean) : repo :=
  match a with AFull _ | AStale => leak_reg s p b c | ANoWt => leak_branch s b c | AClean => s end.

(* the checkout inside the temp dir is deleted, the temp dir is not *)
Definition strip (a : aclean) : aclean := match a with AFull _ => AStale | _ => a end.

(* the state in which tmp_worktree ends, by what happened to the removal of the TemporaryDirectory *)
Definition a_exit (s : repo) (p : path) (b : string) (c : commit) (rm : rmfault) (a : aclean) : repo :=
  match rm with
  | RmOk | RmRaiseAfter _ => final s p b c a
  | RmRaiseBefore _ => conc s p b c a
  | RmTorn _ => conc s p b c (strip a)
  end.

Definition exit_result (rm : rmfault) (r : result) : result :=
  match rm with RmOk => r | RmRaiseBefore e | RmTorn e | RmRaiseAfter e => Raised e end.

Definition a_remove (a : aclean) : aclean * bool := match a with AFull _ | AStale => (ANoWt, true) | _ => (a, false) end.
Definition a_remove_torn (a : aclean) : aclean := strip a.
Definition a_branchD (a : aclean) : aclean * bool := match a with ANoWt => (AClean, true) | _ => (a, false) end.
(* `worktree add` from the state right after mkdtemp, when the reference resolves and the branch name is free *)
Definition a_add (a : aclean) : aclean * bool := match a with AClean => (AFull false, true) | _ => (a, false) end.
Definition a_add_torn (a : aclean) : aclean := match a with AClean => ANoWt | _ => a end.
(* ... and when it does not resolve, or the branch exists: refused without effect *)
Definition a_noadd (a : aclean) : aclean * bool := (a, false).

Definition a_git_call (f : fault) (step : aclean -> aclean * bool) (torn : aclean -> aclean) (a : aclean) : aclean * signal :=
  match f with
  | NoFault => let (a', ok) := step a in (a', if ok then Rc0 else RcFail)
  | FailBefore => (a, RcFail)
  | FailAfter => (fst (step a), RcFail)
  | RaiseBefore e => (a, Exn e)
  | RaiseAfter e => (fst (step a), Exn e)
  | Torn None => (torn a, RcFail)
  | Torn (Some e) => (torn a, Exn e)
  end.

Definition a_cleanup (F : faults) (a : aclean) : aclean * option exn :=
  let (a1, g1) := a_git_call (f_remove F) a_remove a_remove_torn a in
  match g1 with
  | Exn e => (a1, Some e)
  | _ =>
    let (a3, g3) := a_git_call (f_branchD F) a_branchD (fun x => x) a1 in
    match g3 with
    | Exn e => (a3, Some e)
    | _ => (a3, None)
    end
  end.

(* pointwise simulation of one git call *)
Lemma git_call_sim : forall (cn : aclean -> repo) step torn astep atorn f a,
  step (cn a) = (cn (fst (astep a)), snd (astep a)) ->
  torn (cn a) = cn (atorn a) ->
  git_call f step torn (cn a) = (cn (fst (a_git_call f astep atorn a)), snd (a_git_call f astep atorn a)).
Proof.
  intros cn step torn astep atorn f a H T.
  destruct f as [| | | e | e | [e|]]; simpl; rewrite ?H, ?T; destruct (astep a); reflexivity.
Qed.

Fixpoint dirty_after (evs : list event) (d : bool) : bool :=
  match evs with
  | [] => d
  | EvStep :: r => dirty_after r d
  | EvWrite :: r => dirty_after r true
  | EvRaise _ :: _ => d
  end.

Fixpoint raised_by (evs : list event) : option exn :=
  match evs with
  | [] => None
  | EvRaise e :: _ => Some e
  | _ :: r => raised_by r
  end.

Section Flow.
  Variable s : repo.
  Variable p : path.
  Variable b : string.
  Variable c : commit.
  Hypothesis Hwf : wf s = true.
  Hypothesis Hfresh : fresh p s = true.
  Hypothesis Hnob : has_branch b s = false.

  Let cn := conc s p b c.

  Lemma fresh_tmp : existsb (Nat.eqb p) (tmps s) = false.
  Proof. unfold fresh in Hfresh. apply andb_true_iff in Hfresh. destruct Hfresh as [H _]. apply andb_true_iff in H. destruct H as [H _]. apply negb_true_iff in H. exact H. Qed.
  Lemma fresh_dir : nlookup p (dirs s) = None.
  Proof. unfold fresh in Hfresh. apply andb_true_iff in Hfresh. destruct Hfresh as [H _]. apply andb_true_iff in H. destruct H as [_ H]. apply negb_true_iff in H. apply is_some_false. exact H. Qed.
  Lemma fresh_reg : registered p s = false.
  Proof. unfold fresh in Hfresh. apply andb_true_iff in Hfresh. destruct Hfresh as [_ H]. apply negb_true_iff in H. exact H. Qed.

  Lemma drop_dir_fresh : drop_dir p (dirs s) = dirs s.
  Proof. apply filter_id. intros x Hx. rewrite (nlookup_none_neq _ _ fresh_dir x Hx). reflexivity. Qed.
  Lemma drop_reg_fresh : drop_reg p (regs s) = regs s.
  Proof. apply filter_id. intros x Hx. rewrite (existsb_false_all _ _ fresh_reg x Hx). reflexivity. Qed.
  Lemma drop_tmp_fresh : drop_tmp p (tmps s) = tmps s.
  Proof.
    apply filter_id. intros x Hx. pose proof (existsb_false_all _ _ fresh_tmp x Hx) as H. simpl in H.
    rewrite Nat.eqb_sym. rewrite H. reflexivity.
  Qed.
  Lemma drop_branch_fresh : drop_branch b (branches s) = branches s.
  Proof.
    apply filter_id. intros x Hx. unfold has_branch in Hnob. apply is_some_false in Hnob.
    rewrite (slookup_none_neq _ _ Hnob x Hx). reflexivity.
  Qed.
  Lemma find_reg_fresh : find (fun r => Nat.eqb (rpath r) p) (regs s) = None.
  Proof. apply find_none_of_existsb. exact fresh_reg. Qed.

  (* no worktree of s, and not its HEAD, is on the temporary branch: their branches exist, b does not *)
  Lemma not_checked_out : checked_out b s = false.
  Proof.
    unfold checked_out. unfold wf in Hwf. apply andb_true_iff in Hwf. destruct Hwf as [Hr Hh].
    apply orb_false_iff. split.
    - destruct (head_branch s) as [hb|]; simpl; [|reflexivity].
      destruct (String.eqb hb b) eqn:E; [|reflexivity]. apply String.eqb_eq in E. subst hb. congruence.
    - apply not_true_is_false. intro H. apply existsb_exists in H. destruct H as [r [Hin Hon]].
      rewrite forallb_forall in Hr. specialize (Hr r Hin). destruct (rbranch r) as [rb|]; simpl in Hon; [|discriminate].
      apply String.eqb_eq in Hon. subst rb. congruence.
  Qed.

  (* ---- git steps on the four states *)

  Lemma remove_opt : forall a, wt_remove true p (cn a) = if snd (a_remove a) then Some (cn (fst (a_remove a))) else None.
  Proof.
    intros [d| | |]; unfold wt_remove, find_reg, cn, conc; simpl.
    - rewrite ?Nat.eqb_refl. simpl. rewrite ?andb_false_r.
      unfold set_dirs, set_regs; simpl. rewrite ?Nat.eqb_refl. simpl. rewrite drop_reg_fresh, drop_dir_fresh. reflexivity.
    - rewrite ?Nat.eqb_refl. simpl. rewrite fresh_dir.
      unfold set_regs; simpl. rewrite ?Nat.eqb_refl. simpl. rewrite drop_reg_fresh. reflexivity.
    - rewrite find_reg_fresh. reflexivity.
    - rewrite find_reg_fresh. reflexivity.
  Qed.

  Lemma remove_sim : forall a, lift (wt_remove true p) (cn a) = (cn (fst (a_remove a)), snd (a_remove a)).
  Proof. intros a. unfold lift. rewrite remove_opt. destruct a; reflexivity. Qed.

  Lemma remove_torn_sim : forall a, wt_remove_torn true p (cn a) = cn (a_remove_torn a).
  Proof.
    intros a. unfold wt_remove_torn. rewrite remove_opt.
    destruct a as [d| | |]; simpl; try reflexivity; unfold set_dirs; simpl.
    - rewrite Nat.eqb_refl. simpl. rewrite drop_dir_fresh. reflexivity.
    - rewrite drop_dir_fresh. reflexivity.
  Qed.

  Lemma branchD_sim : forall a, lift (branch_D b) (cn a) = (cn (fst (a_branchD a)), snd (a_branchD a)).
  Proof.
    intros [d| | |]; unfold lift, branch_D, has_branch, checked_out, cn, conc; simpl.
    - rewrite ?String.eqb_refl. simpl. rewrite orb_true_r. reflexivity.
    - rewrite ?String.eqb_refl. simpl. rewrite orb_true_r. reflexivity.
    - rewrite ?String.eqb_refl. simpl. pose proof not_checked_out as H. unfold checked_out in H. rewrite H. simpl.
      unfold set_branches; simpl. rewrite ?String.eqb_refl. simpl. rewrite drop_branch_fresh. reflexivity.
    - unfold has_branch in Hnob. rewrite Hnob. reflexivity.
  Qed.

  Lemma rmtree_final : forall a, rmtree p (cn a) = final s p b c a.
  Proof.
    intros [d| | |]; unfold rmtree, set_tmps, set_dirs, cn, conc, final, leak_reg, leak_branch; simpl;
      rewrite ?Nat.eqb_refl; simpl; rewrite ?drop_dir_fresh, ?drop_tmp_fresh; try reflexivity.
    apply repo_eta.
  Qed.

  Lemma strip_sim : forall a, set_dirs (cn a) (drop_dir p (dirs (cn a))) = cn (strip a).
  Proof.
    intros [d| | |]; unfold set_dirs, cn, conc; simpl; rewrite ?Nat.eqb_refl; simpl; rewrite drop_dir_fresh; reflexivity.
  Qed.

  Lemma exit_sim : forall F a r, exit_td F p (cn a) r = (a_exit s p b c (f_rmtree F) a, exit_result (f_rmtree F) r).
  Proof.
    intros F a r. unfold exit_td, a_exit, exit_result.
    destruct (f_rmtree F); rewrite ?rmtree_final, ?strip_sim; reflexivity.
  Qed.

  Lemma cn_not_s : forall a, cn a <> s.
  Proof.
    intros a H. assert (E : existsb (Nat.eqb p) (tmps (cn a)) = true).
    { destruct a; unfold cn, conc; simpl; rewrite Nat.eqb_refl; reflexivity. }
    rewrite H in E. rewrite fresh_tmp in E. discriminate.
  Qed.

  Lemma final_clean_iff : forall a, final s p b c a = s <-> a = AClean.
  Proof.
    intros a. split.
    - destruct a as [d| | |]; simpl; intros H; try reflexivity; exfalso.
      + assert (E : has_branch b (leak_reg s p b c) = true) by (unfold has_branch, leak_reg; simpl; rewrite String.eqb_refl; reflexivity).
        rewrite H in E. congruence.
      + assert (E : has_branch b (leak_reg s p b c) = true) by (unfold has_branch, leak_reg; simpl; rewrite String.eqb_refl; reflexivity).
        rewrite H in E. congruence.
      + assert (E : has_branch b (leak_branch s b c) = true) by (unfold has_branch, leak_branch; simpl; rewrite String.eqb_refl; reflexivity).
        rewrite H in E. congruence.
    - intros ->. reflexivity.
  Qed.

  (* the exit state is the initial state exactly when everything was cleaned up and the directory removal worked *)
  Lemma a_exit_clean_iff : forall rm a,
    a_exit s p b c rm a = s <-> (a = AClean /\ match rm with RmOk | RmRaiseAfter _ => true | _ => false end = true).
  Proof.
    intros rm a. destruct rm; simpl.
    - rewrite final_clean_iff. tauto.
    - split; [intro H; exfalso; exact (cn_not_s _ H)|intros [_ H]; discriminate].
    - split; [intro H; exfalso; exact (cn_not_s _ H)|intros [_ H]; discriminate].
    - rewrite final_clean_iff. tauto.
  Qed.

  Lemma touch_full : forall d, touch p (cn (AFull d)) = cn (AFull true).
  Proof.
    intros d. unfold touch, set_dirs, cn, conc; simpl. rewrite Nat.eqb_refl.
    rewrite map_id_on; [reflexivity|]. intros x Hx. rewrite (nlookup_none_neq _ _ fresh_dir x Hx). reflexivity.
  Qed.

  Lemma run_events_full : forall evs d,
    run_events evs p (cn (AFull d)) = (cn (AFull (dirty_after evs d)), raised_by evs).
  Proof.
    induction evs as [|[| |e] evs IH]; intros d; cbn [run_events dirty_after raised_by]; try reflexivity.
    - apply IH.
    - rewrite touch_full. apply IH.
  Qed.

  Lemma mkdtemp_clean : mkdtemp p s = cn AClean.
  Proof. reflexivity. Qed.

  (* `worktree add` in the state right after mkdtemp *)
  Lemma add_sim : forall r, resolve s r = Some c ->
    wt_add b p r (cn AClean) = (cn (fst (a_add AClean)), snd (a_add AClean)).
  Proof.
    intros r H. unfold wt_add. replace (resolve (cn AClean) r) with (resolve s r) by reflexivity. rewrite H.
    replace (has_branch b (cn AClean)) with (has_branch b s) by reflexivity.
    replace (registered p (cn AClean)) with (registered p s) by reflexivity.
    replace (dir_exists p (cn AClean)) with (dir_exists p s) by reflexivity.
    rewrite Hnob, fresh_reg. unfold dir_exists. rewrite fresh_dir. simpl.
    unfold add_tmp. simpl. rewrite ?Nat.eqb_refl. simpl. reflexivity.
  Qed.

  Lemma add_torn_sim : forall r, resolve s r = Some c -> wt_add_torn b p r (cn AClean) = cn (a_add_torn AClean).
  Proof.
    intros r H. unfold wt_add_torn. replace (resolve (cn AClean) r) with (resolve s r) by reflexivity. rewrite H.
    replace (has_branch b (cn AClean)) with (has_branch b s) by reflexivity. rewrite Hnob. reflexivity.
  Qed.

  Lemma noadd_sim : forall r, resolve s r = None ->
    wt_add b p r (cn AClean) = (cn AClean, false) /\ wt_add_torn b p r (cn AClean) = cn AClean.
  Proof.
    intros r H. unfold wt_add, wt_add_torn. replace (resolve (cn AClean) r) with (resolve s r) by reflexivity. rewrite H. split; reflexivity.
  Qed.

  Lemma cleanup_sim : forall F a,
    cleanup true F b p (cn a) = (cn (fst (a_cleanup F a)), snd (a_cleanup F a)).
  Proof.
    intros F a. unfold cleanup, a_cleanup.
    rewrite (git_call_sim cn (lift (wt_remove true p)) (wt_remove_torn true p) a_remove a_remove_torn (f_remove F) a (remove_sim a) (remove_torn_sim a)).
    destruct (a_git_call (f_remove F) a_remove a_remove_torn a) as [a1 g1]; simpl.
    destruct g1; try reflexivity;
      rewrite (git_call_sim cn (lift (branch_D b)) (fun x => x) a_branchD (fun x => x) (f_branchD F) a1 (branchD_sim a1) eq_refl);
      destruct (a_git_call (f_branchD F) a_branchD (fun x => x) a1) as [a3 g3]; simpl; destruct g3; reflexivity.
  Qed.

  (* ---- prune needs the extra hypothesis on s *)
  Hypothesis Hnp : no_prunable s = true.

  Lemma prune_sim : forall a, a <> AStale -> wt_prune (cn a) = cn a.
  Proof.
    assert (K : forall (dd : list (path * bool)), (forall q, Nat.eqb q p = false -> is_some (nlookup q dd) = is_some (nlookup q (dirs s))) ->
                forall l, (forall r, In r l -> In r (regs s)) ->
                filter (fun r => negb (negb (rlocked r) && negb (is_some (nlookup (rpath r) dd)))) l = l).
    { intros dd Hdd l Hl. apply filter_id. intros r Hr. specialize (Hl r Hr).
      unfold no_prunable in Hnp. rewrite forallb_forall in Hnp. specialize (Hnp r Hl).
      unfold prunable, dir_exists in Hnp. rewrite Hdd; [exact Hnp|].
      exact (existsb_false_all _ _ fresh_reg r Hl). }
    intros [d| | |] Hne; try (exfalso; apply Hne; reflexivity); unfold wt_prune, prunable, dir_exists, set_regs, cn, conc; simpl.
    - rewrite ?Nat.eqb_refl. simpl. f_equal. f_equal.
      apply (K ((p, d) :: dirs s)); [|auto]. intros q Hq. simpl. rewrite Nat.eqb_sym in Hq. rewrite Hq. reflexivity.
    - f_equal. apply (K (dirs s)); auto.
    - f_equal. apply (K (dirs s)); auto.
  Qed.

End Flow.

(* ------------------------------------------------------------------ the finite part, decided by case analysis *)

(* the cleanup reaches the clean state exactly when it is able to undo what the add call left behind *)
Definition start_of (l : leftover) (d : bool) : aclean :=
  match l with LNothing => AClean | LBranch => ANoWt | LFull => AFull d end.

Lemma a_cleanup_ok_iff : forall F l d, fst (a_cleanup F (start_of l d)) = AClean <-> cleanup_ok l F = true.
Proof.
  intros [fa fm fl fd fr fb ft] l d. unfold cleanup_ok, cleanup_benign, remove_quiet, branchD_effective, a_cleanup; simpl.
  destruct l; simpl;
    destruct fr as [| | | e | e | [e|]]; simpl; destruct fb as [| | | e' | e' | [e'|]]; simpl;
    split; intro H; try reflexivity; try discriminate.
Qed.

Lemma a_cleanup_benign_iff : forall F d, fst (a_cleanup F (AFull d)) = AClean <-> cleanup_benign F = true.
Proof. intros F d. exact (a_cleanup_ok_iff F LFull d). Qed.

(* what the add call leaves, as an abstract state, when the reference resolves and the branch name is free *)
Lemma add_call_leftover : forall f,
  fst (a_git_call f a_add a_add_torn AClean) = start_of (add_leftover f) false /\
  (snd (a_git_call f a_add a_add_torn AClean) = Rc0 <-> f = NoFault).
Proof.
  intros [| | | e | e | [e|]]; simpl; split; try reflexivity; split; intro H; try reflexivity; discriminate.
Qed.

Lemma noadd_call : forall f,
  fst (a_git_call f a_noadd (fun x => x) AClean) = AClean /\ snd (a_git_call f a_noadd (fun x => x) AClean) <> Rc0.
Proof. intros [| | | e | e | [e|]]; simpl; split; try reflexivity; discriminate. Qed.

(* ------------------------------------------------------------------ load_git: closed form *)

(* the body of `with tmp_worktree` keeps the abstract shape: it can only dirty the checkout *)
Lemma git_body_full :
  forall s p ref c tree evs d,
  fresh p s = true ->
  exists d' r, git_body ref tree evs p (conc s p (tmp_branch ref) c (AFull d)) = (conc s p (tmp_branch ref) c (AFull d'), r).
Proof.
  intros s p ref c tree evs d Hfr. unfold git_body. set (b := tmp_branch ref).
  assert (E : slookup b (branches (conc s p b c (AFull d))) = Some c) by (simpl; rewrite String.eqb_refl; reflexivity).
  rewrite E. unfold load_body.
  destruct (content_at tree c).
  - exists d. eexists. reflexivity.
  - exists d. eexists. reflexivity.
  - rewrite (run_events_full s p b c Hfr). exists (dirty_after evs d). eexists. reflexivity.
Qed.

Lemma add_possible_inv : forall s ref, add_possible s ref = true ->
  exists c, resolve s ref = Some c /\ has_branch (tmp_branch ref) s = false.
Proof.
  intros s ref H. unfold add_possible in H. apply andb_true_iff in H. destruct H as [H1 H2].
  destruct (resolve s ref) as [c|]; [|discriminate]. exists c. split; [reflexivity|]. apply negb_true_iff in H2. exact H2.
Qed.

(* `worktree add` after mkdtemp when it cannot even create its branch: no effect, whatever the fault *)
Lemma add_impossible_call : forall s p ref f, add_possible s ref = false ->
  fst (git_call f (wt_add (tmp_branch ref) p ref) (wt_add_torn (tmp_branch ref) p ref) (mkdtemp p s)) = mkdtemp p s /\
  snd (git_call f (wt_add (tmp_branch ref) p ref) (wt_add_torn (tmp_branch ref) p ref) (mkdtemp p s)) <> Rc0.
Proof.
  intros s p ref f H.
  assert (A : wt_add (tmp_branch ref) p ref (mkdtemp p s) = (mkdtemp p s, false)).
  { unfold wt_add. replace (resolve (mkdtemp p s) ref) with (resolve s ref) by reflexivity.
    unfold add_possible in H. destruct (resolve s ref) as [c|]; [|reflexivity]. simpl in H.
    apply negb_false_iff in H. replace (has_branch (tmp_branch ref) (mkdtemp p s)) with (has_branch (tmp_branch ref) s) by reflexivity.
    rewrite H. reflexivity. }
  assert (T : wt_add_torn (tmp_branch ref) p ref (mkdtemp p s) = mkdtemp p s).
  { unfold wt_add_torn. replace (resolve (mkdtemp p s) ref) with (resolve s ref) by reflexivity.
    unfold add_possible in H. destruct (resolve s ref) as [c|]; [|reflexivity]. simpl in H.
    apply negb_false_iff in H. replace (has_branch (tmp_branch ref) (mkdtemp p s)) with (has_branch (tmp_branch ref) s) by reflexivity.
    rewrite H. reflexivity. }
  destruct f as [| | | e | e | [e|]]; simpl; rewrite ?A, ?T; simpl; split; try reflexivity; discriminate.
Qed.

(* the state in which the unrepaired tmp_worktree ends once mkdtemp has run, as an abstract state *)
Definition a_after_add (F : faults) (d : bool) : aclean :=
  match f_add F with
  | NoFault => fst (a_cleanup F (AFull d))
  | f => start_of (add_leftover f) false
  end.

(* Every path through tmp_worktree + load_git (code as it is): the final state is one of the enumerated shapes.
   Either nothing was ever created, or the run ends in a_exit of an abstract state that the fault placement determines. *)
Theorem load_git_final_shape :
  forall s p ref tree evs isrepo F,
  wf s = true -> fresh p s = true ->
  fst (load_git false true isrepo F p ref tree evs s) = s \/
  exists c a, fst (load_git false true isrepo F p ref tree evs s) = a_exit s p (tmp_branch ref) c (f_rmtree F) a.
Proof.
  intros s p ref tree evs isrepo F Hwf Hfr. unfold load_git, tmp_worktree.
  destruct (git_call (f_assert F) (fun x => (x, isrepo)) (fun x => x) s) as [s0 g0] eqn:E0.
  assert (S0 : s0 = s).
  { destruct (f_assert F) as [| | | e | e | [e|]]; simpl in E0; inversion E0; reflexivity. }
  subst s0. destruct g0; try (left; reflexivity).
  destruct (f_mkdtemp F); [left; reflexivity|]. right. cbv zeta.
  destruct (add_possible s ref) eqn:Eap.
  - destruct (add_possible_inv _ _ Eap) as [c [Hres Hnob]]. exists c.
    rewrite (mkdtemp_clean s p (tmp_branch ref) c).
    rewrite (git_call_sim (conc s p (tmp_branch ref) c) _ _ a_add a_add_torn (f_add F) AClean
               (add_sim s p (tmp_branch ref) c Hfr Hnob ref Hres) (add_torn_sim s p (tmp_branch ref) c Hnob ref Hres)).
    destruct (a_git_call (f_add F) a_add a_add_torn AClean) as [a2 g2] eqn:E2. cbn [fst snd].
    destruct g2.
    + assert (A2 : a2 = AFull false).
      { destruct (f_add F) as [| | | e | e | [e|]]; simpl in E2; inversion E2; reflexivity. }
      subst a2. unfold finish.
      destruct (git_body_full s p ref c tree evs false Hfr) as [d' [r Hb]]. rewrite Hb.
      rewrite (cleanup_sim s p (tmp_branch ref) c Hwf Hfr Hnob).
      destruct (a_cleanup F (AFull d')) as [a4 ce]. simpl.
      rewrite (exit_sim s p (tmp_branch ref) c Hfr). exists a4. reflexivity.
    + rewrite (exit_sim s p (tmp_branch ref) c Hfr). exists a2. reflexivity.
    + rewrite (exit_sim s p (tmp_branch ref) c Hfr). exists a2. reflexivity.
  - exists 0, AClean.
    destruct (add_impossible_call s p ref (f_add F) Eap) as [A1 A2].
    destruct (git_call (f_add F) (wt_add (tmp_branch ref) p ref) (wt_add_torn (tmp_branch ref) p ref) (mkdtemp p s)) as [s2 g2].
    simpl in A1, A2. subst s2. rewrite (mkdtemp_clean s p (tmp_branch ref) 0).
    destruct g2; [exfalso; apply A2; reflexivity| |]; rewrite (exit_sim s p (tmp_branch ref) 0 Hfr); reflexivity.
Qed.

(* The main theorem: for every repository, reference, loader behaviour and fault placement, the state after load_git
   is the state before it EXACTLY WHEN the placement is benign. *)
Theorem load_git_restored_iff :
  forall s p ref tree evs isrepo F,
  wf s = true -> fresh p s = true ->
  (fst (load_git false true isrepo F p ref tree evs s) = s <-> benign isrepo s ref F = true).
Proof.
  intros s p ref tree evs isrepo F Hwf Hfr.
  unfold benign, gap_add_after, excluded_cleanup_fault, excluded_rmtree_fault, reaches_cleanup, reaches_add, rm_effective.
  unfold load_git, tmp_worktree.
  destruct isrepo; destruct (f_assert F) as [| | | e | e | [e|]] eqn:Ea; cbn [git_call is_nofault andb negb fst snd]; try (split; reflexivity).
  destruct (f_mkdtemp F) eqn:Em; cbn [andb negb fst]; [split; reflexivity|]. cbv zeta.
  destruct (add_possible s ref) eqn:Eap; cbn [andb negb].
  - destruct (add_possible_inv _ _ Eap) as [c [Hres Hnob]].
    rewrite (mkdtemp_clean s p (tmp_branch ref) c).
    rewrite (git_call_sim (conc s p (tmp_branch ref) c) _ _ a_add a_add_torn (f_add F) AClean
               (add_sim s p (tmp_branch ref) c Hfr Hnob ref Hres) (add_torn_sim s p (tmp_branch ref) c Hnob ref Hres)).
    destruct (f_add F) as [| | | e | e | [e|]] eqn:Ed; cbn [a_git_call a_add a_add_torn fst snd is_nofault andb negb].
    + (* add succeeds: body, cleanup, exit *)
      unfold finish.
      destruct (git_body_full s p ref c tree evs false Hfr) as [d' [r Hb]]. rewrite Hb.
      rewrite (cleanup_sim s p (tmp_branch ref) c Hwf Hfr Hnob).
      destruct (a_cleanup F (AFull d')) as [a4 ce] eqn:E4. cbn [fst snd].
      rewrite (exit_sim s p (tmp_branch ref) c Hfr). cbn [fst].
      rewrite (a_exit_clean_iff s p (tmp_branch ref) c Hfr Hnob).
      pose proof (a_cleanup_benign_iff F d') as K. rewrite E4 in K. cbn [fst] in K. rewrite K.
      destruct (cleanup_benign F); destruct (f_rmtree F); cbn [negb andb]; split; intro H; try reflexivity; try discriminate;
        try (destruct H; discriminate); try (split; reflexivity).
    + rewrite (exit_sim s p (tmp_branch ref) c Hfr). cbn [fst]. rewrite (a_exit_clean_iff s p (tmp_branch ref) c Hfr Hnob).
      destruct (f_rmtree F); cbn [negb andb]; split; intro H; try reflexivity; try discriminate; try (destruct H; discriminate); try (split; reflexivity).
    + rewrite (exit_sim s p (tmp_branch ref) c Hfr). cbn [fst]. rewrite (a_exit_clean_iff s p (tmp_branch ref) c Hfr Hnob).
      split; intro H; [destruct H; discriminate|discriminate].
    + rewrite (exit_sim s p (tmp_branch ref) c Hfr). cbn [fst]. rewrite (a_exit_clean_iff s p (tmp_branch ref) c Hfr Hnob).
      destruct (f_rmtree F); cbn [negb andb]; split; intro H; try reflexivity; try discriminate; try (destruct H; discriminate); try (split; reflexivity).
    + rewrite (exit_sim s p (tmp_branch ref) c Hfr). cbn [fst]. rewrite (a_exit_clean_iff s p (tmp_branch ref) c Hfr Hnob).
      split; intro H; [destruct H; discriminate|discriminate].
    + rewrite (exit_sim s p (tmp_branch ref) c Hfr). cbn [fst]. rewrite (a_exit_clean_iff s p (tmp_branch ref) c Hfr Hnob).
      split; intro H; [destruct H; discriminate|discriminate].
    + rewrite (exit_sim s p (tmp_branch ref) c Hfr). cbn [fst]. rewrite (a_exit_clean_iff s p (tmp_branch ref) c Hfr Hnob).
      split; intro H; [destruct H; discriminate|discriminate].
  - destruct (add_impossible_call s p ref (f_add F) Eap) as [A1 A2].
    destruct (git_call (f_add F) (wt_add (tmp_branch ref) p ref) (wt_add_torn (tmp_branch ref) p ref) (mkdtemp p s)) as [s2 g2].
    simpl in A1, A2. subst s2. rewrite (mkdtemp_clean s p (tmp_branch ref) 0).
    assert (Hnob0 : True) by exact I.
    rewrite ?andb_false_r. cbn [negb andb].
    assert (X : forall r, fst (exit_td F p (conc s p (tmp_branch ref) 0 AClean) r) = s <->
                          negb (negb match f_rmtree F with RmOk | RmRaiseAfter _ => true | _ => false end) = true).
    { intros r. unfold exit_td. destruct (f_rmtree F); cbn [fst negb].
      - rewrite <- (mkdtemp_clean s p (tmp_branch ref) 0). unfold rmtree, mkdtemp, set_tmps, set_dirs; simpl. rewrite Nat.eqb_refl. simpl.
        rewrite (drop_dir_fresh s p Hfr), (drop_tmp_fresh s p Hfr). rewrite repo_eta. split; reflexivity.
      - split; [intro H; exfalso|discriminate].
        assert (E : existsb (Nat.eqb p) (tmps s) = true) by (rewrite <- H at 1; simpl; rewrite Nat.eqb_refl; reflexivity).
        rewrite (fresh_tmp s p Hfr) in E. discriminate.
      - split; [intro H; exfalso|discriminate].
        assert (E : existsb (Nat.eqb p) (tmps s) = true) by (rewrite <- H at 1; simpl; rewrite Nat.eqb_refl; reflexivity).
        rewrite (fresh_tmp s p Hfr) in E. discriminate.
      - rewrite <- (mkdtemp_clean s p (tmp_branch ref) 0). unfold rmtree, mkdtemp, set_tmps, set_dirs; simpl. rewrite Nat.eqb_refl. simpl.
        rewrite (drop_dir_fresh s p Hfr), (drop_tmp_fresh s p Hfr). rewrite repo_eta. split; reflexivity. }
    destruct g2; [exfalso; apply A2; reflexivity| |]; apply X.
Qed.

Theorem load_git_state_restored :
  forall s p ref tree evs isrepo F,
  wf s = true -> fresh p s = true -> benign isrepo s ref F = true ->
  fst (load_git false true isrepo F p ref tree evs s) = s.
Proof. intros. apply load_git_restored_iff; assumption. Qed.

(* ------------------------------------------------------------------ the repaired variant (guard = true) *)

(* leaving the TemporaryDirectory from the state right after mkdtemp *)
Lemma exit_clean_iff : forall s p F r, fresh p s = true ->
  (fst (exit_td F p (mkdtemp p s) r) = s <-> rm_effective F = true).
Proof.
  intros s p F r Hfr. unfold exit_td, rm_effective. destruct (f_rmtree F); cbn [fst].
  - unfold rmtree, mkdtemp, set_tmps, set_dirs; simpl. rewrite Nat.eqb_refl. simpl.
    rewrite (drop_dir_fresh s p Hfr), (drop_tmp_fresh s p Hfr). rewrite repo_eta. split; reflexivity.
  - split; [intro H; exfalso|discriminate].
    assert (E : existsb (Nat.eqb p) (tmps s) = true) by (rewrite <- H at 1; simpl; rewrite Nat.eqb_refl; reflexivity).
    rewrite (fresh_tmp s p Hfr) in E. discriminate.
  - split; [intro H; exfalso|discriminate].
    assert (E : existsb (Nat.eqb p) (tmps s) = true) by (rewrite <- H at 1; simpl; rewrite Nat.eqb_refl; reflexivity).
    rewrite (fresh_tmp s p Hfr) in E. discriminate.
  - unfold rmtree, mkdtemp, set_tmps, set_dirs; simpl. rewrite Nat.eqb_refl. simpl.
    rewrite (drop_dir_fresh s p Hfr), (drop_tmp_fresh s p Hfr). rewrite repo_eta. split; reflexivity.
Qed.

(* the cleanup in the state right after mkdtemp (nothing to undo) leaves it alone, whatever the faults *)
Lemma a_cleanup_clean : forall F, fst (a_cleanup F AClean) = AClean.
Proof. intros F. apply (a_cleanup_ok_iff F LNothing false). reflexivity. Qed.

(* With the repair, the state after load_git is the state before it EXACTLY WHEN the cleanup calls that have something to
   undo, and the removal of the temporary directory, do their job: no gap predicate is left. *)
Theorem load_git_guarded_restored_iff :
  forall s p ref tree evs isrepo F,
  wf s = true -> fresh p s = true ->
  (fst (load_git true true isrepo F p ref tree evs s) = s <-> benign_guarded isrepo s ref F = true).
Proof.
  intros s p ref tree evs isrepo F Hwf Hfr.
  unfold benign_guarded, reaches_try, excluded_rmtree_fault, reaches_add.
  unfold load_git, tmp_worktree.
  destruct isrepo; destruct (f_assert F) as [| | | e | e | [e|]] eqn:Ea; cbn [git_call is_nofault andb negb orb fst snd]; try (split; reflexivity).
  destruct (f_mkdtemp F) eqn:Em; cbn [andb negb orb fst]; [split; reflexivity|]. cbv zeta.
  destruct (f_list F) as [| | | e | e | [e|]] eqn:El; cbn [ro_call is_nofault andb negb orb];
    try (rewrite (exit_clean_iff s p F _ Hfr); destruct (rm_effective F); cbn [negb andb]; split; congruence).
  replace (has_branch (tmp_branch ref) (mkdtemp p s)) with (has_branch (tmp_branch ref) s) by reflexivity.
  destruct (has_branch (tmp_branch ref) s) eqn:Hnob; cbn [negb orb andb].
  { rewrite (exit_clean_iff s p F _ Hfr). destruct (rm_effective F); cbn [negb andb]; split; congruence. }
  unfold finish, add_then.
  destruct (resolve s ref) as [c|] eqn:Hres; cbn [is_some negb orb].
  - rewrite (mkdtemp_clean s p (tmp_branch ref) c).
    rewrite (git_call_sim (conc s p (tmp_branch ref) c) _ _ a_add a_add_torn (f_add F) AClean
               (add_sim s p (tmp_branch ref) c Hfr Hnob ref Hres) (add_torn_sim s p (tmp_branch ref) c Hnob ref Hres)).
    destruct (add_call_leftover (f_add F)) as [L1 L2].
    destruct (a_git_call (f_add F) a_add a_add_torn AClean) as [a2 g2]. cbn [fst snd] in *. subst a2.
    assert (B : exists d' r,
      match g2 with
      | Rc0 => git_body ref tree evs p (conc s p (tmp_branch ref) c (start_of (add_leftover (f_add F)) false))
      | RcFail => (conc s p (tmp_branch ref) c (start_of (add_leftover (f_add F)) false), Raised "RuntimeError")
      | Exn e => (conc s p (tmp_branch ref) c (start_of (add_leftover (f_add F)) false), Raised e)
      end = (conc s p (tmp_branch ref) c (start_of (add_leftover (f_add F)) d'), r)).
    { destruct g2.
      - assert (Ef : f_add F = NoFault) by (apply L2; reflexivity). rewrite Ef. cbn [add_leftover start_of].
        apply git_body_full. exact Hfr.
      - exists false. eexists. reflexivity.
      - exists false. eexists. reflexivity. }
    destruct B as [d' [r HB]]. rewrite HB.
    rewrite (cleanup_sim s p (tmp_branch ref) c Hwf Hfr Hnob).
    pose proof (a_cleanup_ok_iff F (add_leftover (f_add F)) d') as K.
    destruct (a_cleanup F (start_of (add_leftover (f_add F)) d')) as [a4 ce]. cbn [fst snd] in *.
    rewrite (exit_sim s p (tmp_branch ref) c Hfr). cbn [fst].
    rewrite (a_exit_clean_iff s p (tmp_branch ref) c Hfr Hnob). rewrite K. unfold rm_effective.
    destruct (cleanup_ok (add_leftover (f_add F)) F); destruct (f_rmtree F); cbn [negb andb]; split; intro H;
      try reflexivity; try discriminate; try (destruct H; discriminate); try (split; reflexivity).
  - rewrite (mkdtemp_clean s p (tmp_branch ref) 0).
    destruct (noadd_sim s p (tmp_branch ref) 0 ref Hres) as [N1 N2].
    assert (NS : wt_add (tmp_branch ref) p ref (conc s p (tmp_branch ref) 0 AClean)
                 = (conc s p (tmp_branch ref) 0 (fst (a_noadd AClean)), snd (a_noadd AClean))) by exact N1.
    rewrite (git_call_sim (conc s p (tmp_branch ref) 0) _ _ a_noadd (fun x => x) (f_add F) AClean NS N2).
    destruct (noadd_call (f_add F)) as [L1 L2].
    destruct (a_git_call (f_add F) a_noadd (fun x => x) AClean) as [a2 g2]. cbn [fst snd] in *. subst a2.
    assert (B : exists r,
      match g2 with
      | Rc0 => git_body ref tree evs p (conc s p (tmp_branch ref) 0 AClean)
      | RcFail => (conc s p (tmp_branch ref) 0 AClean, Raised "RuntimeError")
      | Exn e => (conc s p (tmp_branch ref) 0 AClean, Raised e)
      end = (conc s p (tmp_branch ref) 0 AClean, r)).
    { destruct g2; [exfalso; apply L2; reflexivity| |]; eexists; reflexivity. }
    destruct B as [r HB]. rewrite HB.
    rewrite (cleanup_sim s p (tmp_branch ref) 0 Hwf Hfr Hnob).
    pose proof (a_cleanup_clean F) as K.
    destruct (a_cleanup F AClean) as [a4 ce]. cbn [fst snd] in *. subst a4.
    rewrite (exit_sim s p (tmp_branch ref) 0 Hfr). cbn [fst].
    rewrite (a_exit_clean_iff s p (tmp_branch ref) 0 Hfr Hnob). unfold rm_effective.
    destruct (f_rmtree F); cbn [negb andb]; split; intro H;
      try reflexivity; try discriminate; try (destruct H; discriminate); try (split; reflexivity).
Qed.

(* the headline of the repair: whatever happens to the assert, mkdtemp, list and ADD calls and whatever the loader does,
   the repository is restored as soon as the three cleanup operations work *)
Theorem load_git_guarded_restored :
  forall s p ref tree evs isrepo F,
  wf s = true -> fresh p s = true ->
  f_remove F = NoFault -> f_branchD F = NoFault -> f_rmtree F = RmOk ->
  fst (load_git true true isrepo F p ref tree evs s) = s.
Proof.
  intros s p ref tree evs isrepo F Hwf Hfr Hr Hb Ht. apply load_git_guarded_restored_iff; try assumption.
  unfold benign_guarded, excluded_rmtree_fault, rm_effective, cleanup_ok, cleanup_benign, remove_quiet, branchD_effective.
  rewrite Hr, Hb, Ht. rewrite andb_false_r. cbn [negb andb].
  destruct (add_leftover (f_add F)); rewrite ?orb_true_r; reflexivity.
Qed.

(* the repair never makes things worse: whenever the code as it is restores, so does the repaired one
   (same placement; the extra list call without fault) *)
Theorem guarded_at_least_as_good :
  forall s p ref tree evs isrepo F,
  wf s = true -> fresh p s = true -> f_list F = NoFault ->
  fst (load_git false true isrepo F p ref tree evs s) = s ->
  fst (load_git true true isrepo F p ref tree evs s) = s.
Proof.
  intros s p ref tree evs isrepo F Hwf Hfr Hl H.
  apply load_git_guarded_restored_iff; try assumption.
  apply (load_git_restored_iff s p ref tree evs isrepo F Hwf Hfr) in H.
  unfold benign, benign_guarded, gap_add_after, excluded_cleanup_fault, reaches_cleanup, reaches_try, add_possible in *.
  rewrite Hl. cbn [is_nofault]. rewrite andb_true_r.
  destruct (excluded_rmtree_fault isrepo F); [rewrite andb_false_r in H; discriminate|]. cbn [negb andb]. rewrite andb_true_r in H.
  destruct (reaches_add isrepo F); cbn [andb negb orb] in *; [|reflexivity].
  destruct (has_branch (tmp_branch ref) s); cbn [andb negb orb] in *; [reflexivity|].
  destruct (resolve s ref); cbn [is_some andb negb orb] in *; [|reflexivity].
  rewrite ?andb_true_r in H.
  destruct (f_add F) as [| | | e | e | [e|]]; cbn [add_leftover cleanup_ok is_nofault negb andb] in *; try reflexivity; try discriminate.
  destruct (cleanup_benign F); [reflexivity|discriminate].
Qed.

(* ------------------------------------------------------------------ facts that hold for EVERY fault placement *)

Section Preserve.
  Variable P : repo -> Prop.
  Variable p : path.
  Hypothesis P_mkdtemp : forall x, P x -> P (mkdtemp p x).
  Hypothesis P_with_branch : forall b c x, P x -> P (with_branch b c x).
  Hypothesis P_add : forall b r x, snd (wt_add b p r x) = true -> P x -> P (fst (wt_add b p r x)).
  Hypothesis P_remove : forall f x y, wt_remove f p x = Some y -> P x -> P y.
  Hypothesis P_dropdir : forall x, P x -> P (set_dirs x (drop_dir p (dirs x))).
  Hypothesis P_branchD : forall b x y, branch_D b x = Some y -> P x -> P y.
  Hypothesis P_touch : forall x, P x -> P (touch p x).

  Lemma P_lift : forall step x, (forall a y, step a = Some y -> P a -> P y) -> P x -> P (fst (lift step x)).
  Proof. intros step x Hs Hx. unfold lift. destruct (step x) eqn:E; simpl; [eapply Hs; eassumption|exact Hx]. Qed.

  Lemma P_git_call : forall f step torn x, (forall a, P a -> P (fst (step a))) -> (forall a, P a -> P (torn a)) -> P x ->
    P (fst (git_call f step torn x)).
  Proof.
    intros f step torn x Hs Ht Hx. destruct f as [| | | e | e | [e|]]; simpl; try assumption; try (apply Hs; assumption); try (apply Ht; assumption).
    pose proof (Hs x Hx) as H. destruct (step x). exact H.
  Qed.

  Lemma P_wt_add : forall b r x, P x -> P (fst (wt_add b p r x)).
  Proof.
    intros b r x Hx. pose proof (P_add b r x) as Ha. unfold wt_add in *. destruct (resolve x r) as [c|]; [|exact Hx].
    destruct (has_branch b x); [exact Hx|]. destruct (registered p x || dir_exists p x).
    - simpl. apply P_with_branch. exact Hx.
    - apply Ha; [reflexivity|exact Hx].
  Qed.

  Lemma P_wt_add_torn : forall b r x, P x -> P (wt_add_torn b p r x).
  Proof.
    intros b r x Hx. unfold wt_add_torn. destruct (resolve x r) as [c|]; [|exact Hx].
    destruct (has_branch b x); [exact Hx|]. apply P_with_branch. exact Hx.
  Qed.

  Lemma P_remove_torn : forall f x, P x -> P (wt_remove_torn f p x).
  Proof. intros f x Hx. unfold wt_remove_torn. destruct (is_some (wt_remove f p x)); [apply P_dropdir|]; exact Hx. Qed.

  Lemma P_cleanup : forall force F b x, P x -> P (fst (cleanup force F b p x)).
  Proof.
    intros force F b x Hx. unfold cleanup.
    pose proof (P_git_call (f_remove F) (lift (wt_remove force p)) (wt_remove_torn force p) x
                  (fun a Ha => P_lift _ a (P_remove force) Ha) (P_remove_torn force) Hx) as H1.
    destruct (git_call (f_remove F) (lift (wt_remove force p)) (wt_remove_torn force p) x) as [s1 g1]. simpl in H1.
    pose proof (P_git_call (f_branchD F) (lift (branch_D b)) (fun y => y) s1
                  (fun a Ha => P_lift _ a (P_branchD b) Ha) (fun a Ha => Ha) H1) as H3.
    destruct (git_call (f_branchD F) (lift (branch_D b)) (fun y => y) s1) as [s3 g3]. simpl in H3.
    destruct g1; simpl; try assumption; destruct g3; simpl; assumption.
  Qed.

  Lemma P_run_events : forall evs x, P x -> P (fst (run_events evs p x)).
  Proof.
    induction evs as [|[| |e] evs IH]; intros x Hx; simpl; try assumption.
    - apply IH. exact Hx.
    - apply IH. apply P_touch. exact Hx.
  Qed.

  Lemma P_git_body : forall ref tree evs x, P x -> P (fst (git_body ref tree evs p x)).
  Proof.
    intros ref tree evs x Hx. unfold git_body. destruct (slookup (tmp_branch ref) (branches x)); [|exact Hx].
    unfold load_body. destruct (content_at tree c); try exact Hx.
    pose proof (P_run_events evs x Hx) as H. destruct (run_events evs p x). exact H.
  Qed.

  Lemma P_add_call : forall F b ref x, P x -> P (fst (git_call (f_add F) (wt_add b p ref) (wt_add_torn b p ref) x)).
  Proof. intros F b ref x Hx. apply P_git_call; [intros a Ha; apply P_wt_add; exact Ha|intros a Ha; apply P_wt_add_torn; exact Ha|exact Hx]. Qed.

  Lemma P_finish : forall force F b body x, (forall y, P y -> P (fst (body y))) -> P x ->
    exists y r, P y /\ finish force F b p body x = exit_td F p y r.
  Proof.
    intros force F b body x Hb Hx. unfold finish. pose proof (Hb x Hx) as H3. destruct (body x) as [s3 r]. simpl in H3.
    pose proof (P_cleanup force F b s3 H3) as H4.
    destruct (cleanup force F b p s3) as [s4 ce]. simpl in H4. exists s4. eexists. split; [exact H4|reflexivity].
  Qed.

  (* every way out of tmp_worktree (both variants) is either "nothing happened" or the exit of the TemporaryDirectory
     from a state that every step before preserved P of *)
  Lemma tmp_worktree_exits : forall guard force isrepo F ref body s,
    (forall x, P x -> P (fst (body x))) -> P s ->
    fst (tmp_worktree guard force isrepo F p ref body s) = s \/
    exists x r, P x /\ tmp_worktree guard force isrepo F p ref body s = exit_td F p x r.
  Proof.
    intros guard force isrepo F ref body s Hb Hs. unfold tmp_worktree.
    assert (E0 : fst (git_call (f_assert F) (fun x => (x, isrepo)) (fun x => x) s) = s).
    { destruct (f_assert F) as [| | | e | e | [e|]]; reflexivity. }
    destruct (git_call (f_assert F) (fun x => (x, isrepo)) (fun x => x) s) as [s0 g0]. simpl in E0. subst s0.
    destruct g0; try (left; reflexivity).
    destruct (f_mkdtemp F); [left; reflexivity|]. right. cbv zeta.
    pose proof (P_mkdtemp s Hs) as H1.
    destruct guard.
    - destruct (ro_call (f_list F) true); try (eexists; eexists; split; [exact H1|reflexivity]).
      destruct (has_branch (tmp_branch ref) (mkdtemp p s)); [eexists; eexists; split; [exact H1|reflexivity]|].
      apply P_finish; [|exact H1].
      intros y Hy. unfold add_then. pose proof (P_add_call F (tmp_branch ref) ref y Hy) as H2.
      destruct (git_call (f_add F) (wt_add (tmp_branch ref) p ref) (wt_add_torn (tmp_branch ref) p ref) y) as [s2 g2]. simpl in H2.
      destruct g2; simpl; try exact H2. apply Hb. exact H2.
    - pose proof (P_add_call F (tmp_branch ref) ref (mkdtemp p s) H1) as H2.
      destruct (git_call (f_add F) (wt_add (tmp_branch ref) p ref) (wt_add_torn (tmp_branch ref) p ref) (mkdtemp p s)) as [s2 g2]. simpl in H2.
      destruct g2.
      + apply P_finish; assumption.
      + eexists; eexists; split; [exact H2|reflexivity].
      + eexists; eexists; split; [exact H2|reflexivity].
  Qed.
End Preserve.

Lemma filter_idem : forall {A} (f : A -> bool) l, filter f (filter f l) = filter f l.
Proof.
  induction l as [|a l IH]; simpl; [reflexivity|]. destruct (f a) eqn:E; simpl; rewrite ?E, IH; reflexivity.
Qed.

Lemma drop_dir_map_touch : forall p (l : list (path * bool)),
  drop_dir p (map (fun x => if Nat.eqb (fst x) p then (fst x, true) else x) l) = drop_dir p l.
Proof.
  induction l as [|[k v] l IH]; simpl; [reflexivity|].
  destruct (Nat.eqb k p) eqn:E; simpl; rewrite E; simpl; rewrite IH; reflexivity.
Qed.

(* the temporary directory and the checkout inside it *)
Definition only_p_differs (s : repo) (p : path) (x : repo) : Prop :=
  drop_tmp p (tmps x) = tmps s /\ drop_dir p (dirs x) = dirs s.

Lemma only_p_differs_steps : forall s p,
  (forall x, only_p_differs s p x -> only_p_differs s p (mkdtemp p x)) /\
  (forall b c x, only_p_differs s p x -> only_p_differs s p (with_branch b c x)) /\
  (forall b r x, snd (wt_add b p r x) = true -> only_p_differs s p x -> only_p_differs s p (fst (wt_add b p r x))) /\
  (forall f x y, wt_remove f p x = Some y -> only_p_differs s p x -> only_p_differs s p y) /\
  (forall x, only_p_differs s p x -> only_p_differs s p (set_dirs x (drop_dir p (dirs x)))) /\
  (forall b x y, branch_D b x = Some y -> only_p_differs s p x -> only_p_differs s p y) /\
  (forall x, only_p_differs s p x -> only_p_differs s p (touch p x)).
Proof.
  intros s p. split; [|split; [|split; [|split; [|split; [|split]]]]].
  - intros x [H1 H2]. split; simpl; [rewrite Nat.eqb_refl; simpl; exact H1|exact H2].
  - intros b c x [H1 H2]. split; simpl; assumption.
  - intros b r x E [H1 H2]. unfold wt_add in *. destruct (resolve x r); [|discriminate]. destruct (has_branch b x); [discriminate|].
    destruct (registered p x || dir_exists p x); [discriminate|]. split; simpl.
    + unfold add_tmp. destruct (existsb (Nat.eqb p) (tmps x)); [exact H1|]. simpl. rewrite Nat.eqb_refl. simpl. exact H1.
    + rewrite Nat.eqb_refl. simpl. exact H2.
  - intros f x y E [H1 H2]. unfold wt_remove in E. destruct (find_reg p x) as [r|]; [|discriminate].
    destruct (rlocked r); [discriminate|]. destruct (nlookup p (dirs x)) as [dirty|].
    + destruct (dirty && negb f); [discriminate|]. inversion E; subst; clear E. split; simpl; [exact H1|].
      unfold drop_dir in *. rewrite filter_idem. exact H2.
    + inversion E; subst; clear E. split; simpl; assumption.
  - intros x [H1 H2]. split; simpl; [exact H1|]. unfold drop_dir in *. rewrite filter_idem. exact H2.
  - intros b x y E [H1 H2]. unfold branch_D in E. destruct (has_branch b x && negb (checked_out b x)); [|discriminate].
    inversion E; subst; clear E. split; simpl; assumption.
  - intros x [H1 H2]. split; simpl; [exact H1|]. rewrite drop_dir_map_touch. exact H2.
Qed.

(* the temporary directory and the checkout inside it are gone on every path of both variants, with or without --force,
   whatever git call fails, is interrupted or torn -- as long as the removal of the TemporaryDirectory itself works *)
Theorem no_tmp_left :
  forall guard force isrepo F p ref tree evs s,
  fresh p s = true -> rm_effective F = true ->
  tmps (fst (load_git guard force isrepo F p ref tree evs s)) = tmps s /\
  dirs (fst (load_git guard force isrepo F p ref tree evs s)) = dirs s.
Proof.
  intros guard force isrepo F p ref tree evs s Hfr Hrm. unfold load_git.
  assert (H0 : only_p_differs s p s) by (split; [apply drop_tmp_fresh|apply drop_dir_fresh]; exact Hfr).
  destruct (only_p_differs_steps s p) as [S1 [S2 [S3 [S4 [S5 [S6 S7]]]]]].
  destruct (tmp_worktree_exits (only_p_differs s p) p S1 S2 S3 S4 S5 S6 guard force isrepo F ref (git_body ref tree evs p) s)
    as [E|[x [r [[Hx1 Hx2] E]]]].
  - intros x Hx. apply P_git_body; [exact S7|exact Hx].
  - exact H0.
  - rewrite E. split; reflexivity.
  - rewrite E. unfold exit_td, rm_effective in *. destruct (f_rmtree F); try discriminate; simpl; split; assumption.
Qed.

(* ... and that hypothesis is needed: when the removal fails at once or in the middle, the directory stays *)
Definition has_tmp (p : path) (x : repo) : Prop := In p (tmps x).

Theorem tmp_left_when_removal_fails :
  forall guard force isrepo F p ref tree evs s,
  reaches_add isrepo F = true -> rm_effective F = false ->
  In p (tmps (fst (load_git guard force isrepo F p ref tree evs s))).
Proof.
  intros guard force isrepo F p ref tree evs s Hra Hrm. unfold load_git.
  assert (T : forall x, has_tmp p x -> has_tmp p (touch p x)) by (intros x H; exact H).
  unfold reaches_add in Hra. apply andb_true_iff in Hra. destruct Hra as [Hra Hm]. apply andb_true_iff in Hra. destruct Hra as [Ha Hi].
  destruct isrepo; [|discriminate]. apply negb_true_iff in Hm.
  destruct (f_assert F) eqn:Ea; try discriminate.
  (* redo the exits lemma by hand from the state after mkdtemp: the "nothing happened" exit is not taken *)
  assert (X : exists x r, has_tmp p x /\ tmp_worktree guard force true F p ref (git_body ref tree evs p) s = exit_td F p x r).
  { unfold tmp_worktree. rewrite Ea. cbn [git_call]. rewrite Hm. cbv zeta.
    assert (H1 : has_tmp p (mkdtemp p s)) by (left; reflexivity).
    assert (S2 : forall b c x, has_tmp p x -> has_tmp p (with_branch b c x)) by (intros; assumption).
    assert (S3 : forall b r x, snd (wt_add b p r x) = true -> has_tmp p x -> has_tmp p (fst (wt_add b p r x))).
    { intros b r x E H. unfold wt_add in *. destruct (resolve x r); [|discriminate]. destruct (has_branch b x); [discriminate|].
      destruct (registered p x || dir_exists p x); [discriminate|]. unfold has_tmp; simpl. unfold add_tmp.
      destruct (existsb (Nat.eqb p) (tmps x)); [exact H|right; exact H]. }
    assert (S4 : forall f x y, wt_remove f p x = Some y -> has_tmp p x -> has_tmp p y).
    { intros f x y E H. unfold wt_remove in E. destruct (find_reg p x) as [r|]; [|discriminate].
      destruct (rlocked r); [discriminate|]. destruct (nlookup p (dirs x)) as [dirty|].
      - destruct (dirty && negb f); [discriminate|]. inversion E; subst. exact H.
      - inversion E; subst. exact H. }
    assert (S5 : forall x, has_tmp p x -> has_tmp p (set_dirs x (drop_dir p (dirs x)))) by (intros; assumption).
    assert (S6 : forall b x y, branch_D b x = Some y -> has_tmp p x -> has_tmp p y).
    { intros b x y E H. unfold branch_D in E. destruct (has_branch b x && negb (checked_out b x)); [|discriminate]. inversion E; subst. exact H. }
    assert (Hb : forall x, has_tmp p x -> has_tmp p (fst (git_body ref tree evs p x))).
    { intros x Hx. apply P_git_body; [exact T|exact Hx]. }
    destruct guard.
    - destruct (ro_call (f_list F) true); try (eexists; eexists; split; [exact H1|reflexivity]).
      destruct (has_branch (tmp_branch ref) (mkdtemp p s)); [eexists; eexists; split; [exact H1|reflexivity]|].
      apply (P_finish (has_tmp p) p S4 S5 S6); [|exact H1].
      intros y Hy. unfold add_then. pose proof (P_add_call (has_tmp p) p S2 S3 F (tmp_branch ref) ref y Hy) as H2.
      destruct (git_call (f_add F) (wt_add (tmp_branch ref) p ref) (wt_add_torn (tmp_branch ref) p ref) y) as [s2 g2]. simpl in H2.
      destruct g2; simpl; try exact H2. apply Hb. exact H2.
    - pose proof (P_add_call (has_tmp p) p S2 S3 F (tmp_branch ref) ref (mkdtemp p s) H1) as H2.
      destruct (git_call (f_add F) (wt_add (tmp_branch ref) p ref) (wt_add_torn (tmp_branch ref) p ref) (mkdtemp p s)) as [s2 g2]. simpl in H2.
      destruct g2.
      + apply (P_finish (has_tmp p) p S4 S5 S6); assumption.
      + eexists; eexists; split; [exact H2|reflexivity].
      + eexists; eexists; split; [exact H2|reflexivity]. }
  destruct X as [x [r [Hx E]]]. rewrite E. unfold exit_td, rm_effective in *.
  destruct (f_rmtree F); try discriminate; simpl; exact Hx.
Qed.

(* HEAD, the index / working tree / stash token of the main worktree, tags and other names: never written, whatever fails *)
Definition same_main (s x : repo) : Prop :=
  head_branch x = head_branch s /\ head_commit x = head_commit s /\ main_status x = main_status s /\ names x = names s.

Theorem main_worktree_untouched :
  forall guard force isrepo F p ref tree evs s, same_main s (fst (load_git guard force isrepo F p ref tree evs s)).
Proof.
  intros guard force isrepo F p ref tree evs s. unfold load_git.
  assert (T : forall x, same_main s x -> same_main s (touch p x)) by (intros x H; exact H).
  destruct (tmp_worktree_exits (same_main s) p) with (guard := guard) (force := force) (isrepo := isrepo) (F := F) (ref := ref)
    (body := git_body ref tree evs p) (s := s) as [E|[x [r [Hx E]]]].
  - intros x H. exact H.
  - intros b c x H. exact H.
  - intros b r x E H. unfold wt_add in *. destruct (resolve x r); [|discriminate]. destruct (has_branch b x); [discriminate|].
    destruct (registered p x || dir_exists p x); [discriminate|]. exact H.
  - intros f x y E H. unfold wt_remove in E. destruct (find_reg p x) as [r|]; [|discriminate].
    destruct (rlocked r); [discriminate|]. destruct (nlookup p (dirs x)) as [dirty|].
    + destruct (dirty && negb f); [discriminate|]. inversion E; subst. exact H.
    + inversion E; subst. exact H.
  - intros x H. exact H.
  - intros b x y E H. unfold branch_D in E. destruct (has_branch b x && negb (checked_out b x)); [|discriminate].
    inversion E; subst. exact H.
  - intros x Hx. apply P_git_body; [exact T|exact Hx].
  - repeat split.
  - rewrite E. repeat split.
  - rewrite E. unfold exit_td. destruct (f_rmtree F); exact Hx.
Qed.
(* ------------------------------------------------------------------ check *)

Lemma load_new_restored : forall s a tree isrepo,
  wf s = true -> fresh (c_p2 a) s = true ->
  match c_base a with Some r => benign isrepo s r (c_F2 a) | None => true end = true ->
  fst (load_new false true isrepo a tree s) = s.
Proof.
  intros s a tree isrepo Hwf Hfr Hb. unfold load_new. destruct (c_base a) as [r|].
  - apply load_git_state_restored; assumption.
  - destruct (c_work a); try reflexivity. destruct (run_events (c_evs2 a) (c_p2 a) s) as [x [e|]]; reflexivity.
Qed.

Lemma against_effective : forall a ag, against_of a = inl ag -> effective_against a = Some ag.
Proof.
  intros a ag. unfold against_of, effective_against. destruct (c_against a) as [r|].
  - intros H. inversion H. reflexivity.
  - destruct (ro_call (c_f_tag a) true); try discriminate. destruct (c_latest a); [|discriminate].
    intros H. inversion H. reflexivity.
Qed.

Theorem check_state_restored :
  forall s a tree breaking isrepo,
  wf s = true -> fresh (c_p1 a) s = true -> fresh (c_p2 a) s = true ->
  check_benign isrepo s a = true ->
  fst (check false true isrepo a tree breaking s) = s.
Proof.
  intros s a tree breaking isrepo Hwf Hf1 Hf2 Hb. unfold check.
  destruct (against_of a) as [ag|r] eqn:Eag; [|reflexivity].
  destruct (ro_call (c_f_root a) isrepo); try reflexivity.
  destruct (c_ext_fails a); [reflexivity|].
  unfold check_benign in Hb. rewrite (against_effective a ag Eag) in Hb. apply andb_true_iff in Hb. destruct Hb as [Hb1 Hb2].
  pose proof (load_git_state_restored s (c_p1 a) ag tree (c_evs1 a) isrepo (c_F1 a) Hwf Hf1 Hb1) as H1.
  destruct (load_git false true isrepo (c_F1 a) (c_p1 a) ag tree (c_evs1 a) s) as [s1 r1]. simpl in H1. subst s1.
  destruct r1 as [vo|e]; [|reflexivity].
  pose proof (load_new_restored s a tree isrepo Hwf Hf2 Hb2) as H2.
  destruct (load_new false true isrepo a tree s) as [s2 r2]. simpl in H2. subst s2.
  destruct r2; reflexivity.
Qed.

(* the same for the repaired variant, under its weaker hypothesis *)
Lemma load_new_guarded_restored : forall s a tree isrepo,
  wf s = true -> fresh (c_p2 a) s = true ->
  match c_base a with Some r => benign_guarded isrepo s r (c_F2 a) | None => true end = true ->
  fst (load_new true true isrepo a tree s) = s.
Proof.
  intros s a tree isrepo Hwf Hfr Hb. unfold load_new. destruct (c_base a) as [r|].
  - apply load_git_guarded_restored_iff; assumption.
  - destruct (c_work a); try reflexivity. destruct (run_events (c_evs2 a) (c_p2 a) s) as [x [e|]]; reflexivity.
Qed.

Theorem check_guarded_state_restored :
  forall s a tree breaking isrepo,
  wf s = true -> fresh (c_p1 a) s = true -> fresh (c_p2 a) s = true ->
  check_benign_guarded isrepo s a = true ->
  fst (check true true isrepo a tree breaking s) = s.
Proof.
  intros s a tree breaking isrepo Hwf Hf1 Hf2 Hb. unfold check.
  destruct (against_of a) as [ag|r] eqn:Eag; [|reflexivity].
  destruct (ro_call (c_f_root a) isrepo); try reflexivity.
  destruct (c_ext_fails a); [reflexivity|].
  unfold check_benign_guarded in Hb. rewrite (against_effective a ag Eag) in Hb. apply andb_true_iff in Hb. destruct Hb as [Hb1 Hb2].
  assert (H1 : fst (load_git true true isrepo (c_F1 a) (c_p1 a) ag tree (c_evs1 a) s) = s)
    by (apply load_git_guarded_restored_iff; assumption).
  destruct (load_git true true isrepo (c_F1 a) (c_p1 a) ag tree (c_evs1 a) s) as [s1 r1]. simpl in H1. subst s1.
  destruct r1 as [vo|e]; [|reflexivity].
  pose proof (load_new_guarded_restored s a tree isrepo Hwf Hf2 Hb2) as H2.
  destruct (load_new true true isrepo a tree s) as [s2 r2]. simpl in H2. subst s2.
  destruct r2; reflexivity.
Qed.

(* exit code: what check() returns once both sides have been loaded *)
Theorem check_exit_code :
  forall guard force isrepo a tree breaking s ag s1 vo s2 vn,
  against_of a = inl ag -> ro_call (c_f_root a) isrepo = Rc0 -> c_ext_fails a = false ->
  load_git guard force isrepo (c_F1 a) (c_p1 a) ag tree (c_evs1 a) s = (s1, Returned vo) ->
  load_new guard force isrepo a tree s1 = (s2, Returned vn) ->
  check guard force isrepo a tree breaking s = (s2, Returned (if breaking_pair breaking vo vn then 1 else 0)).
Proof.
  intros guard force isrepo a tree breaking s ag s1 vo s2 vn Hag Hroot Hext H1 H2.
  unfold check. rewrite Hag, Hroot, Hext, H1, H2. reflexivity.
Qed.

(* exit 0 is only ever returned after both sides were loaded and compared without a breaking change *)
Theorem check_zero_sound :
  forall guard force isrepo a tree breaking s,
  snd (check guard force isrepo a tree breaking s) = Returned 0 ->
  exists ag s1 vo s2 vn,
    against_of a = inl ag /\
    load_git guard force isrepo (c_F1 a) (c_p1 a) ag tree (c_evs1 a) s = (s1, Returned vo) /\
    load_new guard force isrepo a tree s1 = (s2, Returned vn) /\
    breaking_pair breaking vo vn = false.
Proof.
  intros guard force isrepo a tree breaking s. unfold check.
  destruct (against_of a) as [ag|r] eqn:Eag.
  - destruct (ro_call (c_f_root a) isrepo); simpl; try discriminate.
    destruct (c_ext_fails a); simpl; [discriminate|].
    destruct (load_git guard force isrepo (c_F1 a) (c_p1 a) ag tree (c_evs1 a) s) as [s1 [vo|e]] eqn:E1; simpl; [|discriminate].
    destruct (load_new guard force isrepo a tree s1) as [s2 [vn|e]] eqn:E2; simpl; [|discriminate].
    destruct (breaking_pair breaking vo vn) eqn:Eb; [discriminate|]. intros _.
    exists ag, s1, vo, s2, vn. repeat split; assumption.
  - simpl. intros H. subst r. unfold against_of in Eag. destruct (c_against a); [discriminate|].
    destruct (ro_call (c_f_tag a) true); try discriminate. destruct (c_latest a); discriminate.
Qed.

(* ------------------------------------------------------------------ histories *)

Theorem history_restored :
  forall tree breaking ops s,
  wf s = true -> forallb (op_ok s) ops = true ->
  fold_left (run_op tree breaking) ops s = s.
Proof.
  intros tree breaking ops s Hwf. induction ops as [|o ops IH]; simpl; intros H; [reflexivity|].
  apply andb_true_iff in H. destruct H as [Ho Hops].
  assert (E : run_op tree breaking s o = s).
  { destruct o as [isrepo F p ref evs|isrepo a]; simpl in *.
    - apply andb_true_iff in Ho. destruct Ho as [Hf Hb]. apply load_git_state_restored; assumption.
    - apply andb_true_iff in Ho. destruct Ho as [Hf Hb]. apply andb_true_iff in Hf. destruct Hf as [Hf1 Hf2].
      apply check_state_restored; assumption. }
  rewrite E. apply IH. exact Hops.
Qed.

(* ------------------------------------------------------------------ witnesses *)

Definition s_wit : repo := mkRepo (Some "main") 1 0 [("main", 1)] [("v1", 0)] [] [] [].
Definition tree_wit : list (commit * content) := [(0, CPackage); (1, CPackage)].

(* the defect repaired by the --force commit: without the flag a file written into the checkout leaves
   the temporary branch and a stale registration behind; with it the same run restores the state *)
Lemma without_force_refuted :
  exists s p ref tree evs,
    wf s = true /\ fresh p s = true /\ benign true s ref no_faults = true /\
    fst (load_git false false true no_faults p ref tree evs s) <> s /\
    fst (load_git false true true no_faults p ref tree evs s) = s.
Proof.
  exists s_wit, 7, "v1", tree_wit, [EvStep; EvWrite].
  repeat split; try reflexivity. vm_compute. intro H. discriminate H.
Qed.

(* F2: `worktree add` takes effect and then reports failure *)
Lemma add_after_refuted :
  exists s p ref tree evs F,
    wf s = true /\ fresh p s = true /\ f_add F = FailAfter /\
    fst (load_git false true true F p ref tree evs s) <> s /\
    snd (load_git false true true F p ref tree evs s) = Raised "RuntimeError".
Proof.
  exists s_wit, 7, "v1", tree_wit, [], (mkFaults NoFault false NoFault FailAfter NoFault NoFault RmOk).
  repeat split; try reflexivity. vm_compute. intro H. discriminate H.
Qed.

(* the repaired finding F3, now a positive statement: a stale, unlocked registration of the user's own survives *)
Definition s_wit_stale : repo :=
  mkRepo (Some "main") 1 0 [("main", 1); ("user", 0)] [("v1", 0)] [mkReg 3 (Some "user") false] [] [].

Example stale_registration_survives :
  wf s_wit_stale = true /\ fresh 7 s_wit_stale = true /\ no_prunable s_wit_stale = false /\
  load_git false true true no_faults 7 "v1" tree_wit [] s_wit_stale = (s_wit_stale, Returned 0).
Proof. repeat split; reflexivity. Qed.

(* why the cleanup faults are excluded by hypothesis: when `branch -D` itself fails nothing can remove the branch *)
Lemma cleanup_fault_refuted :
  exists s p ref tree evs F,
    wf s = true /\ fresh p s = true /\ f_branchD F = FailBefore /\
    fst (load_git false true true F p ref tree evs s) <> s.
Proof.
  exists s_wit, 7, "v1", tree_wit, [], (mkFaults NoFault false NoFault NoFault NoFault FailBefore RmOk).
  repeat split; try reflexivity. vm_compute. intro H. discriminate H.
Qed.

(* the hypotheses of the main theorem are satisfiable together with a non-trivial run *)
Example restored_nonvacuous :
  wf s_wit = true /\ fresh 7 s_wit = true /\
  benign true s_wit "v1" (mkFaults NoFault false NoFault NoFault FailAfter (RaiseAfter "KeyboardInterrupt") (RmRaiseAfter "KeyboardInterrupt")) = true /\
  load_git false true true (mkFaults NoFault false NoFault NoFault FailAfter (RaiseAfter "KeyboardInterrupt") (RmRaiseAfter "KeyboardInterrupt")) 7 "v1" tree_wit
           [EvWrite; EvRaise "Injected"] s_wit = (s_wit, Raised "KeyboardInterrupt").
Proof. repeat split; reflexivity. Qed.


(* ------------------------------------------------------------------ more witnesses (extended alphabet, repaired variant) *)

(* F2 in its torn form: interrupted after `git branch`, before the registration: the branch alone stays *)
Lemma add_torn_refuted :
  exists s p ref tree evs F,
    wf s = true /\ fresh p s = true /\ f_add F = Torn (Some "KeyboardInterrupt") /\
    fst (load_git false true true F p ref tree evs s) = leak_branch s (tmp_branch ref) 0 /\
    fst (load_git false true true F p ref tree evs s) <> s.
Proof.
  exists s_wit, 7, "v1", tree_wit, [], (mkFaults NoFault false NoFault (Torn (Some "KeyboardInterrupt")) NoFault NoFault RmOk).
  repeat split; try reflexivity. vm_compute. intro H. discriminate H.
Qed.

(* the very placements that defeat the code as it is are restored by the repaired variant *)
Example repaired_restores_f2 :
  let Fa := mkFaults NoFault false NoFault FailAfter NoFault NoFault RmOk in
  let Ft := mkFaults NoFault false NoFault (Torn (Some "KeyboardInterrupt")) NoFault NoFault RmOk in
  let Fr := mkFaults NoFault false NoFault (RaiseAfter "KeyboardInterrupt") NoFault NoFault RmOk in
  load_git true true true Fa 7 "v1" tree_wit [] s_wit = (s_wit, Raised "RuntimeError") /\
  load_git true true true Ft 7 "v1" tree_wit [] s_wit = (s_wit, Raised "KeyboardInterrupt") /\
  load_git true true true Fr 7 "v1" tree_wit [] s_wit = (s_wit, Raised "KeyboardInterrupt") /\
  fst (load_git false true true Fa 7 "v1" tree_wit [] s_wit) <> s_wit /\
  benign_guarded true s_wit "v1" Fa = true /\ benign true s_wit "v1" Fa = false.
Proof. repeat split; try reflexivity. vm_compute. intro H. discriminate H. Qed.

(* the user's own branch griffe-v1 is never deleted by the repaired variant: the existence test ends the call *)
Definition s_wit_owned : repo := mkRepo (Some "main") 1 0 [("main", 1); ("griffe-v1", 0)] [("v1", 0)] [] [] [].
Example repaired_keeps_user_branch :
  wf s_wit_owned = true /\ fresh 7 s_wit_owned = true /\
  load_git true true true no_faults 7 "v1" tree_wit [] s_wit_owned = (s_wit_owned, Raised "RuntimeError") /\
  load_git false true true no_faults 7 "v1" tree_wit [] s_wit_owned = (s_wit_owned, Raised "RuntimeError").
Proof. repeat split; reflexivity. Qed.

(* a name collision: mkdtemp returns a directory name under which a stale registration of an earlier, interrupted run
   still exists (fresh does NOT hold): `worktree add` creates its branch and only then refuses the path *)
Definition s_wit_collision : repo :=
  mkRepo (Some "main") 1 0 [("main", 1); ("old", 0)] [("v1", 0)] [mkReg 7 (Some "old") false] [] [].
Example occupied_path_leaks_branch :
  wf s_wit_collision = true /\ fresh 7 s_wit_collision = false /\
  load_git false true true no_faults 7 "v1" tree_wit [] s_wit_collision
  = (leak_branch s_wit_collision "griffe-v1" 0, Raised "RuntimeError").
Proof. repeat split; reflexivity. Qed.

(* the removal of the TemporaryDirectory fails in the middle: the repository is clean, the directory stays *)
Example rmtree_torn_leaves_tmp :
  let F := mkFaults NoFault false NoFault NoFault NoFault NoFault (RmTorn "OSError") in
  benign true s_wit "v1" F = false /\
  load_git false true true F 7 "v1" tree_wit [] s_wit
  = (mkRepo (Some "main") 1 0 [("main", 1)] [("v1", 0)] [] [] [7], Raised "OSError").
Proof. repeat split; reflexivity. Qed.

(* a torn `worktree remove`: the checkout is gone, its registration and the branch stay *)
Example remove_torn_leaves_registration :
  let F := mkFaults NoFault false NoFault NoFault (Torn None) NoFault RmOk in
  benign true s_wit "v1" F = false /\
  load_git false true true F 7 "v1" tree_wit [] s_wit = (leak_reg s_wit 7 "griffe-v1" 0, Returned 0).
Proof. repeat split; reflexivity. Qed.

Example guarded_nonvacuous :
  let F := mkFaults NoFault false NoFault (Torn None) FailBefore (RaiseAfter "KeyboardInterrupt") (RmRaiseAfter "OSError") in
  wf s_wit = true /\ fresh 7 s_wit = true /\ benign_guarded true s_wit "v1" F = true /\
  load_git true true true F 7 "v1" tree_wit [EvWrite] s_wit = (s_wit, Raised "OSError").
Proof. repeat split; reflexivity. Qed.
(* ------------------------------------------------------------------ `worktree remove` by name *)

(* a unique match that is not the main worktree: the named removal IS the removal of that worktree by its path *)
Theorem remove_named_unique : forall force nm name s r,
  filter (reg_named nm name) (regs s) = [r] -> String.eqb (fst nm) name = false ->
  wt_remove_named force nm name s = wt_remove force (rpath r) s.
Proof. intros force nm name s r H M. unfold wt_remove_named. rewrite H, M. reflexivity. Qed.

(* several worktrees whose directory has that name (the user's own `../worktrees/hotfix` next to Griffe's
   `<tmp>/hotfix`), or the main worktree's directory has it: refused, nothing changes *)
Theorem remove_named_ambiguous : forall force nm name s,
  (String.eqb (fst nm) name = true \/ List.length (filter (reg_named nm name) (regs s)) <> 1) ->
  wt_remove_named force nm name s = None.
Proof.
  intros force nm name s [M|L]; unfold wt_remove_named.
  - destruct (filter (reg_named nm name) (regs s)) as [|r [|r' l]]; try reflexivity. rewrite M. reflexivity.
  - destruct (filter (reg_named nm name) (regs s)) as [|r [|r' l]]; try reflexivity. exfalso. apply L. reflexivity.
Qed.

(* in the state the finally block starts from, the removal by PATH works for every naming, whereas the removal by the
   NAME of the checkout directory is refused as soon as one more worktree -- or the repository directory -- has that name *)
Theorem remove_by_name_refused_where_path_works :
  forall s p b c d nm name q,
  fresh p s = true -> has_branch b s = false ->
  nlookup p (snd nm) = Some name ->
  (String.eqb (fst nm) name = true \/ (registered q s = true /\ Nat.eqb q p = false /\ nlookup q (snd nm) = Some name)) ->
  wt_remove_named true nm name (conc s p b c (AFull d)) = None /\
  wt_remove true p (conc s p b c (AFull d)) = Some (conc s p b c ANoWt).
Proof.
  intros s p b c d nm name q Hfr Hnob Hp Hq. split.
  - apply remove_named_ambiguous. destruct Hq as [M|[Hreg [Hne Hn]]]; [left; exact M|right].
    assert (E : reg_named nm name (mkReg p (Some b) false) = true) by (unfold reg_named, naming, path in *; cbn [rpath]; rewrite Hp; apply String.eqb_refl).
    cbn [conc regs filter]. rewrite E. cbn [List.length].
    unfold registered in Hreg. apply existsb_exists in Hreg. destruct Hreg as [r [Hin Hr]]. apply Nat.eqb_eq in Hr.
    assert (In r (filter (reg_named nm name) (regs s))).
    { apply filter_In. split; [exact Hin|]. unfold reg_named, naming, path in *. rewrite Hr, Hn. apply String.eqb_refl. }
    destruct (filter (reg_named nm name) (regs s)); [contradiction|]. simpl. discriminate.
  - rewrite (remove_opt s p b c Hfr). reflexivity.
Qed.

Example remove_by_name_witness :
  let s := mkRepo (Some "main") 1 0 [("main", 1); ("hotfix", 0)] [] [mkReg 3 (Some "hotfix") false] [(3, false)] [] in
  let nm : naming := ("project", [(3, "hotfix"); (7, "hotfix")]) in
  wf s = true /\ fresh 7 s = true /\
  wt_remove_named true nm "hotfix" (conc s 7 "griffe-hotfix" 0 (AFull false)) = None /\
  wt_remove_named true ("project", [(3, "other"); (7, "hotfix")]) "hotfix" (conc s 7 "griffe-hotfix" 0 (AFull false))
  = Some (conc s 7 "griffe-hotfix" 0 ANoWt).
Proof. repeat split; reflexivity. Qed.

(* ------------------------------------------------------------------ _normalize *)

Fixpoint all_chars (P : ascii -> Prop) (s : string) : Prop :=
  match s with EmptyString => True | String c r => P c /\ all_chars P r end.

Definition safe_char (c : ascii) : Prop := is_word c = true \/ c = dash.

Lemma norm_aux_safe : forall s b, all_chars safe_char (norm_aux b s).
Proof.
  induction s as [|c r IH]; intros b; simpl; [exact I|].
  destruct (is_word c) eqn:E.
  - simpl. split; [left; exact E|apply IH].
  - destruct b; [apply IH|]. simpl. split; [right; reflexivity|apply IH].
Qed.

Lemma strip_last_dash_all : forall P s, all_chars P s -> all_chars P (strip_last_dash s).
Proof.
  intros P. induction s as [|c r IH]; simpl; intros H; [exact I|].
  destruct H as [Hc Hr]. destruct r as [|c' r'].
  - destruct (Ascii.eqb c dash); simpl; auto.
  - simpl. split; [exact Hc|]. apply IH. exact Hr.
Qed.

Theorem normalize_safe : forall s, all_chars safe_char (normalize s).
Proof. intros s. unfold normalize. apply strip_last_dash_all. apply norm_aux_safe. Qed.

Lemma all_chars_impl : forall (P Q : ascii -> Prop) s, (forall c, P c -> Q c) -> all_chars P s -> all_chars Q s.
Proof. intros P Q. induction s as [|c r IH]; simpl; intros H K; [exact I|]. destruct K. split; auto. Qed.

(* the checkout directory <tmp>/<normref> is a direct child of the temporary directory: no separator, no dot *)
Theorem normalize_no_separator :
  forall s, all_chars (fun c => c <> "/"%char /\ c <> "."%char /\ c <> " "%char /\ c <> "\"%char) (normalize s).
Proof.
  intros s. apply (all_chars_impl safe_char); [|apply normalize_safe].
  intros c [H|H].
  - repeat split; intro E; subst c; vm_compute in H; discriminate H.
  - subst c. repeat split; intro E; discriminate E.
Qed.

(* ------------------------------------------------------------------ Breakage._location *)

Lemma prefix_app : forall a b, String.prefix a (a ++ b) = true.
Proof.
  induction a as [|c a IH]; intros b; simpl; [destruct b; reflexivity|].
  destruct (ascii_dec c c) as [_|N]; [apply IH|contradiction].
Qed.

Lemma location_abs_skip : forall root rest,
  Forall (fun x => String.prefix wt_prefix x = false) root ->
  location_abs (root ++ rest) = location_abs rest.
Proof.
  induction root as [|x root IH]; intros rest H; simpl; [reflexivity|].
  inversion H; subst. rewrite H2. apply IH. assumption.
Qed.

Theorem location_prefix_stripped :
  forall root suffix dirname rel,
  Forall (fun x => String.prefix wt_prefix x = false) root ->
  location true (checkout_parts root (wt_prefix ++ suffix) dirname ++ rel) = rel.
Proof.
  intros root suffix dirname rel Hroot. unfold checkout_parts.
  unfold location. rewrite <- app_assoc. rewrite (location_abs_skip root _ Hroot).
  cbn [app location_abs]. rewrite prefix_app. reflexivity.
Qed.

(* the repaired finding F4: the checkout directory name is never empty (so the checkout is a sub-directory of the
   temporary directory, which is what checkout_parts assumes) and is a single path component *)
Theorem checkout_name_safe :
  forall ref, checkout_name ref <> "" /\
    all_chars (fun c => c <> "/"%char /\ c <> "."%char /\ c <> " "%char /\ c <> "\"%char) (checkout_name ref).
Proof.
  intros ref. unfold checkout_name. destruct (String.eqb (normalize ref) "") eqn:E.
  - split; [discriminate|]. simpl. repeat split; intro H; discriminate H.
  - split; [apply String.eqb_neq; exact E|apply normalize_no_separator].
Qed.

Example checkout_name_at : checkout_name "@" = "ref" /\ checkout_name "feat/x" = "feat-x" /\ tmp_branch "@" = "griffe-ref".
Proof. repeat split; reflexivity. Qed.

(* ------------------------------------------------------------------ lines collection *)

Lemma parts_eqb_refl : forall a, parts_eqb a a = true.
Proof. induction a as [|x a IH]; simpl; [reflexivity|]. rewrite String.eqb_refl. exact IH. Qed.

Lemma parts_eqb_eq : forall a b, parts_eqb a b = true -> a = b.
Proof.
  induction a as [|x a IH]; destruct b as [|y b]; simpl; intros H; try discriminate; [reflexivity|].
  apply andb_true_iff in H. destruct H as [H1 H2]. apply String.eqb_eq in H1. subst y. f_equal. apply IH. exact H2.
Qed.

Lemma visit_files_other : forall checkout files lc k,
  ~ In k (map (fun f => checkout ++ fst f) files) ->
  lc_get (visit_files checkout files lc) k = lc_get lc k.
Proof.
  induction files as [|[rel ls] files IH]; intros lc k H; simpl; [reflexivity|].
  rewrite IH.
  - unfold lc_set. simpl. destruct (parts_eqb (checkout ++ rel) k) eqn:E; [|reflexivity].
    apply parts_eqb_eq in E. exfalso. apply H. left. exact E.
  - intro K. apply H. right. exact K.
Qed.

(* every file the loader loaded from the checkout (static or dynamic analysis) is in the collection, with the text it
   had at that reference -- on EVERY file system, in particular the one in which the checkout no longer exists *)
Theorem objects_self_contained :
  forall fs checkout files lc rel ls,
  NoDup (map fst files) -> In (rel, ls) files ->
  obj_lines fs (visit_files checkout files lc) (checkout ++ rel) = ls.
Proof.
  intros fs checkout. induction files as [|[rel0 ls0] files IH]; intros lc rel ls Hnd Hin; [contradiction|].
  simpl in Hnd. inversion Hnd as [|? ? Hnot Hnd']; subst. simpl.
  destruct Hin as [E|Hin].
  - inversion E; subst. unfold obj_lines. rewrite visit_files_other.
    + unfold lc_set. simpl. rewrite parts_eqb_refl. reflexivity.
    + intro K. apply in_map_iff in K. destruct K as [[rel1 ls1] [K1 K2]]. simpl in K1.
      apply app_inv_head in K1. subst rel1. apply Hnot. apply in_map_iff. exists (rel, ls1). split; [reflexivity|exact K2].
  - apply IH; assumption.
Qed.

(* the loader only ever stores: a collection without promises stays without promises *)
Lemma visit_files_all_stored : forall checkout files lc, all_stored lc = true -> all_stored (visit_files checkout files lc) = true.
Proof.
  induction files as [|[rel ls] files IH]; intros lc H; simpl; [exact H|]. apply IH. unfold lc_set. simpl. exact H.
Qed.

Lemma lc_get_stored : forall lc k e, all_stored lc = true -> lc_get lc k = Some e -> exists l, e = Stored l.
Proof.
  induction lc as [|[k' v] lc IH]; simpl; intros k e H G; [discriminate|].
  apply andb_true_iff in H. destruct H as [Hv Hl]. destruct (parts_eqb k' k).
  - inversion G; subst. destruct e as [l|]; [exists l; reflexivity|discriminate].
  - eapply IH; eassumption.
Qed.

(* "the objects returned remain fully usable after the temporary checkout has been removed": what any object gives as
   its lines / source is the same on every two file systems, for every path and every span *)
Theorem lines_independent_of_filesystem :
  forall fs1 fs2 checkout files lc filepath lineno endlineno,
  all_stored lc = true ->
  obj_lines fs1 (visit_files checkout files lc) filepath = obj_lines fs2 (visit_files checkout files lc) filepath /\
  obj_source fs1 (visit_files checkout files lc) filepath lineno endlineno
  = obj_source fs2 (visit_files checkout files lc) filepath lineno endlineno.
Proof.
  intros fs1 fs2 checkout files lc filepath lineno endlineno H.
  pose proof (visit_files_all_stored checkout files lc H) as A.
  assert (E : obj_lines fs1 (visit_files checkout files lc) filepath = obj_lines fs2 (visit_files checkout files lc) filepath).
  { unfold obj_lines. destruct (lc_get (visit_files checkout files lc) filepath) as [e|] eqn:G; [|reflexivity].
    destruct (lc_get_stored _ _ _ A G) as [l ->]. reflexivity. }
  split; [exact E|]. unfold obj_source. rewrite E. reflexivity.
Qed.

(* the statement is not vacuous: with a promise in the collection (a lazy read, which the code as it is never makes)
   the lines depend on whether the checkout still exists *)
Example deferred_depends_on_filesystem :
  let k := ["tmp"; "griffe-worktree-x"; "v1"; "pkg"; "a.py"] in
  obj_lines [(k, ["x = 1"])] [(k, Deferred)] k = ["x = 1"] /\ obj_lines [] [(k, Deferred)] k = [] /\
  all_stored [(k, Deferred)] = false.
Proof. repeat split; reflexivity. Qed.

Example objects_self_contained_nonvacuous :
  obj_source [] (visit_files ["tmp"; "co"] [(["pkg"; "a.py"], ["import os"; "def f():"; "    return 1"; "x = 2"])] []) ["tmp"; "co"; "pkg"; "a.py"] 2 3
  = ["def f():"; "    return 1"].
Proof. reflexivity. Qed.

(* `git worktree prune` never does anything for Griffe's own worktree in the states the finally block can be in
   (a torn `worktree remove` aside): its only possible effect is on registrations that were already prunable before the
   call (finding F3) *)
Theorem prune_is_noop_in_cleanup :
  forall s p b c a, fresh p s = true -> no_prunable s = true -> a <> AStale -> wt_prune (conc s p b c a) = conc s p b c a.
Proof. intros s p b c a Hfr Hnp Hne. apply prune_sim; assumption. Qed.
