(* C05: one module of the dependency-order schedule.  Part 1: what the visitor leaves in a module (independent of tables),
   and the side conditions of the override theorem (body_ok) from the decidable wf_body. *)
From Coq Require Import List ZArith String Ascii Bool Arith Lia.
From Verif Require Import Lib.Sexp Model.C05_imports Model.C05_wf Proofs.C05_imports Proofs.C05_resolve Proofs.C05_compose.
Import ListNotations.
Open Scope string_scope.
Open Scope list_scope.
Open Scope nat_scope.

Lemma stmt_line_ln s : stmt_line s = stmt_ln s.
Proof. destruct s; reflexivity. Qed.

Lemma lines_increase_tail s r : lines_increase (s :: r) = true -> lines_increase r = true.
Proof. destruct r as [|s2 r]; simpl; auto. intros H. apply andb_true_iff in H. apply H. Qed.

Lemma lines_increase_head s r : lines_increase (s :: r) = true -> forall s', In s' r -> stmt_line s < stmt_line s'.
Proof.
  revert s. induction r as [|s2 r IH]; intros s H s' Hin; [contradiction|].
  simpl in H. apply andb_true_iff in H. destruct H as [Hlt Hr]. apply Nat.ltb_lt in Hlt.
  destruct Hin as [Hin|Hin]; [subst; auto|]. specialize (IH s2 Hr s' Hin). lia.
Qed.

Lemma lines_increase_suffix l r : lines_increase (l ++ r) = true -> lines_increase r = true.
Proof. induction l as [|s l IH]; simpl app; auto. intros H. apply IH. eapply lines_increase_tail; eauto. Qed.

Lemma lines_increase_increasing body : lines_increase body = true -> increasing body.
Proof.
  intros H l1 s1 l2 s2 l3 E. subst body. apply lines_increase_suffix in H.
  rewrite <- !stmt_line_ln. apply (lines_increase_head s1 _ H). apply in_or_app. right. left. reflexivity.
Qed.

Section Visit.
Variable mp : path.
Variable is_init : bool.

Lemma visit_keys_nodup body : NoDup (map fst (members (visit_body mp is_init body))).
Proof.
  induction body as [|s body IH] using rev_ind.
  - constructor.
  - rewrite visit_body_snoc, visit_members. destruct (bind_of mp is_init s) as [[a v]|]; auto. apply assign_keys_nodup. auto.
Qed.

Lemma bind_of_not_sub s a m : bind_of mp is_init s = Some (a, m) -> m <> MSub.
Proof.
  destruct s; simpl; try discriminate; try (intros H; inversion H; subst; discriminate).
  - destruct (bare && is_init && match asn with None => true | Some _ => false end); try discriminate.
    destruct (path_eqb _ _); try discriminate. intros H; inversion H; subst; discriminate.
  - destruct asn; intros H; inversion H; subst; discriminate.
Qed.

Lemma visit_lookup_binder body k m :
  lookup k (members (visit_body mp is_init body)) = Some m -> exists s, In s body /\ bind_of mp is_init s = Some (k, m).
Proof. intros H. apply lookup_In in H. apply (visit_from_body mp is_init body k m H). Qed.

Lemma visit_no_sub body k : lookup k (members (visit_body mp is_init body)) <> Some MSub.
Proof.
  intros H. destruct (visit_lookup_binder body k MSub H) as [s [_ Hb]]. eapply bind_of_not_sub; eauto.
Qed.

Lemma visit_star_key body k T ln :
  lookup k (members (visit_body mp is_init body)) = Some (MAlias T ln true) -> k = star_name T /\ In (SStar ln T) body.
Proof.
  intros H. destruct (visit_lookup_binder body k _ H) as [s [Hin Hb]].
  destruct (bind_star_flag mp is_init s k T ln Hb) as [Hs Hk]. subst. auto.
Qed.

(* the bound name of an explicit binder *)
Lemma bind_of_bound_name s a m : bind_of mp is_init s = Some (a, m) -> star_flagged m = false -> bound_name s = Some a \/ (a = "__all__" /\ exists ln its, s = SSetAll ln its).
Proof.
  destruct s; simpl; try discriminate.
  - intros H; inversion H; auto.
  - destruct (bare && is_init && match asn with None => true | Some _ => false end); try discriminate.
    destruct (path_eqb _ _); try discriminate. intros H; inversion H; auto.
  - intros H; inversion H; subst. simpl. discriminate.
  - destruct asn; intros H; inversion H; auto.
  - intros H; inversion H; subst. intros _. right. eauto.
Qed.

(* ---- submodules attached after the visit ---- *)
Lemma attach_members_cons st c cs : attach_children st (c :: cs) = attach_children (set_members st (assign c MSub (members st))) cs.
Proof. reflexivity. Qed.

Lemma attach_lookup_other cs : forall st n, ~ In n cs -> lookup n (members (attach_children st cs)) = lookup n (members st).
Proof.
  induction cs as [|c cs IH]; intros st n Hn; auto.
  rewrite attach_members_cons, IH by (intros H; apply Hn; right; auto).
  simpl. apply lookup_assign_other. intros Heq. apply Hn. left. auto.
Qed.

Lemma attach_lookup_child cs : forall st c, In c cs -> lookup c (members (attach_children st cs)) = Some MSub.
Proof.
  induction cs as [|c0 cs IH]; intros st c Hin; [contradiction|].
  rewrite attach_members_cons. destruct (in_dec string_dec c cs) as [Hc|Hc]; [apply IH; auto|].
  rewrite attach_lookup_other by auto. destruct Hin as [Hin|Hin]; [|contradiction]. subst. simpl. apply lookup_assign_same.
Qed.

Lemma attach_keys_nodup cs : forall st, NoDup (map fst (members st)) -> NoDup (map fst (members (attach_children st cs))).
Proof.
  induction cs as [|c cs IH]; intros st H; auto.
  rewrite attach_members_cons. apply IH. simpl. apply assign_keys_nodup. auto.
Qed.

Lemma attach_imports cs : forall st, imports (attach_children st cs) = imports st.
Proof. induction cs as [|c cs IH]; intros st; auto. rewrite attach_members_cons, IH. reflexivity. Qed.

Lemma attach_exports cs : forall st, exports (attach_children st cs) = exports st.
Proof. induction cs as [|c cs IH]; intros st; auto. rewrite attach_members_cons, IH. reflexivity. Qed.

Lemma attach_sub_only body cs k :
  lookup k (members (attach_children (visit_body mp is_init body) cs)) = Some MSub -> In k cs.
Proof.
  intros H. destruct (in_dec string_dec k cs) as [Hk|Hk]; auto.
  rewrite attach_lookup_other in H by auto. exfalso. eapply visit_no_sub; eauto.
Qed.

(* the wildcard pseudo-members are untouched by the attachment when no submodule has such a name *)
Lemma flat_map_assign_irrelevant {B} (f : string * member -> list B) c v : forall l,
  f (c, v) = [] -> (forall w, lookup c l = Some w -> f (c, w) = []) -> flat_map f (assign c v l) = flat_map f l.
Proof.
  induction l as [|[k w] r IH]; simpl; intros Hv Hold.
  - rewrite Hv. reflexivity.
  - destruct (String.eqb k c) eqn:E; simpl.
    + apply String.eqb_eq in E. subst k. rewrite Hv. rewrite (Hold w eq_refl). reflexivity.
    + f_equal. apply IH; auto.
Qed.

Lemma attach_flat_map {B} (f : string * member -> list B) body cs :
  (forall k m, f (k, m) <> [] -> star_flagged m = true) ->
  (forall c, In c cs -> ~ is_star_name c) ->
  flat_map f (members (attach_children (visit_body mp is_init body) cs)) = flat_map f (members (visit_body mp is_init body)).
Proof.
  intros Hf Hcs.
  assert (G : forall cs' st, (forall c, In c cs' -> ~ is_star_name c) ->
                             (forall k m, lookup k (members st) = Some m -> star_flagged m = true -> is_star_name k) ->
                             flat_map f (members (attach_children st cs')) = flat_map f (members st)).
  { induction cs' as [|c cs' IH]; intros st Hc Hst; auto.
    rewrite attach_members_cons, IH.
    - simpl. apply flat_map_assign_irrelevant.
      + destruct (f (c, MSub)) eqn:E; auto. assert (Hne : f (c, MSub) <> []) by congruence. apply Hf in Hne. discriminate.
      + intros w Hw. destruct (f (c, w)) eqn:E; auto. assert (Hne : f (c, w) <> []) by congruence. apply Hf in Hne.
        exfalso. apply (Hc c (or_introl eq_refl)). eapply Hst; eauto.
    - intros c' Hc'. apply Hc. right. auto.
    - simpl. intros k m Hl Hm. destruct (String.eqb c k) eqn:E.
      + apply String.eqb_eq in E. subst. rewrite lookup_assign_same in Hl. inversion Hl; subst. discriminate.
      + rewrite lookup_assign_other in Hl by (intros Heq; subst; rewrite String.eqb_refl in E; discriminate). eauto. }
  apply G; auto.
  intros k m Hl Hm. destruct m as [| |T ln [|]|]; simpl in Hm; try discriminate.
  destruct (visit_star_key body k T ln Hl) as [Hk _]. exists T. auto.
Qed.

(* ---- what the visitor records as exports ---- *)
Fixpoint all_items (acc : option (list item)) (body : list stmt) : option (list item) :=
  match body with
  | [] => acc
  | SSetAll _ its :: r => all_items (Some its) r
  | SAddAll _ its :: r | SExtAll _ its :: r => all_items (match acc with Some e => Some (e ++ its) | None => None end) r
  | _ :: r => all_items acc r
  end.

Lemma visit_exports body : forall st, exports (fold_left (visit_stmt mp is_init) body st) = all_items (exports st) body.
Proof.
  induction body as [|s body IH]; intros st; auto. simpl fold_left. rewrite IH.
  destruct s; simpl; auto.
  - destruct (bare && is_init && match asn with None => true | Some _ => false end); auto.
    destruct (path_eqb _ _); auto.
  - destruct asn; auto.
  - destruct (exports st) eqn:E; simpl; rewrite ?E; auto.
  - destruct (exports st) eqn:E; simpl; rewrite ?E; auto.
Qed.

(* ---- what the visitor records as imports ---- *)
Lemma visit_imports_bound body : forall st n,
  In n (imports (fold_left (visit_stmt mp is_init) body st)) ->
  In n (imports st) \/ exists s, In s body /\ bound_name s = Some n /\ (forall ln x k, s <> SDef ln x k).
Proof.
  induction body as [|s body IH]; intros st n H; auto. simpl in H. apply IH in H. destruct H as [H|[s' [Hin Hb]]].
  - destruct s as [ln x k|ln T x asn bare|ln T|ln T asn|ln its|ln its|ln its]; simpl in H; try (left; exact H).
    + destruct (bare && is_init && match asn with None => true | Some _ => false end); [left; exact H|].
      assert (Hi : In n (imports st ++ [match asn with Some a => a | None => x end])).
      { destruct (path_eqb _ _); simpl in H; auto. }
      apply in_app_or in Hi. destruct Hi as [Hi|[Hi|[]]]; auto. right. eexists. split; [left; reflexivity|].
      split; [simpl; f_equal; auto|discriminate].
    + destruct asn; simpl in H; apply in_app_or in H; destruct H as [H|[H|[]]]; auto;
        right; eexists; (split; [left; reflexivity|]); (split; [simpl; f_equal; auto|discriminate]).
    + destruct (exports st); auto.
    + destruct (exports st); auto.
  - right. exists s'. split; [right; auto|auto].
Qed.

End Visit.

(* ------------------------------------------------------------------------------------------------------------ *)
(* body_ok from wf_body                                                                                          *)
(* ------------------------------------------------------------------------------------------------------------ *)
Lemma stmt_ok_bound_plain mp is_init cs s n : stmt_ok mp is_init cs s = true -> bound_name s = Some n -> plain n = true.
Proof.
  destruct s; simpl; try discriminate; intros H Hb; inversion Hb; subst.
  - apply andb_true_iff in H. apply H.
  - apply andb_true_iff in H. destruct H as [H _]. apply andb_true_iff in H. destruct H as [H _].
    apply andb_true_iff in H. apply H.
  - apply andb_true_iff in H. apply H.
Qed.

Lemma stmt_ok_bound_child mp is_init cs s n :
  stmt_ok mp is_init cs s = true -> bound_name s = Some n -> In n cs ->
  exists ln T x asn bare, s = SFrom ln T x asn bare /\ T = mp /\ x = n.
Proof.
  destruct s; simpl; try discriminate; intros H Hb Hin; inversion Hb; subst.
  - apply andb_true_iff in H. destruct H as [_ H]. apply mem_str_In in Hin. rewrite Hin in H. discriminate.
  - apply andb_true_iff in H. destruct H as [H _]. apply andb_true_iff in H. destruct H as [H _].
    apply andb_true_iff in H. destruct H as [_ H2]. apply mem_str_In in Hin. rewrite Hin in H2.
    apply path_eqb_eq in H2. apply app_inj_tail in H2. destruct H2. subst. do 5 eexists. eauto.
  - apply andb_true_iff in H. destruct H as [_ H]. apply mem_str_In in Hin. rewrite Hin in H. discriminate.
Qed.

Lemma star_targets_In body ln T : In (SStar ln T) body -> In T (star_targets body).
Proof. intros H. unfold star_targets. apply in_flat_map. exists (SStar ln T). split; simpl; auto. Qed.

Lemma wf_body_ok mp is_init cs body : wf_body mp is_init cs body = true -> body_ok mp is_init body.
Proof.
  unfold wf_body. intros H.
  apply andb_true_iff in H. destruct H as [H Hinj]. apply andb_true_iff in H. destruct H as [H Hrefs].
  apply andb_true_iff in H. destruct H as [H Hcs]. apply andb_true_iff in H. destruct H as [Hinc Hst].
  split.
  - apply lines_increase_increasing. auto.
  - intros s a v Hin Hv Hb. rewrite forallb_forall in Hst. specialize (Hst s Hin).
    destruct (bind_of_bound_name mp is_init s a v Hb Hv) as [Hbn|[Ha _]].
    + apply plain_not_star. eapply stmt_ok_bound_plain; eauto.
    + subst. intros [T HT]. pose proof (star_name_ends_star T) as He. rewrite <- HT in He. vm_compute in He. discriminate.
  - intros ln1 T1 ln2 T2 H1 H2 Heq. rewrite forallb_forall in Hinj.
    specialize (Hinj T1 (star_targets_In body ln1 T1 H1)). rewrite forallb_forall in Hinj.
    specialize (Hinj T2 (star_targets_In body ln2 T2 H2)). rewrite Heq, String.eqb_refl in Hinj. simpl in Hinj.
    apply path_eqb_eq. auto.
Qed.
