(* C08 proofs: reading a printed document with the object hook called on the way gives the decoding of the document. *)
From Coq Require Import List ZArith String Ascii Bool Arith Lia DecimalString.
From Verif Require Import Lib.Sexp Gen.C08_tables Model.C08_json Model.C08_full Model.C08_text Model.C08_hook Proofs.C08_json Proofs.C08_full Proofs.C08_text.
Import ListNotations.
Open Scope string_scope.
Open Scope list_scope.
Open Scope nat_scope.

Definition of_res (r : res pv) (k : string) : hres pv := match r with Ok v => HOk v k | Err e => HHook e end.
Definition of_res_l {A} (r : res A) (k : string) : hres A := match r with Ok v => HOk v k | Err e => HHook e end.

Lemma pvh_ws f s : parse_value_h f (String (ch 32) s) = parse_value_h f s.
Proof. destruct f; reflexivity. Qed.
Lemma pvh_str f r : parse_value_h (S f) (String dquote r) = of_pres PStr (parse_str_body r).
Proof. reflexivity. Qed.
Lemma pvh_arr f r :
  parse_value_h (S f) (String (ch 91) r)
  = match skip_ws r with
    | EmptyString => HJson
    | String c2 r2 => if code c2 =? 93 then HOk (PList []) r2 else hmap PList (parse_elems_h (parse_value_h f) f (String c2 r2))
    end.
Proof. reflexivity. Qed.
Lemma pvh_obj f r :
  parse_value_h (S f) (String (ch 123) r)
  = match skip_ws r with
    | EmptyString => HJson
    | String c2 r2 => if code c2 =? 125 then call_hook (HOk [] r2) else call_hook (parse_membs_h (parse_value_h f) f (String c2 r2))
    end.
Proof. reflexivity. Qed.
Lemma pvh_num f c r : num_head c = true -> parse_value_h (S f) (String c r) = of_pres leaf_pv (parse_number (String c r)).
Proof.
  destruct c as [[|] [|] [|] [|] [|] [|] [|] [|]]; intro H; try (exfalso; vm_compute in H; discriminate H); reflexivity.
Qed.

Definition hooks_back (y : json) : Prop :=
  forall k f, num_end k = true -> jsize y <= f -> parse_value_h f (print_k y k) = of_res (decode y) k.

Lemma parse_elems_h_ws f n s : parse_elems_h (parse_value_h f) n (String (ch 32) s) = parse_elems_h (parse_value_h f) n s.
Proof. destruct n; [reflexivity|]. cbn [parse_elems_h]. rewrite pvh_ws. reflexivity. Qed.

Lemma elems_hook : forall r x k f n,
  Forall hooks_back (x :: r) -> num_end k = true -> sum_sizes (x :: r) <= f -> List.length (x :: r) <= n ->
  parse_elems_h (parse_value_h f) n (print_k x (pelems k false r)) = of_res_l (mapM decode (x :: r)) k.
Proof.
  induction r as [|y r' IH]; intros x k f n HF Hk Hs Hn.
  - destruct n as [|n']; [cbn in Hn; lia|]. cbn [pelems parse_elems_h].
    inversion HF as [|? ? Hx _]; subst. rewrite (Hx (String (ch 93) k) f); [|reflexivity|rewrite sum_sizes_cons in Hs; lia].
    rewrite mapM_cons, mapM_nil. destruct (decode x) as [v|e]; cbn [of_res of_res_l bind]; [|reflexivity].
    rewrite skip_ws_nonws by reflexivity. reflexivity.
  - destruct n as [|n']; [cbn in Hn; lia|]. cbn [pelems parse_elems_h].
    inversion HF as [|? ? Hx HF']; subst. rewrite sum_sizes_cons in Hs.
    change (append ", " (print_k y (pelems k false r'))) with (String (ch 44) (String (ch 32) (print_k y (pelems k false r')))).
    rewrite (Hx _ f); [|reflexivity|lia].
    rewrite (mapM_cons decode x (y :: r')). destruct (decode x) as [v|e]; cbn [of_res of_res_l bind]; [|reflexivity].
    rewrite skip_ws_nonws by reflexivity. change (code (ch 44) =? 44) with true. cbv iota.
    rewrite parse_elems_h_ws. rewrite (IH y k f n' HF' Hk); [|lia|cbn [List.length] in *; lia].
    destruct (mapM decode (y :: r')) as [vs|e]; reflexivity.
Qed.

Lemma membs_hook : forall r key v k f n,
  Forall (fun kv : string * json => hooks_back (snd kv)) ((key, v) :: r) -> num_end k = true ->
  sum_msizes ((key, v) :: r) <= f -> List.length ((key, v) :: r) <= n ->
  parse_membs_h (parse_value_h f) n (quote_k key (append ": " (print_k v (pmembs k false r))))
  = of_res_l (mapM dec_kv ((key, v) :: r)) k.
Proof.
  induction r as [|[key2 v2] r' IH]; intros key v k f n HF Hk Hs Hn.
  - destruct n as [|n']; [cbn in Hn; lia|]. unfold quote_k. cbn [parse_membs_h].
    change (code dquote =? 34) with true. cbv iota. rewrite escape_parse.
    change (append ": " (print_k v (pmembs k false []))) with (String (ch 58) (String (ch 32) (print_k v (pmembs k false [])))).
    rewrite skip_ws_nonws by reflexivity. change (code (ch 58) =? 58) with true. cbv iota.
    rewrite pvh_ws. inversion HF as [|? ? Hx _]; subst. cbn [snd] in Hx. cbn [pmembs].
    rewrite (Hx (String (ch 125) k) f); [|reflexivity|rewrite sum_msizes_cons in Hs; cbn [snd] in Hs; lia].
    rewrite mapM_cons, mapM_nil. cbn [dec_kv]. destruct (decode v) as [w|e]; cbn [of_res of_res_l bind]; [|reflexivity].
    rewrite skip_ws_nonws by reflexivity. reflexivity.
  - destruct n as [|n']; [cbn in Hn; lia|]. unfold quote_k at 1. cbn [parse_membs_h].
    change (code dquote =? 34) with true. cbv iota. rewrite escape_parse.
    match goal with |- context [append ": " ?X] => change (append ": " X) with (String (ch 58) (String (ch 32) X)) end.
    rewrite skip_ws_nonws by reflexivity. change (code (ch 58) =? 58) with true. cbv iota.
    rewrite pvh_ws. inversion HF as [|? ? Hx HF']; subst. cbn [snd] in Hx.
    rewrite sum_msizes_cons in Hs. cbn [snd] in Hs.
    cbn [pmembs].
    match goal with |- context [append ", " ?X] => change (append ", " X) with (String (ch 44) (String (ch 32) X)) end.
    rewrite (Hx _ f); [|reflexivity|lia].
    rewrite (mapM_cons dec_kv (key, v) ((key2, v2) :: r')). cbn [dec_kv].
    destruct (decode v) as [w|e]; cbn [of_res of_res_l bind]; [|reflexivity].
    rewrite skip_ws_nonws by reflexivity. change (code (ch 44) =? 44) with true. cbv iota.
    match goal with |- context [skip_ws (String (ch 32) (quote_k ?a ?b))] =>
      change (skip_ws (String (ch 32) (quote_k a b))) with (quote_k a b) end.
    rewrite (IH key2 v2 k f n' HF' Hk); [|lia|cbn [List.length] in *; lia].
    destruct (mapM dec_kv ((key2, v2) :: r')) as [vs|e]; reflexivity.
Qed.

Theorem parse_hook : forall j, hooks_back j.
Proof.
  induction j using json_ind'; intros k f Hk Hf.
  - destruct f; [cbn in Hf; lia|]. reflexivity.
  - destruct f; [cbn in Hf; lia|]. destruct b; reflexivity.
  - destruct f; [cbn in Hf; lia|]. cbn [print_k].
    destruct (print_Z_head z k) as (c & r & E & Hc). rewrite E, (pvh_num f c r Hc), <- E, (parse_number_print z k Hk). reflexivity.
  - destruct f; [cbn in Hf; lia|]. cbn [print_k]. unfold quote_k. rewrite pvh_str, escape_parse. reflexivity.
  - destruct f as [|f]; [cbn in Hf; lia|]. rewrite print_arr, pvh_arr, decode_arr.
    cbn [jsize] in Hf. fold (sum_sizes l) in Hf.
    destruct l as [|x r].
    + cbn [pelems]. rewrite skip_ws_nonws by reflexivity. reflexivity.
    + cbn [pelems append].
      destruct (print_k_head x (pelems k false r)) as (c2 & r2 & E & Hws & H93 & _).
      rewrite E, (skip_ws_nonws _ _ Hws), H93, <- E.
      rewrite (elems_hook r x k f f H Hk); [|lia|pose proof (length_sum (x :: r)); lia].
      destruct (mapM decode (x :: r)) as [vs|e]; reflexivity.
  - destruct f as [|f]; [cbn in Hf; lia|]. rewrite print_obj, pvh_obj, decode_obj.
    cbn [jsize] in Hf. fold (sum_msizes kvs) in Hf.
    destruct kvs as [|[key v] r].
    + cbn [pmembs]. rewrite skip_ws_nonws by reflexivity. change (code (ch 125) =? 125) with true. cbv iota.
      rewrite mapM_nil. cbn [bind call_hook]. destruct (hook []); reflexivity.
    + cbn [pmembs append]. unfold quote_k at 1.
      rewrite skip_ws_nonws by reflexivity. change (code dquote =? 125) with false. cbv iota.
      change (String dquote (escape_k key (String dquote (String ":" (String " " (print_k v (pmembs k false r)))))))
        with (quote_k key (append ": " (print_k v (pmembs k false r)))).
      rewrite (membs_hook r key v k f f H Hk); [|lia|pose proof (length_msum ((key, v) :: r)); lia].
      destruct (mapM dec_kv ((key, v) :: r)) as [vs|e]; [|reflexivity]. cbn [of_res_l call_hook bind]. destruct (hook vs); reflexivity.
Qed.

Definition tres_of (r : res pv) : tres := match r with Ok v => TOk v | Err e => TErr e end.

(* json.loads(json.dumps(j), object_hook=json_decoder), the hook being called while the text is read, is the decoding of j *)
Theorem loads_hook_dumps : forall j, loads_hook (dumps j) = tres_of (decode j).
Proof.
  intro j. unfold loads_hook, dumps. rewrite (parse_hook j EmptyString); [|reflexivity|pose proof (print_length j EmptyString); lia].
  destruct (decode j); reflexivity.
Qed.

(* Module.from_json (tree.as_json()) with the hook called while the text is read, both modes *)
Theorem hook_decode_min : forall t, rep t = true -> loads_hook (dumps (enc_min t)) = TOk (PTree (reload t)).
Proof. intros t H. rewrite loads_hook_dumps, (decode_enc_min t H). reflexivity. Qed.

Theorem hook_decode_full : forall c t j, rep t = true -> enc_fullD c t = Ok j -> loads_hook (dumps j) = TOk (PTree (reload t)).
Proof. intros c t j H E. rewrite loads_hook_dumps, (full_decodeD c t j H E). reflexivity. Qed.

(* on a text that is JSON the two readings agree; they differ only on the order in which errors are found *)
Theorem hook_agrees_on_json : forall j, loads_hook (dumps j) = loads_decode (dumps j).
Proof. intro j. rewrite loads_hook_dumps. unfold loads_decode. rewrite loads_dumps. destruct (decode j); reflexivity. Qed.

Example example_hook :
  loads_hook "{""kind"": ""alias"", ""name"": ""a""} x" = TErr (EKey "target_path") /\
  loads_decode "{""kind"": ""alias"", ""name"": ""a""} x" = TJson /\
  loads_hook "[{""cls"": ""ExprBogus""}, }" = TErr EAttr /\ loads_hook "[1, }" = TJson.
Proof. vm_compute. repeat split. Qed.
