(* C06 proofs: termination (fuel sufficiency), error discipline, passed-flag restoration, all-or-nothing, fixpoint. *)
From Coq Require Import List String Bool Arith Lia.
From Verif Require Import Lib.Sexp Model.C06_alias.
Import ListNotations.
Open Scope string_scope.
Open Scope list_scope.
Open Scope nat_scope.

(* ------------------------------------------------------------------------------------------------------------ *)
(* generic list facts                                                                                            *)
(* ------------------------------------------------------------------------------------------------------------ *)
Lemma update_length : forall A (l : list A) i x, List.length (update l i x) = List.length l.
Proof. induction l; destruct i; simpl; intros; auto. Qed.

Lemma nth_update_same : forall A (l : list A) i x, i < List.length l -> nth_error (update l i x) i = Some x.
Proof. induction l; destruct i; simpl; intros; try lia; auto. apply IHl. lia. Qed.

Lemma nth_update_other : forall A (l : list A) i j x, i <> j -> nth_error (update l i x) j = nth_error l j.
Proof. induction l; destruct i; destruct j; simpl; intros; auto; try congruence. Qed.

Lemma update_id : forall A (l : list A) i x, nth_error l i = Some x -> update l i x = l.
Proof. induction l; destruct i; simpl; intros; try discriminate; auto. congruence. f_equal. auto. Qed.

Lemma update_update : forall A (l : list A) i x y, update (update l i x) i y = update l i y.
Proof. induction l; destruct i; simpl; intros; auto. f_equal. auto. Qed.

Lemma nth_error_lt : forall A (l : list A) i x, nth_error l i = Some x -> i < List.length l.
Proof. intros. apply nth_error_Some. congruence. Qed.

Lemma mem_str_In : forall s l, mem_str s l = true <-> In s l.
Proof.
  induction l; simpl. split; [discriminate | tauto].
  destruct (String.eqb s a) eqn:E.
  - apply String.eqb_eq in E. subst. tauto.
  - apply String.eqb_neq in E. rewrite IHl. split; [tauto | intros [H | H]; [congruence | auto]].
Qed.

(* ------------------------------------------------------------------------------------------------------------ *)
(* the only mutations: an unset link becomes set; flags are equal at the boundaries of every call              *)
(* ------------------------------------------------------------------------------------------------------------ *)
Definition step_rel (n n' : node) : Prop :=
  match n, n' with
  | NObj p c ms, NObj p' c' ms' => p = p' /\ c = c' /\ ms = ms'
  | NAlias p tp t pa w, NAlias p' tp' t' pa' w' =>
      p = p' /\ tp = tp' /\ w = w' /\ pa = pa' /\ (t' = t \/ (t = None /\ pa = false))
  | _, _ => False
  end.

Definition R (h h' : heap) : Prop := Forall2 step_rel h h'.

Lemma step_rel_refl : forall n, step_rel n n.
Proof. destruct n; simpl; auto 10. Qed.

Lemma step_rel_trans : forall a b c, step_rel a b -> step_rel b c -> step_rel a c.
Proof.
  destruct a, b, c; simpl; intros; try tauto.
  - intuition congruence.
  - destruct H as (?&?&?&?&?), H0 as (?&?&?&?&?). subst. repeat split; auto.
    destruct H4 as [?|[? ?]], H8 as [?|[? ?]]; subst; auto.
Qed.

Lemma R_refl : forall h, R h h.
Proof. induction h; constructor; auto using step_rel_refl. Qed.

Lemma R_trans : forall a b c, R a b -> R b c -> R a c.
Proof.
  intros a b c H. revert c. induction H; intros c Hc; inversion Hc; subst; constructor.
  - eapply step_rel_trans; eauto.
  - apply IHForall2; auto.
Qed.

Lemma R_length : forall h h', R h h' -> List.length h' = List.length h.
Proof. induction 1; simpl; auto. Qed.

Lemma R_nth : forall h h', R h h' -> forall i n, nth_error h i = Some n -> exists n', nth_error h' i = Some n' /\ step_rel n n'.
Proof.
  induction 1; intros i n Hn. destruct i; discriminate.
  destruct i; simpl in *. inversion Hn; subst. eauto. eauto.
Qed.

Lemma R_nth_none : forall h h', R h h' -> forall i, nth_error h i = None -> nth_error h' i = None.
Proof. intros. apply nth_error_None. rewrite (R_length _ _ H). apply nth_error_None. auto. Qed.

Lemma R_nth_obj : forall h h' i p c ms, R h h' -> nth_error h i = Some (NObj p c ms) -> nth_error h' i = Some (NObj p c ms).
Proof.
  intros. destruct (R_nth _ _ H _ _ H0) as (n' & Hn & Hs). destruct n'; simpl in Hs; try tauto.
  destruct Hs as (?&?&?). subst. auto.
Qed.

Lemma R_nth_alias : forall h h' i p tp t pa w, R h h' -> nth_error h i = Some (NAlias p tp t pa w) ->
  exists t', nth_error h' i = Some (NAlias p tp t' pa w) /\ (t' = t \/ (t = None /\ pa = false)).
Proof.
  intros. destruct (R_nth _ _ H _ _ H0) as (n' & Hn & Hs). destruct n'; simpl in Hs; try tauto.
  destruct Hs as (?&?&?&?&?). subst. eauto.
Qed.

Lemma R_nth_back_obj : forall h h' i p c ms, R h h' -> nth_error h' i = Some (NObj p c ms) -> nth_error h i = Some (NObj p c ms).
Proof.
  intros. destruct (nth_error h i) eqn:E.
  - destruct (R_nth _ _ H _ _ E) as (n' & Hn & Hs). rewrite H0 in Hn. inversion Hn; subst.
    destruct n; simpl in Hs.
    + destruct Hs as (?&?&?). subst. auto.
    + tauto.
  - rewrite (R_nth_none _ _ H _ E) in H0. discriminate.
Qed.

Lemma R_update : forall h i n n', nth_error h i = Some n -> step_rel n n' -> R h (update h i n').
Proof.
  induction h; destruct i; simpl; intros; try discriminate.
  - inversion H; subst. constructor; auto. apply R_refl.
  - constructor. apply step_rel_refl. eapply IHh; eauto.
Qed.

Lemma R_is_alias : forall h h' r, R h h' -> ref_is_alias h' r = ref_is_alias h r.
Proof.
  intros. destruct r; simpl; auto. destruct (nth_error h i) eqn:E.
  - destruct (R_nth _ _ H _ _ E) as (n' & Hn & Hs). rewrite Hn. destruct n, n'; simpl in *; tauto.
  - rewrite (R_nth_none _ _ H _ E). auto.
Qed.

Lemma R_path : forall h h' r, R h h' -> ref_path h' r = ref_path h r.
Proof.
  intros. destruct r; simpl; auto. destruct (nth_error h i) eqn:E.
  - destruct (R_nth _ _ H _ _ E) as (n' & Hn & Hs). rewrite Hn. destruct n, n'; simpl in *; try tauto.
    destruct Hs as (?&?); auto. destruct Hs as (?&?); auto.
  - rewrite (R_nth_none _ _ H _ E). auto.
Qed.

(* counts that R preserves *)
Definition unpassed_node (n : node) : bool := match n with NAlias _ _ _ false _ => true | _ => false end.
Definition unpassed (h : heap) : nat := List.length (filter unpassed_node h).

Lemma R_count_aliases : forall h h', R h h' -> count_aliases h' = count_aliases h.
Proof.
  unfold count_aliases. induction 1; simpl; auto.
  destruct x, y; simpl in *; try tauto; auto.
Qed.

Lemma R_unpassed : forall h h', R h h' -> unpassed h' = unpassed h.
Proof.
  unfold unpassed. induction 1; simpl; auto.
  destruct x, y; simpl in *; try tauto; auto.
  destruct H as (?&?&?&?&?). subst. destruct passed0; simpl; auto.
Qed.

Lemma unpassed_le_count : forall h, unpassed h <= count_aliases h.
Proof.
  unfold unpassed, count_aliases. induction h; simpl; auto.
  destruct a; simpl; auto. destruct passed; simpl; lia.
Qed.

Lemma count_aliases_update : forall h i n n', nth_error h i = Some n -> is_alias_node n = is_alias_node n' ->
  count_aliases (update h i n') = count_aliases h.
Proof.
  unfold count_aliases. induction h; destruct i; simpl; intros; try discriminate; auto.
  - inversion H; subst. rewrite H0. destruct (is_alias_node n'); auto.
  - destruct (is_alias_node a); simpl; erewrite IHh; eauto.
Qed.

Lemma unpassed_set_true : forall h i p tp t w, nth_error h i = Some (NAlias p tp t false w) ->
  S (unpassed (update h i (NAlias p tp t true w))) = unpassed h.
Proof.
  unfold unpassed. induction h; destruct i; simpl; intros; try discriminate.
  - inversion H; subst. simpl. auto.
  - destruct (unpassed_node a); simpl; erewrite <- IHh; eauto.
Qed.

Lemma unpassed_update_same : forall h i n n', nth_error h i = Some n -> unpassed_node n = unpassed_node n' ->
  unpassed (update h i n') = unpassed h.
Proof.
  unfold unpassed. induction h; destruct i; simpl; intros; try discriminate; auto.
  - inversion H; subst. rewrite H0. destruct (unpassed_node n'); auto.
  - destruct (unpassed_node a); simpl; erewrite IHh; eauto.
Qed.

Lemma R_intro : forall h h', List.length h = List.length h' ->
  (forall j a b, nth_error h j = Some a -> nth_error h' j = Some b -> step_rel a b) -> R h h'.
Proof.
  induction h; destruct h'; simpl; intros; try discriminate. constructor.
  constructor. apply (H0 0); auto. apply IHh. lia. intros. apply (H0 (S j)); auto.
Qed.

Lemma R_frame : forall h hX i n nX, List.length h = List.length hX -> nth_error h i = Some n -> step_rel n nX ->
  (forall j a b, j <> i -> nth_error h j = Some a -> nth_error hX j = Some b -> step_rel a b) ->
  R h (update hX i nX).
Proof.
  intros. apply R_intro. rewrite update_length; auto.
  intros j a b Ha Hb. destruct (Nat.eq_dec i j).
  - subst j. rewrite nth_update_same in Hb. inversion Hb; subst. congruence.
    rewrite <- H. eapply nth_error_lt; eauto.
  - rewrite nth_update_other in Hb; auto. eapply H2; eauto.
Qed.

(* ------------------------------------------------------------------------------------------------------------ *)
(* well-formedness                                                                                               *)
(* ------------------------------------------------------------------------------------------------------------ *)
Lemma forallb_update : forall A (f : A -> bool) l i x, forallb f l = true -> f x = true -> forallb f (update l i x) = true.
Proof.
  induction l; destruct i; simpl; intros; auto.
  - apply andb_true_iff in H. apply andb_true_iff. tauto.
  - apply andb_true_iff in H. apply andb_true_iff. split; try tauto. apply IHl; tauto.
Qed.

Lemma forallb_nth : forall A (f : A -> bool) l i x, forallb f l = true -> nth_error l i = Some x -> f x = true.
Proof. intros. rewrite forallb_forall in H. apply H. eapply nth_error_In; eauto. Qed.

Lemma ref_ok_len : forall h h' r, List.length h = List.length h' -> ref_ok h' r = ref_ok h r.
Proof. destruct r; simpl; intros; rewrite H; auto. Qed.

Lemma node_ok_len : forall h h' n, List.length h = List.length h' -> node_ok h' n = node_ok h n.
Proof.
  destruct n; simpl; intros.
  - rewrite H. auto.
  - destruct target; auto. rewrite (ref_ok_len h h'); auto.
Qed.

Lemma forallb_ext_in : forall A (f g : A -> bool) l, (forall x, f x = g x) -> forallb f l = forallb g l.
Proof. induction l; simpl; intros; auto. rewrite H, IHl; auto. Qed.

Lemma wf_node : forall coll h i n, wf coll h = true -> nth_error h i = Some n -> node_ok h n = true.
Proof. unfold wf. intros. apply andb_true_iff in H. eapply forallb_nth; eauto. tauto. Qed.

Lemma wf_coll : forall coll h top m, wf coll h = true -> lookup top coll = Some m ->
  exists p c ms, nth_error h m = Some (NObj p c ms).
Proof.
  unfold wf, coll_ok. intros. apply andb_true_iff in H. destruct H as [_ H].
  induction coll as [|[k v] coll]; simpl in *. discriminate.
  apply andb_true_iff in H. destruct H. destruct (String.eqb top k).
  - inversion H0; subst. destruct (nth_error h m) as [[| ]|]; try discriminate. eauto.
  - auto.
Qed.

Lemma wf_update_alias : forall coll h i p tp t pa w n',
  wf coll h = true -> nth_error h i = Some (NAlias p tp t pa w) -> is_alias_node n' = true -> node_ok h n' = true ->
  wf coll (update h i n') = true.
Proof.
  unfold wf. intros. apply andb_true_iff in H. destruct H as [Hn Hc]. apply andb_true_iff. split.
  - rewrite (forallb_ext_in _ _ (node_ok h)). apply forallb_update; auto.
    intros. apply node_ok_len. symmetry. apply update_length.
  - unfold coll_ok in *. rewrite forallb_forall in *. intros kv Hin. specialize (Hc kv Hin).
    destruct (Nat.eq_dec i (snd kv)).
    + subst. rewrite H0 in Hc. discriminate.
    + rewrite nth_update_other; auto.
Qed.

Lemma lookup_in_range : forall (h : heap) name ms j, forallb (fun kv : string * nat => snd kv <? List.length h) ms = true ->
  lookup name ms = Some j -> j < List.length h.
Proof.
  induction ms as [|[k v] ms]; simpl; intros. discriminate.
  apply andb_true_iff in H. destruct H. destruct (String.eqb name k).
  - inversion H0; subst. apply Nat.ltb_lt; auto.
  - eauto.
Qed.

(* ------------------------------------------------------------------------------------------------------------ *)
(* the measure of the final_target loop                                                                          *)
(* ------------------------------------------------------------------------------------------------------------ *)
Definition unseen_node (seen : list string) (n : node) : bool := is_alias_node n && negb (mem_str (node_path n) seen).
Definition cnt_unseen (h : heap) (seen : list string) : nat := List.length (filter (unseen_node seen) h).
Definition vbit (r : ref) : nat := match r with RVirt _ _ => 1 | RReal _ => 0 end.

Lemma cnt_unseen_nil : forall h, cnt_unseen h [] = count_aliases h.
Proof.
  unfold cnt_unseen, count_aliases, unseen_node. induction h; simpl; auto.
  destruct (is_alias_node a); simpl; auto.
Qed.

Lemma R_cnt_unseen : forall h h' seen, R h h' -> cnt_unseen h' seen = cnt_unseen h seen.
Proof.
  unfold cnt_unseen. induction 1; simpl; auto.
  assert (unseen_node seen y = unseen_node seen x).
  { unfold unseen_node. destruct x, y; simpl in *; try tauto.
    destruct H as (?&?). subst. auto. }
  rewrite H1. destruct (unseen_node seen x); simpl; auto.
Qed.

Lemma unseen_cons_le : forall seen p n, unseen_node (p :: seen) n = true -> unseen_node seen n = true.
Proof.
  unfold unseen_node. intros. apply andb_true_iff in H. destruct H. apply andb_true_iff. split; auto.
  simpl in H0. destruct (String.eqb (node_path n) p); simpl in *; auto. discriminate.
Qed.

Lemma cnt_unseen_cons_le : forall h seen p, cnt_unseen h (p :: seen) <= cnt_unseen h seen.
Proof.
  unfold cnt_unseen. induction h; simpl; intros; auto.
  destruct (unseen_node (p :: seen) a) eqn:E.
  - rewrite (unseen_cons_le _ _ _ E). simpl. specialize (IHh seen p). lia.
  - destruct (unseen_node seen a); simpl; specialize (IHh seen p); lia.
Qed.

Lemma cnt_unseen_cons_lt : forall h seen i n, nth_error h i = Some n -> is_alias_node n = true ->
  mem_str (node_path n) seen = false -> cnt_unseen h (node_path n :: seen) < cnt_unseen h seen.
Proof.
  unfold cnt_unseen. induction h; destruct i; simpl; intros; try discriminate.
  - inversion H; subst.
    assert (E1 : unseen_node (node_path n :: seen) n = false).
    { unfold unseen_node. simpl. rewrite String.eqb_refl. rewrite H0; auto. }
    assert (E2 : unseen_node seen n = true). { unfold unseen_node. rewrite H0, H1. auto. }
    rewrite E1, E2. simpl. pose proof (cnt_unseen_cons_le h seen (node_path n)) as X. unfold cnt_unseen in X. lia.
  - specialize (IHh seen i n H H0 H1).
    destruct (unseen_node (node_path n :: seen) a) eqn:E.
    + rewrite (unseen_cons_le _ _ _ E). simpl. lia.
    + destruct (unseen_node seen a); simpl; lia.
Qed.

(* ------------------------------------------------------------------------------------------------------------ *)
(* static lookups and pure chain walks                                                                           *)
(* ------------------------------------------------------------------------------------------------------------ *)
Lemma static_from_update : forall parts h i n n' j,
  nth_error h i = Some n -> is_alias_node n = true -> is_alias_node n' = true ->
  static_from (update h i n') j parts = static_from h j parts.
Proof.
  induction parts as [|name rest]; intros; simpl; auto.
  destruct (Nat.eq_dec i j).
  - subst. rewrite nth_update_same by (eapply nth_error_lt; eauto). rewrite H.
    destruct n; try discriminate. destruct n'; try discriminate. auto.
  - rewrite nth_update_other; auto. destruct (nth_error h j) as [[p c ms| ]|]; auto.
    destruct (lookup name ms); auto. eapply IHrest; eauto.
Qed.

Lemma static_get_update : forall coll parts h i n n',
  nth_error h i = Some n -> is_alias_node n = true -> is_alias_node n' = true ->
  static_get coll (update h i n') parts = static_get coll h parts.
Proof.
  intros. destruct parts; simpl; auto. destruct (lookup s coll); auto. eapply static_from_update; eauto.
Qed.

Lemma get_from_static : forall L rt parts h j x,
  static_from h j parts = Some x ->
  get_from L rt h (RReal j) parts = (h, match x with Some k => Ok (RReal k) | None => Err EKey end).
Proof.
  induction parts as [|name rest]; intros h j x Hs; simpl in *.
  - inversion Hs; subst. auto.
  - destruct (nth_error h j) as [[p c ms| ]|] eqn:Hn; try discriminate. simpl.
    destruct (lookup name ms) as [k|].
    + apply IHrest; auto.
    + inversion Hs; subst. auto.
Qed.

Lemma get_member_static : forall coll L rt h parts x,
  static_get coll h parts = Some x ->
  get_member coll L rt h parts = (h, match x with Some k => Ok (RReal k) | None => Err EKey end).
Proof.
  intros. destruct parts as [|top rest]; simpl in *. discriminate.
  destruct (lookup top coll).
  - apply get_from_static; auto.
  - inversion H; subst. auto.
Qed.

Lemma chain_end_update_unres : forall l h i p tp pa w n' r seen o,
  nth_error h i = Some (NAlias p tp None pa w) ->
  chain_end l h r seen = Some o -> chain_end l (update h i n') r seen = Some o.
Proof.
  induction l; intros h i p tp pa w n' r seen o Hn Hc; simpl in *. discriminate.
  destruct r as [k | vp k].
  - destruct (Nat.eq_dec i k).
    + subst. rewrite Hn in Hc. discriminate.
    + rewrite nth_update_other; auto. destruct (nth_error h k) as [[| pk tpk [t|] pak wk]|]; auto.
      destruct (mem_str pk seen); auto. eapply IHl; eauto.
  - destruct (mem_str vp seen); auto. eapply IHl; eauto.
Qed.

(* every stored link is a real node *)
Definition no_virt (h : heap) : Prop :=
  forall k p tp vp j pa w, nth_error h k <> Some (NAlias p tp (Some (RVirt vp j)) pa w).

Lemma chain_end_seen : forall l h q r seen seen' o,
  no_virt h ->
  (forall k p tp t pa w, nth_error h k = Some (NAlias p tp (Some t) pa w) -> p <> q) ->
  (forall s, s <> q -> mem_str s seen' = mem_str s seen) ->
  (exists k, r = RReal k) ->
  chain_end l h r seen = Some o -> chain_end l h r seen' = Some o.
Proof.
  induction l; intros h q r seen seen' o Hnv Hq Hs [k Hr] Hc; simpl in *. discriminate. subst r.
  destruct (nth_error h k) as [[| pk tpk [t|] pak wk]|] eqn:Hn; auto.
  assert (Hpk : pk <> q) by (eapply Hq; eauto).
  rewrite (Hs pk Hpk). destruct (mem_str pk seen); auto.
  destruct t as [k' | vp k']. 2:{ exfalso. eapply Hnv; eauto. }
  apply (IHl h q (RReal k') (pk :: seen) (pk :: seen') o); eauto.
  intros s Hsq. simpl. rewrite (Hs s Hsq). auto.
Qed.

Lemma chain_end_fuel : forall l h r seen o,
  chain_end l h r seen = Some o -> forall l', 2 * cnt_unseen h seen + vbit r < l' -> chain_end l' h r seen = Some o.
Proof.
  induction l; intros h r seen o Hc l' Hl; simpl in *. discriminate.
  destruct l' as [|l']. lia. simpl.
  destruct r as [k | vp k].
  - destruct (nth_error h k) as [[| pk tpk [t|] pak wk]|] eqn:Hn; auto.
    destruct (mem_str pk seen) eqn:Hm; auto.
    eapply IHl; eauto.
    pose proof (cnt_unseen_cons_lt h seen k _ Hn eq_refl Hm) as X. simpl in X.
    assert (vbit t <= 1) by (destruct t; simpl; lia). simpl in Hl. lia.
  - destruct (mem_str vp seen); auto. eapply IHl; eauto.
    pose proof (cnt_unseen_cons_le h seen vp). simpl in *. lia.
Qed.

Lemma final_target_pure : forall rt l h r seen o,
  chain_end l h r seen = Some o -> final_target rt l h r seen = (h, Ok o).
Proof.
  induction l; intros h r seen o Hc; simpl in *. discriminate.
  destruct r as [k | vp k]; simpl.
  - destruct (nth_error h k) as [[| pk tpk [t|] pak wk]|] eqn:Hn; try discriminate; simpl.
    + inversion Hc; subst. auto.
    + destruct (mem_str pk seen); try discriminate. apply IHl; auto.
  - destruct (mem_str vp seen); try discriminate. apply IHl; auto.
Qed.

Lemma alias_paths_update : forall h i n n',
  nth_error h i = Some n -> is_alias_node n = true -> is_alias_node n' = true -> node_path n' = node_path n ->
  alias_paths (update h i n') = alias_paths h.
Proof.
  unfold alias_paths. induction h; destruct i; simpl; intros; try discriminate.
  - inversion H; subst. rewrite H0, H1. simpl. congruence.
  - destruct (is_alias_node a); simpl; erewrite IHh; eauto.
Qed.

Lemma mem_str_map_path : forall h k n, nth_error h k = Some n -> is_alias_node n = true ->
  mem_str (node_path n) (alias_paths h) = true.
Proof.
  intros. apply mem_str_In. unfold alias_paths. apply in_map. apply filter_In. split; auto.
  eapply nth_error_In; eauto.
Qed.

(* with unique alias paths, two alias nodes with the same path are the same node *)
Lemma unique_paths_inj : forall h i j n m,
  unique_paths h = true -> nth_error h i = Some n -> nth_error h j = Some m ->
  is_alias_node n = true -> is_alias_node m = true -> node_path n = node_path m -> i = j.
Proof.
  unfold unique_paths, alias_paths. induction h; intros i j n m Hu Hi Hj Hn Hm Hp.
  - destruct i; discriminate.
  - destruct i, j; simpl in *; auto.
    + inversion Hi; subst. rewrite Hn in Hu. simpl in Hu. apply andb_true_iff in Hu. destruct Hu as [Hu _].
      apply negb_true_iff in Hu. rewrite Hp in Hu.
      pose proof (mem_str_map_path h j m Hj Hm) as X. unfold alias_paths in X. congruence.
    + inversion Hj; subst. rewrite Hm in Hu. simpl in Hu. apply andb_true_iff in Hu. destruct Hu as [Hu _].
      apply negb_true_iff in Hu. rewrite <- Hp in Hu.
      pose proof (mem_str_map_path h i n Hi Hn) as X. unfold alias_paths in X. congruence.
    + f_equal. eapply IHh; eauto. destruct (is_alias_node a); simpl in Hu; auto.
      apply andb_true_iff in Hu. tauto.
Qed.

Lemma forallb_of_nth : forall A (g : A -> bool) l, (forall k n, nth_error l k = Some n -> g n = true) -> forallb g l = true.
Proof.
  intros. apply forallb_forall. intros x Hx. destruct (In_nth_error _ _ Hx) as [k Hk]. eauto.
Qed.

Lemma forallb_update_ix : forall (f g : node -> bool) (h : heap) i n',
  forallb f h = true -> g n' = true ->
  (forall k n, k <> i -> nth_error h k = Some n -> f n = true -> g n = true) ->
  forallb g (update h i n') = true.
Proof.
  intros f g h i n' Hf Hg Hother. apply forallb_of_nth. intros k n Hk.
  destruct (Nat.eq_dec i k).
  - subst. assert (k < List.length h).
    { apply nth_error_lt in Hk. rewrite update_length in Hk. auto. }
    rewrite nth_update_same in Hk; auto. congruence.
  - rewrite nth_update_other in Hk; auto. eapply Hother; eauto. eapply forallb_nth; eauto.
Qed.


Lemma fuelL_update : forall h i n n', nth_error h i = Some n -> is_alias_node n = is_alias_node n' ->
  fuelL (update h i n') = fuelL h.
Proof. intros. unfold fuelL. erewrite count_aliases_update; eauto. Qed.

(* the passed-through flag is invisible to the pure chain walk *)
Lemma chain_end_flag : forall l h i p tp t pa pa' w r seen,
  nth_error h i = Some (NAlias p tp t pa w) ->
  chain_end l (update h i (NAlias p tp t pa' w)) r seen = chain_end l h r seen.
Proof.
  induction l; intros; simpl; auto.
  destruct r as [k | vp k].
  - destruct (Nat.eq_dec i k).
    + subst. rewrite nth_update_same by (eapply nth_error_lt; eauto). rewrite H.
      destruct t; auto. destruct (mem_str p seen); auto. eapply IHl; eauto.
    + rewrite nth_update_other; auto. destruct (nth_error h k) as [[| pk tpk [tk|] pak wk]|]; auto.
      destruct (mem_str pk seen); auto. eapply IHl; eauto.
  - destruct (mem_str vp seen); auto. eapply IHl; eauto.
Qed.

Lemma tc_flag : forall h i p tp t pa pa' w,
  nth_error h i = Some (NAlias p tp t pa w) -> targets_complete h = true ->
  targets_complete (update h i (NAlias p tp t pa' w)) = true.
Proof.
  intros h i p tp t pa pa' w Hn Hc. unfold targets_complete in *.
  rewrite (fuelL_update h i _ (NAlias p tp t pa' w) Hn eq_refl).
  eapply forallb_update_ix; [exact Hc | |].
  - pose proof (forallb_nth _ _ _ _ _ Hc Hn) as X. simpl in *. destruct t; auto.
    erewrite chain_end_flag; eauto.
  - intros k n _ _ Hf. destruct n as [| pk tpk [tk|] pak wk]; auto. simpl in *. erewrite chain_end_flag; eauto.
Qed.

Lemma tc_set_target : forall h i p tp pa pa' w r o,
  nth_error h i = Some (NAlias p tp None pa w) -> targets_complete h = true ->
  chain_end (fuelL h) h r [] = Some o ->
  targets_complete (update h i (NAlias p tp (Some r) pa' w)) = true.
Proof.
  intros h i p tp pa pa' w r o Hn Hc Hr. unfold targets_complete in *.
  rewrite (fuelL_update h i _ (NAlias p tp (Some r) pa' w) Hn eq_refl).
  eapply forallb_update_ix; [exact Hc | |].
  - simpl. erewrite chain_end_update_unres; eauto.
  - intros k n _ _ Hf. destruct n as [| pk tpk [tk|] pak wk]; auto. simpl in *.
    destruct (chain_end (fuelL h) h tk []) eqn:E; try discriminate. erewrite chain_end_update_unres; eauto.
Qed.

Definition flags (h : heap) : list bool := map (fun n => match n with NAlias _ _ _ pa _ => pa | _ => false end) h.

Lemma R_flags : forall h h', R h h' -> flags h' = flags h.
Proof.
  unfold flags. induction 1; simpl; auto. rewrite IHForall2. f_equal.
  destruct x, y; simpl in *; try tauto. destruct H as (?&?&?&?&?). auto.
Qed.

(* an already stored link is never changed, an unset one may become set; nothing else moves *)
Definition link_of (h : heap) (i : nat) : option ref :=
  match nth_error h i with Some (NAlias _ _ t _ _) => t | _ => None end.

Lemma R_link : forall h h' i t, R h h' -> link_of h i = Some t -> link_of h' i = Some t.
Proof.
  unfold link_of. intros. destruct (nth_error h i) as [[| p tp t0 pa w]|] eqn:E; try discriminate. subst.
  destruct (R_nth_alias _ _ _ _ _ _ _ _ H E) as (t' & Hn & [Ht|[Ht _]]). rewrite Hn. auto. discriminate.
Qed.

(* ------------------------------------------------------------------------------------------------------------ *)
(* specifications of the dereferencing functions, relative to a specification of resolve_target                 *)
(* ------------------------------------------------------------------------------------------------------------ *)
Definition good {A} (r : res A) : Prop := r <> Err EFuel /\ r <> Err EBad.
Definition nokey {A} (r : res A) : Prop := r <> Err EKey.
Definition resolved_in (h : heap) (i : nat) : Prop :=
  exists p tp t pa w, nth_error h i = Some (NAlias p tp (Some t) pa w).

Definition P (coll : list (string * nat)) (L k : nat) (h : heap) : Prop :=
  wf coll h = true /\ unpassed h < k /\ 2 * count_aliases h + 2 < L.
Definition Post (coll : list (string * nat)) (h h' : heap) : Prop :=
  R h h' /\ wf coll h' = true /\ (targets_complete h = true -> targets_complete h' = true).

Lemma P_Post : forall coll L k h h', P coll L k h -> Post coll h h' -> P coll L k h'.
Proof.
  intros coll L k h h' (Hw & Hu & Hl) (HR & Hw' & _). repeat split; auto.
  rewrite (R_unpassed _ _ HR); auto. rewrite (R_count_aliases _ _ HR); auto.
Qed.

Lemma Post_refl : forall coll h, wf coll h = true -> Post coll h h.
Proof. intros. split; [apply R_refl | auto]. Qed.

Lemma Post_trans : forall coll a b c, Post coll a b -> Post coll b c -> Post coll a c.
Proof. intros coll a b c (H1 & _ & T1) (H2 & H3 & T2). split; [eapply R_trans; eauto | auto]. Qed.

Lemma Post_wf : forall coll h h', Post coll h h' -> wf coll h' = true.
Proof. intros coll h h' (_ & H & _). auto. Qed.

Lemma good_ok : forall A (a : A), good (Ok a). Proof. split; discriminate. Qed.
Lemma nokey_ok : forall A (a : A), nokey (Ok a). Proof. discriminate. Qed.
Lemma good_cyc : forall A, good (@Err A ECyc). Proof. split; discriminate. Qed.
Lemma nokey_cyc : forall A, nokey (@Err A ECyc). Proof. discriminate. Qed.
Lemma good_are : forall A p, good (@Err A (EARE p)). Proof. split; discriminate. Qed.
Lemma nokey_are : forall A p, nokey (@Err A (EARE p)). Proof. discriminate. Qed.
Lemma good_key : forall A, good (@Err A EKey). Proof. split; discriminate. Qed.
Lemma good_err : forall A B e, good (@Err A e) -> good (@Err B e).
Proof. intros A B e [H1 H2]. split; intro X; inversion X; subst; [apply H1 | apply H2]; auto. Qed.
Lemma nokey_err : forall A B e, nokey (@Err A e) -> nokey (@Err B e).
Proof. intros A B e H X. inversion X; subst. apply H; auto. Qed.
#[export] Hint Resolve good_ok nokey_ok good_cyc nokey_cyc good_are nokey_are good_key : c06.

Lemma ref_is_alias_real : forall h i, ref_is_alias h (RReal i) = Some true ->
  exists p tp t pa w, nth_error h i = Some (NAlias p tp t pa w).
Proof.
  simpl. intros. destruct (nth_error h i) as [[| ]|] eqn:E; simpl in *; try discriminate. eauto 10.
Qed.

Lemma ref_is_alias_obj : forall h r, ref_is_alias h r = Some false ->
  exists i p c ms, r = RReal i /\ nth_error h i = Some (NObj p c ms).
Proof.
  destruct r; simpl; intros; try discriminate.
  destruct (nth_error h i) as [[| ]|] eqn:E; simpl in *; try discriminate. do 4 eexists. split; [reflexivity | eauto].
Qed.

Lemma ref_ok_is_alias : forall h r, ref_ok h r = true -> ref_is_alias h r <> None.
Proof.
  destruct r; simpl; intros; try discriminate. apply Nat.ltb_lt in H.
  destruct (nth_error h i) eqn:E; try discriminate. apply nth_error_None in E. lia.
Qed.

Section Spec.
  Variable coll : list (string * nat).
  Variables L k : nat.
  Variable rt : heap -> nat -> heap * res unit.
  Hypothesis rt_spec : forall h i p tp pa w,
    P coll L k h -> nth_error h i = Some (NAlias p tp None pa w) ->
    Post coll h (fst (rt h i)) /\ good (snd (rt h i)) /\ nokey (snd (rt h i)) /\
    (snd (rt h i) = Ok tt -> resolved_in (fst (rt h i)) i) /\
    (forall e, snd (rt h i) = Err e -> link_of (fst (rt h i)) i = None).

  Lemma target_of_spec : forall h r,
    P coll L k h -> ref_ok h r = true -> ref_is_alias h r = Some true ->
    Post coll h (fst (target_of rt h r)) /\ good (snd (target_of rt h r)) /\ nokey (snd (target_of rt h r)) /\
    (forall r', snd (target_of rt h r) = Ok r' ->
       ref_ok (fst (target_of rt h r)) r' = true /\ (vbit r = 1 -> vbit r' = 0)).
  Proof.
    intros h r HP Hok Hal. destruct r as [i | vp i].
    - destruct (ref_is_alias_real _ _ Hal) as (p & tp & t & pa & w & Hn). simpl. rewrite Hn.
      destruct t as [t|].
      + simpl. split. apply Post_refl; apply HP. split; auto with c06. split; auto with c06.
        intros r' Hr. inversion Hr; subst. split; [|discriminate].
        pose proof (wf_node _ _ _ _ (proj1 HP) Hn) as X. simpl in X. apply andb_true_iff in X. tauto.
      + destruct (rt_spec h i p tp pa w HP Hn) as (HPo & Hg & Hk & Hres & _).
        destruct (rt h i) as [h' r']. simpl in *. destruct r' as [u | e].
        * destruct u. destruct (Hres eq_refl) as (p' & tp' & t' & pa' & w' & Hn'). rewrite Hn'. simpl.
          split; auto. split; auto with c06. split; auto with c06.
          intros r' Hr. inversion Hr; subst. split; [|discriminate].
          pose proof (wf_node _ _ _ _ (Post_wf _ _ _ HPo) Hn') as X. simpl in X. apply andb_true_iff in X. tauto.
        * simpl. split; auto. split. eapply good_err; eauto. split. eapply nokey_err; eauto. intros; discriminate.
    - simpl. split. apply Post_refl; apply HP. split; auto with c06. split; auto with c06.
      intros r' Hr. inversion Hr; subst. simpl in *. auto.
  Qed.

  Lemma final_target_spec : forall l h r seen,
    P coll L k h -> ref_ok h r = true -> 2 * cnt_unseen h seen + vbit r < l ->
    Post coll h (fst (final_target rt l h r seen)) /\ good (snd (final_target rt l h r seen)) /\
    nokey (snd (final_target rt l h r seen)) /\
    (forall o, snd (final_target rt l h r seen) = Ok o ->
       exists p c ms, nth_error (fst (final_target rt l h r seen)) o = Some (NObj p c ms)).
  Proof.
    induction l; intros h r seen HP Hok Hm. lia.
    simpl. destruct (ref_is_alias h r) as [[|]|] eqn:Hal.
    - destruct (mem_str (ref_path h r) seen) eqn:Hmem.
      + simpl. split. apply Post_refl; apply HP. split; auto with c06. split; auto with c06. intros; discriminate.
      + destruct (target_of_spec h r HP Hok Hal) as (HPo & Hg & Hk & Hr).
        destruct (target_of rt h r) as [h' t]. simpl in *. destruct t as [r' | e].
        * destruct (Hr r' eq_refl) as (Hok' & Hv).
          assert (HP' : P coll L k h') by (eapply P_Post; eauto).
          assert (Hm' : 2 * cnt_unseen h' (ref_path h r :: seen) + vbit r' < l).
          { rewrite (R_cnt_unseen _ _ _ (proj1 HPo)).
            destruct r as [i | vp i].
            - destruct (ref_is_alias_real _ _ Hal) as (p & tp & t & pa & w & Hn).
              simpl in Hmem |- *. rewrite Hn in Hmem |- *. simpl in Hmem |- *.
              pose proof (cnt_unseen_cons_lt h seen i _ Hn eq_refl Hmem) as X. simpl in X.
              assert (vbit r' <= 1) by (destruct r'; simpl; lia). simpl in Hm. lia.
            - simpl in Hm |- *. rewrite (Hv eq_refl).
              pose proof (cnt_unseen_cons_le h seen vp). lia. }
          destruct (IHl h' r' (ref_path h r :: seen) HP' Hok' Hm') as (HPo2 & Hg2 & Hk2 & Ho2).
          split. eapply Post_trans; eauto. auto.
        * simpl. split; auto. split. eapply good_err; eauto. split. eapply nokey_err; eauto. intros; discriminate.
    - destruct (ref_is_alias_obj _ _ Hal) as (i & p & c & ms & Hr & Hn). subst r. simpl.
      split. apply Post_refl; apply HP. split; auto with c06. split; auto with c06.
      intros o Ho. inversion Ho; subst. eauto.
    - exfalso. eapply ref_ok_is_alias; eauto.
  Qed.

  Lemma target_of_link : forall h i r', snd (target_of rt h (RReal i)) = Ok r' -> link_of (fst (target_of rt h (RReal i))) i = Some r'.
  Proof.
    intros h i r'. unfold link_of. simpl. destruct (nth_error h i) as [[| p tp [t|] pa w]|] eqn:Hn; simpl; try discriminate.
    - intros E. inversion E; subst. rewrite Hn. auto.
    - destruct (rt h i) as [h' u]. destruct u as [u | e]; simpl; try discriminate.
      destruct (nth_error h' i) as [[| p' tp' [t'|] pa' w']|] eqn:Hn'; simpl; try discriminate.
      intros E. inversion E; subst. rewrite Hn'. auto.
  Qed.

  (* a successful dereference leaves a heap in which the same walk succeeds through stored links alone *)
  Lemma final_target_chain : forall l h r seen o,
    P coll L k h -> ref_ok h r = true -> 2 * cnt_unseen h seen + vbit r < l ->
    snd (final_target rt l h r seen) = Ok o -> chain_end l (fst (final_target rt l h r seen)) r seen = Some o.
  Proof.
    induction l; intros h r seen o HP Hok Hm. lia.
    simpl. destruct (ref_is_alias h r) as [[|]|] eqn:Hal.
    - destruct (mem_str (ref_path h r) seen) eqn:Hmem. simpl; discriminate.
      destruct (target_of_spec h r HP Hok Hal) as (HPo & Hg & Hk & Hr).
      pose proof (target_of_link h) as Hlink.
      destruct (target_of rt h r) as [h1 t] eqn:Et. simpl in HPo, Hg, Hk, Hr. destruct t as [r' | e]; [|simpl; discriminate].
      destruct (Hr r' eq_refl) as (Hok' & Hv).
      assert (HP' : P coll L k h1) by (eapply P_Post; eauto).
      assert (Hm' : 2 * cnt_unseen h1 (ref_path h r :: seen) + vbit r' < l).
      { rewrite (R_cnt_unseen _ _ _ (proj1 HPo)).
        destruct r as [i | vp i].
        - destruct (ref_is_alias_real _ _ Hal) as (p & tp & t & pa & w & Hn).
          simpl in Hmem |- *. rewrite Hn in Hmem |- *. simpl in Hmem |- *.
          pose proof (cnt_unseen_cons_lt h seen i _ Hn eq_refl Hmem) as X. simpl in X.
          assert (vbit r' <= 1) by (destruct r'; simpl; lia). simpl in Hm. lia.
        - simpl in Hm |- *. rewrite (Hv eq_refl).
          pose proof (cnt_unseen_cons_le h seen vp). lia. }
      intros Ho. specialize (IHl h1 r' (ref_path h r :: seen) o HP' Hok' Hm' Ho).
      destruct (final_target_spec l h1 r' (ref_path h r :: seen) HP' Hok' Hm') as ((HR2 & _) & _).
      set (H' := fst (final_target rt l h1 r' (ref_path h r :: seen))) in *.
      destruct r as [i | vp i].
      + destruct (ref_is_alias_real _ _ Hal) as (p & tp & t & pa & w & Hn).
        specialize (Hlink i r'). rewrite Et in Hlink. simpl in Hlink. specialize (Hlink eq_refl).
        pose proof (R_link _ _ _ _ HR2 Hlink) as Hl2.
        destruct (R_nth_alias _ _ _ _ _ _ _ _ (R_trans _ _ _ (proj1 HPo) HR2) Hn) as (t2 & Hn2 & _).
        unfold link_of in Hl2. rewrite Hn2 in Hl2. subst t2.
        simpl. rewrite Hn2. simpl in Hmem, IHl. rewrite Hn in Hmem, IHl. simpl in Hmem, IHl. rewrite Hmem. exact IHl.
      + simpl in Hmem, IHl |- *. rewrite Hmem.
        assert (h1 = h) by (simpl in Et; inversion Et; auto). assert (r' = RReal i) by (simpl in Et; inversion Et; auto).
        subst. exact IHl.
    - destruct (ref_is_alias_obj _ _ Hal) as (i & p & c & ms & Hr & Hn). subst r. simpl.
      intros E. inversion E; subst. rewrite Hn. auto.
    - exfalso. eapply ref_ok_is_alias; eauto.
  Qed.

  Lemma final_target_top : forall h r,
    P coll L k h -> ref_ok h r = true ->
    Post coll h (fst (final_target rt L h r [])) /\ good (snd (final_target rt L h r [])) /\
    nokey (snd (final_target rt L h r [])) /\
    (forall o, snd (final_target rt L h r []) = Ok o ->
       exists p c ms, nth_error (fst (final_target rt L h r [])) o = Some (NObj p c ms)).
  Proof.
    intros. apply final_target_spec; auto. rewrite cnt_unseen_nil.
    destruct H as (_ & _ & HL). assert (vbit r <= 1) by (destruct r; simpl; lia). lia.
  Qed.

  Lemma touch_members_spec : forall ms h,
    P coll L k h -> forallb (fun kv : string * nat => snd kv <? List.length h) ms = true ->
    Post coll h (fst (touch_members L rt h ms)) /\ good (snd (touch_members L rt h ms)) /\
    nokey (snd (touch_members L rt h ms)).
  Proof.
    induction ms as [|[nm i] ms]; intros h HP Hr; simpl.
    - split. apply Post_refl; apply HP. split; auto with c06.
    - simpl in Hr. apply andb_true_iff in Hr. destruct Hr as [Hi Hr]. apply Nat.ltb_lt in Hi.
      destruct (nth_error h i) as [[p c ms' | p tp t pa w]|] eqn:Hn.
      + apply IHms; auto.
      + assert (Hok : ref_ok h (RReal i) = true) by (simpl; apply Nat.ltb_lt; auto).
        destruct (final_target_top h (RReal i) HP Hok) as (HPo & Hg & Hk & _).
        destruct (final_target rt L h (RReal i) []) as [h' r]. simpl in *.
        assert (HP' : P coll L k h') by (eapply P_Post; eauto).
        assert (Hr' : forallb (fun kv : string * nat => snd kv <? List.length h') ms = true).
        { rewrite (R_length _ _ (proj1 HPo)). auto. }
        destruct (IHms h' HP' Hr') as (HPo2 & Hg2 & Hk2).
        destruct r as [o | e].
        * split. eapply Post_trans; eauto. auto.
        * destruct e; simpl;
            first [ solve [split; [eapply Post_trans; eauto | auto]]
                  | split; [auto | split; [eapply good_err; eauto | eapply nokey_err; eauto]] ].
      + apply nth_error_None in Hn. lia.
  Qed.

  Lemma get_from_spec : forall parts h cur,
    P coll L k h -> ref_ok h cur = true ->
    Post coll h (fst (get_from L rt h cur parts)) /\ good (snd (get_from L rt h cur parts)) /\
    (forall r, snd (get_from L rt h cur parts) = Ok r -> ref_ok (fst (get_from L rt h cur parts)) r = true).
  Proof.
    induction parts as [|name rest]; intros h cur HP Hok; simpl.
    - split. apply Post_refl; apply HP. split; auto with c06. intros r Hr. inversion Hr; subst; auto.
    - destruct (ref_is_alias h cur) as [[|]|] eqn:Hal.
      + destruct (final_target_top h cur HP Hok) as (HPo & Hg & Hk & Ho).
        destruct (final_target rt L h cur []) as [h1 ft]. simpl in *. destruct ft as [o | e].
        * destruct (Ho o eq_refl) as (p & c & ms & Hn). rewrite Hn.
          assert (HP1 : P coll L k h1) by (eapply P_Post; eauto).
          pose proof (wf_node _ _ _ _ (proj1 HP1) Hn) as Hms. simpl in Hms.
          destruct (touch_members_spec ms h1 HP1 Hms) as (HPo2 & Hg2 & Hk2).
          destruct (touch_members L rt h1 ms) as [h2 u]. simpl in *.
          assert (HP2 : P coll L k h2) by (eapply P_Post; eauto).
          destruct u as [u | e].
          -- destruct (lookup name ms) as [j|] eqn:Hl.
             ++ assert (Hokj : ref_ok h2 (RVirt (String.append (ref_path h cur) (String.append "." name)) j) = true).
                { simpl. apply Nat.ltb_lt. rewrite (R_length _ _ (proj1 HPo2)). eapply lookup_in_range; eauto. }
                destruct (IHrest h2 _ HP2 Hokj) as (HPo3 & Hg3 & Hr3).
                split. eapply Post_trans; [eauto | eapply Post_trans; eauto]. auto.
             ++ simpl. split. eapply Post_trans; eauto. split; auto with c06. intros; discriminate.
          -- simpl. split. eapply Post_trans; eauto. split. eapply good_err; eauto. intros; discriminate.
        * simpl. split; auto. split. eapply good_err; eauto. intros; discriminate.
      + destruct (ref_is_alias_obj _ _ Hal) as (i & p & c & ms & Hc & Hn). subst cur. rewrite Hn.
        destruct (lookup name ms) as [j|] eqn:Hl.
        * pose proof (wf_node _ _ _ _ (proj1 HP) Hn) as Hms. simpl in Hms.
          apply IHrest; auto. simpl. apply Nat.ltb_lt. eapply lookup_in_range; eauto.
        * simpl. split. apply Post_refl; apply HP. split; auto with c06. intros; discriminate.
      + exfalso. eapply ref_ok_is_alias; eauto.
  Qed.

  Lemma get_member_spec : forall h parts,
    P coll L k h -> parts <> [] ->
    Post coll h (fst (get_member coll L rt h parts)) /\ good (snd (get_member coll L rt h parts)) /\
    (forall r, snd (get_member coll L rt h parts) = Ok r -> ref_ok (fst (get_member coll L rt h parts)) r = true).
  Proof.
    intros h parts HP Hne. destruct parts as [|top rest]. congruence. simpl.
    destruct (lookup top coll) as [m|] eqn:Hl.
    - destruct (wf_coll _ _ _ _ (proj1 HP) Hl) as (p & c & ms & Hn).
      apply get_from_spec; auto. simpl. apply Nat.ltb_lt. eapply nth_error_lt; eauto.
    - simpl. split. apply Post_refl; apply HP. split; auto with c06. intros; discriminate.
  Qed.
End Spec.

(* pointwise relation away from one index (the alias whose flag is currently raised) *)
Definition Rx (i : nat) (h h' : heap) : Prop :=
  List.length h = List.length h' /\
  forall j a b, j <> i -> nth_error h j = Some a -> nth_error h' j = Some b -> step_rel a b.

Lemma Rx_of_R : forall i h h', R h h' -> Rx i h h'.
Proof.
  intros. split. symmetry. apply R_length; auto.
  intros j a b _ Ha Hb. destruct (R_nth _ _ H _ _ Ha) as (n' & Hn & Hs). congruence.
Qed.

Lemma Rx_update : forall i h x, Rx i h (update h i x).
Proof.
  intros. split. symmetry. apply update_length.
  intros j a b Hj Ha Hb. rewrite nth_update_other in Hb; auto. assert (a = b) by congruence. subst. apply step_rel_refl.
Qed.

Lemma Rx_trans : forall i a b c, Rx i a b -> Rx i b c -> Rx i a c.
Proof.
  intros i a b c (L1 & H1) (L2 & H2). split. congruence.
  intros j x z Hj Hx Hz. destruct (nth_error b j) as [y|] eqn:Hy.
  - eapply step_rel_trans; eauto.
  - apply nth_error_None in Hy. apply nth_error_lt in Hx. lia.
Qed.

Lemma finish_R : forall coll h i p tp w hX tX,
  wf coll hX = true -> nth_error h i = Some (NAlias p tp None false w) -> Rx i h hX ->
  nth_error hX i = Some (NAlias p tp tX true w) ->
  (R h (set_passed hX i false) /\ wf coll (set_passed hX i false) = true) /\
  nth_error (set_passed hX i false) i = Some (NAlias p tp tX false w).
Proof.
  intros coll h i p tp w hX tX Hw Hn (Hl & Hx) HnX. unfold set_passed. rewrite HnX. split; [split|].
  - eapply R_frame; eauto. simpl. auto 10.
  - eapply wf_update_alias; eauto. pose proof (wf_node _ _ _ _ Hw HnX) as X. simpl in *. auto.
  - apply nth_update_same. eapply nth_error_lt; eauto.
Qed.

Lemma finish : forall coll h i p tp w hX tX,
  wf coll hX = true -> nth_error h i = Some (NAlias p tp None false w) -> Rx i h hX ->
  nth_error hX i = Some (NAlias p tp tX true w) ->
  (targets_complete h = true -> targets_complete hX = true) ->
  Post coll h (set_passed hX i false) /\ nth_error (set_passed hX i false) i = Some (NAlias p tp tX false w).
Proof.
  intros coll h i p tp w hX tX Hw Hn (Hl & Hx) HnX Htc. unfold set_passed. rewrite HnX. split; [split; [|split]|].
  - eapply R_frame; eauto. simpl. auto 10.
  - eapply wf_update_alias; eauto. pose proof (wf_node _ _ _ _ Hw HnX) as X. simpl in *. auto.
  - intros T. eapply tc_flag; eauto.
  - apply nth_update_same. eapply nth_error_lt; eauto.
Qed.

Definition rt_post (coll : list (string * nat)) (h : heap) (i : nat) (X : heap * res unit) : Prop :=
  Post coll h (fst X) /\ good (snd X) /\ nokey (snd X) /\
  (snd X = Ok tt -> resolved_in (fst X) i) /\
  (forall e, snd X = Err e -> link_of (fst X) i = None).

Lemma resolve_body_spec : forall coll L k rt,
  (forall h i p tp pa w, P coll L k h -> nth_error h i = Some (NAlias p tp None pa w) -> rt_post coll h i (rt h i)) ->
  forall h i p tp pa w, P coll L (S k) h -> nth_error h i = Some (NAlias p tp None pa w) ->
    rt_post coll h i (resolve_body coll L rt h i).
Proof.
  intros coll L k rt rt_spec h i p tp pa w HP Hn. unfold resolve_body. rewrite Hn. destruct pa.
  { red. simpl. split. apply Post_refl; apply HP. split; auto with c06. split; auto with c06.
    split. intros; discriminate. intros _ _. unfold link_of. rewrite Hn. auto. }
  assert (Ehh : set_passed h i true = update h i (NAlias p tp None true w)) by (unfold set_passed; rewrite Hn; auto).
  rewrite Ehh. clear Ehh. set (hh := update h i (NAlias p tp None true w)).
  assert (Hi : i < List.length h) by (eapply nth_error_lt; eauto).
  assert (Hnh : nth_error hh i = Some (NAlias p tp None true w)) by (apply nth_update_same; auto).
  pose proof (wf_node _ _ _ _ (proj1 HP) Hn) as Hnok. simpl in Hnok.
  assert (Htp : tp <> []) by (destruct tp; [discriminate | congruence]).
  assert (HPh : P coll L k hh).
  { destruct HP as (Hw & Hu & Hl). split; [|split].
    - eapply wf_update_alias; eauto.
    - pose proof (unpassed_set_true h i p tp None w Hn). fold hh in H. lia.
    - unfold hh. erewrite count_aliases_update; eauto. }
  assert (Hxh : Rx i h hh) by apply Rx_update.
  assert (Htch : targets_complete h = true -> targets_complete hh = true) by (intros; eapply tc_flag; eauto).
  (* whatever happened in between, the alias' own node only changes through this call *)
  assert (Own : forall hX, Post coll hh hX -> nth_error hX i = Some (NAlias p tp None true w)).
  { intros hX (HR & _). destruct (R_nth_alias _ _ _ _ _ _ _ _ HR Hnh) as (tX & HnX & [E | [_ E]]); congruence. }
  (* error exits: the link is untouched, the flag is reset *)
  assert (Exit : forall hX (e : err), Post coll hh hX -> good (@Err unit e) -> nokey (@Err unit e) ->
            rt_post coll h i (set_passed hX i false, @Err unit e)).
  { intros hX e HPo Hg Hk. pose proof (Own hX HPo) as HnX. destruct HPo as (HR & HwX & HtX).
    destruct (finish coll h i p tp w hX None HwX Hn (Rx_trans _ _ _ _ Hxh (Rx_of_R i _ _ HR)) HnX) as (F1 & F2); auto.
    red. simpl. split; auto. split; auto. split; auto. split. intros; discriminate.
    intros _ _. unfold link_of. rewrite F2. auto. }
  (* the success exit: the link is stored on a heap where the target's chain is complete *)
  assert (Store : forall h4 r o, Post coll hh h4 -> ref_ok h4 r = true -> chain_end (fuelL h4) h4 r [] = Some o ->
            rt_post coll h i (set_passed (set_target h4 i r) i false, @Ok unit tt)).
  { intros h4 r o HPo Hok4 Hch. pose proof (Own h4 HPo) as Hn4. destruct HPo as (HR & Hw4 & Ht4).
    unfold set_target. rewrite Hn4. set (h5 := update h4 i (NAlias p tp (Some r) true w)).
    assert (Hi4 : i < List.length h4) by (eapply nth_error_lt; eauto).
    assert (Hn5 : nth_error h5 i = Some (NAlias p tp (Some r) true w)) by (apply nth_update_same; auto).
    assert (Hw5 : wf coll h5 = true).
    { eapply wf_update_alias; eauto. simpl. rewrite Hok4. destruct tp; auto. }
    assert (Hx5 : Rx i h h5).
    { eapply Rx_trans; [exact Hxh|]. eapply Rx_trans; [apply Rx_of_R; exact HR|]. apply Rx_update. }
    assert (Ht5 : targets_complete h = true -> targets_complete h5 = true).
    { intros T. eapply tc_set_target; eauto. }
    destruct (finish coll h i p tp w h5 (Some r) Hw5 Hn Hx5 Hn5 Ht5) as (F1 & F2).
    red. simpl. split; auto. split; auto with c06. split; auto with c06. split.
    - intros _. red. eauto 10.
    - intros; discriminate. }
  unfold resolve_inner.
  destruct (get_member_spec coll L k rt rt_spec hh tp HPh Htp) as (HPo1 & Hg1 & Hr1).
  destruct (get_member coll L rt hh tp) as [h1 g]. simpl in Hg1, Hr1, HPo1.
  destruct g as [r | e].
  2:{ destruct e; try (apply Exit; auto with c06; try (eapply good_err; eauto); discriminate). }
  destruct (ref_eqb r (RReal i)). { apply Exit; auto with c06. }
  assert (HP1 : P coll L k h1) by (eapply P_Post; eauto).
  specialize (Hr1 r eq_refl).
  set (U := match r with
            | RReal j => match nth_error h1 j with
                         | Some (NAlias _ _ None _ _) => rt h1 j
                         | _ => (h1, Ok tt)
                         end
            | RVirt _ _ => (h1, Ok tt)
            end).
  assert (HU : Post coll h1 (fst U) /\ good (snd U) /\ nokey (snd U)).
  { assert (D : Post coll h1 (fst (h1, @Ok unit tt)) /\ good (snd (h1, @Ok unit tt)) /\ nokey (snd (h1, @Ok unit tt))).
    { simpl. split. apply Post_refl; apply HP1. split; auto with c06. }
    subst U. destruct r as [j | vp j]; auto.
    destruct (nth_error h1 j) as [[? ? ? | pj tpj [tj|] paj wj]|] eqn:Hj; auto.
    destruct (rt_spec h1 j pj tpj paj wj HP1 Hj) as (A & B & C & _). auto. }
  destruct U as [h2 u]. simpl in HU. destruct HU as (HPo2 & Hg2 & Hk2).
  assert (HPo12 : Post coll hh h2) by (eapply Post_trans; eauto).
  destruct u as [u | e]. 2:{ apply Exit; auto. }
  assert (Hok2 : ref_ok h2 r = true).
  { rewrite (ref_ok_len h1 h2); auto. symmetry. apply R_length. apply HPo2. }
  assert (HP2 : P coll L k h2) by (eapply P_Post; eauto).
  destruct (ref_is_alias h2 r) as [[|]|] eqn:Hal.
  - destruct (final_target_top coll L k rt rt_spec h2 r HP2 Hok2) as (HPo4 & Hg4 & Hk4 & _).
    assert (Hm : 2 * cnt_unseen h2 [] + vbit r < L).
    { rewrite cnt_unseen_nil. destruct HP2 as (_ & _ & HL). assert (vbit r <= 1) by (destruct r; simpl; lia). lia. }
    pose proof (final_target_chain coll L k rt rt_spec L h2 r [] ) as Hch.
    destruct (final_target rt L h2 r []) as [h4 f]. simpl in HPo4, Hg4, Hk4, Hch.
    assert (HPo14 : Post coll hh h4) by (eapply Post_trans; eauto).
    destruct f as [o | e].
    + specialize (Hch o HP2 Hok2 Hm eq_refl).
      apply (Store h4 r o); auto.
      * rewrite (ref_ok_len h2 h4); auto. symmetry. apply R_length. apply HPo4.
      * eapply chain_end_fuel; eauto. rewrite cnt_unseen_nil. unfold fuelL.
        assert (vbit r <= 1) by (destruct r; simpl; lia). lia.
    + apply Exit; auto; [eapply good_err; eauto | eapply nokey_err; eauto].
  - destruct (ref_is_alias_obj _ _ Hal) as (j & pj & c & ms & Hr & Hnj). subst r.
    apply (Store h2 (RReal j) j); auto.
    replace (fuelL h2) with (S (2 * count_aliases h2 + 2)) by (unfold fuelL; lia). simpl. rewrite Hnj. auto.
  - exfalso. eapply ref_ok_is_alias; eauto.
Qed.

(* Termination, error discipline, monotonicity and flag restoration of resolve_target, for every heap:
   with more fuel than there are aliases whose flag is down, the recursion never runs out. *)
Theorem resolve_target_spec : forall coll L n h i p tp pa w,
  P coll L n h -> nth_error h i = Some (NAlias p tp None pa w) -> rt_post coll h i (resolve_target coll L n h i).
Proof.
  induction n; intros h i p tp pa w HP Hn.
  - destruct HP as (_ & Hu & _). lia.
  - simpl. eapply resolve_body_spec; eauto.
Qed.

(* ------------------------------------------------------------------------------------------------------------ *)
(* top-level statements                                                                                          *)
(* ------------------------------------------------------------------------------------------------------------ *)
Lemma P_top : forall coll h, wf coll h = true -> P coll (fuelL h) (fuelN h) h.
Proof.
  intros. split; auto. unfold fuelN, fuelL. pose proof (unpassed_le_count h). lia.
Qed.

Lemma outcome_cases : forall A (r : res A), good r -> nokey r ->
  (exists a, r = Ok a) \/ (exists q, r = Err (EARE q)) \/ r = Err ECyc.
Proof.
  intros A r [H1 H2] H3. destruct r as [a | e]; eauto. destruct e; eauto; congruence.
Qed.

(* Alias.resolve_target on any well-formed heap (any import graph, any state of the flags): with the fuel the model
   uses the call returns, its outcome is success, AliasResolutionError or CyclicAliasError; on success the alias is
   resolved, on failure its link is still unset (all-or-nothing for the alias itself); every flag is back to what it
   was, stored links are untouched, and if every stored link led to an object before, every stored link does after. *)
Theorem resolve_top_total : forall coll h i p tp pa w,
  wf coll h = true -> nth_error h i = Some (NAlias p tp None pa w) ->
  let h' := fst (resolve_top coll h i) in
  let r := snd (resolve_top coll h i) in
  (r = Ok tt /\ resolved_in h' i \/ (exists q, r = Err (EARE q)) \/ r = Err ECyc) /\
  (forall e, r = Err e -> link_of h' i = None) /\
  wf coll h' = true /\ flags h' = flags h /\ (forall j t, link_of h j = Some t -> link_of h' j = Some t) /\
  (targets_complete h = true -> targets_complete h' = true).
Proof.
  intros coll h i p tp pa w Hw Hn. unfold resolve_top.
  destruct (resolve_target_spec coll (fuelL h) (fuelN h) h i p tp pa w (P_top _ _ Hw) Hn)
    as ((HR & Hw' & Htc) & Hg & Hk & Hres & Herr).
  cbv zeta. split; [|split; [auto | split; [auto | split; [apply R_flags; auto | split; [intros; eapply R_link; eauto | auto]]]]].
  destruct (outcome_cases _ _ Hg Hk) as [[[] E]|[E|E]]; auto.
Qed.

(* Alias.final_target (hence kind, members, every proxied attribute) on any well-formed heap *)
Theorem deref_total : forall coll h i,
  wf coll h = true -> i < List.length h ->
  let h' := fst (deref_top coll h i) in
  let r := snd (deref_top coll h i) in
  ((exists o p c ms, r = Ok o /\ nth_error h' o = Some (NObj p c ms)) \/ (exists q, r = Err (EARE q)) \/ r = Err ECyc) /\
  wf coll h' = true /\ flags h' = flags h /\ (forall j t, link_of h j = Some t -> link_of h' j = Some t) /\
  (targets_complete h = true -> targets_complete h' = true).
Proof.
  intros coll h i Hw Hi. unfold deref_top.
  assert (Hok : ref_ok h (RReal i) = true) by (simpl; apply Nat.ltb_lt; auto).
  destruct (final_target_top coll (fuelL h) (fuelN h) (resolve_target coll (fuelL h) (fuelN h))
              (fun h0 i0 p tp pa w => resolve_target_spec coll (fuelL h) (fuelN h) h0 i0 p tp pa w)
              h (RReal i) (P_top _ _ Hw) Hok) as ((HR & Hw' & Htc) & Hg & Hk & Ho).
  cbv zeta. split; [|split; [auto | split; [apply R_flags; auto | split; [intros; eapply R_link; eauto | auto]]]].
  destruct (outcome_cases _ _ Hg Hk) as [[o E]|[E|E]]; auto.
  left. destruct (Ho o E) as (p & c & ms & Hn). eauto 10.
Qed.

(* ------------------------------------------------------------------------------------------------------------ *)
(* loader level: resolve_module_aliases, one pass over the collection, the fixpoint loop                         *)
(* ------------------------------------------------------------------------------------------------------------ *)
Lemma resolve_top_spec : forall coll h i p tp pa w,
  wf coll h = true -> nth_error h i = Some (NAlias p tp None pa w) -> rt_post coll h i (resolve_top coll h i).
Proof.
  intros. unfold resolve_top. eapply resolve_target_spec; eauto. apply P_top; auto.
Qed.

Lemma deref_top_spec : forall coll h i,
  wf coll h = true -> i < List.length h ->
  Post coll h (fst (deref_top coll h i)) /\ good (snd (deref_top coll h i)) /\ nokey (snd (deref_top coll h i)).
Proof.
  intros coll h i Hw Hi. unfold deref_top.
  assert (Hok : ref_ok h (RReal i) = true) by (simpl; apply Nat.ltb_lt; auto).
  destruct (final_target_top coll (fuelL h) (fuelN h) (resolve_target coll (fuelL h) (fuelN h))
              (fun h0 i0 p tp pa w => resolve_target_spec coll (fuelL h) (fuelN h) h0 i0 p tp pa w)
              h (RReal i) (P_top _ _ Hw) Hok) as (A & B & C & _). auto.
Qed.

Definition seen_le (s s' : list string) : Prop := forall p, mem_str p s = true -> mem_str p s' = true.

Lemma seen_le_refl : forall s, seen_le s s. Proof. red; auto. Qed.
Lemma seen_le_trans : forall a b c, seen_le a b -> seen_le b c -> seen_le a c. Proof. unfold seen_le; auto. Qed.
Lemma seen_le_cons : forall s p, seen_le s (p :: s).
Proof. unfold seen_le. intros. simpl. destruct (String.eqb p0 p); auto. Qed.

Definition unseen_obj (seen : list string) (n : node) : bool :=
  match n with NObj p _ _ => negb (mem_str p seen) | _ => false end.
Definition cnt_obj (h : heap) (seen : list string) : nat := List.length (filter (unseen_obj seen) h).

Lemma R_cnt_obj : forall h h' seen, R h h' -> cnt_obj h' seen = cnt_obj h seen.
Proof.
  unfold cnt_obj. induction 1; simpl; auto.
  assert (unseen_obj seen y = unseen_obj seen x).
  { destruct x, y; simpl in *; try tauto. destruct H as (?&?). subst. auto. }
  rewrite H1. destruct (unseen_obj seen x); simpl; auto.
Qed.

Lemma cnt_obj_mono : forall h s s', seen_le s s' -> cnt_obj h s' <= cnt_obj h s.
Proof.
  unfold cnt_obj. induction h; simpl; intros; auto. specialize (IHh _ _ H).
  destruct (unseen_obj s' a) eqn:E.
  - assert (unseen_obj s a = true).
    { destruct a; simpl in *; try discriminate. destruct (mem_str path s) eqn:M; auto.
      rewrite (H _ M) in E. discriminate. }
    rewrite H0. simpl. lia.
  - destruct (unseen_obj s a); simpl; lia.
Qed.

Lemma cnt_obj_cons_lt : forall h seen i p c ms, nth_error h i = Some (NObj p c ms) -> mem_str p seen = false ->
  cnt_obj h (p :: seen) < cnt_obj h seen.
Proof.
  unfold cnt_obj. induction h; destruct i; simpl; intros; try discriminate.
  - inversion H; subst. simpl. rewrite String.eqb_refl. rewrite H0. simpl.
    pose proof (cnt_obj_mono h seen (p :: seen) (seen_le_cons _ _)) as X. unfold cnt_obj in X. lia.
  - specialize (IHh seen i p c ms H H0).
    pose proof (cnt_obj_mono [a] seen (p :: seen) (seen_le_cons _ _)) as X. unfold cnt_obj in X. simpl in X.
    destruct (unseen_obj (p :: seen) a); destruct (unseen_obj seen a); simpl in *; lia.
Qed.

Lemma cnt_obj_le_length : forall h seen, cnt_obj h seen <= List.length h.
Proof. unfold cnt_obj. induction h; simpl; intros; auto. destruct (unseen_obj seen a); simpl; specialize (IHh seen); lia. Qed.

(* the while loop of resolve_aliases: every pass that does not end the loop stores at least one new link *)
Definition unres_node (n : node) : bool := match n with NAlias _ _ None _ _ => true | _ => false end.
Definition unres_count (h : heap) : nat := List.length (filter unres_node h).

Lemma unres_le_count : forall h, unres_count h <= count_aliases h.
Proof.
  unfold unres_count, count_aliases. induction h; simpl; auto.
  destruct a; simpl; auto. destruct target; simpl; lia.
Qed.

Lemma R_unres : forall h h', R h h' -> unres_count h' <= unres_count h /\ (unres_count h' = unres_count h -> h' = h).
Proof.
  unfold unres_count. induction 1; simpl. auto.
  destruct IHForall2 as [IH1 IH2].
  destruct x as [p c ms | p tp t pa w], y as [p' c' ms' | p' tp' t' pa' w']; simpl in H; try tauto.
  - destruct H as (?&?&?). subst. simpl. split; auto. intros. f_equal. auto.
  - destruct H as (?&?&?&?&Ht). subst. destruct Ht as [Ht | [Ht Hp]]; subst.
    + destruct t; simpl; split; try lia; intros; f_equal; apply IH2; lia.
    + destruct t'; simpl; split; try lia; intros; try (f_equal; apply IH2; lia).
Qed.

Lemma unres_node_step : forall x y, step_rel x y ->
  (if unres_node y then 1 else 0) <= (if unres_node x then 1 else 0).
Proof.
  destruct x as [pp c ms | p tp t pa w], y as [pp' c' ms' | p' tp' t' pa' w']; simpl; intros; try tauto; auto.
  destruct H as (?&?&?&?&Ht). destruct t, t'; simpl; try lia. destruct Ht as [Ht|[Ht _]]; discriminate.
Qed.

Lemma R_unres_strict : forall h h', R h h' -> forall m p tp pa w,
  nth_error h m = Some (NAlias p tp None pa w) -> resolved_in h' m -> unres_count h' < unres_count h.
Proof.
  unfold unres_count. induction 1; intros m p tp pa w Hn Hr. destruct m; discriminate.
  pose proof (unres_node_step _ _ H) as Hs. pose proof (proj1 (R_unres _ _ H0)) as Hle. unfold unres_count in Hle.
  destruct m; simpl in *.
  - inversion Hn; subst. destruct Hr as (p' & tp' & t' & pa' & w' & Hy). simpl in Hy. inversion Hy; subst. simpl. lia.
  - assert (Hr' : resolved_in l' m). { destruct Hr as (p' & tp' & t' & pa' & w' & Hy). red. eauto 10. }
    specialize (IHForall2 m p tp pa w Hn Hr').
    destruct (unres_node y), (unres_node x); simpl in *; lia.
Qed.

Definition acct (a : acc) : nat := List.length (a_resolved a) + unres_count (a_heap a).

Section LoaderSpec.
  Variable coll : list (string * nat).

  Lemma visit_alias_spec : forall a m p p' tp pa w,
    wf coll (a_heap a) = true -> nth_error (a_heap a) m = Some (NAlias p' tp None pa w) ->
    Post coll (a_heap a) (a_heap (fst (visit_alias coll a m p))) /\ good (snd (visit_alias coll a m p)) /\
    nokey (snd (visit_alias coll a m p)) /\ a_seen (fst (visit_alias coll a m p)) = a_seen a /\
    acct (fst (visit_alias coll a m p)) <= acct a.
  Proof.
    intros a m p p' tp pa w Hw Hn. unfold visit_alias.
    destruct (resolve_top_spec coll (a_heap a) m p' tp pa w Hw Hn) as (HPo & Hg & Hk & Hres & _).
    destruct (resolve_top coll (a_heap a) m) as [h1 r]. simpl in *.
    pose proof (proj1 (R_unres _ _ (proj1 HPo))) as Hle1.
    destruct r as [u | e].
    - assert (Hm : m < List.length h1).
      { rewrite (R_length _ _ (proj1 HPo)). eapply nth_error_lt; eauto. }
      destruct u. pose proof (R_unres_strict _ _ (proj1 HPo) _ _ _ _ _ Hn (Hres eq_refl)) as Hlt.
      destruct (deref_top_spec coll h1 m (Post_wf _ _ _ HPo) Hm) as (HPo2 & Hg2 & Hk2).
      destruct (deref_top coll h1 m) as [h2 f]. simpl in *.
      pose proof (proj1 (R_unres _ _ (proj1 HPo2))) as Hle2.
      destruct f as [o | e]; simpl.
      + split. eapply Post_trans; eauto. split; auto with c06. split; auto with c06. split; auto.
        unfold acct. simpl. lia.
      + split. eapply Post_trans; eauto. split. eapply good_err; eauto. split. eapply nokey_err; eauto. split; auto.
        unfold acct. simpl. lia.
    - destruct e; simpl; (split; [auto | split; [auto with c06; try (eapply good_err; eauto) |
        split; [auto with c06; try (eapply nokey_err; eauto) | split; [auto | unfold acct; simpl; lia]]]]).
  Qed.

  Definition obj_unseen (a : acc) (m : nat) : Prop :=
    exists p c ms, nth_error (a_heap a) m = Some (NObj p c ms) /\ mem_str p (a_seen a) = false.

  Definition rec_spec (d : nat) (recur : acc -> nat -> acc * res unit) : Prop :=
    forall a m, wf coll (a_heap a) = true -> obj_unseen a m -> cnt_obj (a_heap a) (a_seen a) < d ->
      Post coll (a_heap a) (a_heap (fst (recur a m))) /\ good (snd (recur a m)) /\ nokey (snd (recur a m)) /\
      seen_le (a_seen a) (a_seen (fst (recur a m))) /\ acct (fst (recur a m)) <= acct a.

  Lemma members_loop_spec : forall d recur, rec_spec d recur ->
    forall ms a, wf coll (a_heap a) = true ->
      forallb (fun kv : string * nat => snd kv <? List.length (a_heap a)) ms = true ->
      cnt_obj (a_heap a) (a_seen a) < d ->
      Post coll (a_heap a) (a_heap (fst (members_loop coll recur a ms))) /\ good (snd (members_loop coll recur a ms)) /\
      nokey (snd (members_loop coll recur a ms)) /\ seen_le (a_seen a) (a_seen (fst (members_loop coll recur a ms))) /\
      acct (fst (members_loop coll recur a ms)) <= acct a.
  Proof.
    intros d recur Hrec. induction ms as [|[nm m] ms]; intros a Hw Hr Hc; simpl.
    - split. apply Post_refl; auto. split; auto with c06. split; auto with c06. split. apply seen_le_refl. lia.
    - simpl in Hr. apply andb_true_iff in Hr. destruct Hr as [Hm Hr]. apply Nat.ltb_lt in Hm.
      assert (Step : forall a' (r : res unit),
                Post coll (a_heap a) (a_heap a') -> good r -> nokey r -> seen_le (a_seen a) (a_seen a') ->
                acct a' <= acct a ->
                let res := match r with Err e => (a', Err e) | Ok _ => members_loop coll recur a' ms end in
                Post coll (a_heap a) (a_heap (fst res)) /\ good (snd res) /\ nokey (snd res) /\
                seen_le (a_seen a) (a_seen (fst res)) /\ acct (fst res) <= acct a).
      { intros a' r HPo Hg Hk Hs Hac. destruct r as [u | e]; cbv zeta.
        - assert (Hr' : forallb (fun kv : string * nat => snd kv <? List.length (a_heap a')) ms = true).
          { rewrite (R_length _ _ (proj1 HPo)). auto. }
          assert (Hc' : cnt_obj (a_heap a') (a_seen a') < d).
          { rewrite (R_cnt_obj _ _ _ (proj1 HPo)). pose proof (cnt_obj_mono (a_heap a) _ _ Hs). lia. }
          destruct (IHms a' (Post_wf _ _ _ HPo) Hr' Hc') as (A & B & C & D & E).
          split. eapply Post_trans; eauto. split; auto. split; auto. split. eapply seen_le_trans; eauto. lia.
        - simpl. auto. }
      destruct (nth_error (a_heap a) m) as [[mp c mms | p tp t pa w]|] eqn:Hn.
      + destruct (c && negb (mem_str mp (a_seen a))) eqn:Hcond.
        * apply andb_true_iff in Hcond. destruct Hcond as [_ Hcond]. apply negb_true_iff in Hcond.
          assert (Hou : obj_unseen a m) by (red; eauto).
          destruct (Hrec a m Hw Hou Hc) as (A & B & C & D & E).
          destruct (recur a m) as [a' r]. simpl in *. apply (Step a' r); auto.
        * apply IHms; auto.
      + destruct (w || match t with Some _ => true | None => false end) eqn:Hcond.
        * apply IHms; auto.
        * apply orb_false_iff in Hcond. destruct Hcond as [_ Ht]. destruct t; try discriminate.
          destruct (visit_alias_spec a m p p tp pa w Hw Hn) as (A & B & C & D & E).
          destruct (visit_alias coll a m p) as [a' r]. simpl in *. apply (Step a' r); auto.
          rewrite D. apply seen_le_refl.
      + apply nth_error_None in Hn. lia.
  Qed.

  Lemma rma_spec : forall d, rec_spec d (rma coll d).
  Proof.
    induction d; intros a o Hw (p & c & ms & Hn & Hmem) Hc. lia.
    simpl. rewrite Hn.
    set (a0 := mkAcc (a_heap a) (p :: a_seen a) (a_resolved a) (a_unresolved a)).
    assert (Hc0 : cnt_obj (a_heap a0) (a_seen a0) < d).
    { simpl. pose proof (cnt_obj_cons_lt _ _ _ _ _ _ Hn Hmem). lia. }
    pose proof (wf_node _ _ _ _ Hw Hn) as Hms. simpl in Hms.
    destruct (members_loop_spec d (rma coll d) IHd ms a0 Hw Hms Hc0) as (A & B & C & D & E).
    split; auto. split; auto. split; auto. split. eapply seen_le_trans; [apply seen_le_cons | exact D].
    unfold acct in *. simpl in *. lia.
  Qed.

  Opaque rma.
  Lemma pass_modules_spec : forall mods h unres rsv,
    wf coll h = true ->
    (forall kv, In kv mods -> exists p c ms, nth_error h (snd kv) = Some (NObj p c ms)) ->
    Post coll h (fst (pass_modules coll h mods unres rsv)) /\ good (snd (pass_modules coll h mods unres rsv)) /\
    nokey (snd (pass_modules coll h mods unres rsv)) /\
    (forall u r, snd (pass_modules coll h mods unres rsv) = Ok (u, r) ->
       List.length r + unres_count (fst (pass_modules coll h mods unres rsv)) <= List.length rsv + unres_count h).
  Proof.
    induction mods as [|[nm m] mods]; intros h unres rsv Hw Hm; simpl.
    - split. apply Post_refl; auto. split; auto with c06. split; auto with c06.
      intros u r E. inversion E; subst. lia.
    - set (a0 := mkAcc h [] rsv unres).
      destruct (Hm (nm, m) (or_introl eq_refl)) as (p & c & ms & Hn).
      assert (Hou : obj_unseen a0 m) by (red; simpl; eauto).
      assert (Hc : cnt_obj (a_heap a0) (a_seen a0) < S (List.length h)).
      { simpl. pose proof (cnt_obj_le_length h []). lia. }
      destruct (rma_spec (S (List.length h)) a0 m Hw Hou Hc) as (A & B & C & _ & E).
      destruct (rma coll (S (List.length h)) a0 m) as [a r]. simpl in A, B, C, E.
      destruct r as [u | e].
      + assert (Hm' : forall kv, In kv mods -> exists p c ms, nth_error (a_heap a) (snd kv) = Some (NObj p c ms)).
        { intros kv Hin. destruct (Hm kv (or_intror Hin)) as (p' & c' & ms' & Hn'). exists p', c', ms'.
          eapply R_nth_obj; eauto. apply A. }
        destruct (IHmods (a_heap a) (a_unresolved a) (a_resolved a) (Post_wf _ _ _ A) Hm') as (A2 & B2 & C2 & D2).
        simpl. split. eapply Post_trans; eauto. split; auto. split; auto.
        intros u' r' E'. specialize (D2 u' r' E'). unfold acct in E. simpl in E. lia.
      + simpl. split; auto. split. eapply good_err; eauto. split. eapply nokey_err; eauto. intros; discriminate.
  Qed.
  Transparent rma.

  Lemma one_pass_spec : forall h, wf coll h = true ->
    Post coll h (fst (one_pass coll h)) /\ good (snd (one_pass coll h)) /\ nokey (snd (one_pass coll h)) /\
    (forall u r, snd (one_pass coll h) = Ok (u, r) -> List.length r + unres_count (fst (one_pass coll h)) <= unres_count h).
  Proof.
    intros. unfold one_pass.
    assert (Hm : forall kv, In kv coll -> exists p c ms, nth_error h (snd kv) = Some (NObj p c ms)).
    { intros kv Hin. unfold wf, coll_ok in H. apply andb_true_iff in H. destruct H as [_ H].
      rewrite forallb_forall in H. specialize (H kv Hin).
      destruct (nth_error h (snd kv)) as [[| ]|]; try discriminate. eauto. }
    destruct (pass_modules_spec coll h [] [] H Hm) as (A & B & C & D).
    split; [auto | split; [auto | split; [auto | intros u r E; specialize (D u r E); simpl in D; lia]]].
  Qed.
End LoaderSpec.

Lemma incl_str_refl : forall l, incl_str l l = true.
Proof.
  unfold incl_str. intros. apply forallb_forall. intros x Hx. apply mem_str_In. auto.
Qed.

Lemma set_eq_refl : forall l, set_eq l l = true.
Proof. unfold set_eq. intros. rewrite incl_str_refl. auto. Qed.

Lemma ra_loop_spec : forall coll k h prev it,
  wf coll h = true -> unres_count h + 2 <= k ->
  Post coll h (fst (ra_loop coll k h prev it)) /\ good (snd (ra_loop coll k h prev it)) /\
  nokey (snd (ra_loop coll k h prev it)).
Proof.
  induction k; intros h prev it Hw Hk. lia.
  simpl. destruct (one_pass_spec coll h Hw) as (HPo & Hg & Hkk & Hac).
  destruct (one_pass coll h) as [h' r] eqn:E1. simpl in *.
  destruct r as [[unres rsv] | e].
  2:{ simpl. split; auto. split. eapply good_err; eauto. eapply nokey_err; eauto. }
  specialize (Hac unres rsv eq_refl).
  destruct unres as [|u0 us].
  { simpl. split; auto. split; auto with c06. }
  destruct (is_nil rsv && set_eq (u0 :: us) prev).
  { simpl. split; auto. split; auto with c06. }
  destruct (R_unres _ _ (proj1 HPo)) as [Hle Heq].
  destruct (Nat.eq_dec (unres_count h') (unres_count h)) as [Hsame | Hless].
  - (* nothing changed in this pass: nothing was resolved, the next pass repeats it and the loop stops *)
    specialize (Heq Hsame). subst h'.
    assert (rsv = []) by (destruct rsv; simpl in Hac; [auto | lia]). subst rsv.
    destruct k as [|k']. lia.
    simpl. rewrite E1. rewrite set_eq_refl. simpl. split; auto. split; auto with c06.
  - assert (Hk' : unres_count h' + 2 <= k) by lia.
    destruct (IHk h' (u0 :: us) (S it) (Post_wf _ _ _ HPo) Hk') as (A & B & C).
    split. eapply Post_trans; eauto. auto.
Qed.

(* GriffeLoader.resolve_aliases on any well-formed heap: the loop stops within #aliases+2 passes, the recursions never
   run out of fuel, flags are restored, stored links untouched; the only errors that can leave it are the two alias
   errors (from the eager `member.final_target.path` of the debug message). *)
Theorem resolve_aliases_total : forall coll h,
  wf coll h = true ->
  let h' := fst (resolve_aliases coll h) in
  let r := snd (resolve_aliases coll h) in
  ((exists u it, r = Ok (u, it)) \/ (exists q, r = Err (EARE q)) \/ r = Err ECyc) /\
  wf coll h' = true /\ flags h' = flags h /\ (forall j t, link_of h j = Some t -> link_of h' j = Some t) /\
  (targets_complete h = true -> targets_complete h' = true).
Proof.
  intros coll h Hw. unfold resolve_aliases.
  assert (Hk : unres_count h + 2 <= count_aliases h + 2) by (pose proof (unres_le_count h); lia).
  destruct (ra_loop_spec coll (count_aliases h + 2) h [] 0 Hw Hk) as ((HR & Hw' & Htc) & Hg & Hkk).
  cbv zeta. split; [|split; [auto | split; [apply R_flags; auto | split; [intros; eapply R_link; eauto | auto]]]].
  destruct (outcome_cases _ _ Hg Hkk) as [[[u it] E]|[E|E]]; eauto.
Qed.

(* Fixpoint, conditional form: once a pass over the collection changes nothing, resolve_aliases is a no-op that
   returns that pass' unresolved set. *)
Theorem fixpoint_after_quiet_pass : forall coll h u rsv,
  wf coll h = true -> one_pass coll h = (h, Ok (u, rsv)) ->
  exists it, resolve_aliases coll h = (h, Ok (u, it)) /\ it <= 2.
Proof.
  intros coll h u rsv Hw E. unfold resolve_aliases.
  destruct (one_pass_spec coll h Hw) as (_ & _ & _ & Hac). rewrite E in Hac. simpl in Hac.
  specialize (Hac u rsv eq_refl). assert (rsv = []) by (destruct rsv; simpl in Hac; [auto | lia]). subst rsv.
  replace (count_aliases h + 2) with (S (S (count_aliases h))) by lia.
  simpl. rewrite E. destruct u as [|u0 us].
  - exists 1. auto.
  - unfold set_eq at 1. simpl. rewrite E. rewrite set_eq_refl. exists 2. auto.
Qed.

(* ------------------------------------------------------------------------------------------------------------ *)
(* witnesses: heaps abstracted from real packages (harness/props/c06.py prints them; replayed on the implementation *)
(* on every run as known findings C06-F3 / C06-F4)                                                                *)
(* ------------------------------------------------------------------------------------------------------------ *)
(* {"p": "import p.b as m", "p.b": "from p.zz import x", "p.a": "from p.m import x"} *)
Definition w_through_coll : list (string * nat) := [("p", 0)].
Definition w_through_heap : heap :=
  [ NObj "p" true [("m", 1); ("a", 2); ("b", 4)];
    NAlias "p.m" ["p"; "b"] None false false;
    NObj "p.a" true [("x", 3)];
    NAlias "p.a.x" ["p"; "m"; "x"] None false false;
    NObj "p.b" true [("x", 5)];
    NAlias "p.b.x" ["p"; "zz"; "x"] None false false ].

(* {"p": "from p.a import *", "p.a": "from p.zz import x", "p.b": "from p import x", "p.c": "from p.b import x"},
   after wildcard expansion: p.x is stored onto the unresolved alias p.a.x *)
Definition w_pre_coll : list (string * nat) := [("p", 0)].
Definition w_pre_heap : heap :=
  [ NObj "p" true [("a", 1); ("c", 3); ("b", 5); ("x", 7)];
    NObj "p.a" true [("x", 2)];
    NAlias "p.a.x" ["p"; "zz"; "x"] None false false;
    NObj "p.c" true [("x", 4)];
    NAlias "p.c.x" ["p"; "b"; "x"] None false false;
    NObj "p.b" true [("x", 6)];
    NAlias "p.b.x" ["p"; "x"] None false false;
    NAlias "p.x" ["p"; "a"; "x"] (Some (RReal 2)) false false ].

(* a plain resolvable chain, a cycle, and a dangling chain: the hypotheses of the theorems are satisfiable and every
   outcome class is reached *)
Definition w_plain_coll : list (string * nat) := [("p", 0)].
Definition w_plain_heap : heap :=
  [ NObj "p" true [("x", 1); ("a", 2); ("y", 6); ("z", 7)];
    NAlias "p.x" ["p"; "a"; "x"] None false false;
    NObj "p.a" true [("x", 3); ("f", 4); ("y", 5)];
    NAlias "p.a.x" ["p"; "a"; "f"] None false false;
    NObj "p.a.f" false [];
    NAlias "p.a.y" ["p"; "y"] None false false;
    NAlias "p.y" ["p"; "a"; "y"] None false false;
    NAlias "p.z" ["p"; "zz"; "z"] None false false ].

Example plain_hypotheses :
  wf w_plain_coll w_plain_heap = true /\ direct w_plain_coll w_plain_heap = true /\
  chains_complete w_plain_heap = true /\ unique_paths w_plain_heap = true /\ no_passed w_plain_heap = true.
Proof. vm_compute. auto. Qed.

Example plain_outcomes :
  snd (resolve_top w_plain_coll w_plain_heap 1) = Ok tt /\
  snd (deref_top w_plain_coll w_plain_heap 1) = Ok 4 /\
  snd (resolve_top w_plain_coll w_plain_heap 5) = Err ECyc /\
  snd (resolve_top w_plain_coll w_plain_heap 7) = Err (EARE "p.z") /\
  snd (resolve_aliases w_plain_coll w_plain_heap) = Ok (["p.z"], 2) /\
  chains_complete (fst (resolve_aliases w_plain_coll w_plain_heap)) = true.
Proof. vm_compute. auto 10. Qed.

(* The former refutations of all-or-nothing and of the fixpoint (findings C06-F4 and the resolve_target side of C06-F3,
   repaired): on the same heaps the failing resolve_target now leaves the alias unlinked, and the second
   resolve_aliases returns what the first returned. *)
Example passthrough_repaired :
  snd (resolve_top w_through_coll w_through_heap 3) = Err (EARE "p.b.x") /\
  link_of (fst (resolve_top w_through_coll w_through_heap 3)) 3 = None /\
  link_of (fst (resolve_top w_through_coll w_through_heap 3)) 1 = Some (RReal 4) /\
  targets_complete (fst (resolve_top w_through_coll w_through_heap 3)) = true.
Proof. vm_compute. auto. Qed.

Example preresolved_repaired :
  targets_complete w_pre_heap = false /\
  snd (resolve_top w_pre_coll w_pre_heap 6) = Err (EARE "p.a.x") /\
  link_of (fst (resolve_top w_pre_coll w_pre_heap 6)) 6 = None /\
  snd (resolve_aliases w_pre_coll w_pre_heap) = Ok (["p.b.x"; "p.c.x"; "p.a.x"], 2) /\
  snd (resolve_aliases w_pre_coll (fst (resolve_aliases w_pre_coll w_pre_heap))) = Ok (["p.b.x"; "p.c.x"; "p.a.x"], 2).
Proof. vm_compute. auto 10. Qed.

Definition Inv (coll : list (string * nat)) (L : nat) (h : heap) : Prop :=
  wf coll h = true /\ direct coll h = true /\ chains_complete_L L h = true /\ unique_paths h = true /\
  2 * count_aliases h + 2 < L.

Lemma direct_nth : forall coll h i p tp t pa w, direct coll h = true -> nth_error h i = Some (NAlias p tp t pa w) ->
  (exists x, static_get coll h tp = Some x) /\ (forall vp j, t <> Some (RVirt vp j)).
Proof.
  unfold direct. intros. pose proof (forallb_nth _ _ _ _ _ H H0) as X. simpl in X.
  apply andb_true_iff in X. destruct X as [X1 X2]. split.
  - destruct (static_get coll h tp); try discriminate. eauto.
  - intros vp j E. subst. discriminate.
Qed.

Lemma direct_no_virt : forall coll h, direct coll h = true -> no_virt h.
Proof.
  intros coll h Hd k p tp vp j pa w E. destruct (direct_nth _ _ _ _ _ _ _ _ Hd E) as [_ X]. eapply X; eauto.
Qed.

Lemma direct_update : forall coll h i p tp t pa w t' pa',
  direct coll h = true -> nth_error h i = Some (NAlias p tp t pa w) -> (forall vp j, t' <> Some (RVirt vp j)) ->
  direct coll (update h i (NAlias p tp t' pa' w)) = true.
Proof.
  intros coll h i p tp t pa w t' pa' Hd Hn Ht. unfold direct in *.
  set (n' := NAlias p tp t' pa' w).
  assert (Hst : forall parts, static_get coll (update h i n') parts = static_get coll h parts).
  { intros. eapply static_get_update; eauto. }
  eapply forallb_update_ix; [exact Hd | |].
  - simpl. rewrite Hst. destruct (direct_nth _ _ _ _ _ _ _ _ Hd Hn) as [[x Hx] _]. rewrite Hx. simpl.
    destruct t' as [[|vp j]|]; auto. exfalso. eapply Ht; eauto.
  - intros k n _ _ Hf. destruct n; auto. rewrite Hst. auto.
Qed.

Lemma cc_update : forall L h i p tp pa w n',
  chains_complete_L L h = true -> nth_error h i = Some (NAlias p tp None pa w) ->
  complete_at L (update h i n') n' = true -> chains_complete_L L (update h i n') = true.
Proof.
  intros L h i p tp pa w n' Hc Hn Hn'. unfold chains_complete_L in *.
  eapply forallb_update_ix; [exact Hc | exact Hn' |].
  intros k n _ _ Hf. destruct n as [| pk tpk [t|] pak wk]; auto. simpl in *.
  destruct (chain_end L h t [pk]) as [o|] eqn:E; try discriminate.
  erewrite chain_end_update_unres; eauto.
Qed.

Lemma unique_update : forall h i p tp t pa w t' pa',
  unique_paths h = true -> nth_error h i = Some (NAlias p tp t pa w) ->
  unique_paths (update h i (NAlias p tp t' pa' w)) = true.
Proof. unfold unique_paths. intros. erewrite alias_paths_update; eauto. Qed.

Lemma Inv_flag : forall coll L h i p tp w,
  Inv coll L h -> nth_error h i = Some (NAlias p tp None false w) ->
  Inv coll L (update h i (NAlias p tp None true w)).
Proof.
  intros coll L h i p tp w (Hw & Hd & Hc & Hu & Hl) Hn. split; [|split; [|split; [|split]]].
  - eapply wf_update_alias; eauto. pose proof (wf_node _ _ _ _ Hw Hn). auto.
  - eapply direct_update; eauto. intros; discriminate.
  - eapply cc_update; eauto.
  - eapply unique_update; eauto.
  - erewrite count_aliases_update; eauto.
Qed.

Lemma static_from_range : forall coll h parts i j, wf coll h = true -> i < List.length h ->
  static_from h i parts = Some (Some j) -> j < List.length h.
Proof.
  induction parts as [|name rest]; intros i j Hw Hi Hs; simpl in *.
  - inversion Hs; subst; auto.
  - destruct (nth_error h i) as [[p c ms| ]|] eqn:Hn; try discriminate.
    destruct (lookup name ms) as [k|] eqn:Hl; try discriminate.
    pose proof (wf_node _ _ _ _ Hw Hn) as Hms. simpl in Hms.
    apply (IHrest k j); auto. eapply lookup_in_range; eauto.
Qed.

Lemma static_get_range : forall coll h parts j, wf coll h = true ->
  static_get coll h parts = Some (Some j) -> j < List.length h.
Proof.
  intros. destruct parts as [|top rest]; simpl in *. discriminate.
  destruct (lookup top coll) as [m|] eqn:Hl; try discriminate.
  destruct (wf_coll _ _ _ _ H Hl) as (p & c & ms & Hn).
  eapply static_from_range; eauto. eapply nth_error_lt; eauto.
Qed.

Definition aon_result (coll : list (string * nat)) (L : nat) (h : heap) (i : nat) (X : heap * res unit) : Prop :=
  (snd X = Ok tt /\ Inv coll L (fst X) /\ R h (fst X) /\ resolved_in (fst X) i) \/
  (exists e, snd X = Err e /\ fst X = h).

Definition aon_spec (coll : list (string * nat)) (L : nat) (rt : heap -> nat -> heap * res unit) : Prop :=
  forall h i p tp pa w, Inv coll L h -> nth_error h i = Some (NAlias p tp None pa w) -> aon_result coll L h i (rt h i).

(* the end of _resolve_target once the target node j is known and resolved: dereference it, then store the link *)
Definition tail (L : nat) (rt : heap -> nat -> heap * res unit) (i j : nat) (h2 : heap) : heap * res unit :=
  match ref_is_alias h2 (RReal j) with
  | None => (h2, Err EBad)
  | Some false => (set_target h2 i (RReal j), Ok tt)
  | Some true =>
      let '(h4, f) := final_target rt L h2 (RReal j) [] in
      match f with Err e => (h4, Err e) | Ok _ => (set_target h4 i (RReal j), Ok tt) end
  end.

Lemma resolve_body_aon : forall coll L rt, aon_spec coll L rt -> aon_spec coll L (resolve_body coll L rt).
Proof.
  intros coll L rt Hrt h i p tp pa w HI Hn. unfold resolve_body. rewrite Hn. destruct pa.
  { right. exists ECyc. simpl. auto. }
  assert (Ehh : set_passed h i true = update h i (NAlias p tp None true w)) by (unfold set_passed; rewrite Hn; auto).
  rewrite Ehh. clear Ehh. set (hh := update h i (NAlias p tp None true w)).
  assert (Hi : i < List.length h) by (eapply nth_error_lt; eauto).
  assert (Hnh : nth_error hh i = Some (NAlias p tp None true w)) by (apply nth_update_same; auto).
  assert (Back : set_passed hh i false = h).
  { unfold set_passed. rewrite Hnh. unfold hh. rewrite update_update. apply update_id. exact Hn. }
  assert (HIh : Inv coll L hh) by (eapply Inv_flag; eauto).
  pose proof HIh as (Hwh & Hdh & Hch & Huh & Hlh).
  destruct (direct_nth _ _ _ _ _ _ _ _ Hdh Hnh) as [[x Hx] _].
  unfold resolve_inner. rewrite (get_member_static coll L rt hh tp x Hx).
  destruct x as [j|].
  2:{ right. exists (EARE p). simpl. auto. }
  pose proof (static_get_range _ _ _ _ Hwh Hx) as Hj.
  simpl ref_eqb. destruct (Nat.eqb j i) eqn:Eji.
  { right. exists ECyc. simpl. auto. }
  apply Nat.eqb_neq in Eji.
  assert (Tail : forall h2, Inv coll L h2 -> R hh h2 ->
            ((exists pj c ms, nth_error h2 j = Some (NObj pj c ms)) \/ resolved_in h2 j) ->
            aon_result coll L h i (let '(h1, r) := tail L rt i j h2 in (set_passed h1 i false, r))).
  { intros h2 (Hw2 & Hd2 & Hc2 & Hu2 & Hl2) HR2 Hj2.
    destruct (R_nth_alias _ _ _ _ _ _ _ _ HR2 Hnh) as (t2 & Hn2 & Ht2).
    assert (t2 = None) by (destruct Ht2 as [?|[_ ?]]; [auto | discriminate]). subst t2. clear Ht2.
    set (h3 := update h2 i (NAlias p tp (Some (RReal j)) true w)).
    assert (Eh3 : set_target h2 i (RReal j) = h3) by (unfold set_target; rewrite Hn2; auto).
    assert (Hi2 : i < List.length h2) by (eapply nth_error_lt; eauto).
    assert (Hn3 : nth_error h3 i = Some (NAlias p tp (Some (RReal j)) true w)) by (apply nth_update_same; auto).
    assert (Hj2len : j < List.length h2) by (rewrite (R_length _ _ HR2); auto).
    assert (Hw3 : wf coll h3 = true).
    { eapply wf_update_alias; eauto. simpl. pose proof (wf_node _ _ _ _ Hw2 Hn2) as X. simpl in X.
      apply andb_true_iff in X. destruct X as [X _]. rewrite X. simpl. apply Nat.ltb_lt. auto. }
    assert (Hx3 : Rx i h h3).
    { eapply Rx_trans; [apply Rx_update|]. eapply Rx_trans; [apply Rx_of_R; exact HR2|]. apply Rx_update. }
    destruct (finish_R coll h i p tp w h3 (Some (RReal j)) Hw3 Hn Hx3 Hn3) as ((FR & Fw) & Fn).
    set (nf := NAlias p tp (Some (RReal j)) false w).
    assert (Ehf : set_passed h3 i false = update h2 i nf).
    { unfold set_passed. rewrite Hn3. unfold h3. apply update_update. }
    assert (Done : complete_at L (update h2 i nf) nf = true -> aon_result coll L h i (set_passed h3 i false, Ok tt)).
    { intros Fc. left. simpl. rewrite Ehf in *. split; auto. split; [|split; auto].
      - split; auto. split; [|split; [|split]].
        + eapply direct_update; eauto. intros; discriminate.
        + eapply cc_update; eauto.
        + eapply unique_update; eauto.
        + erewrite count_aliases_update; eauto.
      - red. exists p, tp, (RReal j), false, w. apply nth_update_same; auto. }
    assert (HL : exists L', L = S L') by (destruct L; [lia | eauto]). destruct HL as [L' HL].
    unfold tail. simpl ref_is_alias.
    destruct Hj2 as [(pj & c & ms & Hnj) | (pj & tpj & tj & paj & wj & Hnj)]; rewrite Hnj; simpl is_alias_node; cbv iota.
    - rewrite Eh3. apply Done. simpl. subst L. simpl. rewrite nth_update_other by auto. rewrite Hnj. auto.
    - pose proof (forallb_nth _ _ _ _ _ Hc2 Hnj) as Cj. simpl in Cj.
      destruct (chain_end L h2 tj [pj]) as [o|] eqn:Ej; try discriminate.
      assert (E0 : chain_end L h2 (RReal j) [] = Some o).
      { apply (chain_end_fuel (S L)). simpl. rewrite Hnj. simpl. auto.
        rewrite cnt_unseen_nil. simpl. lia. }
      rewrite (final_target_pure rt L h2 (RReal j) [] o E0). rewrite Eh3.
      apply Done. simpl.
      assert (Hq : forall k pk tpk tk pak wk, nth_error h2 k = Some (NAlias pk tpk (Some tk) pak wk) -> pk <> p).
      { intros k pk tpk tk pak wk Hk E. subst pk.
        assert (k = i) by (eapply (unique_paths_inj h2 k i); eauto). subst k. rewrite Hn2 in Hk. discriminate. }
      assert (Hseen : forall s, s <> p -> mem_str s [p] = mem_str s []).
      { intros s Hs. simpl. apply String.eqb_neq in Hs. rewrite Hs. auto. }
      assert (E1 : chain_end L h2 (RReal j) [p] = Some o).
      { eapply (chain_end_seen L h2 p (RReal j) [] [p]); eauto. eapply direct_no_virt; eauto. }
      erewrite chain_end_update_unres; eauto. }
  unfold tail in Tail.
  destruct (nth_error hh j) as [[pj c ms | pj tpj [tj|] paj wj]|] eqn:Hnj.
  - apply (Tail hh HIh (R_refl hh)). left. eauto.
  - apply (Tail hh HIh (R_refl hh)). right. red. eauto 10.
  - destruct (Hrt hh j pj tpj paj wj HIh Hnj) as [(A & B & C & D) | (e & He & Hh2)];
      unfold aon_result in *; destruct (rt hh j) as [h2 u].
    + simpl in A, B, C, D. subst u. apply (Tail h2 B C). auto.
    + simpl in He, Hh2. subst u. rewrite Hh2. right. exists e. simpl. auto.
  - apply nth_error_None in Hnj. lia.
Qed.

Theorem resolve_target_aon : forall coll L n, aon_spec coll L (resolve_target coll L n).
Proof.
  induction n.
  - intros h i p tp pa w _ _. right. exists EFuel. simpl. auto.
  - simpl. apply resolve_body_aon. auto.
Qed.

(* All-or-nothing, modulo the two known gaps (KnownGap_passthrough = direct false, KnownGap_preresolved =
   chains_complete false): resolve_target either resolves the alias and leaves every stored chain complete, or fails
   and leaves the heap exactly as it was. *)
Theorem failed_resolution_changes_nothing : forall coll h i p tp pa w,
  wf coll h = true -> direct coll h = true -> chains_complete h = true -> unique_paths h = true ->
  nth_error h i = Some (NAlias p tp None pa w) ->
  let h' := fst (resolve_top coll h i) in
  let r := snd (resolve_top coll h i) in
  (r = Ok tt /\ resolved_in h' i /\ wf coll h' = true /\ direct coll h' = true /\ chains_complete h' = true /\
   unique_paths h' = true /\ flags h' = flags h) \/
  (exists e, r = Err e /\ h' = h).
Proof.
  intros coll h i p tp pa w Hw Hd Hc Hu Hn. unfold resolve_top. cbv zeta.
  assert (HI : Inv coll (fuelL h) h).
  { split; auto. split; auto. split; auto. split; auto. unfold fuelL. lia. }
  destruct (resolve_target_aon coll (fuelL h) (fuelN h) h i p tp pa w HI Hn)
    as [(A & (B1 & B2 & B3 & B4 & B5) & C & D) | E]; auto.
  set (h' := fst (resolve_target coll (fuelL h) (fuelN h) h i)) in *.
  left. split; auto. split; auto. split; auto. split; auto. split.
  - unfold chains_complete. assert (F : fuelL h' = fuelL h) by (unfold fuelL; rewrite (R_count_aliases _ _ C); auto).
    rewrite F. exact B3.
  - split; auto. apply R_flags; auto.
Qed.

(* on a heap whose stored chains are complete, dereferencing a resolved alias is pure and reaches a real object *)
Theorem complete_deref : forall coll h i p tp t pa w,
  chains_complete h = true -> nth_error h i = Some (NAlias p tp (Some t) pa w) ->
  exists o, deref_top coll h i = (h, Ok o) /\ exists po c ms, nth_error h o = Some (NObj po c ms).
Proof.
  intros coll h i p tp t pa w Hc Hn. unfold chains_complete, chains_complete_L in Hc.
  pose proof (forallb_nth _ _ _ _ _ Hc Hn) as Ci. simpl in Ci.
  destruct (chain_end (fuelL h) h t [p]) as [o|] eqn:E; try discriminate.
  assert (E0 : chain_end (fuelL h) h (RReal i) [] = Some o).
  { apply (chain_end_fuel (S (fuelL h))). simpl. rewrite Hn. simpl. auto.
    rewrite cnt_unseen_nil. unfold fuelL. simpl. lia. }
  exists o. split. unfold deref_top. apply final_target_pure; auto.
  clear - E. revert E. generalize (fuelL h) [p] t. induction n; intros seen r E; simpl in E. discriminate.
  destruct r as [k | vp k].
  - destruct (nth_error h k) as [[po c ms | pk tpk [tk|] pak wk]|] eqn:Hk; try discriminate.
    + inversion E; subst. eauto.
    + destruct (mem_str pk seen); try discriminate. eauto.
  - destruct (mem_str vp seen); try discriminate. eauto.
Qed.

Lemma hypotheses_satisfiable :
  wf w_plain_coll w_plain_heap = true /\ direct w_plain_coll w_plain_heap = true /\
  chains_complete w_plain_heap = true /\ unique_paths w_plain_heap = true /\ no_passed w_plain_heap = true /\
  snd (resolve_top w_plain_coll w_plain_heap 1) = Ok tt /\
  snd (resolve_top w_plain_coll w_plain_heap 5) = Err ECyc /\
  snd (resolve_top w_plain_coll w_plain_heap 7) = Err (EARE "p.z") /\
  snd (resolve_aliases w_plain_coll w_plain_heap) = Ok (["p.z"], 2).
Proof. pose proof plain_hypotheses. pose proof plain_outcomes. tauto. Qed.

(* All-or-nothing, for every well-formed heap, modulo the one remaining known gap (KnownGap_preresolved =
   targets_complete false: wildcard expansion has stored a link onto a chain that does not reach an object, C06-F3):
   after resolve_target every stored link still leads to an object; a failed call leaves the alias unlinked. *)
Theorem all_or_nothing_modulo_known : forall coll h i p tp pa w,
  wf coll h = true -> targets_complete h = true -> nth_error h i = Some (NAlias p tp None pa w) ->
  let h' := fst (resolve_top coll h i) in
  let r := snd (resolve_top coll h i) in
  targets_complete h' = true /\ (r = Ok tt -> resolved_in h' i) /\ (forall e, r = Err e -> link_of h' i = None).
Proof.
  intros coll h i p tp pa w Hw Ht Hn.
  destruct (resolve_top_total coll h i p tp pa w Hw Hn) as (Hout & Herr & _ & _ & _ & Htc).
  cbv zeta. split; auto. split; auto.
  intros E. destruct Hout as [[_ Hr]|[[q Hq]|Hc]]; auto; rewrite E in *; discriminate.
Qed.

(* the same for a whole resolve_aliases() *)
Theorem resolve_aliases_keeps_targets_complete : forall coll h,
  wf coll h = true -> targets_complete h = true -> targets_complete (fst (resolve_aliases coll h)) = true.
Proof. intros coll h Hw Ht. destruct (resolve_aliases_total coll h Hw) as (_ & _ & _ & _ & Htc). auto. Qed.

Lemma former_witnesses_repaired :
  snd (resolve_top w_through_coll w_through_heap 3) = Err (EARE "p.b.x") /\
  link_of (fst (resolve_top w_through_coll w_through_heap 3)) 3 = None /\
  targets_complete w_pre_heap = false /\
  link_of (fst (resolve_top w_pre_coll w_pre_heap 6)) 6 = None /\
  snd (resolve_aliases w_pre_coll (fst (resolve_aliases w_pre_coll w_pre_heap))) = snd (resolve_aliases w_pre_coll w_pre_heap).
Proof. vm_compute. auto 10. Qed.
