(* C11, elaboration layer: proofs about Model/C11_elab.v.
   The inherited view of a class in the elaborated store is CPython's lookup along the MRO (via C07's theorem
   inherited_nearest_wins), the comparison reaches the providing definitions through inheritance and through one-step
   re-exports whose targets are computed by the path walk, and so every local incompatibility of those definitions is
   reported. *)
From Coq Require Import List Arith Bool ZArith String Ascii Lia.
From Verif Require Import Lib.Sexp Model.C10_kinds Gen.C10_tables Model.C10_diff Model.C11_apidiff Proofs.C11_apidiff Model.C11_elab.
From Verif Require Model.C07_mro Proofs.C07_mro.
Import ListNotations.
Open Scope string_scope. Open Scope list_scope. Open Scope nat_scope.

(* ---- lists ---- *)
Lemma mapi_from_nth {A B} (f : nat -> A -> B) : forall l k i,
  nth_error (mapi_from f k l) i = option_map (f (k + i)) (nth_error l i).
Proof.
  induction l as [|x l IH]; intros k i; destruct i; simpl; try reflexivity.
  - rewrite Nat.add_0_r. reflexivity.
  - rewrite IH. replace (S k + i) with (k + S i) by lia. reflexivity.
Qed.
Lemma mapi_from_length {A B} (f : nat -> A -> B) : forall l k, List.length (mapi_from f k l) = List.length l.
Proof. induction l; intros; simpl; [reflexivity|rewrite IHl; reflexivity]. Qed.

Lemma concat_split {A} : forall (ll : list (list A)) c, c < List.length ll ->
  List.concat ll = List.concat (firstn c ll) ++ nth c ll [] ++ List.concat (skipn (S c) ll).
Proof.
  induction ll as [|l ll IH]; intros c Hc; simpl in Hc; [lia|].
  destruct c; simpl; [reflexivity|].
  rewrite (IH c) at 1 by lia. rewrite app_assoc. reflexivity.
Qed.

Lemma lookup07 n (d : list (string * nat)) : C07_mro.lookup n d = lookup n d.
Proof. induction d as [|[k v] d IH]; simpl; [reflexivity|]. rewrite IH. reflexivity. Qed.

Lemma lookup_app n a b : lookup n (a ++ b) = match lookup n a with Some v => Some v | None => lookup n b end.
Proof. induction a as [|[k v] a IH]; simpl; [reflexivity|]. destruct (String.eqb k n); [reflexivity|exact IH]. Qed.

Lemma smem_map_fst n ms : C07_mro.smem n (map fst ms) = match lookup n ms with Some _ => true | None => false end.
Proof.
  induction ms as [|[k v] ms IH]; simpl; [reflexivity|].
  rewrite String.eqb_sym. destruct (String.eqb k n); simpl; [reflexivity|exact IH].
Qed.

(* numbering keeps the keys and their order: the first entry for a key sits at position k <-> its number is base + k *)
Lemma lookup_number n : forall l base o, lookup n l = Some o ->
  exists k, nth_error l k = Some (n, o) /\ lookup n (number base l) = Some (base + k).
Proof.
  induction l as [|[k v] l IH]; intros base o H; simpl in H; [discriminate|].
  unfold number. simpl. destruct (String.eqb k n) eqn:E.
  - inversion H; subst. apply String.eqb_eq in E. subst. exists 0. split; [reflexivity|]. rewrite Nat.add_0_r. reflexivity.
  - destruct (IH (S base) o H) as [k0 [A B]]. exists (S k0). split; [exact A|].
    unfold number in B. rewrite B. f_equal. lia.
Qed.
Lemma lookup_number_none n : forall l base, lookup n l = None -> lookup n (number base l) = None.
Proof.
  induction l as [|[k v] l IH]; intros base H; simpl in H; [reflexivity|].
  unfold number. simpl. destruct (String.eqb k n); [discriminate|]. apply (IH (S base) H).
Qed.

(* ---- the elaborated store ---- *)
Lemma inhs_length r : List.length (inhs r) = List.length (rnodes r).
Proof. unfold inhs. rewrite map_length, seq_length. reflexivity. Qed.
Lemma inhs_nth r c : c < List.length (rnodes r) -> nth c (inhs r) [] = inh_raw r c.
Proof.
  intros Hc. unfold inhs. rewrite (nth_indep _ [] (inh_raw r 0)) by (rewrite map_length, seq_length; exact Hc).
  rewrite map_nth. rewrite seq_nth by exact Hc. reflexivity.
Qed.

Lemma rget_lt r i n : rget r i = Some n -> i < List.length (rnodes r).
Proof. unfold rget. intros H. apply nth_error_Some. rewrite H. discriminate. Qed.

Lemma elab_get_raw r i n : rget r i = Some n -> get (elab r) i = Some (elab_node r (inhs r) i n).
Proof.
  intros H. unfold get, elab. rewrite nth_error_app1 by (rewrite mapi_from_length; exact (rget_lt r i n H)).
  rewrite mapi_from_nth. unfold rget in H. rewrite H. reflexivity.
Qed.

Lemma elab_get_extra r c k nm : c < List.length (rnodes r) -> nth_error (inh_raw r c) k = Some nm ->
  get (elab r) (List.length (rnodes r) + offset (inhs r) c + k) = Some (inh_node nm).
Proof.
  intros Hc Hk. unfold get, elab.
  rewrite nth_error_app2 by (rewrite mapi_from_length; lia). rewrite mapi_from_length.
  replace (List.length (rnodes r) + offset (inhs r) c + k - List.length (rnodes r)) with (offset (inhs r) c + k) by lia.
  rewrite (concat_split (inhs r) c) by (rewrite inhs_length; exact Hc).
  rewrite map_app. rewrite nth_error_app2 by (rewrite map_length; unfold offset; lia).
  rewrite map_length. unfold offset. replace (List.length (List.concat (firstn c (inhs r))) + k - List.length (List.concat (firstn c (inhs r)))) with k by lia.
  rewrite map_app. rewrite inhs_nth by exact Hc.
  rewrite nth_error_app1 by (rewrite map_length; apply nth_error_Some; rewrite Hk; discriminate).
  rewrite nth_error_map. rewrite Hk. reflexivity.
Qed.

(* ---- the inherited view ---- *)
Definition rclass_of (r : rstore) (c : nat) (cn : rnode) : Prop := rget r c = Some cn /\ r_is_class cn = true.

Lemma nth_cls_tbl r k kn : rget r k = Some kn ->
  C07_mro.nth_cls (to_tbl r) k = C07_mro.mkCls "" (rbases r kn) (map fst (rmembers kn)).
Proof.
  intros H. unfold C07_mro.nth_cls, to_tbl.
  apply nth_error_nth. rewrite nth_error_map. unfold rget in H. rewrite H. reflexivity.
Qed.
Lemma nth_cls_tbl_none r k : rget r k = None -> C07_mro.nth_cls (to_tbl r) k = C07_mro.empty_cls.
Proof.
  intros H. unfold C07_mro.nth_cls, to_tbl. apply nth_overflow. rewrite map_length.
  unfold rget in H. apply nth_error_None. exact H.
Qed.

(* a class of the MRO that declares n really has a member n *)
Lemma first_definer_member r m n k : C07_mro.first_definer (to_tbl r) m n = Some k ->
  exists kn o, rget r k = Some kn /\ lookup n (rmembers kn) = Some o.
Proof.
  intros H. unfold C07_mro.first_definer in H. apply find_some in H. destruct H as [_ H].
  destruct (rget r k) as [kn|] eqn:E.
  - rewrite (nth_cls_tbl r k kn E) in H. simpl in H. rewrite smem_map_fst in H.
    destruct (lookup n (rmembers kn)) as [o|] eqn:L; [|discriminate]. exists kn, o. split; [reflexivity|exact L].
  - rewrite (nth_cls_tbl_none r k E) in H. simpl in H. discriminate.
Qed.

(* filtering the C07 dict through the member lookup keeps the first entry for a key *)
Definition pick_member (r : rstore) (na : string * C07_mro.alias) : list (string * nat) :=
  match rget r (C07_mro.al_owner (snd na)) with
  | Some kn => match lookup (fst na) (rmembers kn) with Some m => [(fst na, m)] | None => [] end
  | None => [] end.

Lemma inh_raw_eq r c cn : rclass_of r c cn ->
  inh_raw r c = flat_map (pick_member r) (C07_mro.inherited_members (to_tbl r) c).
Proof. intros [H1 H2]. unfold inh_raw. rewrite H1, H2. reflexivity. Qed.

Lemma lookup_pick_some r n a kn o : forall L, C07_mro.lookup n L = Some a ->
  rget r (C07_mro.al_owner a) = Some kn -> lookup n (rmembers kn) = Some o ->
  lookup n (flat_map (pick_member r) L) = Some o.
Proof.
  induction L as [|[k a'] L IH]; intros H Hk Ho; simpl in H; [discriminate|].
  simpl. rewrite lookup_app. destruct (String.eqb k n) eqn:E.
  - inversion H; subst a'. apply String.eqb_eq in E. subst k.
    unfold pick_member at 1. simpl. rewrite Hk, Ho. simpl. rewrite String.eqb_refl. reflexivity.
  - assert (N : lookup n (pick_member r (k, a')) = None).
    { unfold pick_member. simpl. destruct (rget r (C07_mro.al_owner a')) as [kn'|]; [|reflexivity].
      destruct (lookup k (rmembers kn')); [|reflexivity]. simpl. rewrite E. reflexivity. }
    rewrite N. apply IH; assumption.
Qed.
Lemma lookup_pick_none r n : forall L, C07_mro.lookup n L = None -> lookup n (flat_map (pick_member r) L) = None.
Proof.
  induction L as [|[k a'] L IH]; intros H; simpl in H; [reflexivity|].
  simpl. rewrite lookup_app. destruct (String.eqb k n) eqn:E; [discriminate|].
  assert (N : lookup n (pick_member r (k, a')) = None).
  { unfold pick_member. simpl. destruct (rget r (C07_mro.al_owner a')) as [kn'|]; [|reflexivity].
    destruct (lookup k (rmembers kn')); [|reflexivity]. simpl. rewrite E. reflexivity. }
  rewrite N. apply IH; assumption.
Qed.

(* cmembers of the class table = declared member names *)
Lemma declared_smem r c cn n : rget r c = Some cn ->
  C07_mro.smem n (C07_mro.cmembers (C07_mro.nth_cls (to_tbl r) c)) = match lookup n (rmembers cn) with Some _ => true | None => false end.
Proof. intros H. rewrite (nth_cls_tbl r c cn H). simpl. apply smem_map_fst. Qed.

(* what the elaborated class shows under name n *)
Definition view (r : rstore) (c : nat) (cn : rnode) (n : string) : option nat :=
  lookup n (all_members (elab_node r (inhs r) c cn)).

Lemma view_unfold r c cn n : rclass_of r c cn ->
  view r c cn n = match lookup n (number (List.length (rnodes r) + offset (inhs r) c) (inh_raw r c)) with
                  | Some j => Some j | None => lookup n (rmembers cn) end.
Proof.
  intros [H1 H2]. unfold view, elab_node, elab_body, all_members. simpl.
  unfold r_is_class in H2. unfold rmembers. destruct (rbody_of cn); try discriminate. simpl.
  rewrite lookup_app. rewrite (inhs_nth r c (rget_lt r c cn H1)). reflexivity.
Qed.

(* a declared name shows the declared member *)
Theorem view_declared r c cn n o : rclass_of r c cn -> lookup n (rmembers cn) = Some o -> view r c cn n = Some o.
Proof.
  intros Hc Hd. rewrite (view_unfold r c cn n Hc). destruct Hc as [H1 H2].
  rewrite lookup_number_none; [exact Hd|].
  rewrite (inh_raw_eq r c cn (conj H1 H2)). apply lookup_pick_none.
  destruct (C07_mro.griffe_mro (to_tbl r) c) as [m|e|] eqn:M.
  - rewrite (C07_mro.inherited_nearest_wins (to_tbl r) c m n M). rewrite (declared_smem r c cn n H1), Hd. reflexivity.
  - rewrite (C07_mro.inherited_uncomputable_empty (to_tbl r) c e M). reflexivity.
  - unfold C07_mro.inherited_members. rewrite M. reflexivity.
Qed.

(* an undeclared name shows a fresh alias to the member of the first class of the MRO that declares it *)
Theorem view_inherited r c cn n m k : rclass_of r c cn -> lookup n (rmembers cn) = None ->
  C07_mro.griffe_mro (to_tbl r) c = C07_mro.Ok m -> C07_mro.first_definer (to_tbl r) m n = Some k ->
  exists kn o j, rget r k = Some kn /\ lookup n (rmembers kn) = Some o /\ view r c cn n = Some j /\
                 List.length (rnodes r) <= j /\ get (elab r) j = Some (mkNode n None (BAlias (TRes o))).
Proof.
  intros Hc Hd M F. destruct (first_definer_member r m n k F) as [kn [o [Hk Ho]]].
  exists kn, o.
  assert (L : lookup n (inh_raw r c) = Some o).
  { rewrite (inh_raw_eq r c cn Hc).
    apply (lookup_pick_some r n (C07_mro.mkAlias n c k true) kn o); [|exact Hk|exact Ho].
    rewrite (C07_mro.inherited_nearest_wins (to_tbl r) c m n M). destruct Hc as [H1 H2].
    rewrite (declared_smem r c cn n H1), Hd, F. reflexivity. }
  destruct (lookup_number n (inh_raw r c) (List.length (rnodes r) + offset (inhs r) c) o L) as [k0 [A B]].
  exists (List.length (rnodes r) + offset (inhs r) c + k0). split; [exact Hk|]. split; [exact Ho|].
  split; [rewrite (view_unfold r c cn n Hc), B; reflexivity|]. split; [lia|].
  destruct Hc as [H1 H2]. rewrite (elab_get_extra r c k0 (n, o) (rget_lt r c cn H1) A). reflexivity.
Qed.

(* nothing provides the name: the elaborated class has no such member *)
Theorem view_none r c cn n : rclass_of r c cn -> provider r c n = None -> view r c cn n = None.
Proof.
  intros Hc P. rewrite (view_unfold r c cn n Hc). destruct Hc as [H1 H2]. unfold provider in P. rewrite H1 in P.
  destruct (lookup n (rmembers cn)) as [o|] eqn:Hd; [discriminate|].
  rewrite lookup_number_none; [reflexivity|].
  rewrite (inh_raw_eq r c cn (conj H1 H2)). apply lookup_pick_none.
  destruct (C07_mro.griffe_mro (to_tbl r) c) as [m|e|] eqn:M.
  - rewrite (C07_mro.inherited_nearest_wins (to_tbl r) c m n M). rewrite (declared_smem r c cn n H1), Hd.
    destruct (C07_mro.first_definer (to_tbl r) m n) as [k|] eqn:F; [|reflexivity].
    exfalso. destruct (first_definer_member r m n k F) as [kn [o [Hk Ho]]]. rewrite Hk, Ho in P. discriminate.
  - rewrite (C07_mro.inherited_uncomputable_empty (to_tbl r) c e M). reflexivity.
  - unfold C07_mro.inherited_members. rewrite M. reflexivity.
Qed.

(* summary: the member shown under n is the provider, directly or behind one fresh alias *)
Theorem view_is_provider r c cn n o : rclass_of r c cn -> provider r c n = Some o ->
  exists j, view r c cn n = Some j /\ (j = o \/ (lookup n (rmembers cn) = None /\ List.length (rnodes r) <= j /\ get (elab r) j = Some (mkNode n None (BAlias (TRes o))))).
Proof.
  intros Hc P. assert (Hc' := Hc). destruct Hc' as [H1 H2]. unfold provider in P. rewrite H1 in P.
  destruct (lookup n (rmembers cn)) as [o1|] eqn:Hd.
  - inversion P; subst. exists o. split; [exact (view_declared r c cn n o Hc Hd)|left; reflexivity].
  - destruct (C07_mro.griffe_mro (to_tbl r) c) as [m|e|] eqn:M; try discriminate.
    destruct (C07_mro.first_definer (to_tbl r) m n) as [k|] eqn:F; [|discriminate].
    destruct (view_inherited r c cn n m k Hc Hd M F) as [kn [o2 [j [Hk [Ho [V [Hj G]]]]]]].
    rewrite Hk, Ho in P. inversion P; subst. exists j. split; [exact V|]. right. split; [reflexivity|]. split; [exact Hj|exact G].
Qed.

(* ---- elaborated nodes ---- *)
Definition rkind (n : rnode) : okind :=
  match rbody_of n with RModule _ _ _ => KModule | RClass _ _ _ _ => KClass | RFunction _ _ => KFunction
                      | RAttribute _ _ => KAttribute | RAlias _ => KAlias end.
Lemma elab_node_alias r ll i n : is_alias (elab_node r ll i n) = r_is_alias n.
Proof. unfold is_alias, r_is_alias, elab_node, elab_body. simpl. destruct (rbody_of n); reflexivity. Qed.
Lemma elab_node_kind r ll i n : kind_of (elab_node r ll i n) = rkind n.
Proof. unfold kind_of, rkind, elab_node, elab_body. simpl. destruct (rbody_of n); reflexivity. Qed.
Lemma elab_node_class r ll c cn : r_is_class cn = true ->
  is_alias (elab_node r ll c cn) = false /\ kind_of (elab_node r ll c cn) = KClass /\ is_container (elab_node r ll c cn) = true.
Proof.
  intros H. unfold is_alias, kind_of, is_container, elab_node, elab_body. simpl.
  unfold r_is_class in H. destruct (rbody_of cn); try discriminate. auto.
Qed.
Lemma tgt_of_nonalias n i : is_alias n = false -> tgt_of n i = TRes i.
Proof. unfold is_alias, tgt_of. destruct (nbody n); intros H; try reflexivity; discriminate. Qed.
Lemma elab_node_tgt r ll i n : r_is_alias n = true -> tgt_of (elab_node r ll i n) i = outcome r i.
Proof. unfold r_is_alias, tgt_of, elab_node, elab_body. simpl. destruct (rbody_of n); intros H; try discriminate. reflexivity. Qed.

(* the alias Object.inherited_members makes for an inherited name is public unless the name is private or imported in the class *)
Lemma inherited_alias_public r ll c cn n o : r_is_class cn = true ->
  is_private n = false -> smem n (imports_of (elab_node r ll c cn)) = false ->
  is_public (elab_node r ll c cn) (mkNode n None (BAlias (TRes o))) = true.
Proof.
  intros Hc Hp Hi. rewrite is_public_matches_doc. unfold is_public_doc, listed_in_all, defines_all. simpl. rewrite Hp, Hi.
  unfold elab_body. unfold r_is_class in Hc. destruct (rbody_of cn); try discriminate. reflexivity.
Qed.

(* Alias.target of a one-step re-export: the object the path walk finds *)
Lemma outcome_one_step r a an p t tn : rget r a = Some an -> rbody_of an = RAlias p -> walk r p = WOk t ->
  rget r t = Some tn -> r_is_alias tn = false -> outcome r a = TRes t.
Proof.
  intros Ha Hb Hw Ht Hn. unfold outcome, chase_fuel. simpl. rewrite Ha. unfold rtpath. rewrite Hb, Hw.
  assert (Ne : Nat.eqb t a = false).
  { apply Nat.eqb_neq. intros E. subst t. rewrite Ha in Ht. inversion Ht; subst tn.
    unfold r_is_alias in Hn. rewrite Hb in Hn. discriminate. }
  unfold nmem. simpl. rewrite Ne. simpl. rewrite Ht, Hn. reflexivity.
Qed.

Section Through.
Variables ro rn : rstore.
Variables ri rj : nat.
Let go := elab ro.
Let gn := elab rn.

(* the comparison reaches, through inheritance at any depth, the definitions CPython's lookup along the MRO provides:
   c / c' are compared classes, n a name whose view on the old class is public, o / o' the providing definitions *)
Theorem visit_through_inheritance c c' cn cn' n o o' on on' :
  Visit go gn ri rj c c' -> rclass_of ro c cn -> rclass_of rn c' cn' ->
  provider ro c n = Some o -> provider rn c' n = Some o' ->
  rget ro o = Some on -> r_is_alias on = false -> rget rn o' = Some on' -> r_is_alias on' = false ->
  (forall j mo, view ro c cn n = Some j -> get go j = Some mo -> is_public (elab_node ro (inhs ro) c cn) mo = true) ->
  Visit go gn ri rj o o'.
Proof.
  intros Hv Hc Hc' P P' Ho Hoa Ho' Hoa' Hpub.
  destruct (view_is_provider ro c cn n o Hc P) as [j [V Cj]].
  destruct (view_is_provider rn c' cn' n o' Hc' P') as [j' [V' Cj']].
  assert (Gc : get go c = Some (elab_node ro (inhs ro) c cn)) by (apply elab_get_raw; exact (proj1 Hc)).
  assert (Gc' : get gn c' = Some (elab_node rn (inhs rn) c' cn')) by (apply elab_get_raw; exact (proj1 Hc')).
  destruct (elab_node_class ro (inhs ro) c cn (proj2 Hc)) as [A1 [K1 C1]].
  destruct (elab_node_class rn (inhs rn) c' cn' (proj2 Hc')) as [A2 [K2 _]].
  assert (Go : get go o = Some (elab_node ro (inhs ro) o on)) by (apply elab_get_raw; exact Ho).
  assert (Go' : get gn o' = Some (elab_node rn (inhs rn) o' on')) by (apply elab_get_raw; exact Ho').
  assert (Gj : exists mo, get go j = Some mo /\ tgt_of mo j = TRes o /\ (j = o \/ is_alias mo = true)).
  { destruct Cj as [E|[_ [_ G]]].
    - subst j. exists (elab_node ro (inhs ro) o on). split; [exact Go|]. split; [|left; reflexivity].
      apply tgt_of_nonalias. rewrite elab_node_alias. exact Hoa.
    - exists (mkNode n None (BAlias (TRes o))). split; [exact G|]. split; [reflexivity|right; reflexivity]. }
  assert (Gj' : exists mo, get gn j' = Some mo /\ tgt_of mo j' = TRes o' /\ (j' = o' \/ is_alias mo = true)).
  { destruct Cj' as [E|[_ [_ G]]].
    - subst j'. exists (elab_node rn (inhs rn) o' on'). split; [exact Go'|]. split; [|left; reflexivity].
      apply tgt_of_nonalias. rewrite elab_node_alias. exact Hoa'.
    - exists (mkNode n None (BAlias (TRes o'))). split; [exact G|]. split; [reflexivity|right; reflexivity]. }
  destruct Gj as [mo [Gj [Tj Dj]]]. destruct Gj' as [mo' [Gj' [Tj' Dj']]].
  assert (Vj : Visit go gn ri rj j j').
  { apply (V_member go gn ri rj c c' (elab_node ro (inhs ro) c cn) (elab_node rn (inhs rn) c' cn') n j mo j'); try assumption.
    - rewrite A1, A2. reflexivity.
    - rewrite K1, K2. reflexivity.
    - apply lookup_in. exact V.
    - apply (Hpub j mo V Gj). }
  destruct Dj as [E|Al].
  - destruct Dj' as [E'|Al'].
    + subst. exact Vj.
    + apply (V_target go gn ri rj j j' mo mo' o o' Vj Gj Gj'); [rewrite Al'; apply orb_true_r|exact Tj|exact Tj'].
  - apply (V_target go gn ri rj j j' mo mo' o o' Vj Gj Gj'); [rewrite Al; reflexivity|exact Tj|exact Tj'].
Qed.

(* one-step re-exports: the target the comparison follows is the object found by walking the alias's target path through
   the modules collection (computed here, not read from Griffe); an alias on one side only is handled the same way *)
Theorem visit_through_reexport a a' an an' p p' t t' tn tn' :
  Visit go gn ri rj a a' ->
  rget ro a = Some an -> rbody_of an = RAlias p -> walk ro p = WOk t -> rget ro t = Some tn -> r_is_alias tn = false ->
  rget rn a' = Some an' -> rbody_of an' = RAlias p' -> walk rn p' = WOk t' -> rget rn t' = Some tn' -> r_is_alias tn' = false ->
  Visit go gn ri rj t t'.
Proof.
  intros Hv Ha Hb Hw Ht Hn Ha' Hb' Hw' Ht' Hn'.
  assert (Al : r_is_alias an = true) by (unfold r_is_alias; rewrite Hb; reflexivity).
  assert (Al' : r_is_alias an' = true) by (unfold r_is_alias; rewrite Hb'; reflexivity).
  apply (V_target go gn ri rj a a' (elab_node ro (inhs ro) a an) (elab_node rn (inhs rn) a' an') t t' Hv).
  - apply elab_get_raw. exact Ha.
  - apply elab_get_raw. exact Ha'.
  - rewrite elab_node_alias, Al. reflexivity.
  - rewrite (elab_node_tgt ro (inhs ro) a an Al). apply (outcome_one_step ro a an p t tn); assumption.
  - rewrite (elab_node_tgt rn (inhs rn) a' an' Al'). apply (outcome_one_step rn a' an' p' t' tn'); assumption.
Qed.
Theorem visit_reexport_vs_object a a' an an' p t tn :
  Visit go gn ri rj a a' ->
  rget ro a = Some an -> rbody_of an = RAlias p -> walk ro p = WOk t -> rget ro t = Some tn -> r_is_alias tn = false ->
  rget rn a' = Some an' -> r_is_alias an' = false ->
  Visit go gn ri rj t a'.
Proof.
  intros Hv Ha Hb Hw Ht Hn Ha' Hn'.
  assert (Al : r_is_alias an = true) by (unfold r_is_alias; rewrite Hb; reflexivity).
  apply (V_target go gn ri rj a a' (elab_node ro (inhs ro) a an) (elab_node rn (inhs rn) a' an') t a' Hv).
  - apply elab_get_raw. exact Ha.
  - apply elab_get_raw. exact Ha'.
  - rewrite elab_node_alias, Al. reflexivity.
  - rewrite (elab_node_tgt ro (inhs ro) a an Al). apply (outcome_one_step ro a an p t tn); assumption.
  - apply tgt_of_nonalias. rewrite elab_node_alias. exact Hn'.
Qed.

Variables (fuel : nat) (s : list (nat * nat)) (l : list ev).
Hypothesis Hrun : fbc go gn fuel ri rj = Ok s l.

(* whatever is locally incompatible between the providing definitions is reported (kind, value, parameters, bases, return) *)
Theorem inherited_change_reported c c' cn cn' n o o' on on' b :
  Visit go gn ri rj c c' -> rclass_of ro c cn -> rclass_of rn c' cn' ->
  provider ro c n = Some o -> provider rn c' n = Some o' ->
  rget ro o = Some on -> r_is_alias on = false -> rget rn o' = Some on' -> r_is_alias on' = false ->
  (forall j mo, view ro c cn n = Some j -> get go j = Some mo -> is_public (elab_node ro (inhs ro) c cn) mo = true) ->
  In b (local go gn (EHead o o')) -> In b (breakages go gn l).
Proof.
  intros Hv Hc Hc' P P' Ho Hoa Ho' Hoa' Hpub Hb.
  apply (head_complete go gn ri rj fuel s l Hrun o o' b); [|exact Hb].
  apply (visit_through_inheritance c c' cn cn' n o o' on on'); assumption.
Qed.

Theorem inherited_rekinding_reported c c' cn cn' n o o' on on' :
  Visit go gn ri rj c c' -> rclass_of ro c cn -> rclass_of rn c' cn' ->
  provider ro c n = Some o -> provider rn c' n = Some o' ->
  rget ro o = Some on -> r_is_alias on = false -> rget rn o' = Some on' -> r_is_alias on' = false ->
  (forall j mo, view ro c cn n = Some j -> get go j = Some mo -> is_public (elab_node ro (inhs ro) c cn) mo = true) ->
  rkind on <> rkind on' -> In (BKind o') (breakages go gn l).
Proof.
  intros Hv Hc Hc' P P' Ho Hoa Ho' Hoa' Hpub Hk.
  apply (rekinding_reported go gn ri rj fuel s l Hrun o o' (elab_node ro (inhs ro) o on) (elab_node rn (inhs rn) o' on')).
  - apply (visit_through_inheritance c c' cn cn' n o o' on on'); assumption.
  - apply elab_get_raw. exact Ho.
  - apply elab_get_raw. exact Ho'.
  - rewrite elab_node_alias. exact Hoa.
  - rewrite elab_node_alias. exact Hoa'.
  - rewrite !elab_node_kind. exact Hk.
Qed.

(* a public name CPython's lookup finds on the old class and not on the new one is reported as removed, on the class's own path *)
Theorem inherited_removal_reported c c' cn cn' n o on :
  Visit go gn ri rj c c' -> rclass_of ro c cn -> rclass_of rn c' cn' ->
  provider ro c n = Some o -> rget ro o = Some on -> provider rn c' n = None ->
  (forall j mo, view ro c cn n = Some j -> get go j = Some mo -> is_public (elab_node ro (inhs ro) c cn) mo = true) ->
  exists j, view ro c cn n = Some j /\ In (BRemoved j) (breakages go gn l).
Proof.
  intros Hv Hc Hc' P Ho P' Hpub.
  destruct (view_is_provider ro c cn n o Hc P) as [j [V Cj]]. exists j. split; [exact V|].
  assert (Gc : get go c = Some (elab_node ro (inhs ro) c cn)) by (apply elab_get_raw; exact (proj1 Hc)).
  assert (Gc' : get gn c' = Some (elab_node rn (inhs rn) c' cn')) by (apply elab_get_raw; exact (proj1 Hc')).
  destruct (elab_node_class ro (inhs ro) c cn (proj2 Hc)) as [A1 [K1 C1]].
  destruct (elab_node_class rn (inhs rn) c' cn' (proj2 Hc')) as [A2 [K2 _]].
  assert (Gj : exists mo, get go j = Some mo).
  { destruct Cj as [E|[_ [_ G]]]; [subst j; eexists; apply elab_get_raw; exact Ho|eexists; exact G]. }
  destruct Gj as [mo Gj].
  apply (public_removal_reported go gn ri rj fuel s l Hrun c c' (elab_node ro (inhs ro) c cn) (elab_node rn (inhs rn) c' cn') n j mo).
  - right. split; [exact Hv|]. exists (elab_node ro (inhs ro) c cn), (elab_node rn (inhs rn) c' cn').
    repeat split; try assumption; [rewrite A1, A2; reflexivity|rewrite K1, K2; reflexivity].
  - exact Gc.
  - exact Gc'.
  - apply lookup_in. exact V.
  - exact Gj.
  - apply (Hpub j mo V Gj).
  - apply (view_none rn c' cn' n Hc' P').
Qed.
End Through.

(* ---- non-vacuity.  pkg: class Base: color = 1 / class _Mid(Base): color = 2 / class Leaf(_Mid): pass.
   new version: _Mid.color = 3.  Only the private intermediate class changed; the public Leaf shows _Mid.color (nearest
   definition along the MRO), so the change is reported -- against pkg._Mid.color, found through the fresh alias pkg.Leaf.color
   (node 6, appended by the elaboration). ---- *)
Definition ex_h (v : nat) : rstore :=
  mkRS [ mkR "pkg" None (RModule None [] [("Base", 1); ("_Mid", 3); ("Leaf", 5)]);
         mkR "Base" None (RClass [] [] [] [("color", 2)]);
         mkR "color" None (RAttribute (Some 1) None);
         mkR "_Mid" None (RClass [] [10] [["pkg"; "Base"]] [("color", 4)]);
         mkR "color" None (RAttribute (Some v) None);
         mkR "Leaf" None (RClass [] [11] [["pkg"; "_Mid"]] []) ]
       [("pkg", 0)].
Example override_in_private_base_reported :
  provider (ex_h 2) 5 "color" = Some 4 /\ view (ex_h 2) 5 (mkR "Leaf" None (RClass [] [11] [["pkg"; "_Mid"]] [])) "color" = Some 6 /\
  rwf (ex_h 2) = true /\ wf_store (elab (ex_h 2)) = true /\
  exists s l, fbc (elab (ex_h 2)) (elab (ex_h 3)) (default_fuel (elab (ex_h 2)) (elab (ex_h 3))) 0 0 = Ok s l /\
              breakages (elab (ex_h 2)) (elab (ex_h 3)) l = [BValue 4].
Proof. repeat split; try (vm_compute; reflexivity). eexists. eexists. split; vm_compute; reflexivity. Qed.

(* facade: pkg re-exports f from the private module pkg._impl (target found by the path walk); f turns into an attribute *)
Definition ex_f (b : rbody) : rstore :=
  mkRS [ mkR "pkg" None (RModule (Some ["f"]) ["f"] [("f", 1); ("_impl", 2)]);
         mkR "f" None (RAlias ["pkg"; "_impl"; "f"]);
         mkR "_impl" None (RModule None [] [("f", 3)]);
         mkR "f" None b ]
       [("pkg", 0)].
Example reexport_rekinding_reported :
  outcome (ex_f (RFunction [] None)) 1 = TRes 3 /\
  exists s l, fbc (elab (ex_f (RFunction [] None))) (elab (ex_f (RAttribute None None))) 17 0 0 = Ok s l /\
              breakages (elab (ex_f (RFunction [] None))) (elab (ex_f (RAttribute None None))) l = [BKind 3].
Proof. split; [vm_compute; reflexivity|]. eexists. eexists. split; vm_compute; reflexivity. Qed.

(* chains and cycles of re-exports: a -> b -> f resolves link by link; a -> b -> a is a CyclicAliasError; a -> missing an
   AliasResolutionError; a chain that ends in a missing name leaves every link unresolved *)
Definition ex_c : rstore :=
  mkRS [ mkR "pkg" None (RModule None [] [("a", 1); ("b", 2); ("f", 3); ("x", 4); ("y", 5); ("d", 6); ("e", 7)]);
         mkR "a" None (RAlias ["pkg"; "b"]); mkR "b" None (RAlias ["pkg"; "f"]); mkR "f" None (RFunction [] None);
         mkR "x" None (RAlias ["pkg"; "y"]); mkR "y" None (RAlias ["pkg"; "x"]);
         mkR "d" None (RAlias ["pkg"; "e"]); mkR "e" None (RAlias ["pkg"; "nope"]) ]
       [("pkg", 0)].
Example alias_outcomes : map (outcome ex_c) [1; 2; 4; 5; 6; 7] = [TRes 2; TRes 3; TCyc; TCyc; TUnres; TUnres].
Proof. vm_compute. reflexivity. Qed.

(* ======== the elaboration of a well-formed raw store is a well-formed store ======== *)
Lemma nodup_keys_iff l : nodup_keys l = true <-> NoDup (map fst l).
Proof.
  induction l as [|[k v] l IH]; simpl.
  - split; [constructor|reflexivity].
  - rewrite andb_true_iff, negb_true_iff, IH. split.
    + intros [E N]. constructor; [|exact N]. intros I. apply in_map_iff in I. destruct I as [[k' v'] [E1 I]]. simpl in E1. subst k'.
      assert (X : existsb (fun kv : string * nat => (fst kv =? k)%string) l = true).
      { apply existsb_exists. exists (k, v'). split; [exact I|simpl; apply String.eqb_refl]. }
      rewrite X in E. discriminate.
    + intros N. inversion N as [|? ? Hn Hd]; subst. split; [|exact Hd].
      destruct (existsb (fun kv : string * nat => (fst kv =? k)%string) l) eqn:X; [|reflexivity].
      exfalso. apply Hn. apply existsb_exists in X. destruct X as [[k' v'] [I E]]. simpl in E. apply String.eqb_eq in E. subst k'.
      apply in_map_iff. exists (k, v'). split; [reflexivity|exact I].
Qed.

Lemma assign_keys_in {A} n (v : A) k : forall d, In k (map fst (C07_mro.assign n v d)) <-> k = n \/ In k (map fst d).
Proof.
  induction d as [|[k' w] d IH]; simpl.
  - split; [intros [E|[]]; left; symmetry; exact E|intros [E|[]]; left; symmetry; exact E].
  - destruct (String.eqb k' n) eqn:E; simpl.
    + apply String.eqb_eq in E. subst k'. split; [intros [H|H]; [left; symmetry; exact H|right; right; exact H]|].
      intros [H|[H|H]]; [left; symmetry; exact H|left; exact H|right; exact H].
    + rewrite IH. split; [intros [H|[H|H]]; auto|intros [H|[H|H]]; auto].
Qed.
Lemma assign_nodup {A} n (v : A) : forall d, NoDup (map fst d) -> NoDup (map fst (C07_mro.assign n v d)).
Proof.
  induction d as [|[k' w] d IH]; simpl; intros N.
  - constructor; [intros []|constructor].
  - inversion N as [|? ? Hn Hd]; subst. destruct (String.eqb k' n) eqn:E; simpl.
    + constructor; assumption.
    + constructor; [|apply IH; exact Hd]. intros I. apply assign_keys_in in I. destruct I as [I|I].
      * subst k'. rewrite String.eqb_refl in E. discriminate.
      * apply Hn. exact I.
Qed.
Lemma add_base_nodup t c base : forall d, NoDup (map fst d) -> NoDup (map fst (C07_mro.add_base t c d base)).
Proof.
  unfold C07_mro.add_base. induction (C07_mro.cmembers (C07_mro.nth_cls t base)) as [|n ns IH]; intros d N; simpl; [exact N|].
  apply IH. destruct (C07_mro.smem n (C07_mro.cmembers (C07_mro.nth_cls t c))); [exact N|apply assign_nodup; exact N].
Qed.
Lemma inherited_nodup t c : NoDup (map fst (C07_mro.inherited_members t c)).
Proof.
  unfold C07_mro.inherited_members. destruct (C07_mro.griffe_mro t c) as [m| |]; try constructor.
  assert (G : forall l d, NoDup (map fst d) -> NoDup (map fst (fold_left (C07_mro.add_base t c) l d))).
  { induction l as [|b l IH]; intros d N; simpl; [exact N|]. apply IH. apply add_base_nodup. exact N. }
  apply G. constructor.
Qed.

Lemma pick_keys_sub r k : forall L, In k (map fst (flat_map (pick_member r) L)) -> In k (map fst L).
Proof.
  induction L as [|[k' a] L IH]; simpl; intros H; [exact H|].
  rewrite map_app in H. apply in_app_or in H. destruct H as [H|H]; [|right; apply IH; exact H].
  left. unfold pick_member in H. simpl in H. destruct (rget r (C07_mro.al_owner a)) as [kn|]; [|destruct H].
  destruct (lookup k' (rmembers kn)); [|destruct H]. simpl in H. destruct H as [H|[]]. exact H.
Qed.
Lemma pick_nodup r : forall L, NoDup (map fst L) -> NoDup (map fst (flat_map (pick_member r) L)).
Proof.
  induction L as [|[k' a] L IH]; simpl; intros N; [constructor|].
  inversion N as [|? ? Hn Hd]; subst. rewrite map_app.
  unfold pick_member at 1. simpl. destruct (rget r (C07_mro.al_owner a)) as [kn|]; [|apply IH; exact Hd].
  destruct (lookup k' (rmembers kn)); [|apply IH; exact Hd]. simpl. constructor; [|apply IH; exact Hd].
  intros I. apply Hn. apply (pick_keys_sub r k' L I).
Qed.

Lemma number_keys : forall l base, map fst (number base l) = map fst l.
Proof.
  unfold number. induction l as [|[k v] l IH]; intros base; simpl; [reflexivity|]. rewrite IH. reflexivity.
Qed.
Lemma number_vals : forall l base kv, In kv (number base l) -> base <= snd kv < base + List.length l.
Proof.
  unfold number. induction l as [|[k v] l IH]; intros base kv H; simpl in H; [destruct H|].
  destruct H as [H|H]; [subst kv; simpl; lia|]. apply IH in H. simpl. lia.
Qed.

Lemma lookup07_in {A} k : forall (L : list (string * A)), In k (map fst L) -> exists a, C07_mro.lookup k L = Some a.
Proof.
  induction L as [|[k' a] L IH]; simpl; intros H; [destruct H|].
  destruct (String.eqb k' k) eqn:E; [eexists; reflexivity|]. destruct H as [H|H]; [subst; rewrite String.eqb_refl in E; discriminate|apply IH; exact H].
Qed.

(* an inherited name is never a declared one *)
Lemma inh_raw_disjoint r c cn k : rclass_of r c cn -> In k (map fst (inh_raw r c)) -> lookup k (rmembers cn) = None.
Proof.
  intros Hc H. rewrite (inh_raw_eq r c cn Hc) in H. apply pick_keys_sub in H.
  destruct (lookup07_in k _ H) as [a La]. destruct Hc as [H1 H2].
  destruct (C07_mro.griffe_mro (to_tbl r) c) as [m|e|] eqn:M.
  - rewrite (C07_mro.inherited_nearest_wins (to_tbl r) c m k M) in La. rewrite (declared_smem r c cn k H1) in La.
    destruct (lookup k (rmembers cn)); [discriminate|reflexivity].
  - rewrite (C07_mro.inherited_uncomputable_empty (to_tbl r) c e M) in La. discriminate.
  - unfold C07_mro.inherited_members in La. rewrite M in La. discriminate.
Qed.

Lemma nodup_app_keys (a b : list (string * nat)) :
  NoDup (map fst a) -> NoDup (map fst b) -> (forall k, In k (map fst a) -> ~ In k (map fst b)) -> NoDup (map fst (a ++ b)).
Proof.
  intros Na Nb D. rewrite map_app. induction a as [|[k v] a IH]; simpl; [exact Nb|].
  inversion Na as [|? ? Hn Hd]; subst. constructor.
  - intros I. apply in_app_or in I. destruct I as [I|I]; [apply Hn; exact I|apply (D k); [left; reflexivity|exact I]].
  - apply IH; [exact Hd|]. intros k' I. apply D. right. exact I.
Qed.
Lemma lookup_none_notin k : forall ms, lookup k ms = None -> ~ In k (map fst ms).
Proof.
  induction ms as [|[k' v] ms IH]; simpl; intros H I; [exact I|].
  destruct (String.eqb k' k) eqn:E; [discriminate|]. destruct I as [I|I]; [subst; rewrite String.eqb_refl in E; discriminate|exact (IH H I)].
Qed.

(* ---- indices stay in range ---- *)
Lemma walk_from_lt g : (forall n, In n g -> forallb (fun nm => Nat.ltb (snd nm) (List.length g)) (rmembers n) = true) ->
  forall parts cur t, cur < List.length g -> walk_from g cur parts = WOk t -> t < List.length g.
Proof.
  intros W. induction parts as [|p rest IH]; intros cur t Hc H; simpl in H; [inversion H; subst; exact Hc|].
  destruct (nth_error g cur) as [n|] eqn:E; [|discriminate]. destruct (r_is_alias n); [discriminate|].
  destruct (lookup p (rmembers n)) as [j|] eqn:L; [|discriminate].
  apply (IH j t); [|exact H]. apply nth_error_In in E. specialize (W n E). rewrite forallb_forall in W.
  apply lookup_in in L. specialize (W (p, j) L). simpl in W. apply Nat.ltb_lt. exact W.
Qed.

Lemma rwf_node r n : rwf r = true -> In n (rnodes r) ->
  rids_ok r n = true /\ nodup_keys (rmembers n) = true /\ rsig_ok n = true /\ no_through r n = true.
Proof.
  unfold rwf. intros H I. apply andb_true_iff in H. destruct H as [H _]. rewrite forallb_forall in H. specialize (H n I).
  repeat (apply andb_true_iff in H; destruct H as [H ?]). auto.
Qed.

Lemma walk_lt r parts t : rwf r = true -> walk r parts = WOk t -> t < List.length (rnodes r).
Proof.
  intros W H. unfold walk in H. destruct parts as [|top rest]; [discriminate|].
  destruct (lookup top (rcoll r)) as [i|] eqn:L; [|discriminate].
  apply (walk_from_lt (rnodes r)) with (parts := rest) (cur := i); [|  |exact H].
  - intros n I. destruct (rwf_node r n W I) as [A _]. exact A.
  - unfold rwf in W. apply andb_true_iff in W. destruct W as [_ W]. rewrite forallb_forall in W.
    apply lookup_in in L. specialize (W (top, i) L). simpl in W. apply Nat.ltb_lt. exact W.
Qed.

Lemma chase_unfold r f passed i : chase r (S f) passed i =
  match rget r i with
  | None => TUnres
  | Some n =>
    match rtpath n with
    | None => TUnres
    | Some parts =>
      match walk r parts with
      | WKey | WThrough => TUnres
      | WOk t =>
        if nmem t (i :: passed) then TCyc
        else match rget r t with
             | None => TUnres
             | Some tn => if r_is_alias tn then match chase r f (i :: passed) t with TRes _ => TRes t | e => e end else TRes t
             end
      end
    end
  end.
Proof. reflexivity. Qed.

Lemma chase_lt r : rwf r = true -> forall fuel passed i t, chase r fuel passed i = TRes t -> t < List.length (rnodes r).
Proof.
  intros W. induction fuel as [|f IH]; intros passed i t H; [discriminate|]. rewrite chase_unfold in H.
  destruct (rget r i) as [n|]; [|discriminate]. destruct (rtpath n) as [p|]; [|discriminate].
  destruct (walk r p) as [t0| |] eqn:Hw; try discriminate.
  destruct (nmem t0 (i :: passed)); [discriminate|]. destruct (rget r t0) as [tn|]; [|discriminate].
  destruct (r_is_alias tn).
  - destruct (chase r f (i :: passed) t0); try discriminate. inversion H; subst. apply (walk_lt r p t W Hw).
  - inversion H; subst. apply (walk_lt r p t W Hw).
Qed.

Lemma offset_bound ll c : c < List.length ll -> offset ll c + List.length (nth c ll []) <= List.length (List.concat ll).
Proof.
  intros Hc. rewrite (concat_split ll c Hc). rewrite !app_length. unfold offset. lia.
Qed.

Lemma elab_length r : List.length (elab r) = List.length (rnodes r) + List.length (List.concat (inhs r)).
Proof. unfold elab. rewrite app_length, mapi_from_length, map_length. reflexivity. Qed.

(* every (name, member) of an inherited list points at a raw node *)
Lemma inh_raw_member_lt r c nm : rwf r = true -> In nm (inh_raw r c) -> snd nm < List.length (rnodes r).
Proof.
  intros W H. unfold inh_raw in H. destruct (rget r c) as [cn|]; [|destruct H]. destruct (r_is_class cn); [|destruct H].
  apply in_flat_map in H. destruct H as [[k a] [_ H]]. simpl in H.
  destruct (rget r (C07_mro.al_owner a)) as [kn|] eqn:E; [|destruct H].
  destruct (lookup k (rmembers kn)) as [m|] eqn:L; [|destruct H]. destruct H as [H|[]]. subst nm. simpl.
  unfold rget in E. apply nth_error_In in E. destruct (rwf_node r kn W E) as [A _]. unfold rids_ok in A.
  rewrite forallb_forall in A. apply lookup_in in L. specialize (A (k, m) L). simpl in A. apply Nat.ltb_lt. exact A.
Qed.

Theorem elab_wf r : rwf r = true -> wf_store (elab r) = true.
Proof.
  intros W. unfold wf_store. apply forallb_forall. intros x Hx.
  unfold elab in Hx. apply in_app_or in Hx. destruct Hx as [Hx|Hx].
  - (* an elaborated raw node *)
    apply In_nth_error in Hx. destruct Hx as [i Hi]. rewrite mapi_from_nth in Hi. simpl in Hi.
    destruct (nth_error (rnodes r) i) as [n|] eqn:E; [|discriminate]. simpl in Hi. inversion Hi; subst x. clear Hi.
    assert (Hlt : i < List.length (rnodes r)) by (apply nth_error_Some; rewrite E; discriminate).
    destruct (rwf_node r n W (nth_error_In _ _ E)) as [A [B [C _]]].
    assert (Hm : forall nm, In nm (rmembers n) -> snd nm < List.length (elab r)).
    { intros nm I. unfold rids_ok in A. rewrite forallb_forall in A. specialize (A nm I). apply Nat.ltb_lt in A. rewrite elab_length. lia. }
    apply andb_true_iff. split; [apply andb_true_iff; split|].
    + (* ids_ok *)
      unfold ids_ok. apply andb_true_iff. split.
      * apply forallb_forall. intros nm I. apply Nat.ltb_lt.
        unfold all_members, elab_node, elab_body in I. simpl in I. unfold rmembers in Hm.
        destruct (rbody_of n) eqn:Bn; simpl in I; try (destruct I); try (apply Hm; exact I).
        apply in_app_or in I. destruct I as [I|I]; [|apply Hm; exact I].
        apply number_vals in I. rewrite elab_length.
        assert (Ob := offset_bound (inhs r) i). rewrite inhs_length in Ob. specialize (Ob Hlt). lia.
      * unfold elab_node, elab_body. simpl. destruct (rbody_of n) eqn:Bn; try reflexivity.
        destruct (outcome r i) as [t| |] eqn:O; try reflexivity. apply Nat.ltb_lt.
        unfold outcome in O. apply (chase_lt r W) in O. rewrite elab_length. lia.
    + (* nodup_keys *)
      apply nodup_keys_iff. unfold all_members, elab_node, elab_body. simpl. unfold rmembers in B.
      destruct (rbody_of n) eqn:Bn; simpl; try (apply nodup_keys_iff; exact B); try constructor.
      assert (Hc : rclass_of r i n) by (split; [exact E|unfold r_is_class; rewrite Bn; reflexivity]).
      rewrite (inhs_nth r i Hlt). apply nodup_app_keys.
      * rewrite number_keys. rewrite (inh_raw_eq r i n Hc). apply pick_nodup. apply inherited_nodup.
      * apply nodup_keys_iff. exact B.
      * intros k I. rewrite number_keys in I. apply lookup_none_notin.
        assert (D := inh_raw_disjoint r i n k Hc I). unfold rmembers in D. rewrite Bn in D. exact D.
    + (* sig_ok *)
      unfold sig_ok, elab_node, elab_body. simpl. unfold rsig_ok in C. destruct (rbody_of n); try reflexivity. exact C.
  - (* a fresh inherited alias *)
    apply in_map_iff in Hx. destruct Hx as [nm [Ex I]]. subst x.
    apply in_concat in I. destruct I as [l [Il I]]. unfold inhs in Il. apply in_map_iff in Il. destruct Il as [c [El _]]. subst l.
    assert (L := inh_raw_member_lt r c nm W I).
    unfold inh_node, ids_ok, sig_ok. simpl. apply andb_true_iff. split; [|reflexivity]. rewrite andb_true_r.
    apply Nat.ltb_lt. rewrite elab_length. lia.
Qed.

(* the whole pipeline -- elaboration of both versions, then the comparison -- completes on well-formed raw stores, whatever
   the alias target paths are (missing names, cycles, chains): nothing is raised, nothing loops *)
Theorem elab_comparison_total ro rn : rwf ro = true -> rwf rn = true ->
  forall ri rj, ri < List.length (rnodes ro) -> rj < List.length (rnodes rn) ->
  exists s l, fbc (elab ro) (elab rn) (default_fuel (elab ro) (elab rn)) ri rj = Ok s l.
Proof.
  intros Wo Wn ri rj Hi Hj. apply fbc_total; try (apply elab_wf; assumption).
  - rewrite elab_length. lia.
  - rewrite elab_length. lia.
  - unfold default_fuel. lia.
Qed.

(* a package compared with an identical copy of itself reports nothing: also with the targets and inherited views computed here *)
Theorem elab_self_silent r : rwf r = true -> forall fuel ri s l, fbc (elab r) (elab r) fuel ri ri = Ok s l -> breakages (elab r) (elab r) l = [].
Proof. intros W fuel ri s l H. apply (self_silent (elab r) (elab_wf r W) fuel ri s l H). Qed.

(* ======== Alias.target: the chain walk never runs out of fuel ======== *)
Lemma nodup_bounded l n : NoDup l -> (forall x, In x l -> x < n) -> List.length l <= n.
Proof.
  intros N H. rewrite <- (seq_length n 0). apply NoDup_incl_length; [exact N|].
  intros x I. apply in_seq. specialize (H x I). lia.
Qed.
Lemma nmem_false_notin t l : nmem t l = false -> ~ In t l.
Proof.
  unfold nmem. intros H I. assert (X : existsb (Nat.eqb t) l = true) by (apply existsb_exists; exists t; split; [exact I|apply Nat.eqb_refl]).
  rewrite X in H. discriminate.
Qed.

Lemma chase_stable r : forall f1 f2 passed i,
  NoDup (i :: passed) -> (forall x, In x (i :: passed) -> x < List.length (rnodes r)) ->
  List.length (rnodes r) - List.length (i :: passed) < f1 -> List.length (rnodes r) - List.length (i :: passed) < f2 ->
  chase r f1 passed i = chase r f2 passed i.
Proof.
  induction f1 as [|f1 IH]; intros f2 passed i Nd Rg H1 H2; [lia|]. destruct f2 as [|f2]; [lia|].
  rewrite !chase_unfold. destruct (rget r i) as [n|]; [|reflexivity]. destruct (rtpath n) as [p|]; [|reflexivity].
  destruct (walk r p) as [t| |]; try reflexivity.
  destruct (nmem t (i :: passed)) eqn:M; [reflexivity|]. destruct (rget r t) as [tn|] eqn:Rt; [|reflexivity].
  destruct (r_is_alias tn); [|reflexivity].
  assert (Nd' : NoDup (t :: i :: passed)) by (constructor; [apply nmem_false_notin; exact M|exact Nd]).
  assert (Rg' : forall x, In x (t :: i :: passed) -> x < List.length (rnodes r)).
  { intros x [E|I]; [subst x; apply (rget_lt r t tn Rt)|apply Rg; exact I]. }
  assert (B := nodup_bounded (t :: i :: passed) (List.length (rnodes r)) Nd' Rg').
  rewrite (IH f2 (i :: passed) t Nd' Rg'); [reflexivity| |]; simpl in *; lia.
Qed.

(* whatever fuel above the number of nodes is passed, Alias.target's outcome is the same: the TCyc answered at fuel 0 is never seen *)
Theorem outcome_fuel_irrelevant r i f : List.length (rnodes r) < f -> chase r f [] i = outcome r i.
Proof.
  intros H. unfold outcome, chase_fuel. destruct (rget r i) as [n|] eqn:E.
  - apply chase_stable; simpl; try lia.
    + constructor; [intros []|constructor].
    + intros x [X|[]]. subst x. apply (rget_lt r i n E).
  - destruct f as [|f]; [lia|]. rewrite !chase_unfold, E. reflexivity.
Qed.

(* ---- from the roots: a public class of the root module, its whole inherited view is compared ---- *)
Lemma elab_node_members_module r ll i n e im ms : rbody_of n = RModule e im ms -> all_members (elab_node r ll i n) = ms.
Proof. intros H. unfold all_members, elab_node, elab_body. simpl. rewrite H. reflexivity. Qed.

Theorem root_class_change_reported ro rn ri rj fuel s l :
  fbc (elab ro) (elab rn) fuel ri rj = Ok s l ->
  forall rmo rmn e im ms e' im' ms' cname c c' cn cn' n o o' on on' b,
  rget ro ri = Some rmo -> rbody_of rmo = RModule e im ms -> rget rn rj = Some rmn -> rbody_of rmn = RModule e' im' ms' ->
  lookup cname ms = Some c -> lookup cname ms' = Some c' -> rclass_of ro c cn -> rclass_of rn c' cn' ->
  is_public (elab_node ro (inhs ro) ri rmo) (elab_node ro (inhs ro) c cn) = true ->
  provider ro c n = Some o -> provider rn c' n = Some o' ->
  rget ro o = Some on -> r_is_alias on = false -> rget rn o' = Some on' -> r_is_alias on' = false ->
  (forall j mo, view ro c cn n = Some j -> get (elab ro) j = Some mo -> is_public (elab_node ro (inhs ro) c cn) mo = true) ->
  In b (local (elab ro) (elab rn) (EHead o o')) -> In b (breakages (elab ro) (elab rn) l).
Proof.
  intros Hrun rmo rmn e im ms e' im' ms' cname c c' cn cn' n o o' on on' b Hr Br Hr' Br' Lc Lc' Hc Hc' Pc P P' Ho Hoa Ho' Hoa' Hpub Hb.
  apply (inherited_change_reported ro rn ri rj fuel s l Hrun c c' cn cn' n o o' on on' b); try assumption.
  apply (V_root_member (elab ro) (elab rn) ri rj (elab_node ro (inhs ro) ri rmo) (elab_node rn (inhs rn) rj rmn) cname c
           (elab_node ro (inhs ro) c cn) c').
  - apply elab_get_raw. exact Hr.
  - apply elab_get_raw. exact Hr'.
  - rewrite (elab_node_members_module ro (inhs ro) ri rmo e im ms Br). apply lookup_in. exact Lc.
  - apply elab_get_raw. exact (proj1 Hc).
  - exact Pc.
  - rewrite (elab_node_members_module rn (inhs rn) rj rmn e' im' ms' Br'). exact Lc'.
Qed.

(* a base named through a plain assignment: class Base: color = 1 / Impl = Base / class Leaf(Impl): pass -- resolved_bases follows
   the attribute to the class, so Leaf shows Base.color; Loop = Loop2 / Loop2 = Loop is dropped (a path comes back) *)
Definition ex_a : rstore :=
  mkRS [ mkR "pkg" None (RModule None [] [("Base", 1); ("Impl", 3); ("Leaf", 4); ("Loop", 5); ("Loop2", 6); ("Odd", 7)]);
         mkR "Base" None (RClass [] [] [] [("color", 2)]);
         mkR "color" None (RAttribute (Some 1) None);
         mkR "Impl" None (RAttribute (Some 9) (Some ["pkg"; "Base"]));
         mkR "Leaf" None (RClass [] [10] [["pkg"; "Impl"]] []);
         mkR "Loop" None (RAttribute (Some 11) (Some ["pkg"; "Loop2"]));
         mkR "Loop2" None (RAttribute (Some 12) (Some ["pkg"; "Loop"]));
         mkR "Odd" None (RClass [] [13] [["pkg"; "Loop"]] []) ]
       [("pkg", 0)].
Example assigned_base_followed :
  rbases ex_a (mkR "Leaf" None (RClass [] [10] [["pkg"; "Impl"]] [])) = [1] /\ provider ex_a 4 "color" = Some 2 /\
  rbases ex_a (mkR "Odd" None (RClass [] [13] [["pkg"; "Loop"]] [])) = [] /\ rwf ex_a = true.
Proof. repeat split; vm_compute; reflexivity. Qed.
