(* C11, elaboration layer: proofs about Model/C11_elab.v.
   The inherited view of a class in the elaborated store is CPython's lookup along the MRO (via C07's theorem
   inherited_nearest_wins), the comparison reaches the providing definitions through inheritance and through one-step
   re-exports whose targets are computed by the path walk, and so every local incompatibility of those definitions is
   reported. *)
From Coq Require Import List Arith Bool ZArith String Ascii Lia.
From Verif Require Import Lib.Sexp Model.C10_kinds Gen.C10_tables Model.C10_diff Model.C11_apidiff Proofs.C11_apidiff Model.C11_elab.
From Verif Require Model.C07_mro Proofs.C07_mro.
Import ListNotations.
Open Scope string_scope. Open Scope list_scope. Open Scope nat_scope.

(* ---- lists ---- *)
Lemma mapi_from_nth {A B} (f : nat -> A -> B) : forall l k i,
  nth_error (mapi_from f k l) i = option_map (f (k + i)) (nth_error l i).
Proof.
  induction l as [|x l IH]; intros k i; destruct i; simpl; try reflexivity.
  - rewrite Nat.add_0_r. reflexivity.
  - rewrite IH. replace (S k + i) with (k + S i) by lia. reflexivity.
Qed.
Lemma mapi_from_length {A B} (f : nat -> A -> B) : forall l k, List.length (mapi_from f k l) = List.length l.
Proof. induction l; intros; simpl; [reflexivity|rewrite IHl; reflexivity]. Qed.

Lemma concat_split {A} : forall (ll : list (list A)) c, c < List.length ll ->
  List.concat ll = List.concat (firstn c ll) ++ nth c ll [] ++ List.concat (skipn (S c) ll).
Proof.
  induction ll as [|l ll IH]; intros c Hc; simpl in Hc; [lia|].
  destruct c; simpl; [reflexivity|].
  rewrite (IH c) at 1 by lia. rewrite app_assoc. reflexivity.
Qed.

Lemma lookup07 n (d : list (string * nat)) : C07_mro.lookup n d = lookup n d.
Proof. induction d as [|[k v] d IH]; simpl; [reflexivity|]. rewrite IH. reflexivity. Qed.

Lemma lookup_app n a b : lookup n (a ++ b) = match lookup n a with Some v => Some v | None => lookup n b end.
Proof. induction a as [|[k v] a IH]; simpl; [reflexivity|]. destruct (String.eqb k n); [reflexivity|exact IH]. Qed.

Lemma smem_map_fst n ms : C07_mro.smem n (map fst ms) = match lookup n ms with Some _ => true | None => false end.
Proof.
  induction ms as [|[k v] ms IH]; simpl; [reflexivity|].
  rewrite String.eqb_sym. destruct (String.eqb k n); simpl; [reflexivity|exact IH].
Qed.

(* numbering keeps the keys and their order: the first entry for a key sits at position k <-> its number is base + k *)
Lemma lookup_number n : forall l base o, lookup n l = Some o ->
  exists k, nth_error l k = Some (n, o) /\ lookup n (number base l) = Some (base + k).
Proof.
  induction l as [|[k v] l IH]; intros base o H; simpl in H; [discriminate|].
  unfold number. simpl. destruct (String.eqb k n) eqn:E.
  - inversion H; subst. apply String.eqb_eq in E. subst. exists 0. split; [reflexivity|]. rewrite Nat.add_0_r. reflexivity.
  - destruct (IH (S base) o H) as [k0 [A B]]. exists (S k0). split; [exact A|].
    unfold number in B. rewrite B. f_equal. lia.
Qed.
Lemma lookup_number_none n : forall l base, lookup n l = None -> lookup n (number base l) = None.
Proof.
  induction l as [|[k v] l IH]; intros base H; simpl in H; [reflexivity|].
  unfold number. simpl. destruct (String.eqb k n); [discriminate|]. apply (IH (S base) H).
Qed.

(* ---- the elaborated store ---- *)
Lemma inhs_length r : List.length (inhs r) = List.length (rnodes r).
Proof. unfold inhs. rewrite map_length, seq_length. reflexivity. Qed.
Lemma inhs_nth r c : c < List.length (rnodes r) -> nth c (inhs r) [] = inh_raw r c.
Proof.
  intros Hc. unfold inhs. rewrite (nth_indep _ [] (inh_raw r 0)) by (rewrite map_length, seq_length; exact Hc).
  rewrite map_nth. rewrite seq_nth by exact Hc. reflexivity.
Qed.

Lemma rget_lt r i n : rget r i = Some n -> i < List.length (rnodes r).
Proof. unfold rget. intros H. apply nth_error_Some. rewrite H. discriminate. Qed.

Lemma elab_get_raw r i n : rget r i = Some n -> get (elab r) i = Some (elab_node r (inhs r) i n).
Proof.
  intros H. unfold get, elab. rewrite nth_error_app1 by (rewrite mapi_from_length; exact (rget_lt r i n H)).
  rewrite mapi_from_nth. unfold rget in H. rewrite H. reflexivity.
Qed.

Lemma elab_get_extra r c k nm : c < List.length (rnodes r) -> nth_error (inh_raw r c) k = Some nm ->
  get (elab r) (List.length (rnodes r) + offset (inhs r) c + k) = Some (inh_node nm).
Proof.
  intros Hc Hk. unfold get, elab.
  rewrite nth_error_app2 by (rewrite mapi_from_length; lia). rewrite mapi_from_length.
  replace (List.length (rnodes r) + offset (inhs r) c + k - List.length (rnodes r)) with (offset (inhs r) c + k) by lia.
  rewrite (concat_split (inhs r) c) by (rewrite inhs_length; exact Hc).
  rewrite map_app. rewrite nth_error_app2 by (rewrite map_length; unfold offset; lia).
  rewrite map_length. unfold offset. replace (List.length (List.concat (firstn c (inhs r))) + k - List.length (List.concat (firstn c (inhs r)))) with k by lia.
  rewrite map_app. rewrite inhs_nth by exact Hc.
  rewrite nth_error_app1 by (rewrite map_length; apply nth_error_Some; rewrite Hk; discriminate).
  rewrite nth_error_map. rewrite Hk. reflexivity.
Qed.

(* ---- the inherited view ---- *)
Definition rclass_of (r : rstore) (c : nat) (cn : rnode) : Prop := rget r c = Some cn /\ r_is_class cn = true.

Lemma nth_cls_tbl r k kn : rget r k = Some kn ->
  C07_mro.nth_cls (to_tbl r) k = C07_mro.mkCls "" (rbases r kn) (map fst (rmembers kn)).
Proof.
  intros H. unfold C07_mro.nth_cls, to_tbl.
  apply nth_error_nth. rewrite nth_error_map. unfold rget in H. rewrite H. reflexivity.
Qed.
Lemma nth_cls_tbl_none r k : rget r k = None -> C07_mro.nth_cls (to_tbl r) k = C07_mro.empty_cls.
Proof.
  intros H. unfold C07_mro.nth_cls, to_tbl. apply nth_overflow. rewrite map_length.
  unfold rget in H. apply nth_error_None. exact H.
Qed.

(* a class of the MRO that declares n really has a member n *)
Lemma first_definer_member r m n k : C07_mro.first_definer (to_tbl r) m n = Some k ->
  exists kn o, rget r k = Some kn /\ lookup n (rmembers kn) = Some o.
Proof.
  intros H. unfold C07_mro.first_definer in H. apply find_some in H. destruct H as [_ H].
  destruct (rget r k) as [kn|] eqn:E.
  - rewrite (nth_cls_tbl r k kn E) in H. simpl in H. rewrite smem_map_fst in H.
    destruct (lookup n (rmembers kn)) as [o|] eqn:L; [|discriminate]. exists kn, o. split; [reflexivity|exact L].
  - rewrite (nth_cls_tbl_none r k E) in H. simpl in H. discriminate.
Qed.

(* filtering the C07 dict through the member lookup keeps the first entry for a key *)
Definition pick_member (r : rstore) (na : string * C07_mro.alias) : list (string * nat) :=
  match rget r (C07_mro.al_owner (snd na)) with
  | Some kn => match lookup (fst na) (rmembers kn) with Some m => [(fst na, m)] | None => [] end
  | None => [] end.

Lemma inh_raw_eq r c cn : rclass_of r c cn ->
  inh_raw r c = flat_map (pick_member r) (C07_mro.inherited_members (to_tbl r) c).
Proof. intros [H1 H2]. unfold inh_raw. rewrite H1, H2. reflexivity. Qed.

Lemma lookup_pick_some r n a kn o : forall L, C07_mro.lookup n L = Some a ->
  rget r (C07_mro.al_owner a) = Some kn -> lookup n (rmembers kn) = Some o ->
  lookup n (flat_map (pick_member r) L) = Some o.
Proof.
  induction L as [|[k a'] L IH]; intros H Hk Ho; simpl in H; [discriminate|].
  simpl. rewrite lookup_app. destruct (String.eqb k n) eqn:E.
  - inversion H; subst a'. apply String.eqb_eq in E. subst k.
    unfold pick_member at 1. simpl. rewrite Hk, Ho. simpl. rewrite String.eqb_refl. reflexivity.
  - assert (N : lookup n (pick_member r (k, a')) = None).
    { unfold pick_member. simpl. destruct (rget r (C07_mro.al_owner a')) as [kn'|]; [|reflexivity].
      destruct (lookup k (rmembers kn')); [|reflexivity]. simpl. rewrite E. reflexivity. }
    rewrite N. apply IH; assumption.
Qed.
Lemma lookup_pick_none r n : forall L, C07_mro.lookup n L = None -> lookup n (flat_map (pick_member r) L) = None.
Proof.
  induction L as [|[k a'] L IH]; intros H; simpl in H; [reflexivity|].
  simpl. rewrite lookup_app. destruct (String.eqb k n) eqn:E; [discriminate|].
  assert (N : lookup n (pick_member r (k, a')) = None).
  { unfold pick_member. simpl. destruct (rget r (C07_mro.al_owner a')) as [kn'|]; [|reflexivity].
    destruct (lookup k (rmembers kn')); [|reflexivity]. simpl. rewrite E. reflexivity. }
  rewrite N. apply IH; assumption.
Qed.

(* cmembers of the class table = declared member names *)
Lemma declared_smem r c cn n : rget r c = Some cn ->
  C07_mro.smem n (C07_mro.cmembers (C07_mro.nth_cls (to_tbl r) c)) = match lookup n (rmembers cn) with Some _ => true | None => false end.
Proof. intros H. rewrite (nth_cls_tbl r c cn H). simpl. apply smem_map_fst. Qed.

(* what the elaborated class shows under name n *)
Definition view (r : rstore) (c : nat) (cn : rnode) (n : string) : option nat :=
  lookup n (all_members (elab_node r (inhs r) c cn)).

Lemma view_unfold r c cn n : rclass_of r c cn ->
  view r c cn n = match lookup n (number (List.length (rnodes r) + offset (inhs r) c) (inh_raw r c)) with
                  | Some j => Some j | None => lookup n (rmembers cn) end.
Proof.
  intros [H1 H2]. unfold view, elab_node, elab_body, all_members. simpl.
  unfold r_is_class in H2. unfold rmembers. destruct (rbody_of cn); try discriminate. simpl.
  rewrite lookup_app. rewrite (inhs_nth r c (rget_lt r c cn H1)). reflexivity.
Qed.

(* a declared name shows the declared member *)
Theorem view_declared r c cn n o : rclass_of r c cn -> lookup n (rmembers cn) = Some o -> view r c cn n = Some o.
Proof.
  intros Hc Hd. rewrite (view_unfold r c cn n Hc). destruct Hc as [H1 H2].
  rewrite lookup_number_none; [exact Hd|].
  rewrite (inh_raw_eq r c cn (conj H1 H2)). apply lookup_pick_none.
  destruct (C07_mro.griffe_mro (to_tbl r) c) as [m|e|] eqn:M.
  - rewrite (C07_mro.inherited_nearest_wins (to_tbl r) c m n M). rewrite (declared_smem r c cn n H1), Hd. reflexivity.
  - rewrite (C07_mro.inherited_uncomputable_empty (to_tbl r) c e M). reflexivity.
  - unfold C07_mro.inherited_members. rewrite M. reflexivity.
Qed.

(* an undeclared name shows a fresh alias to the member of the first class of the MRO that declares it *)
Theorem view_inherited r c cn n m k : rclass_of r c cn -> lookup n (rmembers cn) = None ->
  C07_mro.griffe_mro (to_tbl r) c = C07_mro.Ok m -> C07_mro.first_definer (to_tbl r) m n = Some k ->
  exists kn o j, rget r k = Some kn /\ lookup n (rmembers kn) = Some o /\ view r c cn n = Some j /\
                 List.length (rnodes r) <= j /\ get (elab r) j = Some (mkNode n None (BAlias (TRes o))).
Proof.
  intros Hc Hd M F. destruct (first_definer_member r m n k F) as [kn [o [Hk Ho]]].
  exists kn, o.
  assert (L : lookup n (inh_raw r c) = Some o).
  { rewrite (inh_raw_eq r c cn Hc).
    apply (lookup_pick_some r n (C07_mro.mkAlias n c k true) kn o); [|exact Hk|exact Ho].
    rewrite (C07_mro.inherited_nearest_wins (to_tbl r) c m n M). destruct Hc as [H1 H2].
    rewrite (declared_smem r c cn n H1), Hd, F. reflexivity. }
  destruct (lookup_number n (inh_raw r c) (List.length (rnodes r) + offset (inhs r) c) o L) as [k0 [A B]].
  exists (List.length (rnodes r) + offset (inhs r) c + k0). split; [exact Hk|]. split; [exact Ho|].
  split; [rewrite (view_unfold r c cn n Hc), B; reflexivity|]. split; [lia|].
  destruct Hc as [H1 H2]. rewrite (elab_get_extra r c k0 (n, o) (rget_lt r c cn H1) A). reflexivity.
Qed.

(* nothing provides the name: the elaborated class has no such member *)
Theorem view_none r c cn n : rclass_of r c cn -> provider r c n = None -> view r c cn n = None.
Proof.
  intros Hc P. rewrite (view_unfold r c cn n Hc). destruct Hc as [H1 H2]. unfold provider in P. rewrite H1 in P.
  destruct (lookup n (rmembers cn)) as [o|] eqn:Hd; [discriminate|].
  rewrite lookup_number_none; [reflexivity|].
  rewrite (inh_raw_eq r c cn (conj H1 H2)). apply lookup_pick_none.
  destruct (C07_mro.griffe_mro (to_tbl r) c) as [m|e|] eqn:M.
  - rewrite (C07_mro.inherited_nearest_wins (to_tbl r) c m n M). rewrite (declared_smem r c cn n H1), Hd.
    destruct (C07_mro.first_definer (to_tbl r) m n) as [k|] eqn:F; [|reflexivity].
    exfalso. destruct (first_definer_member r m n k F) as [kn [o [Hk Ho]]]. rewrite Hk, Ho in P. discriminate.
  - rewrite (C07_mro.inherited_uncomputable_empty (to_tbl r) c e M). reflexivity.
  - unfold C07_mro.inherited_members. rewrite M. reflexivity.
Qed.

(* summary: the member shown under n is the provider, directly or behind one fresh alias *)
Theorem view_is_provider r c cn n o : rclass_of r c cn -> provider r c n = Some o ->
  exists j, view r c cn n = Some j /\ (j = o \/ (lookup n (rmembers cn) = None /\ List.length (rnodes r) <= j /\ get (elab r) j = Some (mkNode n None (BAlias (TRes o))))).
Proof.
  intros Hc P. assert (Hc' := Hc). destruct Hc' as [H1 H2]. unfold provider in P. rewrite H1 in P.
  destruct (lookup n (rmembers cn)) as [o1|] eqn:Hd.
  - inversion P; subst. exists o. split; [exact (view_declared r c cn n o Hc Hd)|left; reflexivity].
  - destruct (C07_mro.griffe_mro (to_tbl r) c) as [m|e|] eqn:M; try discriminate.
    destruct (C07_mro.first_definer (to_tbl r) m n) as [k|] eqn:F; [|discriminate].
    destruct (view_inherited r c cn n m k Hc Hd M F) as [kn [o2 [j [Hk [Ho [V [Hj G]]]]]]].
    rewrite Hk, Ho in P. inversion P; subst. exists j. split; [exact V|]. right. split; [reflexivity|]. split; [exact Hj|exact G].
Qed.

(* ---- elaborated nodes ---- *)
Definition rkind (n : rnode) : okind :=
  match rbody_of n with RModule _ _ _ => KModule | RClass _ _ _ _ => KClass | RFunction _ _ => KFunction
                      | RAttribute _ => KAttribute | RAlias _ => KAlias end.
Lemma elab_node_alias r ll i n : is_alias (elab_node r ll i n) = r_is_alias n.
Proof. unfold is_alias, r_is_alias, elab_node, elab_body. simpl. destruct (rbody_of n); reflexivity. Qed.
Lemma elab_node_kind r ll i n : kind_of (elab_node r ll i n) = rkind n.
Proof. unfold kind_of, rkind, elab_node, elab_body. simpl. destruct (rbody_of n); reflexivity. Qed.
Lemma elab_node_class r ll c cn : r_is_class cn = true ->
  is_alias (elab_node r ll c cn) = false /\ kind_of (elab_node r ll c cn) = KClass /\ is_container (elab_node r ll c cn) = true.
Proof.
  intros H. unfold is_alias, kind_of, is_container, elab_node, elab_body. simpl.
  unfold r_is_class in H. destruct (rbody_of cn); try discriminate. auto.
Qed.
Lemma tgt_of_nonalias n i : is_alias n = false -> tgt_of n i = TRes i.
Proof. unfold is_alias, tgt_of. destruct (nbody n); intros H; try reflexivity; discriminate. Qed.
Lemma elab_node_tgt r ll i n : r_is_alias n = true -> tgt_of (elab_node r ll i n) i = outcome r i.
Proof. unfold r_is_alias, tgt_of, elab_node, elab_body. simpl. destruct (rbody_of n); intros H; try discriminate. reflexivity. Qed.

(* the alias Object.inherited_members makes for an inherited name is public unless the name is private or imported in the class *)
Lemma inherited_alias_public r ll c cn n o : r_is_class cn = true ->
  is_private n = false -> smem n (imports_of (elab_node r ll c cn)) = false ->
  is_public (elab_node r ll c cn) (mkNode n None (BAlias (TRes o))) = true.
Proof.
  intros Hc Hp Hi. unfold is_public. simpl. rewrite Hp, Hi.
  unfold elab_body. unfold r_is_class in Hc. destruct (rbody_of cn); try discriminate. reflexivity.
Qed.

(* Alias.target of a one-step re-export: the object the path walk finds *)
Lemma outcome_one_step r a an p t tn : rget r a = Some an -> rbody_of an = RAlias p -> walk r p = WOk t ->
  rget r t = Some tn -> r_is_alias tn = false -> outcome r a = TRes t.
Proof.
  intros Ha Hb Hw Ht Hn. unfold outcome, chase_fuel. simpl. rewrite Ha. unfold rtpath. rewrite Hb, Hw.
  assert (Ne : Nat.eqb t a = false).
  { apply Nat.eqb_neq. intros E. subst t. rewrite Ha in Ht. inversion Ht; subst tn.
    unfold r_is_alias in Hn. rewrite Hb in Hn. discriminate. }
  unfold nmem. simpl. rewrite Ne. simpl. rewrite Ht, Hn. reflexivity.
Qed.

Section Through.
Variables ro rn : rstore.
Variables ri rj : nat.
Let go := elab ro.
Let gn := elab rn.

(* the comparison reaches, through inheritance at any depth, the definitions CPython's lookup along the MRO provides:
   c / c' are compared classes, n a name whose view on the old class is public, o / o' the providing definitions *)
Theorem visit_through_inheritance c c' cn cn' n o o' on on' :
  Visit go gn ri rj c c' -> rclass_of ro c cn -> rclass_of rn c' cn' ->
  provider ro c n = Some o -> provider rn c' n = Some o' ->
  rget ro o = Some on -> r_is_alias on = false -> rget rn o' = Some on' -> r_is_alias on' = false ->
  (forall j mo, view ro c cn n = Some j -> get go j = Some mo -> is_public (elab_node ro (inhs ro) c cn) mo = true) ->
  Visit go gn ri rj o o'.
Proof.
  intros Hv Hc Hc' P P' Ho Hoa Ho' Hoa' Hpub.
  destruct (view_is_provider ro c cn n o Hc P) as [j [V Cj]].
  destruct (view_is_provider rn c' cn' n o' Hc' P') as [j' [V' Cj']].
  assert (Gc : get go c = Some (elab_node ro (inhs ro) c cn)) by (apply elab_get_raw; exact (proj1 Hc)).
  assert (Gc' : get gn c' = Some (elab_node rn (inhs rn) c' cn')) by (apply elab_get_raw; exact (proj1 Hc')).
  destruct (elab_node_class ro (inhs ro) c cn (proj2 Hc)) as [A1 [K1 C1]].
  destruct (elab_node_class rn (inhs rn) c' cn' (proj2 Hc')) as [A2 [K2 _]].
  assert (Go : get go o = Some (elab_node ro (inhs ro) o on)) by (apply elab_get_raw; exact Ho).
  assert (Go' : get gn o' = Some (elab_node rn (inhs rn) o' on')) by (apply elab_get_raw; exact Ho').
  assert (Gj : exists mo, get go j = Some mo /\ tgt_of mo j = TRes o /\ (j = o \/ is_alias mo = true)).
  { destruct Cj as [E|[_ [_ G]]].
    - subst j. exists (elab_node ro (inhs ro) o on). split; [exact Go|]. split; [|left; reflexivity].
      apply tgt_of_nonalias. rewrite elab_node_alias. exact Hoa.
    - exists (mkNode n None (BAlias (TRes o))). split; [exact G|]. split; [reflexivity|right; reflexivity]. }
  assert (Gj' : exists mo, get gn j' = Some mo /\ tgt_of mo j' = TRes o' /\ (j' = o' \/ is_alias mo = true)).
  { destruct Cj' as [E|[_ [_ G]]].
    - subst j'. exists (elab_node rn (inhs rn) o' on'). split; [exact Go'|]. split; [|left; reflexivity].
      apply tgt_of_nonalias. rewrite elab_node_alias. exact Hoa'.
    - exists (mkNode n None (BAlias (TRes o'))). split; [exact G|]. split; [reflexivity|right; reflexivity]. }
  destruct Gj as [mo [Gj [Tj Dj]]]. destruct Gj' as [mo' [Gj' [Tj' Dj']]].
  assert (Vj : Visit go gn ri rj j j').
  { apply (V_member go gn ri rj c c' (elab_node ro (inhs ro) c cn) (elab_node rn (inhs rn) c' cn') n j mo j'); try assumption.
    - rewrite A1, A2. reflexivity.
    - rewrite K1, K2. reflexivity.
    - apply lookup_in. exact V.
    - apply (Hpub j mo V Gj). }
  destruct Dj as [E|Al].
  - destruct Dj' as [E'|Al'].
    + subst. exact Vj.
    + apply (V_target go gn ri rj j j' mo mo' o o' Vj Gj Gj'); [rewrite Al'; apply orb_true_r|exact Tj|exact Tj'].
  - apply (V_target go gn ri rj j j' mo mo' o o' Vj Gj Gj'); [rewrite Al; reflexivity|exact Tj|exact Tj'].
Qed.

(* one-step re-exports: the target the comparison follows is the object found by walking the alias's target path through
   the modules collection (computed here, not read from Griffe); an alias on one side only is handled the same way *)
Theorem visit_through_reexport a a' an an' p p' t t' tn tn' :
  Visit go gn ri rj a a' ->
  rget ro a = Some an -> rbody_of an = RAlias p -> walk ro p = WOk t -> rget ro t = Some tn -> r_is_alias tn = false ->
  rget rn a' = Some an' -> rbody_of an' = RAlias p' -> walk rn p' = WOk t' -> rget rn t' = Some tn' -> r_is_alias tn' = false ->
  Visit go gn ri rj t t'.
Proof.
  intros Hv Ha Hb Hw Ht Hn Ha' Hb' Hw' Ht' Hn'.
  assert (Al : r_is_alias an = true) by (unfold r_is_alias; rewrite Hb; reflexivity).
  assert (Al' : r_is_alias an' = true) by (unfold r_is_alias; rewrite Hb'; reflexivity).
  apply (V_target go gn ri rj a a' (elab_node ro (inhs ro) a an) (elab_node rn (inhs rn) a' an') t t' Hv).
  - apply elab_get_raw. exact Ha.
  - apply elab_get_raw. exact Ha'.
  - rewrite elab_node_alias, Al. reflexivity.
  - rewrite (elab_node_tgt ro (inhs ro) a an Al). apply (outcome_one_step ro a an p t tn); assumption.
  - rewrite (elab_node_tgt rn (inhs rn) a' an' Al'). apply (outcome_one_step rn a' an' p' t' tn'); assumption.
Qed.
Theorem visit_reexport_vs_object a a' an an' p t tn :
  Visit go gn ri rj a a' ->
  rget ro a = Some an -> rbody_of an = RAlias p -> walk ro p = WOk t -> rget ro t = Some tn -> r_is_alias tn = false ->
  rget rn a' = Some an' -> r_is_alias an' = false ->
  Visit go gn ri rj t a'.
Proof.
  intros Hv Ha Hb Hw Ht Hn Ha' Hn'.
  assert (Al : r_is_alias an = true) by (unfold r_is_alias; rewrite Hb; reflexivity).
  apply (V_target go gn ri rj a a' (elab_node ro (inhs ro) a an) (elab_node rn (inhs rn) a' an') t a' Hv).
  - apply elab_get_raw. exact Ha.
  - apply elab_get_raw. exact Ha'.
  - rewrite elab_node_alias, Al. reflexivity.
  - rewrite (elab_node_tgt ro (inhs ro) a an Al). apply (outcome_one_step ro a an p t tn); assumption.
  - apply tgt_of_nonalias. rewrite elab_node_alias. exact Hn'.
Qed.

Variables (fuel : nat) (s : list (nat * nat)) (l : list ev).
Hypothesis Hrun : fbc go gn fuel ri rj = Ok s l.

(* whatever is locally incompatible between the providing definitions is reported (kind, value, parameters, bases, return) *)
Theorem inherited_change_reported c c' cn cn' n o o' on on' b :
  Visit go gn ri rj c c' -> rclass_of ro c cn -> rclass_of rn c' cn' ->
  provider ro c n = Some o -> provider rn c' n = Some o' ->
  rget ro o = Some on -> r_is_alias on = false -> rget rn o' = Some on' -> r_is_alias on' = false ->
  (forall j mo, view ro c cn n = Some j -> get go j = Some mo -> is_public (elab_node ro (inhs ro) c cn) mo = true) ->
  In b (local go gn (EHead o o')) -> In b (breakages go gn l).
Proof.
  intros Hv Hc Hc' P P' Ho Hoa Ho' Hoa' Hpub Hb.
  apply (head_complete go gn ri rj fuel s l Hrun o o' b); [|exact Hb].
  apply (visit_through_inheritance c c' cn cn' n o o' on on'); assumption.
Qed.

Theorem inherited_rekinding_reported c c' cn cn' n o o' on on' :
  Visit go gn ri rj c c' -> rclass_of ro c cn -> rclass_of rn c' cn' ->
  provider ro c n = Some o -> provider rn c' n = Some o' ->
  rget ro o = Some on -> r_is_alias on = false -> rget rn o' = Some on' -> r_is_alias on' = false ->
  (forall j mo, view ro c cn n = Some j -> get go j = Some mo -> is_public (elab_node ro (inhs ro) c cn) mo = true) ->
  rkind on <> rkind on' -> In (BKind o') (breakages go gn l).
Proof.
  intros Hv Hc Hc' P P' Ho Hoa Ho' Hoa' Hpub Hk.
  apply (rekinding_reported go gn ri rj fuel s l Hrun o o' (elab_node ro (inhs ro) o on) (elab_node rn (inhs rn) o' on')).
  - apply (visit_through_inheritance c c' cn cn' n o o' on on'); assumption.
  - apply elab_get_raw. exact Ho.
  - apply elab_get_raw. exact Ho'.
  - rewrite elab_node_alias. exact Hoa.
  - rewrite elab_node_alias. exact Hoa'.
  - rewrite !elab_node_kind. exact Hk.
Qed.

(* a public name CPython's lookup finds on the old class and not on the new one is reported as removed, on the class's own path *)
Theorem inherited_removal_reported c c' cn cn' n o on :
  Visit go gn ri rj c c' -> rclass_of ro c cn -> rclass_of rn c' cn' ->
  provider ro c n = Some o -> rget ro o = Some on -> provider rn c' n = None ->
  (forall j mo, view ro c cn n = Some j -> get go j = Some mo -> is_public (elab_node ro (inhs ro) c cn) mo = true) ->
  exists j, view ro c cn n = Some j /\ In (BRemoved j) (breakages go gn l).
Proof.
  intros Hv Hc Hc' P Ho P' Hpub.
  destruct (view_is_provider ro c cn n o Hc P) as [j [V Cj]]. exists j. split; [exact V|].
  assert (Gc : get go c = Some (elab_node ro (inhs ro) c cn)) by (apply elab_get_raw; exact (proj1 Hc)).
  assert (Gc' : get gn c' = Some (elab_node rn (inhs rn) c' cn')) by (apply elab_get_raw; exact (proj1 Hc')).
  destruct (elab_node_class ro (inhs ro) c cn (proj2 Hc)) as [A1 [K1 C1]].
  destruct (elab_node_class rn (inhs rn) c' cn' (proj2 Hc')) as [A2 [K2 _]].
  assert (Gj : exists mo, get go j = Some mo).
  { destruct Cj as [E|[_ [_ G]]]; [subst j; eexists; apply elab_get_raw; exact Ho|eexists; exact G]. }
  destruct Gj as [mo Gj].
  apply (public_removal_reported go gn ri rj fuel s l Hrun c c' (elab_node ro (inhs ro) c cn) (elab_node rn (inhs rn) c' cn') n j mo).
  - right. split; [exact Hv|]. exists (elab_node ro (inhs ro) c cn), (elab_node rn (inhs rn) c' cn').
    repeat split; try assumption; [rewrite A1, A2; reflexivity|rewrite K1, K2; reflexivity].
  - exact Gc.
  - exact Gc'.
  - apply lookup_in. exact V.
  - exact Gj.
  - apply (Hpub j mo V Gj).
  - apply (view_none rn c' cn' n Hc' P').
Qed.
End Through.

(* ---- non-vacuity.  pkg: class Base: color = 1 / class _Mid(Base): color = 2 / class Leaf(_Mid): pass.
   new version: _Mid.color = 3.  Only the private intermediate class changed; the public Leaf shows _Mid.color (nearest
   definition along the MRO), so the change is reported -- against pkg._Mid.color, found through the fresh alias pkg.Leaf.color
   (node 6, appended by the elaboration). ---- *)
Definition ex_h (v : nat) : rstore :=
  mkRS [ mkR "pkg" None (RModule None [] [("Base", 1); ("_Mid", 3); ("Leaf", 5)]);
         mkR "Base" None (RClass [] [] [] [("color", 2)]);
         mkR "color" None (RAttribute (Some 1));
         mkR "_Mid" None (RClass [] [10] [["pkg"; "Base"]] [("color", 4)]);
         mkR "color" None (RAttribute (Some v));
         mkR "Leaf" None (RClass [] [11] [["pkg"; "_Mid"]] []) ]
       [("pkg", 0)].
Example override_in_private_base_reported :
  provider (ex_h 2) 5 "color" = Some 4 /\ view (ex_h 2) 5 (mkR "Leaf" None (RClass [] [11] [["pkg"; "_Mid"]] [])) "color" = Some 6 /\
  rwf (ex_h 2) = true /\ wf_store (elab (ex_h 2)) = true /\
  exists s l, fbc (elab (ex_h 2)) (elab (ex_h 3)) (default_fuel (elab (ex_h 2)) (elab (ex_h 3))) 0 0 = Ok s l /\
              breakages (elab (ex_h 2)) (elab (ex_h 3)) l = [BValue 4].
Proof. repeat split; try (vm_compute; reflexivity). eexists. eexists. split; vm_compute; reflexivity. Qed.

(* facade: pkg re-exports f from the private module pkg._impl (target found by the path walk); f turns into an attribute *)
Definition ex_f (b : rbody) : rstore :=
  mkRS [ mkR "pkg" None (RModule (Some ["f"]) ["f"] [("f", 1); ("_impl", 2)]);
         mkR "f" None (RAlias ["pkg"; "_impl"; "f"]);
         mkR "_impl" None (RModule None [] [("f", 3)]);
         mkR "f" None b ]
       [("pkg", 0)].
Example reexport_rekinding_reported :
  outcome (ex_f (RFunction [] None)) 1 = TRes 3 /\
  exists s l, fbc (elab (ex_f (RFunction [] None))) (elab (ex_f (RAttribute None))) 17 0 0 = Ok s l /\
              breakages (elab (ex_f (RFunction [] None))) (elab (ex_f (RAttribute None))) l = [BKind 3].
Proof. split; [vm_compute; reflexivity|]. eexists. eexists. split; vm_compute; reflexivity. Qed.

(* chains and cycles of re-exports: a -> b -> f resolves link by link; a -> b -> a is a CyclicAliasError; a -> missing an
   AliasResolutionError; a chain that ends in a missing name leaves every link unresolved *)
Definition ex_c : rstore :=
  mkRS [ mkR "pkg" None (RModule None [] [("a", 1); ("b", 2); ("f", 3); ("x", 4); ("y", 5); ("d", 6); ("e", 7)]);
         mkR "a" None (RAlias ["pkg"; "b"]); mkR "b" None (RAlias ["pkg"; "f"]); mkR "f" None (RFunction [] None);
         mkR "x" None (RAlias ["pkg"; "y"]); mkR "y" None (RAlias ["pkg"; "x"]);
         mkR "d" None (RAlias ["pkg"; "e"]); mkR "e" None (RAlias ["pkg"; "nope"]) ]
       [("pkg", 0)].
Example alias_outcomes : map (outcome ex_c) [1; 2; 4; 5; 6; 7] = [TRes 2; TRes 3; TCyc; TCyc; TUnres; TUnres].
Proof. vm_compute. reflexivity. Qed.
