(* C03 proofs, part 2: the generated tables are the ones the spec expects; the string-annotation rule. *)
From Coq Require Import List ZArith String Ascii Bool Arith Lia.
From Verif Require Import Lib.Sexp Model.C03_ops Gen.C03_tables Model.C03_expr Model.C03_spec Proofs.C03_ind.
Import ListNotations.
Open Scope string_scope. Open Scope list_scope. Open Scope nat_scope.

(* ---------- (T): Griffe's operator tables spell every operator as the Python grammar does; only Await has no builder ---------- *)
Lemma unop_table o : unop_str o = Some (spec_unop o). Proof. destruct o; reflexivity. Qed.
Lemma binop_table o : binop_str o = Some (spec_binop o). Proof. destruct o; reflexivity. Qed.
Lemma boolop_table o : boolop_str o = Some (spec_boolop o). Proof. destruct o; reflexivity. Qed.
Lemma cmpop_table o : cmpop_str o = Some (spec_cmpop o). Proof. destruct o; reflexivity. Qed.
Lemma node_table k : mapped k = match k with NAwait => false | _ => true end. Proof. destruct k; reflexivity. Qed.

Lemma cmpops_table ops : mapo cmpop_str ops = Some (map spec_cmpop ops).
Proof. apply mapo_all_some. apply Forall_forall. intros; apply cmpop_table. Qed.

Ltac split_andb :=
  repeat match goal with
         | H : _ && _ = true |- _ => apply andb_prop in H; destruct H
         end.

(* ---------- the rule ---------- *)
Definition npc (c : bctx) : bctx := mkCtx NoParse (insub c) (injoin c) (infmt c).

Definition kidsP (Q : pyexpr -> Prop) (e : pyexpr) : Prop :=
  match e with
  | PDictItem k v => OptP Q k /\ Q v
  | PParam _ d => OptP Q d
  | _ => True
  end.

Lemma mapo_rule {B} (f g : pyexpr -> option B) (s : pyexpr -> pyexpr) vs :
  Forall (fun x => f x = g (s x)) vs -> mapo f vs = mapo g (map s vs).
Proof. intros H. rewrite mapo_map. apply mapo_ext. exact H. Qed.

Lemma fold_left_gname_app env vs x prev :
  fold_left (gname_canon env) (vs ++ [x]) prev = gname_canon env (fold_left (gname_canon env) vs prev) x.
Proof. rewrite fold_left_app. reflexivity. Qed.

Section Rule.
Variable fx : fixes.
Variable env : nenv.
Local Notation build := (C03_expr.build fx env).
Local Notation subst := (C03_spec.subst fx env).
Local Notation rok := (rule_ok (fx_litroot fx)).

Definition RuleP (e : pyexpr) : Prop :=
  rok e = true -> forall c, build c e = build (npc c) (subst (pm c) (injoin c) (infmt c) e).

Definition RuleP' (e : pyexpr) : Prop := RuleP e /\ kidsP RuleP e.

Lemma RuleP_mk e : RuleP e -> rok e = true ->
  forall m s j f, build (mkCtx m s j f) e = build (mkCtx NoParse s j f) (subst m j f e).
Proof. intros H Hn m s j f. exact (H Hn (mkCtx m s j f)). Qed.

Lemma rule_list (vs : list pyexpr) :
  Forall RuleP' vs -> forallb rok vs = true ->
  forall c, Forall (fun x => build c x = build (npc c) (subst (pm c) (injoin c) (infmt c) x)) vs.
Proof.
  intros H Hn c. apply forallb_Forall in Hn. revert Hn. induction H as [ | x l [Hx _] _ IH]; intros Hn; [constructor|].
  inversion Hn; subst. constructor; [apply Hx; assumption|apply IH; assumption].
Qed.

Lemma rule_opt (o : option pyexpr) :
  OptP RuleP' o -> (match o with Some c => rok c | None => true end) = true ->
  forall c, optb (build c) o = optb (build (npc c)) (match o with Some x => Some (subst (pm c) (injoin c) (infmt c) x) | None => None end).
Proof. destruct o as [x | ]; simpl; intros H Hn c; [|reflexivity]. destruct H as [H _]. rewrite (H Hn c). reflexivity. Qed.

(* what the built value of a subscript looks like, read off the source *)
Lemma build_is_na (c : bctx) (v : pyexpr) (g : gexpr) :
  pm c = NoParse -> rok v = true -> build c v = Some g -> is_name_or_attr g = is_name_or_attr_src v.
Proof.
  intros Hm Hn Hb. destruct v; cbn in Hb; try rewrite Hm in Hb; try discriminate;
    repeat match type of Hb with
           | (if ?b then _ else _) = _ => destruct b
           | match ?x with _ => _ end = _ => destruct x eqn:?
           end; try discriminate; try (inversion Hb; subst; reflexivity).
  - (* PAttribute *) inversion Hb; subst. unfold attach_attr. destruct g0; reflexivity.
  - (* PKeyword *) inversion Hb; subst. destruct name; reflexivity.
Qed.

(* an ExprAttribute always has at least one value *)
Definition gnonempty (g : gexpr) : Prop := match g with GAttribute [] => False | _ => True end.

Lemma attach_nonempty g a : gnonempty (attach_attr g a).
Proof. destruct g; try exact I. destruct vs; exact I. Qed.

Lemma build_nonempty : forall e c g, build c e = Some g -> gnonempty g.
Proof.
  apply (pyexpr_ind' (fun e => forall c g, build c e = Some g -> gnonempty g)); intros;
    match goal with Hb : build _ _ = Some _ |- _ =>
      cbn [C03_expr.build enter keeps_insub mapped node_builder pm insub injoin infmt] in Hb;
      repeat match type of Hb with
             | (if ?b then _ else _) = _ => destruct b
             | match ?x with _ => _ end = _ => destruct x eqn:?
             end; try discriminate Hb;
      try (inversion Hb; subst; first [exact I | apply attach_nonempty]; fail)
    end.
  - (* PStr: a parsed string annotation *) simpl in H. eapply H. eassumption.
  - (* PParsed *) eapply H. eassumption.
  - (* PKeyword *) inversion H0; subst. destruct name; exact I.
Qed.

Definition is_const_src (e : pyexpr) : bool := match e with PNum _ _ | PConst _ | PStr _ _ _ => true | _ => false end.
Definition is_gstr (g : gexpr) : bool := match g with GStr _ => true | _ => false end.

Lemma build_is_str (c : bctx) (v : pyexpr) (g : gexpr) :
  pm c = NoParse -> rok v = true -> build c v = Some g -> is_gstr g = is_const_src v.
Proof.
  intros Hm Hn Hb. destruct v; cbn in Hb; try rewrite Hm in Hb; try discriminate;
    repeat match type of Hb with
           | (if ?b then _ else _) = _ => destruct b
           | match ?x with _ => _ end = _ => destruct x eqn:?
           end; try discriminate; try (inversion Hb; subst; reflexivity).
  - (* PAttribute *) inversion Hb; subst. unfold attach_attr. destruct g0; reflexivity.
  - (* PKeyword *) inversion Hb; subst. destruct name; reflexivity.
Qed.

(* the canonical path _build_subscript computes for the built left part, read off the source:
   a chain of names resolves through the module's imports; any other chain forgets its root *)
Definition root_par (p : gparent) : Prop := match p with ParScope | ParNone => True | _ => False end.
Definition chain_shape (g : gexpr) : Prop :=
  match g with GName _ p => root_par p | GAttribute (GName _ p :: _) => root_par p | _ => False end.

Lemma canon_of_build (v : pyexpr) : forall (c : bctx) (g : gexpr),
  pm c = NoParse -> rok v = true -> build c v = Some g ->
  match src_canon env v with
  | Some p => gcanon env g = Some p /\ chain_shape g
  | None => pure_chain g = false /\ (is_name_or_attr_src v = true -> gcanon env g = quirk_canon v)
  end.
Proof.
  induction v; intros c g Hm Hn Hb;
    try (cbn [src_canon]; pose proof (build_is_na c _ g Hm Hn Hb) as Hna; cbn [is_name_or_attr_src] in Hna;
         split; [destruct g as [ |  | [ | [] ?] |  |  |  |  |  |  |  |  |  |  |  |  |  |  |  |  |  |  |  |  |  |  |  |  |  | ]; try reflexivity; discriminate Hna|intros Hx; discriminate Hx]).
  - (* PName *) cbn in Hb. inversion Hb; subst. cbn. destruct loc; split; try reflexivity; exact I.
  - (* PAttribute *)
    cbn [C03_expr.build enter keeps_insub mapped node_builder pm insub injoin infmt] in Hb.
    destruct (build (mkCtx (pm c) false (injoin c) (infmt c)) v) as [g' | ] eqn:Ev; [|discriminate Hb].
    inversion Hb; subst g. clear Hb. cbn [rule_ok] in Hn.
    pose proof (IHv (mkCtx (pm c) false (injoin c) (infmt c)) g' Hm Hn Ev) as IH.
    pose proof (build_is_na (mkCtx (pm c) false (injoin c) (infmt c)) _ _ Hm Hn Ev) as Hna.
    pose proof (build_is_str (mkCtx (pm c) false (injoin c) (infmt c)) _ _ Hm Hn Ev) as Hst.
    cbn [src_canon]. destruct (src_canon env v) as [p | ] eqn:Es.
    + (* pure chain *) destruct IH as [Hc Hs].
      destruct g' as [ | n par | vs |  |  |  |  |  |  |  |  |  |  |  |  |  |  |  |  |  |  |  |  |  |  |  |  |  | ]; try contradiction.
      * destruct par; try contradiction; cbn [attach_attr gcanon fold_left gname_canon gname_path] in *;
          inversion Hc; subst; (split; [reflexivity|exact I]).
      * destruct vs as [ | [ | n0 par0 |  |  |  |  |  |  |  |  |  |  |  |  |  |  |  |  |  |  |  |  |  |  |  |  |  |  | ] vs]; try contradiction.
        cbn [attach_attr]. cbn [gcanon] in *. rewrite fold_left_gname_app. cbn [gname_canon].
        assert (Hc' : fold_left (gname_canon env) (GName n0 par0 :: vs) "" = p) by (injection Hc as H0; exact H0).
        rewrite Hc'. split; [reflexivity|exact Hs].
    + (* the root is not a name *) destruct IH as [Hp Hq]. cbn [is_name_or_attr_src]. split.
      * destruct g' as [ | n par | vs |  |  |  |  |  |  |  |  |  |  |  |  |  |  |  |  |  |  |  |  |  |  |  |  |  | ]; try reflexivity.
        -- (* a name is a pure chain *) discriminate Hp.
        -- pose proof (build_nonempty _ _ _ Ev) as Hne.
           cbn [attach_attr pure_chain]. destruct vs as [ | [] vs]; try reflexivity; [contradiction|]. cbn [pure_chain] in Hp. discriminate Hp.
      * intros _. cbn [quirk_canon].
        destruct v; cbn [is_name_or_attr_src is_const_src] in *;
          try (destruct g'; try discriminate Hna; try discriminate Hst; reflexivity).
        -- (* PName *) cbn in Es. discriminate Es.
        -- (* PAttribute: the chain continues *)
           specialize (Hq eq_refl).
           destruct g' as [ |  | vs |  |  |  |  |  |  |  |  |  |  |  |  |  |  |  |  |  |  |  |  |  |  |  |  |  | ]; try discriminate Hna; try discriminate Hp.
           cbn [attach_attr]. cbn [gcanon] in *. rewrite fold_left_gname_app. cbn [gname_canon].
           destruct (quirk_canon (PAttribute v attr0)) as [q|]; [|discriminate Hq]. injection Hq as ->. reflexivity.
Qed.

Lemma left_literal_src (c : bctx) (v : pyexpr) (g : gexpr) :
  pm c = NoParse -> rok v = true -> (fx_litroot fx || negb (quirk_literal v)) = true -> build c v = Some g ->
  left_is_literal fx env g = src_is_literal env v.
Proof.
  intros Hm Hn Hq Hb. pose proof (canon_of_build v c g Hm Hn Hb) as H.
  pose proof (build_is_na c v g Hm Hn Hb) as Hna.
  unfold left_is_literal, src_is_literal. destruct (src_canon env v) as [p | ] eqn:Es.
  - destruct H as [Hc Hs]. rewrite Hc.
    assert (Hp : pure_chain g = true).
    { destruct g as [ | ? [] | [ | [ | ? [] |  |  |  |  |  |  |  |  |  |  |  |  |  |  |  |  |  |  |  |  |  |  |  |  |  |  | ] ?] |  |  |  |  |  |  |  |  |  |  |  |  |  |  |  |  |  |  |  |  |  |  |  |  |  | ]; try contradiction; reflexivity. }
    rewrite Hp. destruct (fx_litroot fx); apply andb_true_r.
  - destruct H as [Hp Hq']. rewrite Hp. destruct (fx_litroot fx) eqn:Ef; [apply andb_false_r|]. rewrite andb_true_r.
    cbn [orb] in Hq. unfold quirk_literal in Hq.
    destruct (is_name_or_attr_src v) eqn:Ev.
    + rewrite (Hq' eq_refl). destruct (quirk_canon v); [|reflexivity]. apply negb_true_iff in Hq. exact Hq.
    + destruct g; try discriminate Hna; reflexivity.
Qed.

Ltac rule_start :=
  let Hn := fresh "Hn" in let m := fresh "m" in let s := fresh "s" in let j := fresh "j" in let f := fresh "f" in
  split; [intros Hn [m s j f]; cbn [rule_ok] in Hn; split_andb;
          cbn [C03_expr.build enter keeps_insub C03_spec.subst npc pm insub injoin infmt mapped node_builder] | try exact I].

Theorem string_rule_all : forall e, RuleP' e.
Proof.
  apply pyexpr_ind'.
  - (* PName *) intros; rule_start; reflexivity.
  - intros; rule_start; reflexivity.
  - intros; rule_start; reflexivity.
  - (* PStr *) intros r raw parsed _. rule_start.
    destruct (j && negb f) eqn:Ejf; cbn [C03_expr.build enter keeps_insub npc pm insub injoin infmt mapped node_builder]; rewrite ?Ejf; [reflexivity|].
    destruct m as [ | [ | ]]; cbn; rewrite ?Ejf; try reflexivity.
    destruct parsed; cbn; rewrite ?Ejf; reflexivity.
  - (* PParsed *) intros p _. split; [intros Hn; discriminate|exact I].
  - (* PAttribute *) intros v a [IH _]. rule_start. rewrite (IH ltac:(assumption) _). reflexivity.
  - (* PBinOp *) intros l o r [IHl _] [IHr _]. rule_start. rewrite (IHl ltac:(assumption) _), (IHr ltac:(assumption) _). reflexivity.
  - (* PBoolOp *) intros o vs IH. rule_start.
    rewrite (mapo_rule _ _ _ _ (rule_list vs IH ltac:(assumption) _)). reflexivity.
  - (* PUnaryOp *) intros o v [IH _]. rule_start. rewrite (IH ltac:(assumption) _). reflexivity.
  - (* PCompare *) intros l ops cs [IHl _] IH. rule_start. rewrite (IHl ltac:(assumption) _).
    rewrite (mapo_rule _ _ _ _ (rule_list cs IH ltac:(assumption) _)). reflexivity.
  - (* PCall *) intros fn args kws [IHf _] IHa IHk. rule_start. rewrite (IHf ltac:(assumption) _).
    rewrite (mapo_rule _ _ _ _ (rule_list args IHa ltac:(assumption) _)).
    rewrite (mapo_rule _ _ _ _ (rule_list kws IHk ltac:(assumption) _)). reflexivity.
  - (* PKeyword *) intros n v [IH _]. rule_start. rewrite (IH ltac:(assumption) _). reflexivity.
  - (* PSubscript *) intros v lit sl _ [IHs _]. rule_start.
    destruct (build (mkCtx NoParse false j f) v) as [lft | ] eqn:Ev; [|reflexivity].
    rewrite (left_literal_src (mkCtx NoParse false j f) v lft eq_refl ltac:(assumption) ltac:(assumption) Ev).
    destruct m as [ | l0]; cbn [pm].
    + rewrite (IHs ltac:(assumption) _). reflexivity.
    + rewrite (IHs ltac:(assumption) (mkCtx (Parse (l0 || src_is_literal env v)) true j f)). reflexivity.
  - (* PSlice *) intros lo up st IHl IHu IHs. rule_start.
    rewrite (rule_opt lo IHl ltac:(assumption) _), (rule_opt up IHu ltac:(assumption) _), (rule_opt st IHs ltac:(assumption) _).
    destruct lo, up, st; reflexivity.
  - (* PTuple *) intros es IH. rule_start.
    rewrite (mapo_rule _ _ _ _ (rule_list es IH ltac:(assumption) _)). reflexivity.
  - (* PList *) intros es IH. rule_start. rewrite (mapo_rule _ _ _ _ (rule_list es IH ltac:(assumption) _)). reflexivity.
  - (* PSet *) intros es IH. rule_start. rewrite (mapo_rule _ _ _ _ (rule_list es IH ltac:(assumption) _)). reflexivity.
  - (* PDict *) intros items IH. rule_start. rewrite mapo_map.
    match goal with |- match ?a with _ => _ end = match ?b with _ => _ end => replace a with b; [reflexivity|] end.
    apply mapo_ext. apply forallb_Forall in Hn. revert Hn. induction IH as [ | x l [_ Hx] _ IHl]; intros Hn; [constructor|].
    inversion Hn; subst. constructor; [|apply IHl; assumption].
    destruct x as [ |   |   | rr raw parsed |   |   |   |   |   |   |   |   |   |   |   |   |   |   | k v |   |   |   |   |   |   |   |   |   |   |   |   |   |   | ]; try reflexivity.
    + cbn [C03_spec.subst]. destruct (j && negb f); [reflexivity|]. destruct m as [ | [ | ]]; try reflexivity. destruct parsed; reflexivity.
    + cbn [rule_ok] in H1. split_andb. destruct Hx as [Hk Hv].
      cbn [C03_spec.subst]. unfold npc. cbn [pm insub injoin infmt]. rewrite <- (RuleP_mk _ Hv ltac:(assumption) m false j f).
      destruct k as [k | ]; [|reflexivity]. simpl in Hk. rewrite <- (RuleP_mk _ Hk ltac:(assumption) m false j f). reflexivity.
  - (* PDictItem *) intros k v Hk [Hv Hv']. split; [intros _ c; reflexivity|]. split; [|assumption].
    destruct k; simpl in *; [destruct Hk; assumption|exact I].
  - (* PIfExp *) intros b t o [IHb _] [IHt _] [IHo _]. rule_start.
    rewrite (IHb ltac:(assumption) _), (IHt ltac:(assumption) _), (IHo ltac:(assumption) _). reflexivity.
  - (* PLambda *) intros po pk vp ko vk body _ _ _ [IHb _]. rule_start. rewrite (IHb ltac:(assumption) _). reflexivity.
  - (* PParam *) intros n d Hd. split; [intros _ c; reflexivity|]. destruct d; simpl in *; [destruct Hd; assumption|exact I].
  - (* PNamedExpr *) intros t v [IHt _] [IHv _]. rule_start. rewrite (IHt ltac:(assumption) _), (IHv ltac:(assumption) _). reflexivity.
  - (* PStarred *) intros v [IH _]. rule_start. rewrite (IH ltac:(assumption) _). reflexivity.
  - (* PListComp *) intros e gens [IHe _] IH. rule_start. rewrite (IHe ltac:(assumption) _).
    rewrite (mapo_rule _ _ _ _ (rule_list gens IH ltac:(assumption) _)). reflexivity.
  - (* PSetComp *) intros e gens [IHe _] IH. rule_start. rewrite (IHe ltac:(assumption) _).
    rewrite (mapo_rule _ _ _ _ (rule_list gens IH ltac:(assumption) _)). reflexivity.
  - (* PGeneratorExp *) intros e gens [IHe _] IH. rule_start. rewrite (IHe ltac:(assumption) _).
    rewrite (mapo_rule _ _ _ _ (rule_list gens IH ltac:(assumption) _)). reflexivity.
  - (* PDictComp *) intros k v gens [IHk _] [IHv _] IH. rule_start. rewrite (IHk ltac:(assumption) _), (IHv ltac:(assumption) _).
    rewrite (mapo_rule _ _ _ _ (rule_list gens IH ltac:(assumption) _)). reflexivity.
  - (* PComprehension *) intros t it ifs a [IHt _] [IHi _] IH. rule_start. rewrite (IHt ltac:(assumption) _), (IHi ltac:(assumption) _).
    rewrite (mapo_rule _ _ _ _ (rule_list ifs IH ltac:(assumption) _)). reflexivity.
  - (* PJoinedStr *) intros vs IH. rule_start.
    rewrite (mapo_rule _ _ _ _ (rule_list vs IH ltac:(assumption) (mkCtx m false true (if fx_fnest fx then false else f)))). reflexivity.
  - (* PFormattedValue *) intros v conv spec [IH _] IHsp. rule_start. rewrite (IH ltac:(assumption) _).
    destruct (fx_fconv fx); [|reflexivity].
    rewrite (rule_opt spec IHsp ltac:(assumption) (mkCtx m false j false)). destruct spec; reflexivity.
  - (* PYield *) intros v IH. rule_start. rewrite (rule_opt v IH ltac:(assumption) _). destruct v; reflexivity.
  - (* PYieldFrom *) intros v [IH _]. rule_start. rewrite (IH ltac:(assumption) _). reflexivity.
  - (* PAwait *) intros v _. rule_start. reflexivity.
Qed.

Theorem string_annotation_rule (e : pyexpr) (c : bctx) :
  rok e = true -> build c e = build (npc c) (subst (pm c) (injoin c) (infmt c) e).
Proof. intros H. exact (proj1 (string_rule_all e) H c). Qed.

(* strings are data when the flag is off: nothing is substituted *)
Definition SubstIdP (e : pyexpr) : Prop := forall j f, subst NoParse j f e = e.

Lemma map_id_Forall {A} (g : A -> A) l : Forall (fun x => g x = x) l -> map g l = l.
Proof. induction 1 as [ | x l H _ IH]; simpl; [reflexivity|]. rewrite H, IH. reflexivity. Qed.

Theorem subst_noparse_id : forall e, SubstIdP e.
Proof.
  apply pyexpr_ind'; unfold SubstIdP; intros; cbn [C03_spec.subst];
    repeat match goal with
           | H : forall j f, subst NoParse j f ?x = ?x |- _ => rewrite !H; clear H
           | H : Forall _ ?l |- _ =>
               rewrite (map_id_Forall _ l) by (apply Forall_forall; intros x Hx; rewrite Forall_forall in H; apply (H x Hx)); clear H
           | H : OptP _ ?o |- _ => destruct o; simpl in H; try rewrite !H; clear H
           end; try reflexivity.
  - destruct (j && negb f); reflexivity.
  - destruct (j && negb f); reflexivity.
  - destruct (fx_fconv fx); reflexivity.
  - destruct (fx_fconv fx); reflexivity.
Qed.

End Rule.

(* with the repair of F14 in the tree the hypothesis of the rule is just "a source tree" *)
Lemma rule_ok_no_parsed e : rule_ok true e = no_parsed e.
Proof. reflexivity. Qed.
