(* C03 proofs, part 2: the generated tables are the ones the spec expects; the string-annotation rule. *)
From Coq Require Import List ZArith String Ascii Bool Arith Lia.
From Verif Require Import Lib.Sexp Model.C03_ops Gen.C03_tables Model.C03_expr Model.C03_spec Proofs.C03_ind.
Import ListNotations.
Open Scope string_scope. Open Scope list_scope. Open Scope nat_scope.

(* ---------- (T): Griffe's operator tables spell every operator as the Python grammar does; only Await has no builder ---------- *)
Lemma unop_table o : unop_str o = Some (spec_unop o). Proof. destruct o; reflexivity. Qed.
Lemma binop_table o : binop_str o = Some (spec_binop o). Proof. destruct o; reflexivity. Qed.
Lemma boolop_table o : boolop_str o = Some (spec_boolop o). Proof. destruct o; reflexivity. Qed.
Lemma cmpop_table o : cmpop_str o = Some (spec_cmpop o). Proof. destruct o; reflexivity. Qed.
Lemma node_table k : mapped k = match k with NAwait => false | _ => true end. Proof. destruct k; reflexivity. Qed.

Lemma cmpops_table ops : mapo cmpop_str ops = Some (map spec_cmpop ops).
Proof. apply mapo_all_some. apply Forall_forall. intros; apply cmpop_table. Qed.

Ltac split_andb :=
  repeat match goal with
         | H : _ && _ = true |- _ => apply andb_prop in H; destruct H
         end.

(* ---------- the rule ---------- *)
Definition npc (c : bctx) : bctx := mkCtx NoParse (insub c) (injoin c) (infmt c).

Definition RuleP (e : pyexpr) : Prop :=
  no_parsed e = true -> forall c, build c e = build (npc c) (subst (pm c) (injoin c) (infmt c) e).

Definition kidsP (Q : pyexpr -> Prop) (e : pyexpr) : Prop :=
  match e with
  | PDictItem k v => OptP Q k /\ Q v
  | PParam _ d => OptP Q d
  | _ => True
  end.

Definition RuleP' (e : pyexpr) : Prop := RuleP e /\ kidsP RuleP e.

Lemma RuleP_mk e : RuleP e -> no_parsed e = true ->
  forall m s j f, build (mkCtx m s j f) e = build (mkCtx NoParse s j f) (subst m j f e).
Proof. intros H Hn m s j f. exact (H Hn (mkCtx m s j f)). Qed.

Lemma mapo_rule (c c' : bctx) (s : pyexpr -> pyexpr) vs :
  Forall (fun x => build c x = build c' (s x)) vs -> mapo (build c) vs = mapo (build c') (map s vs).
Proof. intros H. rewrite mapo_map. apply mapo_ext. exact H. Qed.

Lemma rule_list (vs : list pyexpr) :
  Forall RuleP' vs -> forallb no_parsed vs = true ->
  forall c, Forall (fun x => build c x = build (npc c) (subst (pm c) (injoin c) (infmt c) x)) vs.
Proof.
  intros H Hn c. apply forallb_Forall in Hn. revert Hn. induction H as [|x l [Hx _] _ IH]; intros Hn; [constructor|].
  inversion Hn; subst. constructor; [apply Hx; assumption|apply IH; assumption].
Qed.

Lemma rule_opt (o : option pyexpr) :
  OptP RuleP' o -> (match o with Some c => no_parsed c | None => true end) = true ->
  forall c, optb (build c) o = optb (build (npc c)) (match o with Some x => Some (subst (pm c) (injoin c) (infmt c) x) | None => None end).
Proof. destruct o as [x|]; simpl; intros H Hn c; [|reflexivity]. destruct H as [H _]. rewrite (H Hn c). reflexivity. Qed.

(* what the built value of a subscript looks like, read off the source *)
Lemma build_is_na (c : bctx) (v : pyexpr) (g : gexpr) :
  pm c = NoParse -> no_parsed v = true -> build c v = Some g -> is_name_or_attr g = is_name_or_attr_src v.
Proof.
  intros Hm Hn Hb. destruct v; cbn in Hb; try rewrite Hm in Hb; try discriminate;
    repeat match type of Hb with
           | (if ?b then _ else _) = _ => destruct b
           | match ?x with _ => _ end = _ => destruct x eqn:?
           end; try discriminate; try (inversion Hb; subst; reflexivity).
  - (* PAttribute *) inversion Hb; subst. unfold attach_attr. destruct g0; reflexivity.
  - (* PKeyword *) inversion Hb; subst. destruct name; reflexivity.
Qed.

Ltac rule_start :=
  let Hn := fresh "Hn" in let m := fresh "m" in let s := fresh "s" in let j := fresh "j" in let f := fresh "f" in
  split; [intros Hn [m s j f]; cbn in Hn; split_andb; cbn [build enter keeps_insub subst npc pm insub injoin infmt mapped node_builder] | try exact I].

Theorem string_rule_all : forall e, RuleP' e.
Proof.
  apply pyexpr_ind'.
  - (* PName *) intros; rule_start; reflexivity.
  - intros; rule_start; reflexivity.
  - intros; rule_start; reflexivity.
  - (* PStr *) intros r raw parsed _. rule_start.
    destruct (j && negb f) eqn:Ejf; cbn [build enter keeps_insub npc pm insub injoin infmt mapped node_builder]; rewrite ?Ejf; [reflexivity|].
    destruct m as [|[|]]; cbn; rewrite ?Ejf; try reflexivity.
    destruct parsed; cbn; rewrite ?Ejf; reflexivity.
  - (* PParsed *) intros p _. split; [intros Hn; discriminate|exact I].
  - (* PAttribute *) intros v a [IH _]. rule_start. rewrite (IH ltac:(assumption) _). reflexivity.
  - (* PBinOp *) intros l o r [IHl _] [IHr _]. rule_start. rewrite (IHl ltac:(assumption) _), (IHr ltac:(assumption) _). reflexivity.
  - (* PBoolOp *) intros o vs IH. rule_start.
    rewrite (mapo_rule _ _ _ _ (rule_list vs IH ltac:(assumption) _)). reflexivity.
  - (* PUnaryOp *) intros o v [IH _]. rule_start. rewrite (IH ltac:(assumption) _). reflexivity.
  - (* PCompare *) intros l ops cs [IHl _] IH. rule_start. rewrite (IHl ltac:(assumption) _).
    rewrite (mapo_rule _ _ _ _ (rule_list cs IH ltac:(assumption) _)). reflexivity.
  - (* PCall *) intros fn args kws [IHf _] IHa IHk. rule_start. rewrite (IHf ltac:(assumption) _).
    rewrite (mapo_rule _ _ _ _ (rule_list args IHa ltac:(assumption) _)).
    rewrite (mapo_rule _ _ _ _ (rule_list kws IHk ltac:(assumption) _)). reflexivity.
  - (* PKeyword *) intros n v [IH _]. rule_start. rewrite (IH ltac:(assumption) _). reflexivity.
  - (* PSubscript *) intros v lit sl _ [IHs _]. rule_start.
    destruct (build (mkCtx NoParse false j f) v) as [lft|] eqn:Ev; [|reflexivity].
    rewrite (build_is_na (mkCtx NoParse false j f) v lft eq_refl ltac:(assumption) Ev).
    destruct m as [|l0]; cbn [pm].
    + rewrite (IHs ltac:(assumption) _). reflexivity.
    + rewrite (IHs ltac:(assumption) (mkCtx (Parse (l0 || lit && is_name_or_attr_src v)) true j f)). reflexivity.
  - (* PSlice *) intros lo up st IHl IHu IHs. rule_start.
    rewrite (rule_opt lo IHl ltac:(assumption) _), (rule_opt up IHu ltac:(assumption) _), (rule_opt st IHs ltac:(assumption) _).
    destruct lo, up, st; reflexivity.
  - (* PTuple *) intros es IH. rule_start.
    rewrite (mapo_rule _ _ _ _ (rule_list es IH ltac:(assumption) _)). reflexivity.
  - (* PList *) intros es IH. rule_start. rewrite (mapo_rule _ _ _ _ (rule_list es IH ltac:(assumption) _)). reflexivity.
  - (* PSet *) intros es IH. rule_start. rewrite (mapo_rule _ _ _ _ (rule_list es IH ltac:(assumption) _)). reflexivity.
  - (* PDict *) intros items IH. rule_start. rewrite mapo_map.
    match goal with |- match ?a with _ => _ end = match ?b with _ => _ end => replace a with b; [reflexivity|] end.
    apply mapo_ext. apply forallb_Forall in Hn. revert Hn. induction IH as [|x l [_ Hx] _ IHl]; intros Hn; [constructor|].
    inversion Hn; subst. constructor; [|apply IHl; assumption].
    destruct x as [| | |rr raw parsed| | | | | | | | | | | | | | |k v| | | | | | | | | | | | | | |]; try reflexivity.
    + cbn [subst]. destruct (j && negb f); [reflexivity|]. destruct m as [|[|]]; try reflexivity. destruct parsed; reflexivity.
    + cbn in H1. split_andb. destruct Hx as [Hk Hv].
      cbn [subst]. unfold npc. cbn [pm insub injoin infmt]. rewrite <- (RuleP_mk _ Hv ltac:(assumption) m false j f).
      destruct k as [k|]; [|reflexivity]. simpl in Hk. rewrite <- (RuleP_mk _ Hk ltac:(assumption) m false j f). reflexivity.
  - (* PDictItem *) intros k v Hk [Hv Hv']. split; [intros _ c; reflexivity|]. split; [|assumption].
    destruct k; simpl in *; [destruct Hk; assumption|exact I].
  - (* PIfExp *) intros b t o [IHb _] [IHt _] [IHo _]. rule_start.
    rewrite (IHb ltac:(assumption) _), (IHt ltac:(assumption) _), (IHo ltac:(assumption) _). reflexivity.
  - (* PLambda *) intros po pk vp ko vk body _ _ _ [IHb _]. rule_start. rewrite (IHb ltac:(assumption) _). reflexivity.
  - (* PParam *) intros n d Hd. split; [intros _ c; reflexivity|]. destruct d; simpl in *; [destruct Hd; assumption|exact I].
  - (* PNamedExpr *) intros t v [IHt _] [IHv _]. rule_start. rewrite (IHt ltac:(assumption) _), (IHv ltac:(assumption) _). reflexivity.
  - (* PStarred *) intros v [IH _]. rule_start. rewrite (IH ltac:(assumption) _). reflexivity.
  - (* PListComp *) intros e gens [IHe _] IH. rule_start. rewrite (IHe ltac:(assumption) _).
    rewrite (mapo_rule _ _ _ _ (rule_list gens IH ltac:(assumption) _)). reflexivity.
  - (* PSetComp *) intros e gens [IHe _] IH. rule_start. rewrite (IHe ltac:(assumption) _).
    rewrite (mapo_rule _ _ _ _ (rule_list gens IH ltac:(assumption) _)). reflexivity.
  - (* PGeneratorExp *) intros e gens [IHe _] IH. rule_start. rewrite (IHe ltac:(assumption) _).
    rewrite (mapo_rule _ _ _ _ (rule_list gens IH ltac:(assumption) _)). reflexivity.
  - (* PDictComp *) intros k v gens [IHk _] [IHv _] IH. rule_start. rewrite (IHk ltac:(assumption) _), (IHv ltac:(assumption) _).
    rewrite (mapo_rule _ _ _ _ (rule_list gens IH ltac:(assumption) _)). reflexivity.
  - (* PComprehension *) intros t it ifs a [IHt _] [IHi _] IH. rule_start. rewrite (IHt ltac:(assumption) _), (IHi ltac:(assumption) _).
    rewrite (mapo_rule _ _ _ _ (rule_list ifs IH ltac:(assumption) _)). reflexivity.
  - (* PJoinedStr *) intros vs IH. rule_start.
    rewrite (mapo_rule _ _ _ _ (rule_list vs IH ltac:(assumption) _)). reflexivity.
  - (* PFormattedValue *) intros v conv spec [IH _] _. rule_start. rewrite (IH ltac:(assumption) _). reflexivity.
  - (* PYield *) intros v IH. rule_start. rewrite (rule_opt v IH ltac:(assumption) _). destruct v; reflexivity.
  - (* PYieldFrom *) intros v [IH _]. rule_start. rewrite (IH ltac:(assumption) _). reflexivity.
  - (* PAwait *) intros v _. rule_start. reflexivity.
Qed.

Theorem string_annotation_rule (e : pyexpr) (c : bctx) :
  no_parsed e = true -> build c e = build (npc c) (subst (pm c) (injoin c) (infmt c) e).
Proof. intros H. exact (proj1 (string_rule_all e) H c). Qed.

(* strings are data when the flag is off: nothing is substituted *)
Definition SubstIdP (e : pyexpr) : Prop := forall j f, subst NoParse j f e = e.

Lemma map_id_Forall {A} (g : A -> A) l : Forall (fun x => g x = x) l -> map g l = l.
Proof. induction 1 as [|x l H _ IH]; simpl; [reflexivity|]. rewrite H, IH. reflexivity. Qed.

Theorem subst_noparse_id : forall e, SubstIdP e.
Proof.
  apply pyexpr_ind'; unfold SubstIdP; intros; cbn [subst];
    repeat match goal with
           | H : forall j f, subst NoParse j f ?x = ?x |- _ => rewrite !H; clear H
           | H : Forall _ ?l |- _ =>
               rewrite (map_id_Forall _ l) by (apply Forall_forall; intros x Hx; rewrite Forall_forall in H; apply (H x Hx)); clear H
           | H : OptP _ ?o |- _ => destruct o; simpl in H; try rewrite !H; clear H
           end; try reflexivity.
  - destruct (j && negb f); reflexivity.
  - destruct (j && negb f); reflexivity.
Qed.
