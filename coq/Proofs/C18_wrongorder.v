(* C18 proofs, part 9: loads in any order.  The table changes between events (the MRO lists grow as packages are loaded);
   every class is walked by exactly one event.  After all events, each class carries the stateless result computed on the
   table of ITS event, and Class.parameters - looked up along the final MRO when asked for - is the stateless presented
   constructor of the final table exactly when the members of the classes it is looked up in are the final ones. *)
From Coq Require Import List Arith Bool Lia.
From Verif Require Import Lib.Sexp Model.C18_dataclass Model.C18_modes Model.C18_machine Model.C18_presented
  Proofs.C18_dataclass Proofs.C18_modes Proofs.C18_machine Proofs.C18_presented.
Import ListNotations.
Open Scope list_scope. Open Scope nat_scope.

(* the same classes up to their MRO lists *)
Definition core (c : cls) := (c_dec c, c_body c, c_hw c).
Definition sim (t t0 : table) : Prop := forall k, option_map core (nth_error t k) = option_map core (nth_error t0 k).

Lemma sim_nth : forall t t0 k b, sim t t0 -> nth_error t k = Some b -> exists b0, nth_error t0 k = Some b0 /\ core b = core b0.
Proof.
  intros t t0 k b H Hk. specialize (H k). rewrite Hk in H. destruct (nth_error t0 k) as [b0|]; [|discriminate].
  simpl in H. exists b0. split; auto. congruence.
Qed.
Lemma sim_sym : forall t t0, sim t t0 -> sim t0 t.
Proof. intros t t0 H k. symmetry. apply H. Qed.

Lemma core_facts : forall b b0, core b = core b0 ->
  g_own_all b = g_own_all b0 /\ decorated b = decorated b0 /\ c_hw b = c_hw b0 /\ init_false b = init_false b0 /\
  forall st j, scan_now st j b = scan_now st j b0.
Proof.
  intros [d bo h m] [d0 bo0 h0 m0] H. unfold core in H. simpl in H. inversion H; subst.
  unfold g_own_all, decorated, init_false, scan_now, live_body, g_body. simpl. repeat split; auto.
Qed.

(* the part of the invariant that does not depend on MRO lists *)
Record Inv' (t0 : table) (st : sstate) : Prop := mkInv' {
  ic : forall j l, lookup j (s_cache st) = Some l -> exists b, nth_error t0 j = Some b /\ l = g_own_all b;
  ip : forall j b, memb j (s_pruned st) = true -> nth_error t0 j = Some b -> decorated b = true -> lookup j (s_cache st) <> None
}.

Lemma Inv'_st0 : forall t0, Inv' t0 st0.
Proof. intros. constructor; simpl; intros; discriminate. Qed.

Definition same_but_cache (a b : sstate) : Prop :=
  s_pruned b = s_pruned a /\ s_init b = s_init a /\ s_label b = s_label a /\ s_processed b = s_processed a.

Lemma cached_fst' : forall t0 t st j b, Inv' t0 st -> sim t t0 -> nth_error t j = Some b -> fst (cached st j b) = g_own_all b.
Proof.
  intros t0 t st j b HI Hs Hj. destruct (sim_nth t t0 j b Hs Hj) as [b0 [Hb0 Hc]].
  destruct (core_facts b b0 Hc) as [Ho [Hd [_ [_ Hsc]]]].
  unfold cached. destruct (lookup j (s_cache st)) as [l|] eqn:El; simpl.
  - destruct (ic t0 st HI j l El) as [b' [Hb' Hl]]. rewrite Hb0 in Hb'. inversion Hb'; subst b'. congruence.
  - destruct (memb j (s_pruned st)) eqn:Em; [|apply scan_now_unpruned; auto].
    destruct (decorated b) eqn:Hdb.
    + exfalso. apply (ip t0 st HI j b0 Em Hb0); [congruence|auto].
    + rewrite (g_own_all_undec b Hdb). unfold scan_now, decorated in *. destruct (c_dec b); [discriminate|reflexivity].
Qed.

Lemma own_of_static' : forall t0 t st, Inv' t0 st -> sim t t0 -> forall k, own_of t st k = own_static t k.
Proof.
  intros t0 t st HI Hs k. unfold own_of, own_static. destruct (nth_error t k) as [b|] eqn:Hk; auto.
  apply (cached_fst' t0 t st k b HI Hs Hk).
Qed.

Lemma cached_ok' : forall t0 t st j b, Inv' t0 st -> sim t t0 -> nth_error t j = Some b ->
  Inv' t0 (snd (cached st j b)) /\ same_but_cache st (snd (cached st j b)) /\
  (forall k, lookup k (s_cache st) <> None -> lookup k (s_cache (snd (cached st j b))) <> None) /\
  lookup j (s_cache (snd (cached st j b))) <> None.
Proof.
  intros t0 t st j b HI Hs Hj. pose proof (cached_fst' t0 t st j b HI Hs Hj) as Hf.
  destruct (sim_nth t t0 j b Hs Hj) as [b0 [Hb0 Hc]]. destruct (core_facts b b0 Hc) as [Ho _].
  unfold cached in *. destruct (lookup j (s_cache st)) as [l|] eqn:El; cbn [fst snd] in *.
  - split; [auto|]. split; [repeat split; auto|]. split; [auto|]. rewrite El. discriminate.
  - rewrite Hf. split; [|split; [repeat split; auto|split]].
    + constructor; proj.
      * intros k l. rewrite lookup_cons. destruct (Nat.eqb k j) eqn:E.
        -- apply Nat.eqb_eq in E. subst k. intros H. inversion H. exists b0. split; auto.
        -- apply (ic t0 st HI).
      * intros k b' Hm Hk Hdk. rewrite lookup_cons. destruct (Nat.eqb k j); [discriminate|]. apply (ip t0 st HI k b'); auto.
    + intros k Hk. proj. rewrite lookup_cons. destruct (Nat.eqb k j); [discriminate|auto].
    + proj. rewrite lookup_cons, Nat.eqb_refl. discriminate.
Qed.

Lemma same_but_cache_trans : forall a b c, same_but_cache a b -> same_but_cache b c -> same_but_cache a c.
Proof. unfold same_but_cache. intros a b c [A1 [A2 [A3 A4]]] [B1 [B2 [B3 B4]]]. repeat split; congruence. Qed.

Lemma warm_ok' : forall t0 t l st, Inv' t0 st -> sim t t0 ->
  Inv' t0 (warm t st l) /\ same_but_cache st (warm t st l) /\
  (forall k, lookup k (s_cache st) <> None -> lookup k (s_cache (warm t st l)) <> None) /\
  (forall j b, In j l -> nth_error t j = Some b -> decorated b = true -> lookup j (s_cache (warm t st l)) <> None).
Proof.
  intros t0 t. induction l as [|j r IH]; intros st HI Hs; simpl.
  - split; [auto|]. split; [repeat split; auto|]. split; [auto|]. intros j b [].
  - destruct (nth_error t j) as [b|] eqn:Hj.
    + destruct (decorated b) eqn:Hd.
      * destruct (cached_ok' t0 t st j b HI Hs Hj) as [HI1 [Hs1 [Hm1 Hl1]]].
        destruct (IH (snd (cached st j b)) HI1 Hs) as [HI2 [Hs2 [Hm2 Hl2]]].
        split; [auto|]. split; [eapply same_but_cache_trans; eauto|]. split; [intros k Hk; auto|].
        intros k b' [Hk|Hk] Hb' Hd'; [subst k; auto | eapply Hl2; eauto].
      * destruct (IH st HI Hs) as [HI2 [Hs2 [Hm2 Hl2]]].
        split; [auto|]. split; [auto|]. split; [auto|].
        intros k b' [Hk|Hk] Hb' Hd'; [subst k; congruence | eapply Hl2; eauto].
    + destruct (IH st HI Hs) as [HI2 [Hs2 [Hm2 Hl2]]].
      split; [auto|]. split; [auto|]. split; [auto|].
      intros k b' [Hk|Hk] Hb' Hd'; [subst k; congruence | eapply Hl2; eauto].
Qed.

(* what one walked class leaves: the invariant, nothing touched for the other classes, and - when it had not been
   handled before - the stateless result on the table of the moment *)
Definition untouched (st st' : sstate) (k : nat) : Prop :=
  lookup k (s_init st') = lookup k (s_init st) /\ memb k (s_label st') = memb k (s_label st).
Definition fresh (st : sstate) (j : nat) : Prop := lookup j (s_init st) = None /\ memb j (s_label st) = false.
Definition result (md : mode) (t : table) (st : sstate) (j : nat) : Prop :=
  forall c, nth_error t j = Some c -> s_member st j c = gm_init_member md t j c /\ s_labelled st j c = g_label t c.

Lemma process_frame : forall md t0 t st j, Inv' t0 st -> sim t t0 ->
  Inv' t0 (process md t st j) /\ (forall k, k <> j -> untouched st (process md t st j) k) /\
  s_processed (process md t st j) = s_processed st /\
  (fresh st j -> result md t (process md t st j) j).
Proof.
  intros md t0 t st j HI Hs. unfold process. destruct (nth_error t j) as [c|] eqn:Hj.
  2:{ split; [auto|]. split; [intros k _; split; reflexivity|]. split; [auto|]. intros _ c Hc. congruence. }
  set (lab := existsb decorated (mro_classes t c)).
  set (sa := if lab then mkst (s_cache st) (s_pruned st) (s_init st) (j :: s_label st) (s_processed st) else st).
  assert (HIa : Inv' t0 sa).
  { unfold sa. destruct lab; auto. destruct HI as [A B]. constructor; proj; auto. }
  assert (Hsa : s_init sa = s_init st /\ s_processed sa = s_processed st).
  { unfold sa. destruct lab; simpl; auto. }
  destruct Hsa as [Hi0 Hpr0].
  assert (Hlab_k : forall k, k <> j -> memb k (s_label sa) = memb k (s_label st)).
  { intros k Hk. unfold sa. destruct lab; simpl; auto. apply Nat.eqb_neq in Hk. rewrite Hk. reflexivity. }
  assert (Hlab_j : memb j (s_label st) = false -> memb j (s_label sa) = lab).
  { intros Hf. unfold sa. destruct lab; simpl; auto. rewrite Nat.eqb_refl. reflexivity. }
  destruct (has_init sa j c) eqn:Hh.
  - split; [exact HIa|]. split; [intros k Hk; split; [rewrite Hi0; reflexivity | apply Hlab_k; auto]|]. split; [exact Hpr0|].
    intros [Hf1 Hf2] c' Hc'. rewrite Hj in Hc'. inversion Hc'; subst c'. split.
    + unfold s_member, has_init in *. destruct (c_hw c) eqn:Ehw.
      * unfold gm_init_member. rewrite Ehw. reflexivity.
      * rewrite Hi0, Hf1 in Hh. discriminate.
    + unfold s_labelled, g_label. rewrite (Hlab_j Hf2). reflexivity.
  - assert (Hhw : c_hw c = None).
    { unfold has_init in Hh. destruct (c_hw c); [discriminate|auto]. }
    destruct (warm_ok' t0 t (rev (c_mro c) ++ [j]) sa HIa Hs) as [HI1 [Hs1 [Hm1 Hl1]]].
    set (s1 := warm t sa (rev (c_mro c) ++ [j])) in *.
    destruct Hs1 as [Sp [Si [Sl Spr]]].
    assert (Hps : gm_params md t (own_of t s1) j c = gm_params md t (own_static t) j c).
    { apply gm_params_ext. apply (own_of_static' t0 t s1 HI1 Hs). }
    rewrite Hps.
    set (syn := decorated c && negb (init_false c)).
    set (s2 := if syn then mkst (s_cache s1) (s_pruned s1) ((j, Synth (gm_params md t (own_static t) j c)) :: s_init s1) (s_label s1) (s_processed s1) else s1).
    assert (H2c : s_cache s2 = s_cache s1 /\ s_pruned s2 = s_pruned s1 /\ s_label s2 = s_label s1 /\ s_processed s2 = s_processed s1).
    { unfold s2. destruct syn; simpl; auto. }
    destruct H2c as [C2 [P2 [L2 PR2]]].
    assert (Hinit_k : forall k, k <> j -> lookup k (s_init s2) = lookup k (s_init st)).
    { intros k Hk. apply Nat.eqb_neq in Hk. unfold s2. destruct syn; proj; [rewrite lookup_cons, Hk|]; rewrite Si, Hi0; reflexivity. }
    split; [|split; [|split]].
    + destruct HI1 as [A B]. destruct (sim_nth t t0 j c Hs Hj) as [c0 [Hc0 Hcc]]. destruct (core_facts c c0 Hcc) as [_ [Hdd _]].
      constructor; proj.
      * rewrite C2. exact A.
      * intros k b. rewrite C2, P2, memb_cons. destruct (Nat.eqb k j) eqn:E; simpl.
        -- apply Nat.eqb_eq in E. subst k. intros _ Hb Hd. rewrite Hc0 in Hb. inversion Hb; subst b.
           apply (Hl1 j c); auto; [apply in_or_app; right; left; auto | congruence].
        -- apply B.
    + intros k Hk. split; proj; [apply Hinit_k; auto | rewrite L2, Sl; apply Hlab_k; auto].
    + proj. rewrite PR2, Spr. auto.
    + intros [Hf1 Hf2] c' Hc'. rewrite Hj in Hc'. inversion Hc'; subst c'. split.
      * unfold s_member; proj. rewrite Hhw, (gm_init_member_nohw md t j c Hhw). fold syn. unfold s2. destruct syn; proj.
        -- rewrite lookup_cons, Nat.eqb_refl. reflexivity.
        -- rewrite Si, Hi0, Hf1. reflexivity.
      * unfold s_labelled, g_label; proj. rewrite L2, Sl, (Hlab_j Hf2). reflexivity.
Qed.

Lemma untouched_result : forall md t st st' k, untouched st st' k -> result md t st k -> result md t st' k.
Proof.
  intros md t st st' k [H1 H2] HR c Hc. destruct (HR c Hc) as [A B]. unfold s_member, s_labelled in *. rewrite H1, H2. auto.
Qed.
Lemma untouched_fresh : forall st st' k, untouched st st' k -> fresh st k -> fresh st' k.
Proof. intros st st' k [H1 H2] [A B]. split; congruence. Qed.
Lemma untouched_trans : forall a b c k, untouched a b k -> untouched b c k -> untouched a c k.
Proof. intros a b c k [A1 A2] [B1 B2]. split; congruence. Qed.
Lemma untouched_processed : forall st p k, untouched st (mkst (s_cache st) (s_pruned st) (s_init st) (s_label st) p) k.
Proof. intros. split; reflexivity. Qed.
Lemma Inv'_processed : forall t0 st p, Inv' t0 st -> Inv' t0 (mkst (s_cache st) (s_pruned st) (s_init st) (s_label st) p).
Proof. intros t0 st p [A B]. constructor; proj; auto. Qed.
Lemma result_processed : forall md t st p k, result md t st k -> result md t (mkst (s_cache st) (s_pruned st) (s_init st) (s_label st) p) k.
Proof. intros md t st p k H c Hc. destruct (H c Hc). split; auto. Qed.

Lemma walk_frame : forall md t0 t paths ev st, Inv' t0 st -> sim t t0 ->
  NoDup ev -> NoDup (map (fun j => nth j paths 0) ev) -> (forall j, In j ev -> ~ In (nth j paths 0) (s_processed st)) ->
  Inv' t0 (walk md t paths st ev) /\ (forall k, ~ In k ev -> untouched st (walk md t paths st ev) k) /\
  (forall j, In j ev -> fresh st j -> result md t (walk md t paths st ev) j).
Proof.
  intros md t0 t paths. induction ev as [|j r IH]; intros st HI Hs Hnj Hnd Hfresh; simpl.
  - split; [auto|]. split; [intros; split; reflexivity|]. intros j [].
  - assert (Hm : memb (nth j paths 0) (s_processed st) = false) by (apply memb_false_notin; apply Hfresh; left; auto).
    rewrite Hm. destruct (process_frame md t0 t st j HI Hs) as [HI1 [Hfr [Hpr Hres]]].
    set (s1 := process md t st j) in *.
    set (s1' := mkst (s_cache s1) (s_pruned s1) (s_init s1) (s_label s1) (nth j paths 0 :: s_processed s1)).
    apply NoDup_cons_iff in Hnj. destruct Hnj as [Hjr Hnj].
    simpl in Hnd. apply NoDup_cons_iff in Hnd. destruct Hnd as [Hnotin Hnd].
    destruct (IH s1' (Inv'_processed t0 s1 _ HI1) Hs Hnj Hnd) as [HI2 [Hun2 Hres2]].
    { intros k Hk. unfold s1'. simpl. intros [H|H].
      - apply Hnotin. rewrite H. apply (in_map (fun j0 => nth j0 paths 0)). auto.
      - rewrite Hpr in H. apply (Hfresh k); auto. right. auto. }
    split; [exact HI2|]. split.
    + intros k Hk. assert (k <> j) by (intros ->; apply Hk; left; auto).
      eapply untouched_trans; [apply Hfr; auto|]. eapply untouched_trans; [apply untouched_processed|].
      apply Hun2. intros Hin. apply Hk. right. auto.
    + intros k [Hk|Hk] Hf.
      * subst k. eapply untouched_result; [apply Hun2; auto|]. apply result_processed. apply Hres. auto.
      * assert (k <> j) by (intros ->; contradiction).
        apply Hres2; auto. eapply untouched_fresh; [apply untouched_processed|]. eapply untouched_fresh; [apply Hfr; auto|]. auto.
Qed.

(* all the events, each with the table of its moment; every class is walked once *)
Lemma session_tv_from : forall md t0 paths evs st, Inv' t0 st ->
  (forall t ev, In (t, ev) evs -> sim t t0 /\ NoDup (map (fun j => nth j paths 0) ev)) ->
  NoDup (flat_map snd evs) -> (forall j, In j (flat_map snd evs) -> fresh st j) ->
  let fin := fold_left (fun st (te : table * list nat) => event md false false (fst te) paths st (snd te)) evs st in
  Inv' t0 fin /\ (forall k, ~ In k (flat_map snd evs) -> untouched st fin k) /\
  (forall t ev j, In (t, ev) evs -> In j ev -> result md t fin j).
Proof.
  intros md t0 paths. induction evs as [|[t ev] r IH]; intros st HI Hall Hnd Hfr; simpl.
  - split; [auto|]. split; [intros; split; reflexivity|]. intros t ev j [].
  - simpl in Hnd. destruct (Hall t ev (or_introl eq_refl)) as [Hs Hp].
    assert (Hnev : NoDup ev) by (apply NoDup_app_l in Hnd; auto).
    unfold event at 2. simpl.
    destruct (walk_frame md t0 t paths ev (mkst (s_cache st) (s_pruned st) (s_init st) (s_label st) []) (Inv'_processed t0 st [] HI) Hs Hnev Hp) as [HI1 [Hun1 Hres1]].
    { intros j _ []. }
    set (s1 := walk md t paths (mkst (s_cache st) (s_pruned st) (s_init st) (s_label st) []) ev) in *.
    assert (Hdisj : forall k, In k ev -> ~ In k (flat_map snd r)).
    { intros k Hk Hin. clear - Hnd Hk Hin. induction ev as [|x ev IHev]; simpl in *; [contradiction|].
      apply NoDup_cons_iff in Hnd. destruct Hnd as [Hx Hnd]. destruct Hk as [->|Hk]; [apply Hx; apply in_or_app; auto | auto]. }
    destruct (IH s1 HI1 (fun t' ev' H => Hall t' ev' (or_intror H))) as [HI2 [Hun2 Hres2]].
    { clear - Hnd. induction ev; simpl in *; auto. apply NoDup_cons_iff in Hnd. destruct Hnd; auto. }
    { intros k Hk. assert (Hkev : ~ In k ev) by (intros H; apply (Hdisj k H Hk)).
      eapply untouched_fresh; [apply Hun1; auto|]. eapply untouched_fresh; [apply untouched_processed|].
      apply Hfr. simpl. apply in_or_app. right. auto. }
    split; [exact HI2|]. split.
    + intros k Hk. eapply untouched_trans; [apply untouched_processed|]. eapply untouched_trans; [apply Hun1|apply Hun2];
        intros H; apply Hk; simpl; apply in_or_app; auto.
    + intros t' ev' j [He|He] Hj.
      * inversion He; subst t' ev'. eapply untouched_result; [apply Hun2; apply Hdisj; auto|].
        apply Hres1; auto. eapply untouched_fresh; [apply untouched_processed|]. apply Hfr. simpl. apply in_or_app. left. auto.
      * eapply Hres2; eauto.
Qed.

(* THE THEOREM for loads in any order: each class carries the stateless result on the table of the event that walked it *)
Theorem session_tv_spec : forall md t0 paths evs,
  (forall t ev, In (t, ev) evs -> sim t t0 /\ NoDup (map (fun j => nth j paths 0) ev)) ->
  NoDup (flat_map snd evs) ->
  forall t ev j c, In (t, ev) evs -> In j ev -> nth_error t j = Some c ->
  s_member (session_tv md paths evs) j c = gm_init_member md t j c /\ s_labelled (session_tv md paths evs) j c = g_label t c.
Proof.
  intros md t0 paths evs Hall Hnd t ev j c He Hj Hc.
  destruct (session_tv_from md t0 paths evs st0 (Inv'_st0 t0) Hall Hnd) as [_ [_ H]].
  { intros k _. split; reflexivity. }
  apply (H t ev j He Hj c Hc).
Qed.

(* Class.parameters after all the loads = the stateless presented constructor of the FINAL table, exactly when each class
   of the lookup list (the class, then its final MRO) got at its event the member it would get now *)
Theorem presented_after_loads : forall md t0 paths evs tfin i c,
  (forall t ev, In (t, ev) evs -> sim t t0 /\ NoDup (map (fun j => nth j paths 0) ev)) ->
  NoDup (flat_map snd evs) -> sim tfin t0 -> nth_error tfin i = Some c ->
  (forall k, In k (i :: c_mro c) -> exists t ev, In (t, ev) evs /\ In k ev /\ gm_member_at md t k = gm_member_at md tfin k) ->
  first_init (s_member_at (session_tv md paths evs) tfin) (i :: c_mro c) = gm_presented md tfin i c.
Proof.
  intros md t0 paths evs tfin i c Hall Hnd Hsf Hi Hk. unfold gm_presented. apply first_init_ext.
  intros k Hin. destruct (Hk k Hin) as [t [ev [He [Hkev Heq]]]]. rewrite <- Heq.
  unfold s_member_at, gm_member_at. destruct (Hall t ev He) as [Hs _].
  destruct (nth_error tfin k) as [b|] eqn:Hb.
  - destruct (sim_nth tfin t0 k b Hsf Hb) as [b0 [Hb0 Hc0]].
    destruct (sim_nth t0 t k b0 (sim_sym t t0 Hs) Hb0) as [b' [Hb' Hc']]. rewrite Hb'.
    destruct (session_tv_spec md t0 paths evs Hall Hnd t ev k b' He Hkev Hb') as [Hm _]. rewrite <- Hm.
    unfold s_member. destruct (core_facts b b0 Hc0) as [_ [_ [Hh _]]]. destruct (core_facts b0 b' Hc') as [_ [_ [Hh' _]]].
    rewrite Hh, Hh'. reflexivity.
  - specialize (Hsf k). rewrite Hb in Hsf. specialize (Hs k). destruct (nth_error t0 k); [discriminate|].
    destruct (nth_error t k); [discriminate|reflexivity].
Qed.

(* ---- non-vacuity: package b (classes 1, 2: a plain subclass and a decorated subclass of K0) loaded BEFORE package a (K0) ---- *)
Definition wo_fin : table := [ mkcls D0 [P0 0] None []; mkcls None [] None [0]; mkcls D0 [P1 1] None [0] ].
Definition wo_early : table := [ mkcls D0 [P0 0] None []; mkcls None [] None []; mkcls D0 [P1 1] None [] ].
Definition wo_evs : list (table * list nat) := [(wo_early, [1; 2]); (wo_fin, [0])].
(* the plain subclass gets the parent's constructor once the parent is there; the decorated one keeps the __init__
   synthesised without the parent (its member is not the one it would get now: the hypothesis of the theorem fails for it) *)
Example wrong_order_computed : forall md,
  first_init (s_member_at (session_tv md [0; 1; 2] wo_evs) wo_fin) [1; 0] = gm_presented md wo_fin 1 (cls_at wo_fin 1) /\
  gm_presented md wo_fin 1 (cls_at wo_fin 1) = Some (0, Synth [mkp 0 PK false]) /\
  first_init (s_member_at (session_tv md [0; 1; 2] wo_evs) wo_fin) [2; 0] = Some (2, Synth [mkp 1 PK true]) /\
  gm_presented md wo_fin 2 (cls_at wo_fin 2) = Some (2, Synth [mkp 0 PK false; mkp 1 PK true]) /\
  gm_member_at md wo_early 2 <> gm_member_at md wo_fin 2.
Proof. intros md; destruct md; vm_compute; repeat split; try reflexivity; discriminate. Qed.
