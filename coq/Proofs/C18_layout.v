(* C18 proofs, part 8: what the extension can see when on_package_loaded fires (Model/C18_layout.v). *)
From Coq Require Import List Arith Bool Lia.
From Verif Require Import Lib.Sexp Model.C18_dataclass Model.C18_layout.
Import ListNotations.
Open Scope list_scope. Open Scope nat_scope.

Lemma lookup_upd_other : forall sc x n, e_name x <> n -> lookup_e n (upd e_name sc x) = lookup_e n sc.
Proof.
  induction sc as [|y r IH]; simpl; intros x n H.
  - apply Nat.eqb_neq in H. rewrite H. reflexivity.
  - destruct (Nat.eqb (e_name y) (e_name x)) eqn:E; simpl.
    + apply Nat.eqb_eq in E. assert (e_name y <> n) by congruence.
      apply Nat.eqb_neq in H. rewrite H. apply Nat.eqb_neq in H0. rewrite H0. reflexivity.
    + destruct (Nat.eqb (e_name y) n); auto.
Qed.

(* one imported member leaves alone every name it does not carry, and every name bound on the star's line or later *)
Lemma star_add_keep : forall self line m' sc e n old,
  lookup_e n sc = Some old -> (e_name e <> n \/ line <= e_line old) ->
  lookup_e n (star_add self line m' sc e) = Some old.
Proof.
  intros self line m' sc e n old Hl H.
  assert (Hcore : lookup_e n (match lookup_e (e_name e) sc with
                               | Some o => if Nat.ltb (e_line o) line then upd e_name sc (mke (e_name e) (BAlias m' (e_name e)) line) else sc
                               | None => upd e_name sc (mke (e_name e) (BAlias m' (e_name e)) line) end) = Some old).
  { destruct (Nat.eq_dec (e_name e) n) as [En|En].
    - destruct H as [H|H]; [contradiction|]. rewrite En, Hl.
      assert (Hlt : Nat.ltb (e_line old) line = false) by (apply Nat.ltb_ge; auto). rewrite Hlt. auto.
    - destruct (lookup_e (e_name e) sc) as [o|].
      + destruct (Nat.ltb (e_line o) line); auto. rewrite lookup_upd_other; auto.
      + rewrite lookup_upd_other; auto. }
  unfold star_add. destruct (e_bind e) as [|k|m n0]; auto.
  destruct (Nat.eqb m self && Nat.eqb n0 (e_name e)); auto.
Qed.

Lemma fold_star_add_keep : forall self line m' l sc n old,
  lookup_e n sc = Some old -> (forall e, In e l -> e_name e <> n \/ line <= e_line old) ->
  lookup_e n (fold_left (star_add self line m') l sc) = Some old.
Proof.
  intros self line m'. induction l as [|e r IH]; simpl; intros sc n old Hl H; auto.
  apply IH; [|intros; apply H; auto]. apply star_add_keep; auto.
Qed.

(* a name is out of reach of a star import of module md' when md' has an __all__ that does not list it *)
Definition hidden (md' : lmod) (n : nat) : bool :=
  match l_all md' with
  | Some ks => negb (Nat.leb 5 n && existsb (Nat.eqb (n - 5)) ks)
  | None => false
  end.

Lemma hidden_not_exposed : forall md' n e, hidden md' n = true -> exposed md' e = true -> e_name e <> n.
Proof.
  intros md' n e Hh He Hn. unfold hidden, exposed in *. destruct (l_all md') as [ks|]; [|discriminate].
  rewrite Hn in He. rewrite He in Hh. discriminate.
Qed.

(* THE LAYOUT THEOREM: expand_wildcards never changes the member bound to a name when every star import of the module
   sits on an earlier line than that binding, or targets a module that hides the name behind __all__, or a module that is
   not loaded.  For all layouts (any modules, any star graph, cyclic or not) and any fuel. *)
Theorem expand_keeps : forall L fuel m md n old,
  nth_error L m = Some md -> lookup_e n (fst (visit md)) = Some old ->
  (forall line m', In (line, m') (snd (visit md)) ->
     line <= e_line old \/ match nth_error L m' with Some md' => hidden md' n = true | None => True end) ->
  lookup_e n (expand fuel L m) = Some old.
Proof.
  intros L fuel m md n old Hm Hl Hst. destruct fuel as [|f]; simpl; rewrite Hm; destruct (visit md) as [sc stars]; simpl in *; auto.
  revert sc Hl. induction stars as [|[line m'] r IH]; simpl; intros sc Hl; auto.
  apply IH; [intros l0 m0 H0; apply Hst; right; exact H0|].
  destruct (nth_error L m') as [md'|] eqn:Hm'; auto.
  apply fold_star_add_keep; auto.
  intros e He. apply filter_In in He. destruct He as [_ Hexp].
  destruct (Hst line m' (or_introl eq_refl)) as [H|H]; [right; auto|left].
  rewrite Hm' in H. eapply hidden_not_exposed; eauto.
Qed.

(* hence: `from dataclasses import dataclass, ...` placed after the star imports, or star imports of modules with an
   __all__, keep the decorator recognised *)
Corollary recognised_sufficient : forall h L m md old,
  nth_error L m = Some md -> lookup_e h (fst (visit md)) = Some old -> e_bind old = BStd ->
  (forall line m', In (line, m') (snd (visit md)) ->
     line <= e_line old \/ match nth_error L m' with Some md' => hidden md' h = true | None => True end) ->
  recognised_h h true L m = true.
Proof.
  intros h L m md old Hm Hl Hb Hst. unfold recognised_h, scope_at_event.
  rewrite (expand_keeps L (List.length L) m md h old Hm Hl Hst), Hb. reflexivity.
Qed.

(* the table the extension effectively reads is the table itself when everything is seen *)
Lemma mask_id : forall ex L m c bases, seen_ok ex L m c bases = true -> mask_cls ex L m c = c.
Proof.
  intros ex L m c bases H. unfold seen_ok, mask_cls in *. apply andb_true_iff in H. destruct H as [H _].
  destruct (decorated c); simpl in *; auto. rewrite H. reflexivity.
Qed.

(* ---- the generated two-module layouts, computed ---- *)
Definition stdm (l : list lstmt) := mklmod l None.
(* finding C18-F10: the star import after the stdlib imports, sibling without __all__ *)
Definition L_shadow : layout := [stdm []; stdm [LStd [0; 1; 2; 3; 4]; LClass 0]; stdm [LStd [0; 1; 2; 3; 4]; LStar 1; LClass 1]].
(* the same with the star import first, with an __all__ in the sibling, with an explicit import *)
Definition L_wild : layout := [stdm []; stdm [LStd [0; 1; 2; 3; 4]; LClass 0]; stdm [LStar 1; LStd [0; 1; 2; 3; 4]; LClass 1]].
Definition L_all : layout := [stdm []; mklmod [LStd [0; 1; 2; 3; 4]; LClass 0] (Some [0]); stdm [LStd [0; 1; 2; 3; 4]; LStar 1; LClass 1]].
Definition L_from : layout := [stdm []; stdm [LStd [0; 1; 2; 3; 4]; LClass 0]; stdm [LStd [0; 1; 2; 3; 4]; LFrom 1 0; LClass 1]].
(* re-export through the package: __init__ star-imports both modules, the derived module imports from the package *)
Definition L_reexport : layout := [stdm [LStar 1; LStar 2]; stdm [LStd [0; 1; 2; 3; 4]; LClass 0]; stdm [LStd [0; 1; 2; 3; 4]; LFrom 0 0; LClass 1]].

(* helper names re-exported by a module of the package (module 3 = _compat), by explicit import or by star import:
   the decorator / field() / KW_ONLY are one hop too far (finding C18-F10, generalised) *)
Definition L_compat_from : layout :=
  [stdm []; stdm [LStd [0; 1; 2; 3; 4]; LClass 0]; stdm [LStd [0; 3; 4]; LFromH 3 1; LFromH 3 2; LClass 1]; stdm [LStd [1; 2]]].
Definition L_compat_star : layout :=
  [stdm []; stdm [LStd [0; 1; 2; 3; 4]; LClass 0]; stdm [LStd [1; 2; 3]; LStar 3; LClass 1]; stdm [LStd [0; 4]]].
Example compat_computed :
  recognised true L_compat_from 2 = true /\ recognised_h h_field true L_compat_from 2 = false /\ recognised_h h_kwonly true L_compat_from 2 = false /\
  recognised true L_compat_star 2 = false /\ recognised false L_compat_star 2 = false /\ recognised_h h_field true L_compat_star 2 = true /\
  recognised_h h_classvar true L_compat_star 2 = false.
Proof. vm_compute. repeat split; reflexivity. Qed.

Example layouts_computed :
  recognised true L_shadow 2 = false /\ base_resolves true L_shadow 2 0 = true /\
  recognised true L_wild 2 = true /\ base_resolves true L_wild 2 0 = true /\
  recognised true L_all 2 = true /\ base_resolves true L_all 2 0 = true /\
  recognised true L_from 2 = true /\ base_resolves true L_from 2 0 = true /\
  recognised true L_reexport 2 = true /\ base_resolves true L_reexport 2 0 = true.
Proof. vm_compute. repeat split; reflexivity. Qed.

(* were the event fired before expand_wildcards, bases that arrive by star import (directly or through the package)
   would not resolve: the order of GriffeLoader._post_load matters *)
Example event_before_wildcards :
  base_resolves false L_wild 2 0 = false /\ base_resolves false L_all 2 0 = false /\ base_resolves false L_reexport 2 0 = false /\
  base_resolves false L_from 2 0 = true /\ recognised false L_shadow 2 = true.
Proof. vm_compute. repeat split; reflexivity. Qed.

(* ------------------------------------------------------------------ finding C18-F12, exactly *)
(* for all layouts: when the member the module ends up with under the name of the base is the class itself (the class
   statement re-binds the name it extends, and no later star import takes the name over), the base resolves to the class *)
Theorem rebinding_resolves_to_self : forall L m md k n old,
  nth_error L m = Some md -> lookup_e (cname n) (fst (visit md)) = Some old -> e_bind old = BDef k ->
  (forall line m', In (line, m') (snd (visit md)) ->
     line <= e_line old \/ match nth_error L m' with Some md' => hidden md' (cname n) = true | None => True end) ->
  self_resolved true L m k n = true.
Proof.
  intros L m md k n old Hm Hl Hb Hst. unfold self_resolved. simpl. unfold scope_at_event.
  rewrite (expand_keeps L (List.length L) m md (cname n) old Hm Hl Hst), Hb. apply Nat.eqb_refl.
Qed.

(* `class K0: ...; class K0(K0)` in one module, and `from base import K0; class K0(K0)`; a subclass K2(K0) of the new binding
   resolves its base to the new binding (whose own MRO raises) *)
Definition L_rebind_same : layout := [stdm [LStd [0; 1; 2; 3; 4]; LClass 0; LClassAs 1 0; LClass 2]].
Definition L_rebind_import : layout := [stdm []; stdm [LStd [0; 1; 2; 3; 4]; LClass 0]; stdm [LStd [0; 1; 2; 3; 4]; LFrom 1 0; LClassAs 1 0; LClass 2]].
Example rebinding_computed :
  self_resolved true L_rebind_same 0 1 0 = true /\ base_resolves true L_rebind_same 0 0 = false /\ self_resolved true L_rebind_same 0 2 0 = false /\
  self_resolved true L_rebind_import 2 1 0 = true /\ base_resolves true L_rebind_import 2 0 = false /\
  self_resolved true L_from 2 1 0 = false /\ base_resolves true L_from 2 0 = true.
Proof. vm_compute. repeat split; reflexivity. Qed.
