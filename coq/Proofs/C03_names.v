(* C03 proofs, part 4: build is total on well-formed trees without await; every Name / attribute name of the source
   appears, in order, among the flat pieces. *)
From Coq Require Import List ZArith String Ascii Bool Arith Lia.
From Verif Require Import Lib.Sexp Model.C03_ops Gen.C03_tables Model.C03_expr Model.C03_spec
  Proofs.C03_ind Proofs.C03_iter Proofs.C03_rule.
Import ListNotations.
Open Scope string_scope. Open Scope list_scope. Open Scope nat_scope.

Ltac split_orb :=
  repeat match goal with
         | H : _ || _ = false |- _ => apply orb_false_iff in H; destruct H
         end.
Ltac bsimpl := cbn [C03_expr.build enter keeps_insub mapped node_builder pm insub injoin infmt].

Section Names.
Variable fx : fixes.
Variable env : nenv.
Local Notation build := (C03_expr.build fx env).
Local Notation iterate := (C03_expr.iterate fx).
Local Notation yb := (C03_iter.yb fx).
Local Notation yob := (C03_iter.yob fx).
Local Notation scan := (C03_spec.scan fx).

(* ---------- totality ---------- *)
Definition TotalP (e : pyexpr) : Prop :=
  forall sc c, pm c = NoParse -> wfk KExpr e = true -> scan sc e = false -> exists g, build c e = Some g.
Definition TotalP' (e : pyexpr) : Prop := TotalP e /\ kidsP TotalP e.

Lemma existsb_false_Forall {A} (f : A -> bool) l : existsb f l = false -> Forall (fun x => f x = false) l.
Proof.
  induction l as [|x l IH]; simpl; intros H; [constructor|]. apply orb_false_iff in H. destruct H. constructor; auto.
Qed.

Lemma total_list vs sc :
  Forall TotalP' vs -> forallb (wfk KExpr) vs = true -> existsb (scan sc) vs = false ->
  forall c, pm c = NoParse -> exists gs, mapo (build c) vs = Some gs.
Proof.
  intros H Hw Hs c Hc. apply forallb_Forall in Hw. apply existsb_false_Forall in Hs.
  induction H as [|x l [Hx _] _ IH]; [exists []; reflexivity|].
  inversion Hw; subst. inversion Hs; subst. destruct (Hx sc c Hc H1 H3) as [g Bg]. destruct (IH H2 H4) as [gs Bgs].
  exists (g :: gs). simpl. rewrite Bg, Bgs. reflexivity.
Qed.

Lemma total_opt o sc :
  OptP TotalP' o -> (match o with Some c => wfk KExpr c | None => true end) = true ->
  (match o with Some c => scan sc c | None => false end) = false ->
  forall c, pm c = NoParse -> exists go, optb (build c) o = Some go.
Proof.
  destruct o as [x|]; simpl; intros H Hw Hs c Hc; [|exists None; reflexivity].
  destruct H as [H _]. destruct (H sc c Hc Hw Hs) as [g Bg]. exists (Some g). rewrite Bg. reflexivity.
Qed.

Lemma total_params (k : pkind) ps sc j f :
  Forall TotalP' ps -> forallb (wfk KParam) ps = true -> existsb (scan sc) ps = false ->
  exists gs, mapo (fun p => match p with
                            | PParam n d =>
                                match d with
                                | Some d' => match build (mkCtx NoParse false j f) d' with Some g => Some (n, k, Some g) | None => None end
                                | None => Some (n, k, None)
                                end
                            | _ => None
                            end) ps = Some gs.
Proof.
  intros H Hw Hs. apply forallb_Forall in Hw. apply existsb_false_Forall in Hs.
  induction H as [|p ps [_ Hp] _ IH]; [exists []; reflexivity|].
  inversion Hw; subst. inversion Hs; subst. destruct (IH H2 H4) as [gs Bgs]. simpl.
  destruct p; try (cbn in H1; discriminate H1). cbn in H1. cbn [C03_spec.scan] in H3. simpl in Hp. rewrite Bgs.
  destruct default as [d'|]; [|eexists; reflexivity]. simpl in Hp.
  destruct (Hp sc (mkCtx NoParse false j f) eq_refl H1 H3) as [g Bg]. rewrite Bg. eexists; reflexivity.
Qed.

Ltac tot_step sc :=
  match goal with
  | IH : TotalP ?x |- context [build ?c ?x] =>
      let g := fresh "g" in let B := fresh "B" in
      destruct (IH sc c eq_refl ltac:(assumption) ltac:(assumption)) as [g B]; rewrite B; clear IH
  | IH : Forall TotalP' ?vs |- context [mapo (build ?c) ?vs] =>
      let g := fresh "gs" in let B := fresh "B" in
      destruct (total_list vs sc IH ltac:(assumption) ltac:(assumption) c eq_refl) as [g B]; rewrite B; clear IH
  | IH : OptP TotalP' ?o |- context [optb (build ?c) ?o] =>
      let g := fresh "go" in let B := fresh "B" in
      destruct (total_opt o sc IH ltac:(assumption) ltac:(assumption) c eq_refl) as [g B]; rewrite B; clear IH
  end.

Ltac tstart :=
  let sc := fresh "sc" in let m := fresh "m" in let Hm := fresh "Hm" in
  split; [|try exact I]; intros sc [m xs xj xf] Hm Hwf Hs; simpl in Hm; subst m;
  cbn in Hwf; split_andb; cbn [C03_spec.scan] in Hs; split_orb; bsimpl;
  rewrite ?binop_table, ?boolop_table, ?unop_table, ?cmpops_table;
  repeat match goal with H : TotalP' _ |- _ => destruct H as [H _] end;
  repeat tot_step sc; try (eexists; reflexivity).

Theorem build_total_all : forall e, TotalP' e.
Proof.
  apply pyexpr_ind'; intros; try (tstart; fail).
  - (* PStr *) tstart. destruct (xj && negb xf); eexists; reflexivity.
  - (* PDict *) tstart.
    assert (Hx : exists its, mapo (fun it => match it with
                  | PDictItem None v => match build (mkCtx NoParse false xj xf) v with Some v' => Some (None, v') | None => None end
                  | PDictItem (Some k) v => match build (mkCtx NoParse false xj xf) k, build (mkCtx NoParse false xj xf) v with
                                            | Some k', Some v' => Some (Some k', v') | _, _ => None end
                  | _ => None end) items = Some its).
    { apply forallb_Forall in Hwf. apply existsb_false_Forall in Hs. revert Hwf Hs.
      induction H as [|x l [_ Hx] _ IH]; intros Hwf Hs; [exists []; reflexivity|].
      inversion Hwf; subst. inversion Hs; subst. destruct (IH H2 H4) as [its Bits]. simpl. rewrite Bits.
      destruct x; try (cbn in H1; discriminate H1). cbn in H1. split_andb. cbn [C03_spec.scan] in H3. split_orb.
      destruct Hx as [Hk Hv]. destruct (Hv sc (mkCtx NoParse false xj xf) eq_refl ltac:(assumption) ltac:(assumption)) as [gv Bv].
      rewrite Bv. destruct k as [k|]; [|eexists; reflexivity]. simpl in Hk.
      destruct (Hk sc (mkCtx NoParse false xj xf) eq_refl ltac:(assumption) ltac:(assumption)) as [gk Bk]. rewrite Bk. eexists; reflexivity. }
    destruct Hx as [its Bits]. rewrite Bits. eexists; reflexivity.
  - (* PDictItem *) split; [intros sc c Hc Hwf; discriminate Hwf|]. destruct H0 as [Hv _]. split; [|assumption].
    destruct k; simpl in *; [destruct H; assumption|exact I].
  - (* PLambda *) tstart.
    destruct (total_params PO po sc xj xf H ltac:(assumption) ltac:(assumption)) as [a Ba].
    destruct (total_params PK pk sc xj xf H0 ltac:(assumption) ltac:(assumption)) as [b Bb].
    destruct (total_params KO ko sc xj xf H1 ltac:(assumption) ltac:(assumption)) as [d Bd]. rewrite Ba, Bb, Bd. eexists; reflexivity.
  - (* PParam *) split; [intros sc c Hc Hwf; discriminate Hwf|]. destruct d; simpl in *; [destruct H; assumption|exact I].
  - (* PFormattedValue *) destruct H as [Hv _].
    split; [|exact I]. intros sc [m xs xj xf] Hm Hwf Hs. simpl in Hm. subst m. cbn in Hwf. split_andb. cbn [C03_spec.scan] in Hs. split_orb.
    bsimpl. destruct (Hv sc (mkCtx NoParse false xj true) eq_refl ltac:(assumption) ltac:(assumption)) as [gv Bv]. rewrite Bv.
    destruct (fx_fconv fx); [|eexists; reflexivity].
    destruct (total_opt spec sc H0 ltac:(assumption) ltac:(assumption) (mkCtx NoParse false xj false) eq_refl) as [go Bo]. rewrite Bo.
    eexists; reflexivity.
  - (* PAwait *) split; [|exact I]. intros sc c Hc Hwf Hs. discriminate Hs.
Qed.

Theorem build_total (e : pyexpr) (c : bctx) :
  pm c = NoParse -> wf e = true -> has_await fx e = false -> exists g, build c e = Some g.
Proof. intros Hc Hw Hs. exact (proj1 (build_total_all e) false c Hc Hw Hs). Qed.

(* ---------- names ---------- *)
Definition names (g : gexpr) : list string := item_names (iterate true g).
Definition onames (o : option gexpr) : list string := match o with Some g => names g | None => [] end.

Lemma inames_app a b : item_names (a ++ b) = item_names a ++ item_names b.
Proof. apply flat_map_app. Qed.
Lemma inames_str s l : item_names (IStr s :: l) = item_names l.
Proof. reflexivity. Qed.
Lemma inames_wrap p l : item_names (wrap p l) = item_names l.
Proof. destruct p; [|reflexivity]. unfold wrap. rewrite inames_str, inames_app. cbn [item_names flat_map]. apply app_nil_r. Qed.
Lemma inames_yb req c : item_names (yb true req c) = names c.
Proof. rewrite yb_true, inames_wrap. reflexivity. Qed.
Lemma inames_yob req o : item_names (yob true req o) = onames o.
Proof. destruct o; [apply inames_yb|reflexivity]. Qed.
Lemma inames_ijoin s l : item_names (ijoin [IStr s] l) = flat_map item_names l.
Proof.
  induction l as [|x l IH]; [reflexivity|]. destruct l as [|y l]; [simpl; rewrite app_nil_r; reflexivity|].
  change (ijoin [IStr s] (x :: y :: l)) with (x ++ [IStr s] ++ ijoin [IStr s] (y :: l)).
  rewrite !inames_app, IH. reflexivity.
Qed.
Lemma flat_map_map {A B C} (f : A -> B) (g : B -> list C) l : flat_map g (map f l) = flat_map (fun x => g (f x)) l.
Proof. induction l as [|x l IH]; simpl; [reflexivity|]. rewrite IH. reflexivity. Qed.
Lemma inames_map_yb req gs : flat_map item_names (map (yb true req) gs) = flat_map names gs.
Proof. rewrite flat_map_map. apply flat_map_ext. intros; apply inames_yb. Qed.
Lemma inames_cmp_zip ops ls : flat_map item_names (cmp_zip ops ls) = flat_map item_names ls.
Proof.
  revert ls. induction ops as [|o ops IH]; intros ls.
  - simpl. rewrite flat_map_map. reflexivity.
  - destruct ls as [|c ls]; simpl.
    + apply (IH []).
    + rewrite IH. reflexivity.
Qed.
Lemma inames_lam_params ps a b c :
  item_names (lam_params ps a b c)
  = flat_map (fun p => match snd p with Some dd => if is_variadic (snd (fst p)) then [] else item_names dd | None => [] end) ps.
Proof.
  revert a b c. induction ps as [|[[n k] d] ps IH]; intros a b c; [reflexivity|].
  cbn [lam_params flat_map fst snd].
  destruct k, a, c, d as [dd|]; cbn [is_po is_variadic negb andb]; rewrite ?inames_app; cbn [item_names flat_map app];
    rewrite ?inames_app; destruct (is_nil ps); cbn [item_names flat_map app]; rewrite ?IH, ?app_nil_r; reflexivity.
Qed.

Lemma inames_lam_params2 ps a c :
  item_names (lam_params2 ps a c)
  = flat_map (fun p => match snd p with Some dd => if is_variadic (snd (fst p)) then [] else item_names dd | None => [] end) ps.
Proof.
  revert a c. induction ps as [|[[n k] d] ps IH]; intros a c; [destruct a; reflexivity|].
  cbn [lam_params2 flat_map fst snd].
  destruct k, a, c, d as [dd|]; cbn [is_po is_variadic negb andb]; rewrite ?inames_app; cbn [item_names flat_map app];
    rewrite ?inames_app; destruct (is_nil ps); cbn [item_names flat_map app]; rewrite ?IH, ?app_nil_r; reflexivity.
Qed.
Lemma inames_lam_items ps :
  item_names (lam_items fx ps)
  = flat_map (fun p => match snd p with Some dd => if is_variadic (snd (fst p)) then [] else item_names dd | None => [] end) ps.
Proof. unfold lam_items. destruct (fx_lambda fx); [apply inames_lam_params2|apply inames_lam_params]. Qed.
Lemma inames_attr_parts vs : flat_map item_names (attr_parts fx true vs) = flat_map names vs.
Proof.
  unfold attr_parts, attr_parts_gen. destruct vs as [|v rest]; [reflexivity|]. destruct v; try apply inames_map_yb.
  cbn [flat_map]. rewrite inames_map_yb. destruct (fx_intattr fx && is_decimal s); reflexivity.
Qed.
Lemma inames_call_args args : item_names (call_args fx true args) = flat_map names args.
Proof.
  unfold call_args, call_args_gen.
  assert (Hgen : item_names ([IStr "("] ++ ijoin [IStr ", "] (map (yb true P_TEST) args) ++ [IStr ")"]) = flat_map names args).
  { rewrite !inames_app, inames_ijoin, inames_map_yb. cbn [item_names flat_map app]. apply app_nil_r. }
  destruct args as [|a r]; [exact Hgen|]. destruct a; try exact Hgen. destruct r; [|exact Hgen].
  destruct (fx_genexp fx); [rewrite inames_yb; cbn [flat_map]; rewrite app_nil_r; reflexivity|].
  rewrite !inames_app, inames_yb. cbn [item_names flat_map app]. rewrite !app_nil_r. reflexivity.
Qed.
Lemma inames_glue v : item_names (glue fx v) = [].
Proof. unfold glue. destruct (_ && _); reflexivity. Qed.
Definition spec_names (spec : option gexpr) : list string := match spec with Some o => names o | None => [] end.

Ltac nnorm :=
  unfold names at 1;
  rewrite ?it_Str, ?it_Name, ?it_Attribute, ?it_BinOp, ?it_BoolOp, ?it_Call, ?it_Compare, ?it_Comprehension,
    ?it_Dict, ?it_DictComp, ?it_Formatted, ?it_GeneratorExp, ?it_IfExp, ?it_JoinedStr, ?it_Keyword, ?it_VarPositional,
    ?it_VarKeyword, ?it_Lambda, ?it_List, ?it_ListComp, ?it_NamedExpr, ?it_Set, ?it_SetComp, ?it_Slice, ?it_Subscript,
    ?it_Tuple, ?it_UnaryOp, ?it_Yield, ?it_YieldFrom; cbn [app];
  repeat (rewrite ?inames_app, ?inames_str, ?inames_wrap, ?inames_ijoin, ?inames_map_yb, ?inames_yb, ?inames_yob, ?inames_cmp_zip,
                  ?inames_attr_parts, ?inames_call_args, ?inames_glue, ?app_nil_r);
  cbn [item_names flat_map app]; rewrite ?app_nil_r.

Lemma names_Str s : names (GStr s) = []. Proof. reflexivity. Qed.
Lemma names_Name n p : names (GName n p) = [n]. Proof. reflexivity. Qed.
Lemma names_Attribute vs : names (GAttribute vs) = flat_map names vs. Proof. nnorm. reflexivity. Qed.
Lemma names_BinOp l op r : names (GBinOp l op r) = names l ++ names r. Proof. nnorm. reflexivity. Qed.
Lemma names_BoolOp op vs : names (GBoolOp op vs) = flat_map names vs. Proof. nnorm. reflexivity. Qed.
Lemma names_Call f args : names (GCall f args) = names f ++ flat_map names args. Proof. nnorm. reflexivity. Qed.
Lemma names_Compare l ops cs : names (GCompare l ops cs) = names l ++ flat_map names cs. Proof. nnorm. reflexivity. Qed.
Lemma names_Comprehension t it conds a :
  names (GComprehension t it conds a) = names t ++ names it ++ flat_map names conds.
Proof. destruct a, conds; nnorm; cbn [is_nil]; nnorm; reflexivity. Qed.
Lemma names_Dict items : names (GDict items) = flat_map (fun kv => onames (fst kv) ++ names (snd kv)) items.
Proof.
  nnorm. rewrite flat_map_map. apply flat_map_ext. intros [[k|] v]; unfold C03_iter.dict_item; cbn [fst snd];
    repeat (rewrite ?inames_app, ?inames_str, ?inames_yb); cbn [item_names flat_map app onames]; rewrite ?app_nil_r; reflexivity.
Qed.
Lemma names_DictComp k v gens : names (GDictComp k v gens) = names k ++ names v ++ flat_map names gens. Proof. nnorm. reflexivity. Qed.
Lemma names_spec_items spec : item_names (spec_items fx true spec) = spec_names spec.
Proof.
  unfold spec_items, spec_items_gen, spec_names. destruct spec as [o|]; [|reflexivity].
  assert (Ho : item_names (IStr ":" :: yb true P_NONE o) = names o) by (rewrite inames_str; apply inames_yb).
  destruct o; try exact Ho.
  rewrite inames_str, inames_ijoin, inames_map_yb. unfold names. rewrite it_JoinedStr. cbn [app].
  rewrite inames_str, inames_app, inames_ijoin, inames_map_yb. cbn [item_names flat_map]. rewrite app_nil_r. reflexivity.
Qed.
Lemma names_Formatted v conv spec : names (GFormatted v conv spec) = names v ++ spec_names spec.
Proof.
  unfold names. rewrite it_Formatted. cbn [app]. rewrite inames_str, !inames_app, inames_glue, inames_yb, names_spec_items.
  destruct (conv =? -1)%Z; cbn [item_names flat_map app]; rewrite ?app_nil_r; reflexivity.
Qed.
Lemma names_GeneratorExp e gens : names (GGeneratorExp e gens) = names e ++ flat_map names gens. Proof. nnorm. reflexivity. Qed.
Lemma names_IfExp b t o : names (GIfExp b t o) = names b ++ names t ++ names o. Proof. nnorm. reflexivity. Qed.
Lemma names_JoinedStr vs : names (GJoinedStr vs) = flat_map names vs. Proof. nnorm. reflexivity. Qed.
Lemma names_Keyword n v : names (GKeyword n v) = names v. Proof. nnorm. reflexivity. Qed.
Lemma names_VarPositional v : names (GVarPositional v) = names v. Proof. nnorm. reflexivity. Qed.
Lemma names_VarKeyword v : names (GVarKeyword v) = names v. Proof. nnorm. reflexivity. Qed.
Lemma names_List es : names (GList es) = flat_map names es. Proof. nnorm. reflexivity. Qed.
Lemma names_Set es : names (GSet es) = flat_map names es. Proof. nnorm. reflexivity. Qed.
Lemma names_ListComp e gens : names (GListComp e gens) = names e ++ flat_map names gens. Proof. nnorm. reflexivity. Qed.
Lemma names_SetComp e gens : names (GSetComp e gens) = names e ++ flat_map names gens. Proof. nnorm. reflexivity. Qed.
Lemma names_NamedExpr t v : names (GNamedExpr t v) = names t ++ names v. Proof. nnorm. reflexivity. Qed.
Lemma names_Subscript l s : names (GSubscript l s) = names l ++ names s. Proof. nnorm. reflexivity. Qed.
Lemma names_Tuple es i : names (GTuple es i) = flat_map names es.
Proof. unfold names. rewrite it_Tuple. destruct (tuple_par fx es i), es as [|? [|? ?]]; cbn [app];
  repeat (rewrite ?inames_app, ?inames_str, ?inames_ijoin, ?inames_map_yb, ?app_nil_r); cbn [item_names flat_map app]; rewrite ?app_nil_r; reflexivity. Qed.
Lemma names_UnaryOp op v : names (GUnaryOp op v) = names v. Proof. nnorm. reflexivity. Qed.
Lemma names_Yield v : names (GYield v) = onames v. Proof. destruct v; nnorm; reflexivity. Qed.
Lemma names_YieldFrom v : names (GYieldFrom v) = names v. Proof. nnorm. reflexivity. Qed.
Lemma names_Slice lo up st : names (GSlice lo up st) = onames lo ++ onames up ++ onames st.
Proof. destruct st; nnorm; reflexivity. Qed.
Lemma names_Lambda params body :
  names (GLambda params body) =
  flat_map (fun p : string * pkind * option gexpr => if is_variadic (snd (fst p)) then [] else onames (snd p)) params ++ names body.
Proof.
  destruct (is_nil params) eqn:E; nnorm; rewrite E; nnorm; rewrite inames_lam_items, flat_map_map; f_equal;
    apply flat_map_ext; intros [[n k] [d|]]; unfold C03_iter.conv_param; cbn [fst snd onames]; rewrite ?inames_yb; destruct (is_variadic k); reflexivity.
Qed.

Create HintDb names_eq.
#[local] Hint Rewrite names_Str names_Name names_Attribute names_BinOp names_BoolOp names_Call names_Compare names_Comprehension
  names_Dict names_DictComp names_Formatted names_GeneratorExp names_IfExp names_JoinedStr names_Keyword names_VarPositional
  names_VarKeyword names_List names_Set names_ListComp names_SetComp names_NamedExpr names_Subscript names_Tuple names_UnaryOp
  names_Yield names_YieldFrom names_Slice names_Lambda : names_eq.

Definition NamesP (e : pyexpr) : Prop :=
  forall c g, pm c = NoParse -> wfk KExpr e = true -> scan true e = false -> build c e = Some g -> names g = src_names e.
Definition NamesP' (e : pyexpr) : Prop := NamesP e /\ kidsP NamesP e.

Lemma names_list vs :
  Forall NamesP' vs -> forallb (wfk KExpr) vs = true -> existsb (scan true) vs = false ->
  forall c gs, pm c = NoParse -> mapo (build c) vs = Some gs -> flat_map names gs = flat_map src_names vs.
Proof.
  intros H Hw Hs c. apply forallb_Forall in Hw. apply existsb_false_Forall in Hs.
  induction H as [|x l [Hx _] _ IH]; intros gs Hc Hb.
  - inversion Hb. reflexivity.
  - inversion Hw; subst. inversion Hs; subst. simpl in Hb.
    destruct (build c x) eqn:Ex; [|discriminate]. destruct (mapo (build c) l) eqn:El; [|discriminate]. inversion Hb; subst.
    simpl. rewrite (Hx c g Hc H1 H3 Ex), (IH H2 H4 l0 Hc eq_refl). reflexivity.
Qed.

Lemma names_opt o :
  OptP NamesP' o -> (match o with Some c => wfk KExpr c | None => true end) = true ->
  (match o with Some c => scan true c | None => false end) = false ->
  forall c go, pm c = NoParse -> optb (build c) o = Some go ->
  onames go = match o with Some x => src_names x | None => [] end.
Proof.
  destruct o as [x|]; simpl; intros H Hw Hs c go Hc Hb.
  - destruct H as [H _]. destruct (build c x) eqn:Ex; [|discriminate]. inversion Hb; subst. simpl. apply (H c g Hc Hw Hs Ex).
  - inversion Hb. reflexivity.
Qed.

Lemma names_attach g a : names (attach_attr g a) = names g ++ [a].
Proof.
  destruct g; unfold attach_attr; rewrite names_Attribute; cbn [flat_map]; rewrite ?names_Name, ?app_nil_r; try reflexivity.
  rewrite flat_map_app, names_Attribute. cbn [flat_map]. rewrite names_Name, app_nil_r. reflexivity.
Qed.

Ltac binv Hb :=
  repeat match type of Hb with
         | match ?x with _ => _ end = Some _ => let E := fresh "E" in destruct x eqn:E; try discriminate Hb
         | (if ?b then _ else _) = Some _ => destruct b eqn:?; try discriminate Hb
         end;
  inversion Hb; subst; clear Hb.

Ltac nm_step :=
  match goal with
  | IH : NamesP ?x, E : build ?c ?x = Some ?g |- _ =>
      rewrite (IH c g eq_refl ltac:(assumption) ltac:(assumption) E); clear IH
  | IH : Forall NamesP' ?vs, E : mapo (build ?c) ?vs = Some ?gs |- _ =>
      rewrite (names_list vs IH ltac:(assumption) ltac:(assumption) c gs eq_refl E); clear IH
  | IH : OptP NamesP' ?o, E : optb (build ?c) ?o = Some ?go |- _ =>
      rewrite (names_opt o IH ltac:(assumption) ltac:(assumption) c go eq_refl E); clear IH
  end.

Ltac nstart :=
  let m := fresh "m" in let Hm := fresh "Hm" in
  split; [|try exact I]; intros [m xs xj xf] g Hm Hwf Hs Hb; simpl in Hm; subst m;
  cbn in Hwf; split_andb; cbn [C03_spec.scan] in Hs; split_orb; cbn [C03_expr.build enter keeps_insub mapped node_builder pm insub injoin infmt] in Hb;
  rewrite ?binop_table, ?boolop_table, ?unop_table, ?cmpops_table in Hb;
  repeat match goal with H : NamesP' _ |- _ => destruct H as [H _] end;
  binv Hb; autorewrite with names_eq; cbn [src_names]; rewrite ?flat_map_app; repeat nm_step; try reflexivity.

Lemma params_names (k : pkind) ps a j f :
  is_variadic k = false ->
  Forall NamesP' ps -> forallb (wfk KParam) ps = true -> existsb (scan true) ps = false ->
  mapo (fun p => match p with
                 | PParam n d =>
                     match d with
                     | Some d' => match build (mkCtx NoParse false j f) d' with Some g => Some (n, k, Some g) | None => None end
                     | None => Some (n, k, None)
                     end
                 | _ => None
                 end) ps = Some a ->
  flat_map (fun p : string * pkind * option gexpr => if is_variadic (snd (fst p)) then [] else onames (snd p)) a
  = flat_map src_names ps.
Proof.
  intros Hk H Hw Hs. apply forallb_Forall in Hw. apply existsb_false_Forall in Hs. revert a.
  induction H as [|x l [_ Hx] _ IH]; intros a Hb.
  - inversion Hb. reflexivity.
  - inversion Hw; subst. inversion Hs; subst. simpl in Hb.
    destruct x as [| | | | | | | | | | | | | | | | | | | | |pn d| | | | | | | | | | | |]; try discriminate Hb.
    cbn in H1. cbn [C03_spec.scan] in H3. simpl in Hx.
    destruct d as [dd|].
    + simpl in Hx. destruct (build (mkCtx NoParse false j f) dd) as [gd|] eqn:Bd; [|discriminate Hb].
      destruct (mapo _ l) eqn:El; [|discriminate Hb]. inversion Hb; subst. cbn [flat_map fst snd src_names onames].
      rewrite Hk, (IH H2 H4 l0 eq_refl). f_equal.
      apply (Hx (mkCtx NoParse false j f) gd eq_refl H1 H3 Bd).
    + destruct (mapo _ l) eqn:El; [|discriminate Hb]. inversion Hb; subst. cbn [flat_map fst snd src_names onames].
      rewrite Hk, (IH H2 H4 l0 eq_refl). reflexivity.
Qed.

Theorem names_all : forall e, NamesP' e.
Proof.
  apply pyexpr_ind'; intros; try (nstart; fail).
  - (* PAttribute *) nstart. rewrite names_attach. nm_step. reflexivity.
  - (* PKeyword *) nstart. destruct name; autorewrite with names_eq; nm_step; reflexivity.
  - (* PDict *) nstart.
    apply forallb_Forall in Hwf. apply existsb_false_Forall in Hs. revert l E Hwf Hs.
    induction H as [|x items [_ Hx] _ IH]; intros l E Hwf Hs.
    + inversion E. reflexivity.
    + inversion Hwf; subst. inversion Hs; subst. simpl in E.
      destruct x; try discriminate E. cbn in H1. split_andb. cbn [C03_spec.scan] in H3. split_orb. destruct Hx as [Hk Hv].
      destruct (mapo _ items) eqn:El in E.
      2:{ repeat match type of E with match ?y with _ => _ end = _ => destruct y end; discriminate E. }
      cbn [flat_map src_names]. rewrite <- (IH l0 El H2 H4).
      destruct k as [k|].
      * simpl in Hk. destruct (build _ k) eqn:Ek; [|discriminate E]. destruct (build _ x) eqn:Ev; [|discriminate E].
        inversion E; subst. cbn [flat_map fst snd onames].
        rewrite (Hk (mkCtx NoParse false xj xf) _ eq_refl ltac:(assumption) ltac:(assumption) Ek), (Hv (mkCtx NoParse false xj xf) _ eq_refl ltac:(assumption) ltac:(assumption) Ev).
        rewrite <- app_assoc. reflexivity.
      * destruct (build _ x) eqn:Ev; [|discriminate E]. inversion E; subst. cbn [flat_map fst snd onames app].
        rewrite (Hv (mkCtx NoParse false xj xf) _ eq_refl ltac:(assumption) ltac:(assumption) Ev). reflexivity.
  - (* PDictItem *) split; [intros c g Hc Hwf; discriminate Hwf|]. destruct H0 as [Hv _]. split; [|assumption].
    destruct k; simpl in *; [destruct H; assumption|exact I].
  - (* PLambda *) nstart.
    rewrite (params_names PO po _ xj xf eq_refl H ltac:(assumption) ltac:(assumption) E).
    rewrite (params_names PK pk _ xj xf eq_refl H0 ltac:(assumption) ltac:(assumption) E0).
    rewrite (params_names KO ko _ xj xf eq_refl H1 ltac:(assumption) ltac:(assumption) E1).
    destruct vp, vk; cbn [flat_map fst snd is_variadic app]; rewrite ?app_nil_r, <- ?app_assoc; reflexivity.
  - (* PParam *) split; [intros c g Hc Hwf; discriminate Hwf|]. destruct d; simpl in *; [destruct H; assumption|exact I].
  - (* PFormattedValue *) destruct H as [Hv _].
    split; [|exact I]. intros [m xs xj xf] g Hm Hwf Hs Hb. simpl in Hm. subst m. cbn in Hwf. split_andb. cbn [C03_spec.scan] in Hs. split_orb.
    cbn [C03_expr.build enter keeps_insub mapped node_builder pm insub injoin infmt] in Hb.
    destruct (build (mkCtx NoParse false xj true) v) as [gv|] eqn:Ev; [|discriminate Hb].
    cbn [src_names]. rewrite <- (Hv (mkCtx NoParse false xj true) gv eq_refl ltac:(assumption) ltac:(assumption) Ev).
    destruct (fx_fconv fx).
    + destruct (optb (build (mkCtx NoParse false xj false)) spec) as [go|] eqn:Eo; [|discriminate Hb]. inversion Hb; subst.
      rewrite names_Formatted. f_equal.
      exact (names_opt spec H0 ltac:(assumption) ltac:(assumption) (mkCtx NoParse false xj false) go eq_refl Eo).
    + inversion Hb; subst. rewrite names_Formatted. cbn [spec_names]. destruct spec; [discriminate|]. reflexivity.
Qed.

Theorem names_all_present (e : pyexpr) (c : bctx) (g : gexpr) :
  pm c = NoParse -> wf e = true -> drops fx e = false -> build c e = Some g -> item_names (iterate true g) = src_names e.
Proof. intros Hc Hw Hd Hb. exact (proj1 (names_all e) c g Hc Hw Hd Hb). Qed.

End Names.
