(* C01 proofs: the visitor machine computes the level semantics; names, survivors, events, totality, visibility. *)
From Coq Require Import List ZArith String Ascii Bool Arith Lia.
From Verif Require Import Lib.Sexp Model.C01_base Gen.C01_tables Model.C01_visitor.
Import ListNotations.
Open Scope string_scope.
Open Scope list_scope.
Open Scope nat_scope.

(* ---------- induction principle for the nested statement type ---------- *)
Section stmt_induction.
  Variable P : stmt -> Prop.
  Hypothesis HDef : forall ln dln eln name a ds body, Forall P body -> P (SDef ln dln eln name a ds body).
  Hypothesis HCls : forall ln dln eln name ds body, Forall P body -> P (SCls ln dln eln name ds body).
  Hypothesis HAssign : forall ln eln ts items, P (SAssign ln eln ts items).
  Hypothesis HAnn : forall ln eln t hv cv items, P (SAnn ln eln t hv cv items).
  Hypothesis HAug : forall items, P (SAugAll items).
  Hypothesis HImport : forall ln eln names, P (SImport ln eln names).
  Hypothesis HImportFrom : forall ln eln names, P (SImportFrom ln eln names).
  Hypothesis HIf : forall tc body orelse, Forall P body -> Forall P orelse -> P (SIf tc body orelse).
  Hypothesis HBlock : forall ch, Forall P ch -> P (SBlock ch).
  Hypothesis HSub : forall h body, Forall P body -> P (SSub h body).
  Hypothesis HDoc : forall ln eln, P (SDoc ln eln).
  Hypothesis HOther : P SOther.

  Fixpoint stmt_ind2 (s : stmt) : P s :=
    let list_ind := fix go (l : list stmt) : Forall P l :=
                      match l with [] => Forall_nil P | x :: r => Forall_cons x (stmt_ind2 x) (go r) end in
    match s with
    | SDef ln dln eln name a ds body => HDef ln dln eln name a ds body (list_ind body)
    | SCls ln dln eln name ds body => HCls ln dln eln name ds body (list_ind body)
    | SAssign ln eln ts items => HAssign ln eln ts items
    | SAnn ln eln t hv cv items => HAnn ln eln t hv cv items
    | SAugAll items => HAug items
    | SImport ln eln names => HImport ln eln names
    | SImportFrom ln eln names => HImportFrom ln eln names
    | SIf tc body orelse => HIf tc body orelse (list_ind body) (list_ind orelse)
    | SBlock ch => HBlock ch (list_ind ch)
    | SSub h body => HSub h body (list_ind body)
    | SDoc ln eln => HDoc ln eln
    | SOther => HOther
    end.
End stmt_induction.

(* ---------- unfolding lemmas: the local fixpoints are the top-level list functions ---------- *)
Lemma visit_list_cons : forall pk reset follow x r st,
  visit_list pk reset follow (x :: r) st =
  visit_list pk reset follow r
    (visit_stmt pk (next_doc r follow) x (match reset with Some b => set_guard st b | None => st end)).
Proof. reflexivity. Qed.

Lemma visit_SDef : forall pk nd ln dln eln name a ds body st,
  visit_stmt pk nd (SDef ln dln eln name a ds body) st =
  (let st1 := emit [EvNode "function" ln] st in
   let cur := top_frame st1 in
   let r := op_def (guarded st1) ln dln eln name a ds (head_doc body) cur in
   let st3 := py_raise (snd r) (replace_top (fst r) st1) in
   let st4 := emit [def_event name a ds ln cur] st3 in
   if descends cur name a ds
   then pop_fun (def_installed (fmembers cur) name ds) name (visit_list PFunction None None body (push (empty_frame InInit name (child_path cur name)) st4))
   else st4).
Proof. reflexivity. Qed.

Lemma visit_SCls : forall pk nd ln dln eln name ds body st,
  visit_stmt pk nd (SCls ln dln eln name ds body) st =
  (let st1 := emit [EvNode "class" ln] st in
   let cur := top_frame st1 in
   let st2 := on_top (fun f => (set_members f (assign name (leaf (cls_info (guarded st1) ln dln eln ds body)) (fmembers f)), [])) st1 in
   let st3 := push (empty_frame InClass name (child_path cur name)) st2 in
   let st4 := emit [EvInst KCls name ln (fpath cur) (frame_pfun cur)] st3 in
   let st5 := visit_list PScope None None body st4 in
   pop_class name (emit [EvMembers KCls name ln (child_path cur name)] st5)).
Proof. reflexivity. Qed.

Lemma visit_SIf : forall pk nd tc body orelse st,
  visit_stmt pk nd (SIf tc body orelse) st =
  (let prev := guarded st in
   let st1 := if is_level pk && tc_pos tc then set_guard st true else st in
   let st2 := visit_list PIf None None body st1 in
   set_guard (visit_list PIf (Some (gelse prev pk tc)) None orelse st2) prev).
Proof. reflexivity. Qed.

Lemma visit_SBlock : forall pk nd ch st, visit_stmt pk nd (SBlock ch) st = visit_list POther None None ch st.
Proof. reflexivity. Qed.
Lemma visit_SSub : forall pk nd h body st,
  visit_stmt pk nd (SSub h body) st = visit_list (if h then PHandler else POther) None None body st.
Proof. reflexivity. Qed.

Lemma sem_list_cons : forall g pk follow x r own up,
  sem_list g pk follow (x :: r) own up =
  (let a := sem_stmt g pk (next_doc r follow) x own up in
   let b := sem_list g pk follow r (l_own a) (l_up a) in
   mkL (l_own b) (l_up b) (l_events a ++ l_events b) (first_err (l_err a) (l_err b))).
Proof. reflexivity. Qed.

Lemma sem_SDef : forall g pk nd ln dln eln name a ds body own up,
  sem_stmt g pk nd (SDef ln dln eln name a ds body) own up =
  (let r := op_def g ln dln eln name a ds (head_doc body) own in
   let evs := [EvNode "function" ln; def_event name a ds ln own] in
   if descends own name a ds then
     let b := sem_list g PFunction None body (empty_frame InInit name (child_path own name)) (fst r) in
     mkL (close_fun (def_installed (fmembers own) name ds) name (l_own b) (l_up b)) up (evs ++ l_events b) (first_err (snd r) (l_err b))
   else mkL (fst r) up evs (snd r)).
Proof. intros. simpl. destruct (op_def g ln dln eln name a ds (head_doc body) own). reflexivity. Qed.

Lemma sem_SCls : forall g pk nd ln dln eln name ds body own up,
  sem_stmt g pk nd (SCls ln dln eln name ds body) own up =
  (let b := sem_list g PScope None body (empty_frame InClass name (child_path own name)) sentinel in
   let c := l_own b in
   let o := Obj (cls_info g ln dln eln ds body) (fmembers c) (fimports c) (fexports c) in
   mkL (set_members own (assign name o (fmembers own))) up
       ([EvNode "class" ln; EvInst KCls name ln (fpath own) (frame_pfun own)] ++ l_events b
        ++ [EvMembers KCls name ln (child_path own name)])
       (l_err b)).
Proof. reflexivity. Qed.

Lemma sem_SIf : forall g pk nd tc body orelse own up,
  sem_stmt g pk nd (SIf tc body orelse) own up =
  (let a := sem_list (gbody g pk tc) PIf None body own up in
   let b := sem_list (gelse g pk tc) PIf None orelse (l_own a) (l_up a) in
   mkL (l_own b) (l_up b) (l_events a ++ l_events b) (first_err (l_err a) (l_err b))).
Proof. reflexivity. Qed.
Lemma sem_SBlock : forall g pk nd ch own up, sem_stmt g pk nd (SBlock ch) own up = sem_list g POther None ch own up.
Proof. reflexivity. Qed.
Lemma sem_SSub : forall g pk nd h body own up,
  sem_stmt g pk nd (SSub h body) own up = sem_list g (if h then PHandler else POther) None body own up.
Proof. reflexivity. Qed.

(* ---------- small facts ---------- *)
Lemma first_err_none_r : forall a, first_err a None = a.
Proof. destruct a; reflexivity. Qed.
Lemma first_err_assoc : forall a b c, first_err (first_err a b) c = first_err a (first_err b c).
Proof. destruct a; reflexivity. Qed.

Lemma lookup_assign_same : forall A n (v : A) l, lookup n (assign n v l) = Some v.
Proof.
  induction l as [|[k w] r IH]; simpl.
  - rewrite String.eqb_refl. reflexivity.
  - destruct (String.eqb k n) eqn:E; simpl; rewrite E; auto.
Qed.
Lemma lookup_assign_other : forall A n m (v : A) l, String.eqb m n = false -> lookup n (assign m v l) = lookup n l.
Proof.
  induction l as [|[k w] r IH]; simpl; intros.
  - rewrite H. reflexivity.
  - destruct (String.eqb k m) eqn:E; simpl.
    + apply String.eqb_eq in E. subst k. rewrite H. reflexivity.
    + destruct (String.eqb k n); auto.
Qed.
Lemma assign_assign : forall A n (v w : A) l, assign n w (assign n v l) = assign n w l.
Proof.
  induction l as [|[k x] r IH]; simpl.
  - rewrite String.eqb_refl. reflexivity.
  - destruct (String.eqb k n) eqn:E; simpl; rewrite E; congruence.
Qed.

(* ---------- frame shape (kind, name, path) is never changed by a frame operation ---------- *)
Definition same_shape (f f' : frame) : Prop := fkind f' = fkind f /\ fname f' = fname f /\ fpath f' = fpath f.
Lemma same_shape_refl : forall f, same_shape f f.
Proof. unfold same_shape; auto. Qed.
Lemma same_shape_trans : forall a b c, same_shape a b -> same_shape b c -> same_shape a c.
Proof. unfold same_shape; intros a b c [? [? ?]] [? [? ?]]; repeat split; congruence. Qed.
Lemma shape_set_members : forall f ms, same_shape f (set_members f ms).
Proof. unfold same_shape; auto. Qed.
Lemma shape_set_imports : forall f ms, same_shape f (set_imports f ms).
Proof. unfold same_shape; auto. Qed.
Lemma shape_set_exports : forall f ms, same_shape f (set_exports f ms).
Proof. unfold same_shape; auto. Qed.
#[export] Hint Resolve same_shape_refl shape_set_members shape_set_imports shape_set_exports : c01.

Lemma shape_op_def : forall g ln dln eln name a ds doc f, same_shape f (fst (op_def g ln dln eln name a ds doc f)).
Proof.
  intros. unfold op_def.
  destruct (def_is_property a ds); simpl; auto with c01.
  destruct (def_is_overload ds); simpl; auto with c01.
  destruct (base_property (fmembers f) name ds); simpl; auto with c01.
Qed.

Lemma shape_attr_loop : forall cond g ln eln items pf names labels doc f,
  same_shape f (fst (attr_loop cond g ln eln items pf names labels doc f)).
Proof.
  induction names as [|n r IH]; intros; simpl; auto with c01.
  destruct (has_dot n); auto.
  destruct (lookup n (fmembers f)) as [ex|].
  - destruct cond; auto.
    match goal with |- context [attr_loop ?c ?g ?a ?b ?i ?p r ?l ?d ?f2] =>
      specialize (IH l d f2); destruct (attr_loop c g a b i p r l d f2) as [f3 evs] eqn:E end.
    simpl in *. eapply same_shape_trans; [|exact IH].
    destruct (String.eqb n "__all__" && items_ok items); unfold same_shape; simpl; auto.
  - match goal with |- context [attr_loop ?c ?g ?a ?b ?i ?p r ?l ?d ?f2] =>
      specialize (IH l d f2); destruct (attr_loop c g a b i p r l d f2) as [f3 evs] eqn:E end.
    simpl in *. eapply same_shape_trans; [|exact IH].
    destruct (String.eqb n "__all__" && items_ok items); unfold same_shape; simpl; auto.
Qed.

Lemma shape_op_import : forall g ln eln names f, same_shape f (fst (op_import g ln eln names f)).
Proof.
  induction names as [|[an ap] r IH]; intros; simpl; auto with c01.
  match goal with |- context [op_import g ln eln r ?f2] =>
    specialize (IH f2); destruct (op_import g ln eln r f2) as [f3 evs] end.
  simpl in *. eapply same_shape_trans; [|exact IH]. unfold same_shape; simpl; auto.
Qed.

Lemma shape_import_all : forall g an f, same_shape f (import_all g an f).
Proof. intros. unfold import_all. destruct (fkind f); auto with c01. destruct (String.eqb an "__all__" && negb g); auto with c01. Qed.
Lemma members_import_all : forall g an f, fmembers (import_all g an f) = fmembers f.
Proof. intros. unfold import_all. destruct (fkind f); auto. destruct (String.eqb an "__all__" && negb g); auto. Qed.
Lemma path_import_all : forall g an f, fpath (import_all g an f) = fpath f.
Proof. intros. destruct (shape_import_all g an f) as [_ [_ P]]. exact P. Qed.
Lemma kind_import_all : forall g an f, fkind (import_all g an f) = fkind f.
Proof. intros. destruct (shape_import_all g an f) as [K _]. exact K. Qed.

Lemma shape_op_importfrom : forall g ln eln names f, same_shape f (fst (op_importfrom g ln eln names f)).
Proof.
  induction names as [|x r IH]; intros; simpl; auto with c01.
  destruct x as [an ap|an ap|]; auto.
  - destruct (String.eqb ap (dot (fpath f) an)).
    + eapply same_shape_trans; [|apply IH]. unfold same_shape; simpl; auto.
    + match goal with |- context [op_importfrom g ln eln r ?f2] =>
        specialize (IH f2); destruct (op_importfrom g ln eln r f2) as [f3 evs] end.
      simpl in *. eapply same_shape_trans; [|exact IH]. eapply same_shape_trans; [|apply shape_import_all].
      unfold same_shape; simpl; auto.
  - destruct (String.eqb ap (dot (fpath f) an)); auto.
    match goal with |- context [op_importfrom g ln eln r ?f2] =>
      specialize (IH f2); destruct (op_importfrom g ln eln r f2) as [f3 evs] end.
    simpl in *. eapply same_shape_trans; [|exact IH]. unfold same_shape; simpl; auto.
Qed.

Lemma shape_op_augall : forall items f, same_shape f (op_augall items f).
Proof.
  intros. unfold op_augall. destruct (fkind f); auto with c01. destruct (fexports f); auto with c01.
  destruct (items_ok items); auto with c01.
Qed.

Lemma shape_close_fun : forall inst name c p, same_shape p (close_fun inst name c p).
Proof.
  intros. unfold close_fun. destruct inst; auto with c01.
  destruct (lookup name (fmembers p)) as [[i ? ? ?]|]; auto with c01. destruct (ikind i); auto with c01.
Qed.

(* handle_attribute: shapes kept; below a module or class frame the parent frame is not touched and not read *)
Ltac destr_attr_loop :=
  match goal with |- context [attr_loop ?a ?b ?c ?d ?e ?f ?n ?l ?dd ?fr] =>
    let S := fresh "S" in let o := fresh "o'" in let evs := fresh "evs" in
    pose proof (shape_attr_loop a b c d e f n l dd fr) as S;
    destruct (attr_loop a b c d e f n l dd fr) as [o evs] end.

Lemma op_attr_facts : forall pk g ln eln ts hv cv items nd own up,
  let r := op_attr pk g ln eln ts hv cv items nd own up in
  same_shape own (fst (fst r)) /\ same_shape up (snd (fst r)) /\
  (fkind own <> InInit -> snd (fst r) = up /\
     forall up', op_attr pk g ln eln ts hv cv items nd own up' = (fst (fst r), up', snd r)).
Proof.
  intros. unfold r, op_attr.
  destruct (fkind own) eqn:K.
  - destruct (names_scope ts) as [names|]; simpl.
    + destr_attr_loop.
      simpl in *. split; [exact S|]. split; [apply same_shape_refl|]. intros _. split; [reflexivity|]. intros up'. reflexivity.
    + split; [apply same_shape_refl|]. split; [apply same_shape_refl|]. intros _. split; [reflexivity|]. intros up'. reflexivity.
  - destruct (names_scope ts) as [names|]; simpl.
    + destr_attr_loop.
      simpl in *. split; [exact S|]. split; [apply same_shape_refl|]. intros _. split; [reflexivity|]. intros up'. reflexivity.
    + split; [apply same_shape_refl|]. split; [apply same_shape_refl|]. intros _. split; [reflexivity|]. intros up'. reflexivity.
  - destruct (names_init ts) as [names|]; simpl.
    + destr_attr_loop.
      simpl in *. split; [apply same_shape_refl|]. split; [exact S|]. intros C; congruence.
    + split; [apply same_shape_refl|]. split; [apply same_shape_refl|]. intros C; congruence.
Qed.

(* ---------- the level semantics keeps frame shapes; a module/class level neither writes nor reads its parent ---------- *)
Definition lres_facts (own up : frame) (r : lres) (rerun : frame -> lres) : Prop :=
  same_shape own (l_own r) /\ same_shape up (l_up r) /\
  (fkind own <> InInit -> l_up r = up /\ forall up', rerun up' = mkL (l_own r) up' (l_events r) (l_err r)).
Definition sem_facts_stmt (s : stmt) : Prop := forall g pk nd own up,
  lres_facts own up (sem_stmt g pk nd s own up) (fun up' => sem_stmt g pk nd s own up').
Definition sem_facts_list (l : list stmt) : Prop := forall g pk follow own up,
  lres_facts own up (sem_list g pk follow l own up) (fun up' => sem_list g pk follow l own up').

Lemma sem_facts_list_of : forall l, Forall sem_facts_stmt l -> sem_facts_list l.
Proof.
  induction 1 as [|x r Hx Hr IH]; intros g pk follow own up.
  - unfold lres_facts; cbn beta iota delta [l_own l_up l_events l_err fst snd]. split; [apply same_shape_refl|]. split; [apply same_shape_refl|]. intros _. split; auto.
  - unfold lres_facts. rewrite sem_list_cons. cbv zeta.
    destruct (Hx g pk (next_doc r follow) own up) as [A1 [A2 A3]].
    set (a := sem_stmt g pk (next_doc r follow) x own up) in *.
    destruct (IH g pk follow (l_own a) (l_up a)) as [B1 [B2 B3]].
    set (b := sem_list g pk follow r (l_own a) (l_up a)) in *.
    cbn beta iota delta [l_own l_up l_events l_err fst snd]. split; [eapply same_shape_trans; eauto|]. split; [eapply same_shape_trans; eauto|].
    intros K. destruct (A3 K) as [A4 A5].
    assert (K' : fkind (l_own a) <> InInit) by (destruct A1 as [E _]; rewrite E; exact K).
    destruct (B3 K') as [B4 B5]. split; [congruence|].
    intros up'. rewrite sem_list_cons. cbv zeta. rewrite A5. cbn beta iota delta [l_own l_up l_events l_err fst snd].
    destruct (IH g pk follow (l_own a) up') as [_ [_ C3]]. destruct (C3 K') as [C4 C5].
    pose proof (B5 up') as E1. cbn beta in E1.
    rewrite E1. cbn beta iota delta [l_own l_up l_events l_err fst snd]. reflexivity.
Qed.

Lemma sem_facts_all : forall s, sem_facts_stmt s.
Proof.
  induction s using stmt_ind2; intros g pk nd own up; unfold lres_facts.
  - (* SDef *)
    rewrite sem_SDef. cbv zeta.
    pose proof (shape_op_def g ln dln eln name a ds (head_doc body) own) as S.
    destruct (descends own name a ds) eqn:D.
    + pose proof (sem_facts_list_of _ H g PFunction None (empty_frame InInit name (child_path own name))
                    (fst (op_def g ln dln eln name a ds (head_doc body) own))) as [B1 [B2 _]].
      cbn beta iota delta [l_own l_up l_events l_err fst snd].
      split; [eapply same_shape_trans; [exact S|]; eapply same_shape_trans; [exact B2|apply shape_close_fun]|]. split; [apply same_shape_refl|].
      intros _. split; [reflexivity|]. intros up'. rewrite sem_SDef. cbv zeta. rewrite D. reflexivity.
    + cbn beta iota delta [l_own l_up l_events l_err fst snd]. split; [exact S|]. split; [apply same_shape_refl|].
      intros _. split; [reflexivity|]. intros up'. rewrite sem_SDef. cbv zeta. rewrite D. reflexivity.
  - (* SCls *)
    rewrite sem_SCls. cbv zeta. cbn beta iota delta [l_own l_up l_events l_err fst snd]. split; [apply shape_set_members|]. split; [apply same_shape_refl|].
    intros _. split; [reflexivity|]. intros up'. reflexivity.
  - (* SAssign *)
    simpl sem_stmt. pose proof (op_attr_facts pk g ln eln ts true false items nd own up) as F. cbv zeta in F.
    destruct (op_attr pk g ln eln ts true false items nd own up) as [[o' u'] evs]. cbn [l_own l_up l_events l_err fst snd] in *.
    destruct F as [F1 [F2 F3]]. split; [exact F1|]. split; [exact F2|].
    intros K. destruct (F3 K) as [F4 F5]. split; [exact F4|]. intros up'. rewrite F5. reflexivity.
  - (* SAnn *)
    simpl sem_stmt. pose proof (op_attr_facts pk g ln eln [t] hv cv items nd own up) as F. cbv zeta in F.
    destruct (op_attr pk g ln eln [t] hv cv items nd own up) as [[o' u'] evs]. cbn [l_own l_up l_events l_err fst snd] in *.
    destruct F as [F1 [F2 F3]]. split; [exact F1|]. split; [exact F2|].
    intros K. destruct (F3 K) as [F4 F5]. split; [exact F4|]. intros up'. rewrite F5. reflexivity.
  - (* SAugAll *)
    simpl sem_stmt. split; [apply shape_op_augall|]. split; [apply same_shape_refl|]. intros _. split; auto.
  - (* SImport *)
    simpl sem_stmt. pose proof (shape_op_import g ln eln names own) as S.
    destruct (op_import g ln eln names own) as [o' evs]. cbn [l_own l_up l_events l_err fst snd] in *.
    split; [exact S|]. split; [apply same_shape_refl|]. intros _. split; auto.
  - (* SImportFrom *)
    simpl sem_stmt. pose proof (shape_op_importfrom g ln eln names own) as S.
    destruct (op_importfrom g ln eln names own) as [o' evs]. cbn [l_own l_up l_events l_err fst snd] in *.
    split; [exact S|]. split; [apply same_shape_refl|]. intros _. split; auto.
  - (* SIf *)
    rewrite sem_SIf. cbv zeta.
    destruct (sem_facts_list_of _ H (gbody g pk tc) PIf None own up) as [A1 [A2 A3]].
    set (a := sem_list (gbody g pk tc) PIf None body own up) in *.
    destruct (sem_facts_list_of _ H0 (gelse g pk tc) PIf None (l_own a) (l_up a)) as [B1 [B2 B3]].
    set (b := sem_list (gelse g pk tc) PIf None orelse (l_own a) (l_up a)) in *.
    cbn beta iota delta [l_own l_up l_events l_err fst snd]. split; [eapply same_shape_trans; eauto|]. split; [eapply same_shape_trans; eauto|].
    intros K. destruct (A3 K) as [A4 A5].
    assert (K' : fkind (l_own a) <> InInit) by (destruct A1 as [E _]; rewrite E; exact K).
    destruct (B3 K') as [B4 B5]. split; [congruence|].
    intros up'. rewrite sem_SIf. cbv zeta. rewrite A5. cbn beta iota delta [l_own l_up l_events l_err fst snd].
    destruct (sem_facts_list_of _ H0 (gelse g pk tc) PIf None (l_own a) up') as [_ [_ C3]]. destruct (C3 K') as [C4 C5].
    pose proof (B5 up') as E1. cbn beta in E1. rewrite E1. cbn beta iota delta [l_own l_up l_events l_err fst snd]. reflexivity.
  - (* SBlock *) rewrite sem_SBlock.
    destruct (sem_facts_list_of _ H g POther None own up) as [A1 [A2 A3]].
    split; [exact A1|]. split; [exact A2|]. intros K. destruct (A3 K) as [A4 A5]. split; [exact A4|].
    intros up'. rewrite sem_SBlock. apply A5.
  - (* SSub *) rewrite sem_SSub.
    destruct (sem_facts_list_of _ H g (if h then PHandler else POther) None own up) as [A1 [A2 A3]].
    split; [exact A1|]. split; [exact A2|]. intros K. destruct (A3 K) as [A4 A5]. split; [exact A4|].
    intros up'. rewrite sem_SSub. apply A5.
  - simpl sem_stmt. cbn beta iota delta [l_own l_up l_events l_err fst snd]. split; [apply same_shape_refl|]. split; [apply same_shape_refl|]. intros _. split; auto.
  - simpl sem_stmt. cbn beta iota delta [l_own l_up l_events l_err fst snd]. split; [apply same_shape_refl|]. split; [apply same_shape_refl|]. intros _. split; auto.
Qed.

Lemma sem_list_facts : forall l, sem_facts_list l.
Proof. intros. apply sem_facts_list_of. apply Forall_forall. intros. apply sem_facts_all. Qed.

(* ================= the visitor machine computes the level semantics ================= *)
Definition lift (st : vstate) (rest : list frame) (g : bool) (r : lres) : vstate :=
  mkSt (l_own r :: l_up r :: rest) g (events st ++ l_events r) (first_err (err st) (l_err r)).

Definition ref_stmt (s : stmt) : Prop := forall pk nd st own up rest,
  stack st = own :: up :: rest ->
  visit_stmt pk nd s st = lift st rest (guarded st) (sem_stmt (guarded st) pk nd s own up).

Definition list_guard (reset : option bool) (g : bool) : bool := match reset with Some b => b | None => g end.
Definition ref_list (l : list stmt) : Prop := forall pk reset follow st own up rest,
  stack st = own :: up :: rest ->
  visit_list pk reset follow l st =
    lift st rest (match l with [] => guarded st | _ => list_guard reset (guarded st) end)
         (sem_list (list_guard reset (guarded st)) pk follow l own up).

Lemma ref_list_of : forall l, Forall ref_stmt l -> ref_list l.
Proof.
  induction 1 as [|x r Hx Hr IH]; intros pk reset follow st own up rest Hs.
  - destruct st as [stk g evs er]. simpl in Hs. subst stk. unfold lift. simpl.
    rewrite app_nil_r, first_err_none_r. reflexivity.
  - rewrite visit_list_cons, sem_list_cons. cbv zeta.
    set (g' := list_guard reset (guarded st)).
    set (st0 := match reset with Some b => set_guard st b | None => st end).
    assert (S0 : stack st0 = own :: up :: rest) by (unfold st0; destruct reset; simpl; auto).
    assert (G0 : guarded st0 = g') by (unfold st0, g', list_guard; destruct reset; reflexivity).
    assert (E0 : events st0 = events st) by (unfold st0; destruct reset; reflexivity).
    assert (R0 : err st0 = err st) by (unfold st0; destruct reset; reflexivity).
    rewrite (Hx pk (next_doc r follow) st0 own up rest S0). rewrite G0.
    set (a := sem_stmt g' pk (next_doc r follow) x own up).
    set (st1 := lift st0 rest g' a).
    assert (S1 : stack st1 = l_own a :: l_up a :: rest) by reflexivity.
    rewrite (IH pk reset follow st1 (l_own a) (l_up a) rest S1).
    assert (G1 : list_guard reset (guarded st1) = g').
    { unfold st1, lift, g', list_guard. destruct reset; reflexivity. }
    rewrite G1.
    assert (G2 : (match r with [] => guarded st1 | _ :: _ => g' end) = g') by (destruct r; reflexivity).
    rewrite G2. unfold lift, st1, lift. cbn [stack guarded events err l_own l_up l_events l_err].
    rewrite E0, R0, app_assoc, first_err_assoc. reflexivity.
Qed.

Lemma orb_if : forall (c g : bool), (if c then true else g) = g || c.
Proof. destruct c, g; reflexivity. Qed.

Lemma ref_stmt_all : forall s, ref_stmt s.
Proof.
  induction s using stmt_ind2; intros pk nd st own up rest Hs;
    destruct st as [stk g evs er]; simpl in Hs; subst stk.
  - (* SDef *)
    rewrite visit_SDef, sem_SDef. cbv zeta.
    unfold emit, top_frame, py_raise, replace_top, push, set_stack. cbn [stack guarded events err].
    set (r := op_def g ln dln eln name a ds (head_doc body) own).
    change (match er with Some x => Some x | None => snd r end) with (first_err er (snd r)).
    destruct (descends own name a ds) eqn:D.
    + match goal with |- context [visit_list PFunction None None ?bb ?ss] => rewrite (ref_list_of _ H PFunction None None ss (empty_frame InInit name (child_path own name)) (fst r) (up :: rest) eq_refl) end.
      unfold list_guard, lift, pop_fun, set_stack. cbn [stack guarded events err l_own l_up l_events l_err].
      destruct body; cbn [stack guarded events err l_own l_up l_events l_err];
        rewrite <- !app_assoc; rewrite ?first_err_assoc; reflexivity.
    + unfold lift. cbn [stack guarded events err l_own l_up l_events l_err]. rewrite <- app_assoc. reflexivity.
  - (* SCls *)
    rewrite visit_SCls, sem_SCls. cbv zeta.
    unfold emit, top_frame, on_top, push, set_stack. cbn [stack guarded events err].
    set (own1 := set_members own (assign name (leaf (cls_info g ln dln eln ds body)) (fmembers own))).
    set (c0 := empty_frame InClass name (child_path own name)).
    unfold emit, set_stack. cbn [stack guarded events err].
    match goal with |- context [visit_list PScope None None ?bb ?ss] => rewrite (ref_list_of _ H PScope None None ss c0 own1 (up :: rest) eq_refl) end.
    unfold list_guard. cbn [stack guarded events err].
    assert (K : fkind c0 <> InInit) by (unfold c0; simpl; discriminate).
    destruct (sem_list_facts body g PScope None c0 own1) as [_ [_ F3]]. destruct (F3 K) as [F4 F5].
    pose proof (F5 sentinel) as F6. cbv beta in F6.
    set (b := sem_list g PScope None body c0 own1) in *.
    rewrite F6. cbn [l_own l_up l_events l_err].
    unfold pop_class, emit, lift, set_stack. cbn [stack guarded events err l_own l_up l_events l_err].
    rewrite F4. unfold own1 at 1. cbn [fmembers set_members]. rewrite lookup_assign_same. unfold leaf.
    unfold own1. cbn [fmembers set_members fkind fname fpath fimports fexports]. rewrite assign_assign.
    assert (G : (match body with [] => g | _ :: _ => g end) = g) by (destruct body; reflexivity).
    rewrite G. unfold set_members. cbn [fkind fname fpath fimports fexports].
    rewrite <- !app_assoc. reflexivity.
  - (* SAssign *)
    simpl visit_stmt. simpl sem_stmt. unfold on_top2, emit, set_stack. cbn [stack guarded events err].
    destruct (op_attr pk g ln eln ts true false items nd own up) as [[o' u'] ev]. unfold lift.
    cbn [stack guarded events err l_own l_up l_events l_err]. rewrite <- app_assoc, first_err_none_r. reflexivity.
  - (* SAnn *)
    simpl visit_stmt. simpl sem_stmt. unfold on_top2, emit, set_stack. cbn [stack guarded events err].
    destruct (op_attr pk g ln eln [t] hv cv items nd own up) as [[o' u'] ev]. unfold lift.
    cbn [stack guarded events err l_own l_up l_events l_err]. rewrite <- app_assoc, first_err_none_r. reflexivity.
  - (* SAugAll *)
    simpl visit_stmt. simpl sem_stmt. unfold on_top, emit, set_stack, lift.
    cbn [stack guarded events err l_own l_up l_events l_err]. rewrite first_err_none_r. reflexivity.
  - (* SImport *)
    simpl visit_stmt. simpl sem_stmt. unfold on_top, emit, set_stack. cbn [stack guarded events err].
    destruct (op_import g ln eln names own) as [o' ev]. unfold lift.
    cbn [stack guarded events err l_own l_up l_events l_err]. rewrite first_err_none_r. reflexivity.
  - (* SImportFrom *)
    simpl visit_stmt. simpl sem_stmt. unfold on_top, emit, set_stack. cbn [stack guarded events err].
    destruct (op_importfrom g ln eln names own) as [o' ev]. unfold lift.
    cbn [stack guarded events err l_own l_up l_events l_err]. rewrite first_err_none_r. reflexivity.
  - (* SIf *)
    rewrite visit_SIf, sem_SIf. cbv zeta. cbn [guarded].
    set (st1 := if is_level pk && tc_pos tc then set_guard (mkSt (own :: up :: rest) g evs er) true else mkSt (own :: up :: rest) g evs er).
    assert (S1 : stack st1 = own :: up :: rest) by (unfold st1; destruct (is_level pk && tc_pos tc); reflexivity).
    assert (G1 : guarded st1 = gbody g pk tc) by (unfold st1, gbody; destruct (is_level pk && tc_pos tc), g; reflexivity).
    assert (E1 : events st1 = evs) by (unfold st1; destruct (is_level pk && tc_pos tc); reflexivity).
    assert (R1 : err st1 = er) by (unfold st1; destruct (is_level pk && tc_pos tc); reflexivity).
    rewrite (ref_list_of _ H PIf None None st1 own up rest S1).
    unfold list_guard. rewrite G1.
    set (a := sem_list (gbody g pk tc) PIf None body own up).
    match goal with |- context [visit_list PIf (Some (gelse g pk tc)) None orelse ?s2] => set (st2 := s2) end.
    assert (S2 : stack st2 = l_own a :: l_up a :: rest) by reflexivity.
    rewrite (ref_list_of _ H0 PIf (Some (gelse g pk tc)) None st2 (l_own a) (l_up a) rest S2).
    unfold list_guard, lift, set_guard, st2, lift. cbn [stack guarded events err l_own l_up l_events l_err].
    rewrite E1, R1, app_assoc, first_err_assoc. reflexivity.
  - (* SBlock *)
    rewrite visit_SBlock, sem_SBlock.
    match goal with |- context [visit_list POther None None ?bb ?ss] => rewrite (ref_list_of _ H POther None None ss own up rest eq_refl) end. unfold list_guard. cbn [guarded].
    destruct ch; reflexivity.
  - (* SSub *)
    rewrite visit_SSub, sem_SSub.
    match goal with |- context [visit_list (if h then PHandler else POther) None None ?bb ?ss] => rewrite (ref_list_of _ H (if h then PHandler else POther) None None ss own up rest eq_refl) end. unfold list_guard. cbn [guarded].
    destruct body; reflexivity.
  - simpl. unfold lift. simpl. rewrite app_nil_r, first_err_none_r. reflexivity.
  - simpl. unfold lift. simpl. rewrite app_nil_r, first_err_none_r. reflexivity.
Qed.

Lemma ref_list_all : forall l, ref_list l.
Proof. intros. apply ref_list_of. apply Forall_forall. intros. apply ref_stmt_all. Qed.

Theorem machine_computes_level_semantics : forall mname body, run_visit mname body = spec_module mname body.
Proof.
  intros. unfold run_visit, spec_module.
  rewrite (ref_list_all body PScope None None (init_state mname) (empty_frame InModule mname mname) sentinel [] eq_refl).
  unfold list_guard, init_state, lift, emit. cbn [stack guarded events err].
  set (r := sem_list false PScope None body (empty_frame InModule mname mname) sentinel). clearbody r.
  simpl. destruct (l_err r); [reflexivity|]. reflexivity.
Qed.

(* ================= totality: no statement list makes the visitor raise ================= *)
Definition err_stmt (s : stmt) : Prop := forall g pk nd own up, l_err (sem_stmt g pk nd s own up) = None.
Definition err_list (l : list stmt) : Prop := forall g pk follow own up, l_err (sem_list g pk follow l own up) = None.

Lemma err_list_of : forall l, Forall err_stmt l -> err_list l.
Proof.
  induction 1 as [|x r Hx Hr IH]; intros g pk follow own up.
  - reflexivity.
  - rewrite sem_list_cons. cbv zeta. cbn [l_err]. rewrite Hx, IH. reflexivity.
Qed.

Lemma snd_op_def : forall g ln dln eln name a ds doc f, snd (op_def g ln dln eln name a ds doc f) = None.
Proof.
  intros. unfold op_def. destruct (def_is_property a ds); simpl; [reflexivity|].
  destruct (def_is_overload ds); simpl; [reflexivity|].
  destruct (base_property (fmembers f) name ds); reflexivity.
Qed.

Lemma err_stmt_all : forall s, err_stmt s.
Proof.
  induction s using stmt_ind2; intros g pk nd own up.
  - rewrite sem_SDef. cbv zeta.
    pose proof (snd_op_def g ln dln eln name a ds (head_doc body) own) as E.
    destruct (descends own name a ds); cbn [l_err]; rewrite E; [|reflexivity].
    rewrite (err_list_of _ H). reflexivity.
  - rewrite sem_SCls. cbv zeta. cbn [l_err]. apply (err_list_of _ H).
  - simpl sem_stmt. destruct (op_attr pk g ln eln ts true false items nd own up) as [[? ?] ?]. reflexivity.
  - simpl sem_stmt. destruct (op_attr pk g ln eln [t] hv cv items nd own up) as [[? ?] ?]. reflexivity.
  - reflexivity.
  - simpl sem_stmt. destruct (op_import g ln eln names own). reflexivity.
  - simpl sem_stmt. destruct (op_importfrom g ln eln names own). reflexivity.
  - rewrite sem_SIf. cbv zeta. cbn [l_err]. rewrite (err_list_of _ H), (err_list_of _ H0). reflexivity.
  - rewrite sem_SBlock. apply (err_list_of _ H).
  - rewrite sem_SSub. apply (err_list_of _ H).
  - reflexivity.
  - reflexivity.
Qed.

Lemma err_list_all : forall l, err_list l.
Proof. intros. apply err_list_of. apply Forall_forall. intros. apply err_stmt_all. Qed.

Theorem visit_total : forall mname body, exists r, run_visit mname body = Ok r.
Proof.
  intros. rewrite machine_computes_level_semantics. unfold spec_module.
  rewrite (err_list_all body false PScope None (empty_frame InModule mname mname) sentinel). eauto.
Qed.

(* ================= events: bracket discipline ================= *)
Lemma check_events_app : forall a b open,
  check_events open (a ++ b) = match check_events open a with Some o' => check_events o' b | None => None end.
Proof.
  induction a as [|e a IH]; intros; simpl; auto.
  destruct e; auto.
  - destruct k; try (destruct (parent_ok open ppath pfun); solve [auto]).
    destruct open; auto.
  - destruct open; auto. destruct (String.eqb path s); auto.
  - destruct (parent_ok open ppath pfun); auto.
Qed.

Definition brk (p : string) (open : list string) (evs : list event) : Prop :=
  check_events (p :: open) evs = Some (p :: open).
Lemma brk_nil : forall p open, brk p open [].
Proof. reflexivity. Qed.
Lemma brk_app : forall p open a b, brk p open a -> brk p open b -> brk p open (a ++ b).
Proof. unfold brk; intros. rewrite check_events_app, H. exact H0. Qed.
Lemma brk_node : forall p open t ln evs, brk p open evs -> brk p open (EvNode t ln :: evs).
Proof. unfold brk; intros; simpl; auto. Qed.
Lemma parent_ok_same : forall p open pf, parent_ok (p :: open) p pf = true.
Proof. intros; simpl. rewrite String.eqb_refl. apply orb_true_r. Qed.
Lemma parent_ok_fun : forall p open pp, parent_ok (p :: open) pp true = true.
Proof. reflexivity. Qed.

Definition level_path (own up : frame) : string := match fkind own with InInit => fpath up | _ => fpath own end.

Lemma brk_attr_loop : forall cond g ln eln items names labels doc f open,
  brk (fpath f) open (snd (attr_loop cond g ln eln items false names labels doc f)).
Proof.
  induction names as [|n r IH]; intros; simpl; [apply brk_nil|].
  destruct (has_dot n); auto.
  destruct (lookup n (fmembers f)) as [ex|].
  - destruct cond; auto.
    match goal with |- context [attr_loop ?c ?g ?a ?b ?i ?p r ?l ?d ?f2] =>
      assert (P : fpath f2 = fpath f) by (destruct (String.eqb n "__all__" && items_ok items); reflexivity);
      specialize (IH l d f2 open); destruct (attr_loop c g a b i p r l d f2) as [f3 evs] end.
    simpl in *. unfold brk in *. simpl. rewrite String.eqb_refl. simpl. rewrite P in IH. exact IH.
  - match goal with |- context [attr_loop ?c ?g ?a ?b ?i ?p r ?l ?d ?f2] =>
      assert (P : fpath f2 = fpath f) by (destruct (String.eqb n "__all__" && items_ok items); reflexivity);
      specialize (IH l d f2 open); destruct (attr_loop c g a b i p r l d f2) as [f3 evs] end.
    simpl in *. unfold brk in *. simpl. rewrite String.eqb_refl. simpl. rewrite P in IH. exact IH.
Qed.

Lemma parent_ok_frame : forall f p open, (fkind f <> InInit -> p = fpath f) -> parent_ok (p :: open) (fpath f) (frame_pfun f) = true.
Proof.
  intros. unfold frame_pfun. destruct (fkind f) eqn:K; simpl; try reflexivity;
    rewrite (H ltac:(discriminate)), String.eqb_refl; reflexivity.
Qed.

Lemma brk_op_import : forall g ln eln names f p open,
  (fkind f <> InInit -> p = fpath f) -> brk p open (snd (op_import g ln eln names f)).
Proof.
  induction names as [|[an ap] r IH]; intros; simpl; [apply brk_nil|].
  match goal with |- context [op_import g ln eln r ?f2] =>
    specialize (IH f2 p open); destruct (op_import g ln eln r f2) as [f3 evs] end.
  cbn [snd fst] in *. unfold brk in *. cbn [check_events]. rewrite (parent_ok_frame f p open H). apply IH. exact H.
Qed.

Lemma brk_op_importfrom : forall g ln eln names f p open,
  (fkind f <> InInit -> p = fpath f) -> brk p open (snd (op_importfrom g ln eln names f)).
Proof.
  induction names as [|x r IH]; intros; simpl; [apply brk_nil|].
  destruct x as [an ap|an ap|]; auto.
  - destruct (String.eqb ap (dot (fpath f) an)).
    + apply IH. exact H.
    + match goal with |- context [op_importfrom g ln eln r ?f2] =>
        specialize (IH f2 p open); destruct (op_importfrom g ln eln r f2) as [f3 evs] end.
      cbn [snd fst] in *. unfold brk in *. cbn [check_events]. rewrite (parent_ok_frame f p open H). apply IH.
      rewrite kind_import_all, path_import_all. exact H.
  - destruct (String.eqb ap (dot (fpath f) an)); auto.
    match goal with |- context [op_importfrom g ln eln r ?f2] =>
      specialize (IH f2 p open); destruct (op_importfrom g ln eln r f2) as [f3 evs] end.
    cbn [snd fst] in *. unfold brk in *. cbn [check_events]. rewrite (parent_ok_frame f p open H). apply IH. exact H.
Qed.

Lemma brk_op_attr : forall pk g ln eln ts hv cv items nd own up open,
  brk (level_path own up) open (snd (op_attr pk g ln eln ts hv cv items nd own up)).
Proof.
  intros. unfold op_attr, level_path. destruct (fkind own) eqn:K.
  - destruct (names_scope ts) as [names|]; [|apply brk_nil].
    pose proof (brk_attr_loop (is_cond pk) g ln eln items names (attr_labels InModule hv cv) nd own open) as B.
    destruct (attr_loop (is_cond pk) g ln eln items false names (attr_labels InModule hv cv) nd own). exact B.
  - destruct (names_scope ts) as [names|]; [|apply brk_nil].
    pose proof (brk_attr_loop (is_cond pk) g ln eln items names (attr_labels InClass hv cv) nd own open) as B.
    destruct (attr_loop (is_cond pk) g ln eln items false names (attr_labels InClass hv cv) nd own). exact B.
  - destruct (names_init ts) as [names|]; [|apply brk_nil].
    pose proof (brk_attr_loop (is_cond pk) g ln eln items names (attr_labels InInit hv cv) nd up open) as B.
    destruct (attr_loop (is_cond pk) g ln eln items false names (attr_labels InInit hv cv) nd up). exact B.
Qed.

Definition brk_stmt (s : stmt) : Prop := forall g pk nd own up open,
  brk (level_path own up) open (l_events (sem_stmt g pk nd s own up)).
Definition brk_list (l : list stmt) : Prop := forall g pk follow own up open,
  brk (level_path own up) open (l_events (sem_list g pk follow l own up)).

Lemma level_path_shape : forall own up own' up', same_shape own own' -> same_shape up up' -> level_path own' up' = level_path own up.
Proof. unfold level_path, same_shape. intros ? ? ? ? [A [_ B]] [_ [_ C]]. rewrite A, B, C. reflexivity. Qed.

Lemma brk_list_of : forall l, Forall brk_stmt l -> brk_list l.
Proof.
  induction 1 as [|x r Hx Hr IH]; intros g pk follow own up open.
  - apply brk_nil.
  - rewrite sem_list_cons. cbv zeta. cbn [l_events]. apply brk_app; [apply Hx|].
    destruct (sem_facts_all x g pk (next_doc r follow) own up) as [A1 [A2 _]].
    rewrite <- (level_path_shape own up _ _ A1 A2). apply IH.
Qed.

Lemma level_path_own : forall own up p, level_path own up = p -> fkind own <> InInit -> p = fpath own.
Proof. unfold level_path. intros. destruct (fkind own); congruence. Qed.

Lemma brk_stmt_all : forall s, brk_stmt s.
Proof.
  induction s using stmt_ind2; intros g pk nd own up open.
  - (* SDef *)
    rewrite sem_SDef. cbv zeta.
    assert (E : brk (level_path own up) open [EvNode "function" ln; def_event name a ds ln own]).
    { apply brk_node. unfold brk, def_event. 
      assert (P : parent_ok (level_path own up :: open) (fpath own) (match fkind own with InInit => true | _ => false end) = true).
      { apply (parent_ok_frame own). intros. symmetry. unfold level_path. destruct (fkind own); congruence. }
      destruct (def_is_property a ds); simpl; simpl in P; rewrite P; reflexivity. }
    destruct (descends own name a ds) eqn:D; cbn [l_events]; [|exact E].
    apply brk_app; [exact E|].
    pose proof (brk_list_of _ H g PFunction None (empty_frame InInit name (child_path own name))
                  (fst (op_def g ln dln eln name a ds (head_doc body) own)) open) as B.
    unfold level_path in B at 1. simpl fkind in B.
    destruct (shape_op_def g ln dln eln name a ds (head_doc body) own) as [_ [_ P]]. rewrite P in B.
    unfold descends in D. unfold level_path. destruct (fkind own); try discriminate. exact B.
  - (* SCls *)
    rewrite sem_SCls. cbv zeta. cbn [l_events]. apply brk_node.
    unfold brk. cbn [check_events app].
    assert (P : parent_ok (level_path own up :: open) (fpath own) (frame_pfun own) = true).
    { apply (parent_ok_frame own). intros. symmetry. unfold level_path. destruct (fkind own); congruence. }
    rewrite P. rewrite check_events_app.
    pose proof (brk_list_of _ H g PScope None (empty_frame InClass name (child_path own name)) sentinel
                  (level_path own up :: open)) as B.
    unfold level_path in B at 1. simpl in B. unfold brk in B. unfold child_path in *. rewrite B.
    simpl. rewrite String.eqb_refl. reflexivity.
  - simpl sem_stmt. pose proof (brk_op_attr pk g ln eln ts true false items nd own up open) as B.
    destruct (op_attr pk g ln eln ts true false items nd own up) as [[? ?] ?]. cbn [l_events]. apply brk_node. exact B.
  - simpl sem_stmt. pose proof (brk_op_attr pk g ln eln [t] hv cv items nd own up open) as B.
    destruct (op_attr pk g ln eln [t] hv cv items nd own up) as [[? ?] ?]. cbn [l_events]. apply brk_node. exact B.
  - apply brk_nil.
  - simpl sem_stmt. pose proof (brk_op_import g ln eln names own (level_path own up) open) as B.
    destruct (op_import g ln eln names own). cbn [l_events]. apply B. intros. eapply level_path_own; eauto.
  - simpl sem_stmt. pose proof (brk_op_importfrom g ln eln names own (level_path own up) open) as B.
    destruct (op_importfrom g ln eln names own). cbn [l_events]. apply B. intros. eapply level_path_own; eauto.
  - rewrite sem_SIf. cbv zeta. cbn [l_events]. apply brk_app; [apply (brk_list_of _ H)|].
    destruct (sem_list_facts body (gbody g pk tc) PIf None own up) as [A1 [A2 _]].
    rewrite <- (level_path_shape own up _ _ A1 A2). apply (brk_list_of _ H0).
  - rewrite sem_SBlock. apply (brk_list_of _ H).
  - rewrite sem_SSub. apply (brk_list_of _ H).
  - apply brk_nil.
  - apply brk_nil.
Qed.

Lemma brk_list_all : forall l, brk_list l.
Proof. intros. apply brk_list_of. apply Forall_forall. intros. apply brk_stmt_all. Qed.

Theorem events_well_bracketed : forall mname body r, run_visit mname body = Ok r -> well_bracketed (r_events r) = true.
Proof.
  intros mname body r. rewrite machine_computes_level_semantics. unfold spec_module.
  destruct (l_err _); [discriminate|]. intros E. injection E as E. subst r. cbn [r_events].
  unfold well_bracketed, mod_events_pre, mod_events_post. cbn [app check_events].
  rewrite check_events_app.
  pose proof (brk_list_all body false PScope None (empty_frame InModule mname mname) sentinel []) as B.
  unfold level_path in B. simpl in B. unfold brk in B. rewrite B. simpl. rewrite String.eqb_refl. reflexivity.
Qed.

(* ================= one member per bound name, in order of first binding ================= *)
Definition keys {A} (l : list (string * A)) : list string := map fst l.
Fixpoint extend (ks ns : list string) : list string :=
  match ns with [] => ks | n :: r => extend (if str_mem n ks then ks else ks ++ [n]) r end.

Lemma extend_app : forall a b ks, extend ks (a ++ b) = extend (extend ks a) b.
Proof. induction a; simpl; auto. Qed.

Lemma str_mem_keys : forall A n (l : list (string * A)), str_mem n (keys l) = has_key n l.
Proof.
  unfold str_mem, has_key, keys. induction l as [|[k v] r IH]; simpl; auto.
  rewrite String.eqb_sym. destruct (String.eqb k n); auto.
Qed.

Lemma keys_assign : forall A n (v : A) l, keys (assign n v l) = if has_key n l then keys l else keys l ++ [n].
Proof.
  unfold has_key, keys. induction l as [|[k w] r IH]; simpl; auto.
  destruct (String.eqb k n) eqn:E; simpl; auto.
  rewrite IH. destruct (lookup n r); reflexivity.
Qed.

Lemma keys_assign_extend : forall A n (v : A) l, keys (assign n v l) = extend (keys l) [n].
Proof. intros. simpl. rewrite keys_assign, str_mem_keys. reflexivity. Qed.

Lemma extend_present : forall ks n, str_mem n ks = true -> extend ks [n] = ks.
Proof. intros. simpl. rewrite H. reflexivity. Qed.

Lemma str_mem_app : forall x a b, str_mem x (a ++ b) = str_mem x a || str_mem x b.
Proof. intros. unfold str_mem. apply existsb_app. Qed.

Lemma extend_first_names : forall bs seen ks,
  (forall x, str_mem x seen = str_mem x ks) -> extend ks (map b_name bs) = ks ++ first_names seen bs.
Proof.
  induction bs as [|b r IH]; intros seen ks H; simpl.
  - rewrite app_nil_r. reflexivity.
  - rewrite <- H. destruct (str_mem (b_name b) seen) eqn:E.
    + apply IH. exact H.
    + rewrite (IH (b_name b :: seen) (ks ++ [b_name b])).
      * rewrite <- app_assoc. reflexivity.
      * intros x. rewrite str_mem_app. pose proof (H x) as Hx. unfold str_mem in *. simpl.
        rewrite Hx, orb_false_r. apply orb_comm.
Qed.

Lemma keys_add_label : forall n l ms, keys (add_label n l ms) = keys ms.
Proof.
  intros. unfold add_label. destruct (lookup n ms) as [[i sub im ex]|] eqn:E; auto.
  rewrite keys_assign. unfold has_key. rewrite E. reflexivity.
Qed.

Lemma base_property_member : forall ms n ds fn, base_property ms n ds = Some fn -> has_key n ms = true.
Proof.
  induction ds as [|d r IH]; simpl; intros; [discriminate|].
  destruct d as [p|bs f0|hh rr]; [eauto| |eauto].
  destruct ((String.eqb f0 "setter" || String.eqb f0 "deleter") && String.eqb bs n && member_is_property ms n) eqn:E; [|eauto].
  apply andb_prop in E. destruct E as [_ E]. unfold member_is_property in E. unfold has_key.
  destruct (lookup n ms); [reflexivity|discriminate].
Qed.

Lemma keys_close_fun : forall inst name c p, keys (fmembers (close_fun inst name c p)) = keys (fmembers p).
Proof.
  intros. unfold close_fun. destruct inst; auto.
  destruct (lookup name (fmembers p)) as [[i ? ? ?]|] eqn:L; auto. destruct (ikind i); auto.
  cbn [fmembers set_members]. rewrite keys_assign. unfold has_key. rewrite L. reflexivity.
Qed.

(* names bound on the receiving frame by one definition *)
Definition def_names (name : string) (a : bool) (ds : list deco) : list string :=
  if def_is_property a ds then [name] else if def_is_overload ds then [] else [name].

Lemma keys_op_def : forall g ln dln eln name a ds doc f,
  keys (fmembers (fst (op_def g ln dln eln name a ds doc f))) = extend (keys (fmembers f)) (def_names name a ds).
Proof.
  intros. unfold op_def, def_names. destruct (def_is_property a ds); simpl fst.
  - cbn [fmembers set_members]. apply keys_assign_extend.
  - destruct (def_is_overload ds); simpl fst; [reflexivity|].
    destruct (base_property (fmembers f) name ds) eqn:B; simpl fst; cbn [fmembers set_members].
    + rewrite keys_add_label. symmetry. apply extend_present. rewrite str_mem_keys. eapply base_property_member; eauto.
    + apply keys_assign_extend.
Qed.

Lemma keys_attr_loop : forall cond g ln eln items pf names labels doc f,
  keys (fmembers (fst (attr_loop cond g ln eln items pf names labels doc f))) = extend (keys (fmembers f)) (plain_names names).
Proof.
  induction names as [|n r IH]; intros; [reflexivity|].
  simpl attr_loop. unfold plain_names in *. simpl filter. destruct (has_dot n) eqn:D; simpl negb; cbv iota.
  - apply IH.
  - destruct (lookup n (fmembers f)) as [ex|] eqn:L.
    + assert (P : str_mem n (keys (fmembers f)) = true) by (rewrite str_mem_keys; unfold has_key; rewrite L; reflexivity).
      destruct cond.
      * rewrite IH. simpl extend. rewrite P. reflexivity.
      * match goal with |- context [attr_loop ?c ?g ?a ?b ?i ?p r ?l ?d ?f2] =>
          specialize (IH l d f2); destruct (attr_loop c g a b i p r l d f2) as [f3 evs] end.
        simpl fst in *. rewrite IH. simpl extend. rewrite P.
        f_equal. destruct (String.eqb n "__all__" && items_ok items); cbn [fmembers set_members set_exports];
          rewrite keys_assign; unfold has_key; rewrite L; reflexivity.
    + assert (P : str_mem n (keys (fmembers f)) = false) by (rewrite str_mem_keys; unfold has_key; rewrite L; reflexivity).
      match goal with |- context [attr_loop ?c ?g ?a ?b ?i ?p r ?l ?d ?f2] =>
        specialize (IH l d f2); destruct (attr_loop c g a b i p r l d f2) as [f3 evs] end.
      simpl fst in *. rewrite IH. simpl extend. rewrite P.
      f_equal. destruct (String.eqb n "__all__" && items_ok items); cbn [fmembers set_members set_exports];
        rewrite keys_assign; unfold has_key; rewrite L; reflexivity.
Qed.

Lemma keys_op_import : forall g ln eln names f,
  keys (fmembers (fst (op_import g ln eln names f))) = extend (keys (fmembers f)) (map b_name (import_bindings g ln names)).
Proof.
  induction names as [|[an ap] r IH]; intros; [reflexivity|].
  simpl op_import.
  match goal with |- context [op_import g ln eln r ?f2] =>
    specialize (IH f2); destruct (op_import g ln eln r f2) as [f3 evs] end.
  simpl fst in *. rewrite IH. cbn [fmembers set_members set_imports]. rewrite keys_assign_extend. reflexivity.
Qed.

Lemma keys_op_importfrom : forall g ln eln names f,
  keys (fmembers (fst (op_importfrom g ln eln names f))) =
  extend (keys (fmembers f)) (map b_name (importfrom_bindings g ln (fpath f) names)).
Proof.
  induction names as [|x r IH]; intros; [reflexivity|].
  simpl op_importfrom. simpl importfrom_bindings. destruct x as [an ap|an ap|]; [| |apply IH].
  - destruct (String.eqb ap (dot (fpath f) an)).
    + rewrite IH. reflexivity.
    + match goal with |- context [op_importfrom g ln eln r ?f2] =>
        specialize (IH f2); destruct (op_importfrom g ln eln r f2) as [f3 evs] end.
      simpl fst in *. rewrite IH, path_import_all, members_import_all. cbn [fmembers set_members set_imports fpath]. rewrite keys_assign_extend. reflexivity.
  - destruct (String.eqb ap (dot (fpath f) an)).
    + apply IH.
    + match goal with |- context [op_importfrom g ln eln r ?f2] =>
        specialize (IH f2); destruct (op_importfrom g ln eln r f2) as [f3 evs] end.
      simpl fst in *. rewrite IH. cbn [fmembers set_members fpath]. rewrite keys_assign_extend. reflexivity.
Qed.

(* unfolding of the declarative binding functions *)
Lemma lb_SDef : forall k path g pk ln dln eln name a ds body,
  level_bindings k path g pk (SDef ln dln eln name a ds body) =
  if def_is_property a ds then [mkB name ln BProp false g]
  else (if def_is_overload ds then [] else [mkB name (def_first_line ln dln ds) BFun false g]) ++
       (match k with InClass => if String.eqb name "__init__" then init_bindings_list g PFunction body else [] | _ => [] end).
Proof. reflexivity. Qed.
Lemma lbl_eq : forall k path l g pk,
  (fix lbl (g : bool) (pk : pkind) (l : list stmt) {struct l} : list binding :=
     match l with [] => [] | x :: r => level_bindings k path g pk x ++ lbl g pk r end) g pk l
  = level_bindings_list k path g pk l.
Proof. induction l; intros; simpl; [reflexivity|]. rewrite IHl. reflexivity. Qed.
Lemma lb_SIf : forall k path g pk tc body orelse,
  level_bindings k path g pk (SIf tc body orelse) =
  level_bindings_list k path (gbody g pk tc) PIf body ++ level_bindings_list k path (gelse g pk tc) PIf orelse.
Proof. intros. simpl. rewrite !lbl_eq. reflexivity. Qed.
Lemma lb_SBlock : forall k path g pk ch, level_bindings k path g pk (SBlock ch) = level_bindings_list k path g POther ch.
Proof. intros. simpl. rewrite !lbl_eq. reflexivity. Qed.
Lemma lb_SSub : forall k path g pk h body,
  level_bindings k path g pk (SSub h body) = level_bindings_list k path g (if h then PHandler else POther) body.
Proof. intros. simpl. rewrite !lbl_eq. reflexivity. Qed.
Lemma ib_SIf : forall g pk tc body orelse,
  init_bindings g pk (SIf tc body orelse) =
  init_bindings_list (gbody g pk tc) PIf body ++ init_bindings_list (gelse g pk tc) PIf orelse.
Proof. reflexivity. Qed.
Lemma ib_SBlock : forall g pk ch, init_bindings g pk (SBlock ch) = init_bindings_list g POther ch.
Proof. reflexivity. Qed.
Lemma ib_SSub : forall g pk h body, init_bindings g pk (SSub h body) = init_bindings_list g (if h then PHandler else POther) body.
Proof. reflexivity. Qed.

(* what one statement contributes to the names of the receiving level *)
Definition level_names (own : frame) (g : bool) (pk : pkind) (s : stmt) : list string :=
  match fkind own with
  | InInit => map b_name (init_bindings g pk s)
  | k => map b_name (level_bindings k (fpath own) g pk s)
  end.
Definition level_names_list (own : frame) (g : bool) (pk : pkind) (l : list stmt) : list string :=
  match fkind own with
  | InInit => map b_name (init_bindings_list g pk l)
  | k => map b_name (level_bindings_list k (fpath own) g pk l)
  end.
Definition receiver (own up : frame) : frame := match fkind own with InInit => up | _ => own end.

Definition names_stmt (s : stmt) : Prop := forall g pk nd own up,
  let r := sem_stmt g pk nd s own up in
  keys (fmembers (receiver (l_own r) (l_up r))) = extend (keys (fmembers (receiver own up))) (level_names own g pk s).
Definition names_list (l : list stmt) : Prop := forall g pk follow own up,
  let r := sem_list g pk follow l own up in
  keys (fmembers (receiver (l_own r) (l_up r))) = extend (keys (fmembers (receiver own up))) (level_names_list own g pk l).

Lemma level_names_cons : forall own g pk x r,
  level_names_list own g pk (x :: r) = level_names own g pk x ++ level_names_list own g pk r.
Proof. intros. unfold level_names_list, level_names. destruct (fkind own); simpl; apply map_app. Qed.

Lemma level_names_shape : forall own own' g pk l, same_shape own own' -> level_names_list own' g pk l = level_names_list own g pk l.
Proof. unfold level_names_list, same_shape. intros ? ? ? ? ? [A [_ B]]. rewrite A, B. reflexivity. Qed.

Lemma receiver_shape_kind : forall own own' up', fkind own' = fkind own -> receiver own' up' = match fkind own with InInit => up' | _ => own' end.
Proof. unfold receiver. intros. rewrite H. reflexivity. Qed.

Lemma names_list_of : forall l, Forall names_stmt l -> names_list l.
Proof.
  induction 1 as [|x r Hx Hr IH]; intros g pk follow own up.
  - unfold level_names_list. simpl. destruct (fkind own); reflexivity.
  - cbv zeta. rewrite sem_list_cons. cbv zeta. cbn [l_own l_up].
    destruct (sem_facts_all x g pk (next_doc r follow) own up) as [A1 _].
    set (a := sem_stmt g pk (next_doc r follow) x own up) in *.
    pose proof (IH g pk follow (l_own a) (l_up a)) as B. cbv zeta in B. rewrite B.
    pose proof (Hx g pk (next_doc r follow) own up) as C. cbv zeta in C. fold a in C. rewrite C.
    rewrite level_names_cons, extend_app, (level_names_shape own (l_own a) g pk r A1). reflexivity.
Qed.

Lemma descends_kind : forall own name a ds, descends own name a ds = true ->
  fkind own = InClass /\ String.eqb name "__init__" = true /\ def_is_property a ds = false.
Proof.
  unfold descends. intros. destruct (fkind own); try discriminate.
  apply andb_prop in H. destruct H as [H1 H2]. destruct (def_is_property a ds); try discriminate. auto.
Qed.

Lemma names_stmt_all : forall s, names_stmt s.
Proof.
  induction s using stmt_ind2; intros g pk nd own up; cbv zeta.
  - (* SDef *)
    rewrite sem_SDef. cbv zeta.
    pose proof (keys_op_def g ln dln eln name a ds (head_doc body) own) as K.
    pose proof (shape_op_def g ln dln eln name a ds (head_doc body) own) as [S1 [_ S3]].
    destruct (descends own name a ds) eqn:D.
    + destruct (descends_kind _ _ _ _ D) as [Kd [Nm Pr]].
      cbn [l_own l_up]. unfold receiver at 1 2. rewrite Kd.
      pose proof (names_list_of _ H g PFunction None (empty_frame InInit name (child_path own name))
                    (fst (op_def g ln dln eln name a ds (head_doc body) own))) as B.
      cbv zeta in B. unfold receiver in B.
      destruct (sem_list_facts body g PFunction None (empty_frame InInit name (child_path own name))
                  (fst (op_def g ln dln eln name a ds (head_doc body) own))) as [[E _] _].
      rewrite E in B. simpl fkind in B. cbv iota in B.
      assert (R : forall z : frame, match fkind (close_fun (def_installed (fmembers own) name ds) name
                                      (l_own (sem_list g PFunction None body (empty_frame InInit name (child_path own name))
                                      (fst (op_def g ln dln eln name a ds (head_doc body) own))))
                                      (l_up (sem_list g PFunction None body (empty_frame InInit name (child_path own name))
                                      (fst (op_def g ln dln eln name a ds (head_doc body) own))))) with
                  | InInit => up | _ => z end = z).
      { intros z. destruct (sem_list_facts body g PFunction None (empty_frame InInit name (child_path own name))
                  (fst (op_def g ln dln eln name a ds (head_doc body) own))) as [_ [[E2 _] _]].
        destruct (shape_close_fun (def_installed (fmembers own) name ds) name
                    (l_own (sem_list g PFunction None body (empty_frame InInit name (child_path own name))
                                      (fst (op_def g ln dln eln name a ds (head_doc body) own))))
                    (l_up (sem_list g PFunction None body (empty_frame InInit name (child_path own name))
                                      (fst (op_def g ln dln eln name a ds (head_doc body) own))))) as [E3 _].
        rewrite E3, E2, S1, Kd. reflexivity. }
      rewrite R, keys_close_fun, B, K.
      unfold level_names, level_names_list. rewrite Kd. simpl fkind. cbv iota. rewrite lb_SDef, Pr, Nm.
      unfold def_names. rewrite Pr. rewrite map_app, extend_app.
      destruct (def_is_overload ds); reflexivity.
    + cbn [l_own l_up]. unfold receiver, level_names. rewrite S1. unfold descends in D.
      destruct (fkind own) eqn:Kd.
      * rewrite K, lb_SDef. unfold def_names. destruct (def_is_property a ds); [reflexivity|].
        rewrite app_nil_r. destruct (def_is_overload ds); reflexivity.
      * rewrite K, lb_SDef. unfold def_names. destruct (def_is_property a ds) eqn:Pr; [reflexivity|].
        rewrite andb_true_r in D. rewrite D, app_nil_r. destruct (def_is_overload ds); reflexivity.
      * reflexivity.
  - (* SCls *)
    rewrite sem_SCls. cbv zeta. cbn [l_own l_up]. unfold receiver, level_names. cbn [fkind set_members fmembers].
    destruct (fkind own); try reflexivity; apply keys_assign_extend.
  - (* SAssign *)
    simpl sem_stmt. unfold level_names, receiver. unfold op_attr. destruct (fkind own) eqn:Kd.
    + simpl level_bindings. destruct (names_scope ts) as [names|]; [|cbn [l_own l_up]; rewrite Kd; reflexivity].
      pose proof (keys_attr_loop (is_cond pk) g ln eln items false names (attr_labels InModule true false) nd own) as Ka.
      pose proof (shape_attr_loop (is_cond pk) g ln eln items false names (attr_labels InModule true false) nd own) as [Sa _].
      destruct (attr_loop (is_cond pk) g ln eln items false names (attr_labels InModule true false) nd own) as [o' evs].
      cbn [l_own l_up fst] in *. rewrite Sa, Kd, Ka, map_map. simpl. rewrite map_id. reflexivity.
    + simpl level_bindings. destruct (names_scope ts) as [names|]; [|cbn [l_own l_up]; rewrite Kd; reflexivity].
      pose proof (keys_attr_loop (is_cond pk) g ln eln items false names (attr_labels InClass true false) nd own) as Ka.
      pose proof (shape_attr_loop (is_cond pk) g ln eln items false names (attr_labels InClass true false) nd own) as [Sa _].
      destruct (attr_loop (is_cond pk) g ln eln items false names (attr_labels InClass true false) nd own) as [o' evs].
      cbn [l_own l_up fst] in *. rewrite Sa, Kd, Ka, map_map. simpl. rewrite map_id. reflexivity.
    + simpl init_bindings. destruct (names_init ts) as [names|]; [|cbn [l_own l_up]; rewrite Kd; reflexivity].
      pose proof (keys_attr_loop (is_cond pk) g ln eln items false names (attr_labels InInit true false) nd up) as Ka.
      destruct (attr_loop (is_cond pk) g ln eln items false names (attr_labels InInit true false) nd up) as [u' evs].
      cbn [l_own l_up fst] in *. rewrite Kd, Ka, map_map. simpl. rewrite map_id. reflexivity.
  - (* SAnn *)
    simpl sem_stmt. unfold level_names, receiver. unfold op_attr. destruct (fkind own) eqn:Kd.
    + simpl level_bindings. destruct (names_scope [t]) as [names|]; [|cbn [l_own l_up]; rewrite Kd; reflexivity].
      pose proof (keys_attr_loop (is_cond pk) g ln eln items false names (attr_labels InModule hv cv) nd own) as Ka.
      pose proof (shape_attr_loop (is_cond pk) g ln eln items false names (attr_labels InModule hv cv) nd own) as [Sa _].
      destruct (attr_loop (is_cond pk) g ln eln items false names (attr_labels InModule hv cv) nd own) as [o' evs].
      cbn [l_own l_up fst] in *. rewrite Sa, Kd, Ka, map_map. simpl. rewrite map_id. reflexivity.
    + simpl level_bindings. destruct (names_scope [t]) as [names|]; [|cbn [l_own l_up]; rewrite Kd; reflexivity].
      pose proof (keys_attr_loop (is_cond pk) g ln eln items false names (attr_labels InClass hv cv) nd own) as Ka.
      pose proof (shape_attr_loop (is_cond pk) g ln eln items false names (attr_labels InClass hv cv) nd own) as [Sa _].
      destruct (attr_loop (is_cond pk) g ln eln items false names (attr_labels InClass hv cv) nd own) as [o' evs].
      cbn [l_own l_up fst] in *. rewrite Sa, Kd, Ka, map_map. simpl. rewrite map_id. reflexivity.
    + simpl init_bindings. destruct (names_init [t]) as [names|]; [|cbn [l_own l_up]; rewrite Kd; reflexivity].
      pose proof (keys_attr_loop (is_cond pk) g ln eln items false names (attr_labels InInit hv cv) nd up) as Ka.
      destruct (attr_loop (is_cond pk) g ln eln items false names (attr_labels InInit hv cv) nd up) as [u' evs].
      cbn [l_own l_up fst] in *. rewrite Kd, Ka, map_map. simpl. rewrite map_id. reflexivity.
  - (* SAugAll *)
    simpl sem_stmt. cbn [l_own l_up]. unfold receiver, level_names.
    destruct (shape_op_augall items own) as [E _]. rewrite E.
    assert (M : fmembers (op_augall items own) = fmembers own).
    { unfold op_augall. destruct (fkind own); auto. destruct (fexports own); auto. destruct (items_ok items); auto. }
    destruct (fkind own); try rewrite M; reflexivity.
  - (* SImport *)
    simpl sem_stmt. pose proof (keys_op_import g ln eln names own) as Ka.
    pose proof (shape_op_import g ln eln names own) as [Sa _].
    destruct (op_import g ln eln names own) as [o' evs]. cbn [l_own l_up fst] in *.
    unfold receiver, level_names. rewrite Sa. destruct (fkind own); try exact Ka. reflexivity.
  - (* SImportFrom *)
    simpl sem_stmt. pose proof (keys_op_importfrom g ln eln names own) as Ka.
    pose proof (shape_op_importfrom g ln eln names own) as [Sa _].
    destruct (op_importfrom g ln eln names own) as [o' evs]. cbn [l_own l_up fst] in *.
    unfold receiver, level_names. rewrite Sa. destruct (fkind own); try exact Ka. reflexivity.
  - (* SIf *)
    rewrite sem_SIf. cbv zeta. cbn [l_own l_up].
    destruct (sem_list_facts body (gbody g pk tc) PIf None own up) as [A1 _].
    set (a := sem_list (gbody g pk tc) PIf None body own up) in *.
    pose proof (names_list_of _ H0 (gelse g pk tc) PIf None (l_own a) (l_up a)) as B. cbv zeta in B. rewrite B.
    pose proof (names_list_of _ H (gbody g pk tc) PIf None own up) as C. cbv zeta in C. fold a in C. rewrite C.
    rewrite (level_names_shape own (l_own a) (gelse g pk tc) PIf orelse A1), <- extend_app. f_equal.
    unfold level_names, level_names_list. destruct (fkind own); rewrite ?lb_SIf, ?ib_SIf, map_app; reflexivity.
  - (* SBlock *)
    rewrite sem_SBlock. pose proof (names_list_of _ H g POther None own up) as B. cbv zeta in B. rewrite B.
    unfold level_names, level_names_list. destruct (fkind own); rewrite ?lb_SBlock, ?ib_SBlock; reflexivity.
  - (* SSub *)
    rewrite sem_SSub. pose proof (names_list_of _ H g (if h then PHandler else POther) None own up) as B. cbv zeta in B. rewrite B.
    unfold level_names, level_names_list. destruct (fkind own); rewrite ?lb_SSub, ?ib_SSub; reflexivity.
  - simpl. unfold level_names. destruct (fkind own); reflexivity.
  - simpl. unfold level_names. destruct (fkind own); reflexivity.
Qed.

Lemma names_list_all : forall l, names_list l.
Proof. intros. apply names_list_of. apply Forall_forall. intros. apply names_stmt_all. Qed.

Lemma fresh_level_names : forall k name path g body (up : frame), k <> InInit ->
  keys (fmembers (l_own (sem_list g PScope None body (empty_frame k name path) up))) =
  first_names [] (level_bindings_list k path g PScope body).
Proof.
  intros. pose proof (names_list_all body g PScope None (empty_frame k name path) up) as N. cbv zeta in N.
  destruct (sem_list_facts body g PScope None (empty_frame k name path) up) as [[E _] _].
  unfold receiver, level_names_list in N. rewrite E in N. simpl fkind in N. simpl fpath in N.
  destruct k; try congruence; rewrite N; simpl fmembers; apply (extend_first_names _ [] []); reflexivity.
Qed.

Theorem one_member_per_bound_name : forall mname body r,
  run_visit mname body = Ok r ->
  map fst (r_members r) = first_names [] (level_bindings_list InModule mname false PScope body).
Proof.
  intros mname body r. rewrite machine_computes_level_semantics. unfold spec_module.
  destruct (l_err _); [discriminate|]. intros E. injection E as E. subst r. cbn [r_members].
  apply (fresh_level_names InModule mname mname false body sentinel). discriminate.
Qed.

(* every class statement, at whatever nesting depth it is evaluated, stores an object whose members are exactly the
   names bound in its body, in order of first binding *)
Theorem class_members_bound_names : forall g pk nd ln dln eln name ds body own up,
  exists o, lookup name (fmembers (l_own (sem_stmt g pk nd (SCls ln dln eln name ds body) own up))) = Some o /\
            ikind (oinfo o) = KCls /\
            map fst (omembers o) = first_names [] (level_bindings_list InClass (child_path own name) g PScope body).
Proof.
  intros. rewrite sem_SCls. cbv zeta. cbn [l_own fmembers set_members]. rewrite lookup_assign_same.
  eexists. split; [reflexivity|]. split; [reflexivity|]. cbn [omembers].
  apply (fresh_level_names InClass name (child_path own name) g body sentinel). discriminate.
Qed.

(* ================= the surviving binding ================= *)
Definition osum (o : obj) : okind * nat * bool := (ikind (oinfo o), iline (oinfo o), iruntime (oinfo o)).
Definition bsum (b : binding) : okind * nat * bool := (okind_of_bkind (b_kind b), b_line b, negb (b_guard b)).
Definition rel (o : option obj) (c : option binding) : Prop := option_map osum o = option_map bsum c.

Lemma oinfo_close_fun : forall inst name c p n,
  option_map oinfo (lookup n (fmembers (close_fun inst name c p))) = option_map oinfo (lookup n (fmembers p)).
Proof.
  intros. unfold close_fun. destruct inst; auto.
  destruct (lookup name (fmembers p)) as [[i ? ? ?]|] eqn:L; auto. destruct (ikind i); auto.
  cbn [fmembers set_members]. destruct (String.eqb name n) eqn:E.
  - apply String.eqb_eq in E. subst n. rewrite lookup_assign_same, L. reflexivity.
  - rewrite lookup_assign_other; auto.
Qed.
Lemma osum_close_fun : forall inst name c p n,
  option_map osum (lookup n (fmembers (close_fun inst name c p))) = option_map osum (lookup n (fmembers p)).
Proof.
  intros. pose proof (oinfo_close_fun inst name c p n) as H.
  destruct (lookup n (fmembers (close_fun inst name c p))), (lookup n (fmembers p)); simpl in *; try discriminate; auto.
  injection H as H. unfold osum. rewrite H. reflexivity.
Qed.

Lemma survivor_app : forall n a b c, survivor n c (a ++ b) = survivor n (survivor n c a) b.
Proof. induction a as [|x a IH]; intros; simpl; auto. destruct (_ && _); apply IH. Qed.

Lemma lookup_assign : forall A n m (v : A) l, lookup n (assign m v l) = if String.eqb m n then Some v else lookup n l.
Proof.
  intros. destruct (String.eqb m n) eqn:E.
  - apply String.eqb_eq in E. subst. apply lookup_assign_same.
  - apply lookup_assign_other. exact E.
Qed.

Lemma rel_set : forall n name o b ms c, b_name b = name -> b_kind b <> BAttr -> osum o = bsum b ->
  rel (lookup n ms) c -> rel (lookup n (assign name o ms)) (survivor n c [b]).
Proof.
  intros. simpl. rewrite lookup_assign, H. unfold effective.
  destruct (b_kind b) eqn:K; try congruence; rewrite andb_true_r;
    (destruct (String.eqb name n); [unfold rel; simpl; congruence|exact H2]).
Qed.

Lemma no_accessor_base : forall ms n ds, existsb is_accessor ds = false -> base_property ms n ds = None.
Proof.
  induction ds as [|d r IH]; simpl; intros; auto.
  destruct d; simpl in H; [auto|discriminate|auto].
Qed.

Definition def_bindings (g : bool) (ln dln : nat) (name : string) (a : bool) (ds : list deco) : list binding :=
  if def_is_property a ds then [mkB name ln BProp false g]
  else if def_is_overload ds then [] else [mkB name (def_first_line ln dln ds) BFun false g].

Lemma surv_op_def : forall n g ln dln eln name a ds doc f c,
  existsb is_accessor ds = false -> rel (lookup n (fmembers f)) c ->
  rel (lookup n (fmembers (fst (op_def g ln dln eln name a ds doc f)))) (survivor n c (def_bindings g ln dln name a ds)).
Proof.
  intros. unfold op_def, def_bindings. destruct (def_is_property a ds); simpl fst.
  - cbn [fmembers set_members]. apply rel_set; auto. discriminate.
  - destruct (def_is_overload ds); simpl fst; [exact H0|].
    rewrite (no_accessor_base _ _ _ H). simpl fst. cbn [fmembers set_members]. apply rel_set; auto. discriminate.
Qed.

Lemma surv_attr_loop : forall n cond g ln eln items pf names labels doc f c,
  rel (lookup n (fmembers f)) c ->
  rel (lookup n (fmembers (fst (attr_loop cond g ln eln items pf names labels doc f))))
      (survivor n c (map (fun m => mkB m ln BAttr cond g) (plain_names names))).
Proof.
  induction names as [|m r IH]; intros; [exact H|].
  simpl attr_loop. unfold plain_names in *. simpl filter. destruct (has_dot m) eqn:D; simpl negb; cbv iota.
  - apply IH. exact H.
  - simpl map. simpl survivor. unfold effective. simpl b_kind. simpl b_cond. simpl b_name.
    destruct (lookup m (fmembers f)) as [ex|] eqn:L.
    + destruct cond.
      * (* conditional re-assignment of an existing member: kept *)
        destruct (String.eqb m n) eqn:E.
        -- apply String.eqb_eq in E. subst m. unfold rel in H. rewrite L in H. destruct c; [|discriminate].
           simpl. apply IH. unfold rel. rewrite L. exact H.
        -- simpl. apply IH. exact H.
      * match goal with |- context [attr_loop ?c0 ?g0 ?a0 ?b0 ?i0 ?p0 r ?l0 ?d0 ?f2] =>
          specialize (IH l0 d0 f2); destruct (attr_loop c0 g0 a0 b0 i0 p0 r l0 d0 f2) as [f3 evs] eqn:EQ end.
        simpl fst in *. rewrite andb_true_r. simpl andb.
        assert (M : forall fr, fmembers (if String.eqb m "__all__" && items_ok items then set_exports fr (Some items) else fr) = fmembers fr)
          by (intros; destruct (String.eqb m "__all__" && items_ok items); reflexivity).
        destruct (String.eqb m n) eqn:E; apply IH; rewrite M; cbn [fmembers set_members]; rewrite lookup_assign, E;
          [reflexivity|exact H].
    + match goal with |- context [attr_loop ?c0 ?g0 ?a0 ?b0 ?i0 ?p0 r ?l0 ?d0 ?f2] =>
        specialize (IH l0 d0 f2); destruct (attr_loop c0 g0 a0 b0 i0 p0 r l0 d0 f2) as [f3 evs] eqn:EQ end.
      simpl fst in *.
      assert (M : forall fr, fmembers (if String.eqb m "__all__" && items_ok items then set_exports fr (Some items) else fr) = fmembers fr)
        by (intros; destruct (String.eqb m "__all__" && items_ok items); reflexivity).
      destruct (String.eqb m n) eqn:E.
      * apply String.eqb_eq in E. subst m. unfold rel in H. rewrite L in H. destruct c; [discriminate|].
        simpl. rewrite andb_false_r. simpl. apply IH. rewrite M. cbn [fmembers set_members]. rewrite lookup_assign_same. reflexivity.
      * simpl. apply IH. rewrite M. cbn [fmembers set_members]. rewrite lookup_assign_other; auto.
Qed.

Lemma surv_op_import : forall n g ln eln names f c,
  rel (lookup n (fmembers f)) c ->
  rel (lookup n (fmembers (fst (op_import g ln eln names f)))) (survivor n c (import_bindings g ln names)).
Proof.
  induction names as [|[an ap] r IH]; intros; [exact H|].
  simpl op_import.
  match goal with |- context [op_import g ln eln r ?f2] =>
    specialize (IH f2); destruct (op_import g ln eln r f2) as [f3 evs] end.
  simpl fst in *. change (import_bindings g ln ((an, ap) :: r)) with ([mkB an ln BAlias false g] ++ import_bindings g ln r).
  rewrite survivor_app. apply IH. cbn [fmembers set_members set_imports]. apply rel_set; auto. discriminate.
Qed.

Lemma surv_op_importfrom : forall n g ln eln names f c,
  rel (lookup n (fmembers f)) c ->
  rel (lookup n (fmembers (fst (op_importfrom g ln eln names f)))) (survivor n c (importfrom_bindings g ln (fpath f) names)).
Proof.
  induction names as [|x r IH]; intros; [exact H|].
  simpl op_importfrom. simpl importfrom_bindings. destruct x as [an ap|an ap|]; [| |apply IH; exact H].
  - destruct (String.eqb ap (dot (fpath f) an)).
    + apply (IH (set_imports f (assign an ap (fimports f)))). exact H.
    + match goal with |- context [op_importfrom g ln eln r ?f2] =>
        specialize (IH f2); destruct (op_importfrom g ln eln r f2) as [f3 evs] end.
      simpl fst in *. change (?b :: importfrom_bindings g ln (fpath f) r) with ([b] ++ importfrom_bindings g ln (fpath f) r).
      rewrite survivor_app. rewrite path_import_all in IH. apply IH. rewrite members_import_all.
      cbn [fmembers set_members set_imports]. apply rel_set; auto. discriminate.
  - destruct (String.eqb ap (dot (fpath f) an)).
    + apply IH. exact H.
    + match goal with |- context [op_importfrom g ln eln r ?f2] =>
        specialize (IH f2); destruct (op_importfrom g ln eln r f2) as [f3 evs] end.
      simpl fst in *. change (?b :: importfrom_bindings g ln (fpath f) r) with ([b] ++ importfrom_bindings g ln (fpath f) r).
      rewrite survivor_app. apply IH. cbn [fmembers set_members]. apply rel_set; auto. discriminate.
Qed.

Lemma ha_SDef : forall ln dln eln name a ds body,
  has_accessor (SDef ln dln eln name a ds body) = existsb is_accessor ds || has_accessor_list body.
Proof. reflexivity. Qed.
Lemma ha_SCls : forall ln dln eln name ds body, has_accessor (SCls ln dln eln name ds body) = has_accessor_list body.
Proof. reflexivity. Qed.
Lemma ha_SIf : forall tc body orelse, has_accessor (SIf tc body orelse) = has_accessor_list body || has_accessor_list orelse.
Proof. reflexivity. Qed.
Lemma ha_SBlock : forall ch, has_accessor (SBlock ch) = has_accessor_list ch.
Proof. reflexivity. Qed.
Lemma ha_SSub : forall h body, has_accessor (SSub h body) = has_accessor_list body.
Proof. reflexivity. Qed.

Definition level_binds (own : frame) (g : bool) (pk : pkind) (s : stmt) : list binding :=
  match fkind own with InInit => init_bindings g pk s | k => level_bindings k (fpath own) g pk s end.
Definition level_binds_list (own : frame) (g : bool) (pk : pkind) (l : list stmt) : list binding :=
  match fkind own with InInit => init_bindings_list g pk l | k => level_bindings_list k (fpath own) g pk l end.

Definition surv_stmt (s : stmt) : Prop := forall n g pk nd own up c,
  has_accessor s = false -> rel (lookup n (fmembers (receiver own up))) c ->
  let r := sem_stmt g pk nd s own up in
  rel (lookup n (fmembers (receiver (l_own r) (l_up r)))) (survivor n c (level_binds own g pk s)).
Definition surv_list (l : list stmt) : Prop := forall n g pk follow own up c,
  has_accessor_list l = false -> rel (lookup n (fmembers (receiver own up))) c ->
  let r := sem_list g pk follow l own up in
  rel (lookup n (fmembers (receiver (l_own r) (l_up r)))) (survivor n c (level_binds_list own g pk l)).

Lemma level_binds_shape : forall own own' g pk l, same_shape own own' -> level_binds_list own' g pk l = level_binds_list own g pk l.
Proof. unfold level_binds_list, same_shape. intros ? ? ? ? ? [A [_ B]]. rewrite A, B. reflexivity. Qed.

Lemma surv_list_of : forall l, Forall surv_stmt l -> surv_list l.
Proof.
  induction 1 as [|x r Hx Hr IH]; intros n g pk follow own up c HA HR.
  - cbv zeta. unfold level_binds_list. simpl. destruct (fkind own); exact HR.
  - cbv zeta. rewrite sem_list_cons. cbv zeta. cbn [l_own l_up].
    simpl in HA. apply orb_false_elim in HA. destruct HA as [HA1 HA2].
    destruct (sem_facts_all x g pk (next_doc r follow) own up) as [A1 _].
    pose proof (Hx n g pk (next_doc r follow) own up c HA1 HR) as C. cbv zeta in C.
    set (a := sem_stmt g pk (next_doc r follow) x own up) in *.
    pose proof (IH n g pk follow (l_own a) (l_up a) _ HA2 C) as B. cbv zeta in B.
    rewrite (level_binds_shape own (l_own a) g pk r A1) in B.
    assert (E : level_binds_list own g pk (x :: r) = level_binds own g pk x ++ level_binds_list own g pk r).
    { unfold level_binds_list, level_binds. destruct (fkind own); reflexivity. }
    rewrite E, survivor_app. exact B.
Qed.

Lemma surv_stmt_all : forall s, surv_stmt s.
Proof.
  induction s using stmt_ind2; intros n g pk nd own up c HA HR; cbv zeta.
  - (* SDef *)
    rewrite ha_SDef in HA. apply orb_false_elim in HA. destruct HA as [HA1 HA2].
    rewrite sem_SDef. cbv zeta.
    pose proof (shape_op_def g ln dln eln name a ds (head_doc body) own) as [S1 [_ S3]].
    destruct (descends own name a ds) eqn:D.
    + destruct (descends_kind _ _ _ _ D) as [Kd [Nm Pr]].
      cbn [l_own l_up]. unfold receiver in *. rewrite Kd in *.
      pose proof (surv_op_def n g ln dln eln name a ds (head_doc body) own c HA1 HR) as K.
      set (own1 := fst (op_def g ln dln eln name a ds (head_doc body) own)) in *.
      pose proof (surv_list_of _ H n g PFunction None (empty_frame InInit name (child_path own name)) own1
                    (survivor n c (def_bindings g ln dln name a ds)) HA2) as B.
      cbv zeta in B. unfold receiver in B. simpl fkind in B. cbv iota in B. specialize (B K).
      destruct (sem_list_facts body g PFunction None (empty_frame InInit name (child_path own name)) own1) as [[E _] [[E2 _] _]].
      rewrite E in B. simpl fkind in B. cbv iota in B.
      destruct (shape_close_fun (def_installed (fmembers own) name ds) name
                  (l_own (sem_list g PFunction None body (empty_frame InInit name (child_path own name)) own1))
                  (l_up (sem_list g PFunction None body (empty_frame InInit name (child_path own name)) own1))) as [E3 _].
      rewrite E3, E2, S1. unfold rel. rewrite osum_close_fun. fold (rel (lookup n (fmembers (l_up (sem_list g PFunction None body (empty_frame InInit name (child_path own name)) own1)))) (survivor n c (level_binds own g pk (SDef ln dln eln name a ds body)))).
      unfold level_binds. rewrite Kd, lb_SDef, Pr, Nm.
      unfold level_binds_list in B. simpl fkind in B. cbv iota in B.
      unfold def_bindings in B. rewrite Pr in B. rewrite survivor_app. exact B.
    + cbn [l_own l_up]. unfold receiver in *. rewrite S1. unfold descends in D. unfold level_binds.
      destruct (fkind own) eqn:Kd.
      * pose proof (surv_op_def n g ln dln eln name a ds (head_doc body) own c HA1 HR) as K.
        rewrite lb_SDef. unfold def_bindings in K. destruct (def_is_property a ds); [exact K|]. rewrite app_nil_r. exact K.
      * pose proof (surv_op_def n g ln dln eln name a ds (head_doc body) own c HA1 HR) as K.
        rewrite lb_SDef. unfold def_bindings in K. destruct (def_is_property a ds) eqn:Pr; [exact K|].
        rewrite andb_true_r in D. rewrite D, app_nil_r. exact K.
      * exact HR.
  - (* SCls *)
    rewrite sem_SCls. cbv zeta. cbn [l_own l_up]. unfold receiver, level_binds in *. cbn [fkind set_members fmembers].
    destruct (fkind own); try exact HR; apply rel_set; auto; discriminate.
  - (* SAssign *)
    simpl sem_stmt. unfold level_binds, receiver in *. unfold op_attr. destruct (fkind own) eqn:Kd.
    + simpl level_bindings. destruct (names_scope ts) as [names|]; [|cbn [l_own l_up]; rewrite Kd; exact HR].
      pose proof (surv_attr_loop n (is_cond pk) g ln eln items false names (attr_labels InModule true false) nd own c HR) as Ka.
      pose proof (shape_attr_loop (is_cond pk) g ln eln items false names (attr_labels InModule true false) nd own) as [Sa _].
      destruct (attr_loop (is_cond pk) g ln eln items false names (attr_labels InModule true false) nd own) as [o' evs].
      cbn [l_own l_up fst] in *. rewrite Sa, Kd. exact Ka.
    + simpl level_bindings. destruct (names_scope ts) as [names|]; [|cbn [l_own l_up]; rewrite Kd; exact HR].
      pose proof (surv_attr_loop n (is_cond pk) g ln eln items false names (attr_labels InClass true false) nd own c HR) as Ka.
      pose proof (shape_attr_loop (is_cond pk) g ln eln items false names (attr_labels InClass true false) nd own) as [Sa _].
      destruct (attr_loop (is_cond pk) g ln eln items false names (attr_labels InClass true false) nd own) as [o' evs].
      cbn [l_own l_up fst] in *. rewrite Sa, Kd. exact Ka.
    + simpl init_bindings. destruct (names_init ts) as [names|]; [|cbn [l_own l_up]; rewrite Kd; exact HR].
      pose proof (surv_attr_loop n (is_cond pk) g ln eln items false names (attr_labels InInit true false) nd up c HR) as Ka.
      destruct (attr_loop (is_cond pk) g ln eln items false names (attr_labels InInit true false) nd up) as [u' evs].
      cbn [l_own l_up fst] in *. rewrite Kd. exact Ka.
  - (* SAnn *)
    simpl sem_stmt. unfold level_binds, receiver in *. unfold op_attr. destruct (fkind own) eqn:Kd.
    + simpl level_bindings. destruct (names_scope [t]) as [names|]; [|cbn [l_own l_up]; rewrite Kd; exact HR].
      pose proof (surv_attr_loop n (is_cond pk) g ln eln items false names (attr_labels InModule hv cv) nd own c HR) as Ka.
      pose proof (shape_attr_loop (is_cond pk) g ln eln items false names (attr_labels InModule hv cv) nd own) as [Sa _].
      destruct (attr_loop (is_cond pk) g ln eln items false names (attr_labels InModule hv cv) nd own) as [o' evs].
      cbn [l_own l_up fst] in *. rewrite Sa, Kd. exact Ka.
    + simpl level_bindings. destruct (names_scope [t]) as [names|]; [|cbn [l_own l_up]; rewrite Kd; exact HR].
      pose proof (surv_attr_loop n (is_cond pk) g ln eln items false names (attr_labels InClass hv cv) nd own c HR) as Ka.
      pose proof (shape_attr_loop (is_cond pk) g ln eln items false names (attr_labels InClass hv cv) nd own) as [Sa _].
      destruct (attr_loop (is_cond pk) g ln eln items false names (attr_labels InClass hv cv) nd own) as [o' evs].
      cbn [l_own l_up fst] in *. rewrite Sa, Kd. exact Ka.
    + simpl init_bindings. destruct (names_init [t]) as [names|]; [|cbn [l_own l_up]; rewrite Kd; exact HR].
      pose proof (surv_attr_loop n (is_cond pk) g ln eln items false names (attr_labels InInit hv cv) nd up c HR) as Ka.
      destruct (attr_loop (is_cond pk) g ln eln items false names (attr_labels InInit hv cv) nd up) as [u' evs].
      cbn [l_own l_up fst] in *. rewrite Kd. exact Ka.
  - (* SAugAll *)
    simpl sem_stmt. cbn [l_own l_up]. unfold receiver, level_binds in *.
    destruct (shape_op_augall items own) as [E _]. rewrite E.
    assert (M : fmembers (op_augall items own) = fmembers own).
    { unfold op_augall. destruct (fkind own); auto. destruct (fexports own); auto. destruct (items_ok items); auto. }
    destruct (fkind own); try rewrite M; exact HR.
  - (* SImport *)
    simpl sem_stmt. unfold receiver, level_binds in *.
    pose proof (shape_op_import g ln eln names own) as [Sa _].
    destruct (fkind own) eqn:Kd.
    + pose proof (surv_op_import n g ln eln names own c HR) as Ka.
      destruct (op_import g ln eln names own) as [o' evs]. cbn [l_own l_up fst] in *. rewrite Sa. exact Ka.
    + pose proof (surv_op_import n g ln eln names own c HR) as Ka.
      destruct (op_import g ln eln names own) as [o' evs]. cbn [l_own l_up fst] in *. rewrite Sa. exact Ka.
    + destruct (op_import g ln eln names own) as [o' evs]. cbn [l_own l_up fst] in *. rewrite Sa. exact HR.
  - (* SImportFrom *)
    simpl sem_stmt. unfold receiver, level_binds in *.
    pose proof (shape_op_importfrom g ln eln names own) as [Sa _].
    destruct (fkind own) eqn:Kd.
    + pose proof (surv_op_importfrom n g ln eln names own c HR) as Ka.
      destruct (op_importfrom g ln eln names own) as [o' evs]. cbn [l_own l_up fst] in *. rewrite Sa. exact Ka.
    + pose proof (surv_op_importfrom n g ln eln names own c HR) as Ka.
      destruct (op_importfrom g ln eln names own) as [o' evs]. cbn [l_own l_up fst] in *. rewrite Sa. exact Ka.
    + destruct (op_importfrom g ln eln names own) as [o' evs]. cbn [l_own l_up fst] in *. rewrite Sa. exact HR.
  - (* SIf *)
    rewrite ha_SIf in HA. apply orb_false_elim in HA. destruct HA as [HA1 HA2].
    rewrite sem_SIf. cbv zeta. cbn [l_own l_up].
    destruct (sem_list_facts body (gbody g pk tc) PIf None own up) as [A1 _].
    pose proof (surv_list_of _ H n (gbody g pk tc) PIf None own up c HA1 HR) as C. cbv zeta in C.
    set (a := sem_list (gbody g pk tc) PIf None body own up) in *.
    pose proof (surv_list_of _ H0 n (gelse g pk tc) PIf None (l_own a) (l_up a) _ HA2 C) as B. cbv zeta in B.
    rewrite (level_binds_shape own (l_own a) (gelse g pk tc) PIf orelse A1) in B.
    assert (E : level_binds own g pk (SIf tc body orelse) =
                level_binds_list own (gbody g pk tc) PIf body ++ level_binds_list own (gelse g pk tc) PIf orelse).
    { unfold level_binds, level_binds_list. destruct (fkind own); rewrite ?lb_SIf, ?ib_SIf; reflexivity. }
    rewrite E, survivor_app. exact B.
  - (* SBlock *)
    rewrite ha_SBlock in HA. rewrite sem_SBlock.
    pose proof (surv_list_of _ H n g POther None own up c HA HR) as B. cbv zeta in B.
    assert (E : level_binds own g pk (SBlock ch) = level_binds_list own g POther ch).
    { unfold level_binds, level_binds_list. destruct (fkind own); rewrite ?lb_SBlock, ?ib_SBlock; reflexivity. }
    rewrite E. exact B.
  - (* SSub *)
    rewrite ha_SSub in HA. rewrite sem_SSub.
    pose proof (surv_list_of _ H n g (if h then PHandler else POther) None own up c HA HR) as B. cbv zeta in B.
    assert (E : level_binds own g pk (SSub h body) = level_binds_list own g (if h then PHandler else POther) body).
    { unfold level_binds, level_binds_list. destruct (fkind own); rewrite ?lb_SSub, ?ib_SSub; reflexivity. }
    rewrite E. exact B.
  - simpl. unfold level_binds. destruct (fkind own); exact HR.
  - simpl. unfold level_binds. destruct (fkind own); exact HR.
Qed.

Lemma surv_list_all : forall l, surv_list l.
Proof. intros. apply surv_list_of. apply Forall_forall. intros. apply surv_stmt_all. Qed.

(* kind, reported first line and runtime flag of every module member are those of the binding that survives *)
Theorem surviving_kind : forall mname body r n,
  has_accessor_list body = false -> run_visit mname body = Ok r ->
  option_map osum (lookup n (r_members r)) =
  option_map bsum (survivor n None (level_bindings_list InModule mname false PScope body)).
Proof.
  intros mname body r n HA. rewrite machine_computes_level_semantics. unfold spec_module.
  destruct (l_err _); [discriminate|]. intros E. injection E as E. subst r. cbn [r_members].
  pose proof (surv_list_all body n false PScope None (empty_frame InModule mname mname) sentinel None HA) as S.
  cbv zeta in S. unfold receiver, level_binds_list in S.
  destruct (sem_list_facts body false PScope None (empty_frame InModule mname mname) sentinel) as [[E _] _].
  rewrite E in S. simpl fkind in S. simpl fpath in S. cbv iota in S. apply S. reflexivity.
Qed.

Theorem class_surviving_kind : forall g pk nd ln dln eln name ds body own up n,
  has_accessor_list body = false ->
  exists o, lookup name (fmembers (l_own (sem_stmt g pk nd (SCls ln dln eln name ds body) own up))) = Some o /\
            option_map osum (lookup n (omembers o)) =
            option_map bsum (survivor n None (level_bindings_list InClass (child_path own name) g PScope body)).
Proof.
  intros. rewrite sem_SCls. cbv zeta. cbn [l_own fmembers set_members]. rewrite lookup_assign_same.
  eexists. split; [reflexivity|]. cbn [omembers].
  pose proof (surv_list_all body n g PScope None (empty_frame InClass name (child_path own name)) sentinel None H) as S.
  cbv zeta in S. unfold receiver, level_binds_list in S.
  destruct (sem_list_facts body g PScope None (empty_frame InClass name (child_path own name)) sentinel) as [[E _] _].
  rewrite E in S. simpl fkind in S. simpl fpath in S. cbv iota in S. apply S. reflexivity.
Qed.

(* ================= regression examples for repaired defects, witness of the remaining one ================= *)
Definition member_doc (mname : string) (body : list stmt) (n : string) : option (option (nat * nat)) :=
  match run_visit mname body with Ok r => option_map (fun o => idoc (oinfo o)) (lookup n (r_members r)) | Err _ => None end.
Definition member_labels (mname : string) (body : list stmt) (n : string) : option (list string) :=
  match run_visit mname body with Ok r => option_map (fun o => ilabels (oinfo o)) (lookup n (r_members r)) | Err _ => None end.

(* was F2:  if c: x = 1 / else: 'string'   -- the string of the else branch is not the docstring of x *)
Definition doc_else_witness : list stmt := [SIf TCNone [SAssign 2 2 [TName "x"] []] [SDoc 4 4]].
(* was F3:  x = 1 / 'doc of x' / async def y(): ... / x = y = 2   -- x keeps its docstring, y gets its own labels only *)
Definition chained_leak_witness : list stmt :=
  [SAssign 1 1 [TName "x"] []; SDoc 2 2; SDef 3 3 3 "y" true [] [SOther]; SAssign 4 4 [TName "x"; TName "y"] []].
(* was F1:  class C: def __init__(self): @overload def f(): ... *)
Definition overload_in_init_witness : list stmt :=
  [SCls 1 1 4 "C" [] [SDef 2 2 4 "__init__" false [] [SDef 4 3 4 "f" false [DPath "typing.overload"] [SOther]]]].
Example repaired_defects :
  member_doc "m" doc_else_witness "x" = Some None /\
  member_doc "m" chained_leak_witness "x" = Some (Some (2, 2)) /\
  member_doc "m" chained_leak_witness "y" = Some None /\
  member_labels "m" chained_leak_witness "y" = Some ["module-attribute"; "async"] /\
  (exists r, run_visit "m" overload_in_init_witness = Ok r).
Proof. repeat split; try (vm_compute; reflexivity). eexists. vm_compute. reflexivity. Qed.

(* F6:  @overload def f(): ...  alone binds f in Python and yields no member *)
Definition overload_only_witness : list stmt := [SDef 2 1 2 "f" false [DPath "typing.overload"] [SOther]].
Lemma overload_only_refuted :
  exists r, run_visit "m" overload_only_witness = Ok r /\ r_members r = [].
Proof. eexists. split; vm_compute; reflexivity. Qed.

(* non-vacuity: a module on which every hypothesis of the theorems holds and several rules fire *)
Definition sample_module : list stmt :=
  [SDoc 1 1;
   SImport 2 2 [("os", "os")];
   SIf TCPos [SImportFrom 4 4 [IName "T" "typing.T"]] [SAssign 6 6 [TName "x"] []];
   SCls 8 7 14 "C" [DPath "dataclasses.dataclass"]
     [SDoc 9 9; SAssign 10 10 [TName "x"] []; SDoc 11 11;
      SDef 12 12 14 "__init__" false [] [SAssign 13 13 [TSelf "y"] []; SIf TCNone [SAssign 14 14 [TSelf "x"] []] []]];
   SDef 15 15 15 "x" false [] [SOther];
   SBlock [SAssign 17 17 [TName "x"] []; SSub true [SAssign 19 19 [TName "x"] []]]].
Example sample_module_ok :
  has_accessor_list sample_module = false /\
  first_names [] (level_bindings_list InModule "m" false PScope sample_module) = ["os"; "T"; "x"; "C"] /\
  option_map bsum (survivor "x" None (level_bindings_list InModule "m" false PScope sample_module)) = Some (KAttr, 17, true) /\
  option_map bsum (survivor "T" None (level_bindings_list InModule "m" false PScope sample_module)) = Some (KAlias, 4, false).
Proof. vm_compute. repeat split; reflexivity. Qed.
