(* C15 proofs, part 5: a history of calls on ONE loader refines to the stateless reading -- the same calls made on fresh
   loaders built by griffe.load with the same options and search paths (the loader carries nothing from one call to the
   next that matters here: its options are fixed, its finder paths only depend on what it was given). *)
From Coq Require Import List ZArith String Ascii Bool Arith Lia.
From Verif Require Import Lib.Sexp Model.C15_base Gen.C15_ladder Model.C15_loader Proofs.C15_loader.
Import ListNotations.
Open Scope string_scope. Open Scope list_scope. Open Scope nat_scope.
Arguments caught_by : simpl never.

Definition phase_of_step (w : world) (given : list path) (h : hstep) : phase :=
  mkPhase ELoad w given [] (hs_submodules h) (hs_root h) (hs_later h).

Lemma finder_paths_given : forall g r sp sp', finder_paths (g :: r) sp = finder_paths (g :: r) sp'.
Proof. reflexivity. Qed.

Lemma load_entry_is_transparent :
  forall a f st sm, entry_allow ELoad a = a /\ entry_force ELoad f = f /\ entry_store ELoad st = st /\
                    entry_submodules ELoad sm = sm /\ entry_catches ELoad = [].
Proof. intros. repeat split; reflexivity. Qed.

Lemma caught_by_nil : forall x, caught_by [] x = false.
Proof. reflexivity. Qed.

Lemma phase_search_of_step :
  forall w g r sp h s, phase_search (phase_of_step w (g :: r) h) s = finder_paths (g :: r) sp.
Proof. reflexivity. Qed.

Lemma run_phases_cons :
  forall a f st ph r s,
    run_phases a f st (ph :: r) s =
    match session (ph_world ph) (entry_allow (ph_entry ph) a) (entry_force (ph_entry ph) f) (entry_store (ph_entry ph) st)
                  (entry_submodules (ph_entry ph) (ph_submodules ph)) (phase_search ph s) (ph_root ph) (ph_later ph) s with
    | (None, s1) => run_phases a f st r s1
    | (Some x, s1) => if caught_by (entry_catches (ph_entry ph)) x then run_phases a f st r s1 else (Some x, s1)
    end.
Proof. reflexivity. Qed.

Lemma run_history_cons :
  forall w a f st search catch h r s,
    run_history w a f st search catch (h :: r) s =
    match session w a f st (hs_submodules h) search (hs_root h) (hs_later h) s with
    | (None, s1) => run_history w a f st search catch r s1
    | (Some x, s1) => if caught_by catch x then run_history w a f st search catch r s1 else (Some x, s1)
    end.
Proof. reflexivity. Qed.

(* with search paths given, and a caller that swallows nothing between the calls *)
Theorem history_refines_to_fresh_loaders :
  forall w allow force store g r syspath steps s,
    run_history w allow force store (finder_paths (g :: r) syspath) [] steps s =
    run_phases allow force store (map (phase_of_step w (g :: r)) steps) s.
Proof.
  intros w a f st g r sp steps. induction steps as [| h t IH]; intros s; [reflexivity |].
  change (map (phase_of_step w (g :: r)) (h :: t)) with (phase_of_step w (g :: r) h :: map (phase_of_step w (g :: r)) t).
  rewrite run_history_cons, run_phases_cons.
  rewrite (phase_search_of_step w g r sp h s).
  change (ph_entry (phase_of_step w (g :: r) h)) with ELoad.
  change (ph_world (phase_of_step w (g :: r) h)) with w.
  change (ph_submodules (phase_of_step w (g :: r) h)) with (hs_submodules h).
  change (ph_root (phase_of_step w (g :: r) h)) with (hs_root h).
  change (ph_later (phase_of_step w (g :: r) h)) with (hs_later h).
  destruct (load_entry_is_transparent a f st (hs_submodules h)) as (Ea & Ef & Es & Em & Ec).
  rewrite Ea, Ef, Es, Em, Ec.
  destruct (session w a f st (hs_submodules h) (finder_paths (g :: r) sp) (hs_root h) (hs_later h) s) as [res s1].
  destruct res as [x |]; [rewrite caught_by_nil; reflexivity | apply IH].
Qed.

(* non-vacuity: load p, then resolve (re-entering for q), then load q again -- both readings agree, event for event *)
Example history_refinement_exercised :
  let top n := mkMod [n] ["sp"; n] "__init__" ".py" None in
  let c := mkMod ["q"; "c"] ["sp"; "q"] "c" ".pyc" None in
  let w := mkWorld [("p", FPkg (top "p") [] None); ("q", FPkg (top "q") [c] None)]
                   [(["q"], mkBeh (Some ["sp"]) true [EIns0 ["x"]] None); (["q"; "c"], mkBeh None true [] None)] [] [] in
  let steps := [mkStep true (Some (RNode "p" [])) []; mkStep true None [RNode "q" []]; mkStep true (Some (RNode "q" [])) []] in
  let s0 := init_state [["orig"]] in
  run_history w true false true (finder_paths [["sp"]] [["orig"]]) [] steps s0 = run_phases true false true (map (phase_of_step w [["sp"]]) steps) s0 /\
  List.length (executions (snd (run_history w true false true (finder_paths [["sp"]] [["orig"]]) [] steps s0))) = 2.
Proof. vm_compute. split; reflexivity. Qed.
