(* C09 -- membership in a shape grammar without explicit derivation heights: introduction lemmas shared by the proofs
   about expressions (Proofs/C09_expr.v) and about the object skeleton (Proofs/C09_enc.v). *)
From Coq Require Import List ZArith String Ascii Bool Arith Lia.
From Verif Require Import Lib.Sexp Model.C09_json Proofs.C09_schema.
Import ListNotations.
Open Scope string_scope.
Open Scope list_scope.
Open Scope nat_scope.

(* ---------- membership without heights ---------- *)

Section Intro.
  Variable G : grammar.
  Definition M (sh : shape) (j : json) : Prop := exists h, mem G h sh j = true.

  Lemma M_common : forall A (f : A -> shape) (v : A -> json) l,
    Forall (fun x => M (f x) (v x)) l -> exists h, Forall (fun x => mem G h (f x) (v x) = true) l.
  Proof.
    induction 1 as [|x l [h1 H1] _ [h2 H2]]; [exists 0; constructor|].
    exists (Nat.max h1 h2). constructor.
    - eapply mem_mono; [|exact H1]. lia.
    - eapply Forall_impl; [|exact H2]. intros a Ha. eapply mem_mono; [|exact Ha]. lia.
  Qed.

  Lemma M_null : M ShNull JNull. Proof. now exists 1. Qed.
  Lemma M_int : forall z, M ShInt (JInt z). Proof. now exists 1. Qed.
  Lemma M_str : forall s, M ShStr (JStr s). Proof. now exists 1. Qed.
  Lemma M_any : forall j, M ShAny j. Proof. intros j. exists 1. now destruct j. Qed.
  Lemma M_lit : forall s, M (ShLit s) (JStr s). Proof. intros s. exists 1. simpl. apply String.eqb_refl. Qed.

  Lemma M_arr : forall e l, Forall (M e) l -> M (ShArr e) (JArr l).
  Proof.
    intros e l H. destruct (M_common json (fun _ => e) (fun x => x) l H) as [h Hh].
    exists (S h). simpl. apply forallb_forall. rewrite Forall_forall in Hh. auto.
  Qed.

  Lemma M_map : forall v kvs, Forall (fun kv => M v (snd kv)) kvs -> M (ShMap v) (JObj kvs).
  Proof.
    intros v kvs H. destruct (M_common (string * json) (fun _ => v) (fun kv => snd kv) kvs H) as [h Hh].
    exists (S h). simpl. apply forallb_forall. rewrite Forall_forall in Hh. auto.
  Qed.

  Definition entry_ok (fs : list (string * (bool * shape))) (kv : string * json) : Prop :=
    exists m fsh, lookup (fst kv) fs = Some (m, fsh) /\ M fsh (snd kv).

  Lemma M_obj : forall fs kvs, Forall (entry_ok fs) kvs ->
    forallb (fun f => negb (fst (snd f)) || key_in (fst f) kvs) fs = true -> M (ShObj fs) (JObj kvs).
  Proof.
    intros fs kvs H Hm.
    assert (X : exists h, Forall (fun kv => match lookup (fst kv) fs with Some (_, fsh) => mem G h fsh (snd kv) | None => false end = true) kvs).
    { clear Hm. induction H as [|kv l [m [fsh [L [h1 H1]]]] _ [h2 H2]]; [exists 0; constructor|].
      exists (Nat.max h1 h2). constructor.
      - rewrite L. eapply mem_mono; [|exact H1]. lia.
      - eapply Forall_impl; [|exact H2]. intros a Ha. cbv beta in *.
        destruct (lookup (fst a) fs) as [[m' fsh']|]; [|discriminate]. eapply mem_mono; [|exact Ha]. lia. }
    destruct X as [h Hh]. exists (S h). simpl. apply andb_true_iff. split; [|assumption].
    apply forallb_forall. rewrite Forall_forall in Hh. auto.
  Qed.

  Lemma M_union : forall l a j, In a l -> M a j -> M (ShUnion l) j.
  Proof.
    intros l a j Hin [h H]. exists (S h).
    assert (E : existsb (fun a => mem G h a j) l = true) by (apply existsb_exists; eauto).
    destruct j; exact E.
  Qed.

  Lemma M_ref : forall nt sh j, lookup nt G = Some sh -> M sh j -> M (ShRef nt) j.
  Proof.
    intros nt sh j L [h H]. exists (S h).
    assert (E : match lookup nt G with Some sh' => mem G h sh' j | None => false end = true) by now rewrite L.
    destruct j; exact E.
  Qed.

End Intro.



Ltac entry := eexists; eexists; split; [reflexivity|].

(* ---------- small list facts ---------- *)

Lemma key_in_map_fst : forall A k (l : list (string * A)), In k (map fst l) -> key_in k l = true.
Proof.
  intros A k l H. apply in_map_iff in H. destruct H as [[k' v] [E Hin]]. simpl in E. subst k'. eapply In_key_in; eauto.
Qed.

Lemma map_fst_combine : forall A B (a : list A) (b : list B), List.length a = List.length b -> map fst (combine a b) = a.
Proof.
  induction a as [|x a IH]; intros [|y b] H; simpl in *; try discriminate; [reflexivity|]. f_equal. apply IH. now inversion H.
Qed.

