(* C19 proofs, fifth part: the double merge with a separate stubs package (stubs submodules loaded into the stubs module
   between the two merges). *)
From Coq Require Import List ZArith String Bool Arith Lia.
From Verif Require Import Lib.Sexp Model.C19_merge Model.C19_reload Proofs.C19_merge Proofs.C19_reload.
Import ListNotations.
Open Scope string_scope. Open Scope list_scope. Open Scope nat_scope.

(* one step of the members loop, then the rest *)
Lemma merge_members_cons_split : forall rec n sm r acc,
  merge_members rec ((n, sm) :: r) acc =
  match merge_members rec [(n, sm)] acc with
  | (acc', None) => merge_members rec r acc'
  | (acc', Some e) => (acc', Some e)
  end.
Proof.
  intros rec n sm r acc. simpl.
  destruct (lookup n acc) as [om|]; [|reflexivity].
  destruct sm as [smd smms|tg rt|tg rt y]; try reflexivity.
  destruct (final om) as [omd omms|tg rt|tg rt y]; try reflexivity.
  destruct (kind_eqb (nkind omd) (nkind smd)); try reflexivity.
  destruct (nkind omd); try reflexivity;
    destruct (rec (Obj smd smms) (Obj omd omms)) as [t|e p]; try reflexivity; destruct e; reflexivity.
Qed.

Lemma remerge_members_all_new : forall rec isnew subs oms0 acc,
  (forall n, In n (names subs) -> isnew n = true) ->
  remerge_members rec isnew subs oms0 acc = merge_members merge_obj subs acc.
Proof.
  induction subs as [|[n sm] r IH]; intros oms0 acc H; [reflexivity|].
  rewrite merge_members_cons_split. cbn [remerge_members]. rewrite (H n) by now left.
  destruct (merge_members merge_obj [(n, sm)] acc) as [acc' [e|]]; auto.
  apply IH. intros; apply H; now right.
Qed.

Lemma remerge_members_isnew_ext : forall rec f g sl oms0 acc,
  (forall n, In n (names sl) -> f n = g n) ->
  remerge_members rec f sl oms0 acc = remerge_members rec g sl oms0 acc.
Proof.
  induction sl as [|[n sm] r IH]; intros oms0 acc H; [reflexivity|].
  assert (Hr : forall k, In k (names r) -> f k = g k) by (intros; apply H; now right).
  cbn [remerge_members]. rewrite (H n) by now left.
  destruct (g n).
  - destruct (merge_members merge_obj [(n, sm)] acc) as [acc' [e|]]; auto.
  - destruct (lookup n acc) as [cm|]; auto.
    destruct sm as [smd smms|tg rt|tg rt y]; auto.
    destruct (lookup n oms0) as [om0|].
    + destruct (final cm) as [cmd cmms|tg rt|tg rt y]; auto.
      destruct (kind_eqb (nkind cmd) (nkind smd)); auto.
      destruct (nkind cmd); auto;
        destruct (rec (Obj smd smms) (final om0) (Obj cmd cmms)) as [t|e p]; auto; destruct e; auto.
    + auto.
Qed.

Lemma remerge_members_app : forall rec isnew l1 l2 oms0 acc,
  remerge_members rec isnew (l1 ++ l2) oms0 acc =
  match remerge_members rec isnew l1 oms0 acc with
  | (acc1, None) => remerge_members rec isnew l2 oms0 acc1
  | (acc1, Some e) => (acc1, Some e)
  end.
Proof.
  induction l1 as [|[n sm] r IH]; intros l2 oms0 acc; [reflexivity|].
  cbn [app remerge_members].
  destruct (isnew n).
  - destruct (merge_members merge_obj [(n, sm)] acc) as [acc' [e|]]; auto.
  - destruct (lookup n acc) as [cm|]; auto.
    destruct sm as [smd smms|tg rt|tg rt y]; auto.
    destruct (lookup n oms0) as [om0|].
    + destruct (final cm) as [cmd cmms|tg rt|tg rt y]; auto.
      destruct (kind_eqb (nkind cmd) (nkind smd)); auto.
      destruct (nkind cmd); auto;
        destruct (rec (Obj smd smms) (final om0) (Obj cmd cmms)) as [t|e p]; auto; destruct e; auto.
    + auto.
Qed.

Lemma assign_fresh : forall A n (v : A) l, ~ In n (names l) -> assign n v l = l ++ [(n, v)].
Proof.
  induction l as [|[k w] r IH]; simpl; intros NI; auto.
  destruct (String.eqb k n) eqn:E; [apply String.eqb_eq in E; subst; exfalso; apply NI; now left|].
  f_equal. apply IH. intros I; apply NI; now right.
Qed.

Lemma fold_assign_fresh : forall (subs ms : list (string * tree)),
  NoDup (names subs) -> (forall n, In n (names subs) -> ~ In n (names ms)) ->
  fold_left (fun acc p => assign (fst p) (snd p) acc) subs ms = ms ++ subs.
Proof.
  induction subs as [|[n v] r IH]; simpl; intros ms ND F; [now rewrite app_nil_r|].
  inversion ND as [|? ? NI ND']; subst.
  rewrite assign_fresh by (apply F; now left).
  rewrite IH; auto.
  - rewrite <- app_assoc. reflexivity.
  - intros k Ik I. unfold names in I. rewrite map_app in I. apply in_app_or in I. destruct I as [I|I].
    + apply (F k); [now right|exact I].
    + simpl in I. destruct I as [<-|[]]. contradiction.
Qed.

Lemma mem_name_in : forall n l, mem_name n l = true <-> In n l.
Proof. intros. unfold mem_name. apply existsb_eqb_in. Qed.

(* Stubs in a separate stubs package: the loader's double merge = the single merge of the __init__ pair followed by ONE
   ordinary merge of the stubs submodules (all the one-merge theorems apply to them as they are). *)
Theorem load_package_stubs_package : forall s subs,
  wfs s -> has_dicts s = true -> root_container s = true ->
  NoDup (names subs) -> (forall n, In n (names subs) -> ~ In n (names (members s))) ->
  forall top rd rms, merge_obj s top = Done (Obj rd rms) ->
    load_package2 top s subs =
    match merge_members merge_obj subs rms with
    | (rms', None) => Ok (Obj rd rms')
    | (_, Some e) => Err e
    end.
Proof.
  intros s subs W HD RC ND FR top rd cms M.
  pose proof (second_merge_identity s W HD RC top _ M) as SM.
  destruct s as [sd sms|tg rt|tg rt x]; try discriminate.
  destruct top as [od oms|tg rt|tg rt x]; [|simpl in M; discriminate|simpl in M; discriminate].
  pose proof W as (NDm & _ & NDi & NDb & _).
  destruct (field_table _ _ _ _ _ M NDm NDb) as (cms' & EQ & _ & _).
  inversion EQ as [[ER EC]]. subst cms'.
  set (cd := with_imp (with_doc od (merge_doc (ndoc od) (ndoc sd))) (update_imports (nimp od) (nimp sd))) in *.
  unfold load_package2. rewrite M. unfold remerge_top. cbn [add_members].
  simpl in FR. rewrite (fold_assign_fresh subs sms ND FR).
  cbn [remerge] in SM.
  assert (EN : with_imp (with_doc cd (merge_doc (ndoc cd) (ndoc sd))) (update_imports (nimp cd) (nimp sd)) = cd).
  { unfold cd. destruct od; unfold with_imp, with_doc; simpl. rewrite merge_doc_idem, (update_imports_idem _ _ NDi). reflexivity. }
  cbv zeta in SM. rewrite ER in *. rewrite EN in SM. cbv zeta. rewrite EN.
  rewrite remerge_members_app.
  rewrite (remerge_members_isnew_ext remerge _ (fun _ => false) sms oms cms).
  - destruct (remerge_members remerge (fun _ => false) sms oms cms) as [cms2 [e|]]; [discriminate|].
    inversion SM as [E2].
    rewrite remerge_members_all_new by (intros n I; now apply mem_name_in).
    destruct (merge_members merge_obj subs cms) as [rms' [e|]]; reflexivity.
  - intros n I. destruct (mem_name n (names subs)) eqn:MN; auto.
    apply mem_name_in in MN. exfalso. exact (FR n MN I).
Qed.

(* non-vacuity: pkg/__init__.py (A = 1) + pkg/sub.py (def h(x)), pkg-stubs/__init__.pyi (class S ...) + pkg-stubs/sub.pyi
   (def h(x: int) -> int): the submodule's stubs are merged exactly once, by the second merge *)
Definition exp_top : tree :=
  Obj (scope KMod []) [("A", Obj (nd KAttr) []); ("sub", Obj (scope KMod []) [("h", Obj (with_params (nd KFun) [("x", None)]) [])])].
Definition exp_subs : list (string * tree) :=
  [("sub", Obj (scope KMod []) [("h", Obj (with_ret (with_params (nd KFun) [("x", Some "int")]) (Some "int")) [])])].

Example stubs_package_example :
  NoDup (names exp_subs) /\ (forall n, In n (names exp_subs) -> ~ In n (names (members ex5_s_ok))) /\
  exists t, load_package2 exp_top ex5_s_ok exp_subs = Ok t /\
    at_path ["sub"; "h"] t = Some (Obj (with_ret (with_params (nd KFun) [("x", Some "int")]) (Some "int")) []) /\
    at_path ["S"] t = Some (set_rt false (ex5_S [("m", ["m(self) -> int"; "m(self, x: int) -> str"])] [("k", ex5_g)])).
Proof.
  split; [repeat constructor; simpl; tauto|]. split.
  - intros n [<-|[]] [E|[]]. discriminate.
  - eexists. split; [vm_compute; reflexivity|]. split; vm_compute; reflexivity.
Qed.
