(* C12, regex level, second part: the step bound under criterion A2.
   A deterministic regex (det r F: at every choice point the next character decides, F = classes of the characters
   that may follow) calls its continuation at most once at a position where the continuation can do real work (a
   position whose first character belongs to F); everywhere else the continuation fails at once.  So the cost of a
   deterministic regex is "polynomial + ONE expensive continuation call" -- additive, not multiplicative -- and a
   quantifier whose body is "delimiter, then a deterministic rest followed by the delimiter" costs a polynomial per
   iteration: no subject position is entered twice. *)
From Coq Require Import List NArith Bool Arith Lia String.
From Verif Require Import Model.C12_regex Proofs.C12_regex.
Import ListNotations.
Open Scope list_scope.
Open Scope nat_scope.

(* the first character of s belongs to one of the classes F *)
Definition live (ic : bool) (F : list cls) (s : list ch) : bool :=
  match s with
  | x :: _ => existsb (fun cl => cls_match ic cl x) F
  | [] => false
  end.

(* steps of r, its continuation not counted, when the first character cannot start r *)
Fixpoint bnd0 (r : re) : nat :=
  match r with
  | REps | RBol | REol | RChr _ => 1
  | RSeq a b | RAlt a b => 1 + bnd0 a + bnd0 b
  | ROpt _ a | RGrp _ a => 1 + bnd0 a
  | RStar _ a => 3 + bnd0 a
  end.

(* steps of a deterministic r on at most n characters, not counting the one expensive continuation call, when every
   other continuation call costs at most Kd *)
Fixpoint dbound (r : re) (n Kd : nat) : nat :=
  match r with
  | REps | RBol | REol | RChr _ => 1
  | RSeq a b => 1 + dbound a n (bnd0 b + Kd) + dbound b n Kd
  | RAlt a b => 1 + bnd0 a + bnd0 b + dbound a n Kd + dbound b n Kd
  | ROpt _ a => 1 + bnd0 a + dbound a n Kd + Kd
  | RStar _ _ => 1 + (n + 1) * (Kd + 3)
  | RGrp _ a => 1 + dbound a n Kd
  end.

(* the bound for A2: as [bound], and for a delimited iteration one deterministic pass per iteration *)
Fixpoint bound2 (r : re) (n K : nat) : nat :=
  match r with
  | REps | RBol | REol | RChr _ => 1 + K
  | RSeq a b => 1 + bound2 a n (bound2 b n K)
  | RAlt a b => 1 + bound2 a n K + bound2 b n K
  | ROpt _ a => 1 + bound2 a n K + K
  | RStar _ (RChr _) => 1 + (n + 1) * (K + 3) + K
  | RStar _ (RSeq (RChr _) rest) => 2 + (n + 1) * (dbound rest n (K + 3) + K + 4) + K
  | RStar _ _ => 0
  | RGrp _ a => 1 + bound2 a n K
  end.

Definition suffix (s' s : list ch) : Prop := exists pre, s = pre ++ s'.

Lemma suffix_refl : forall s, suffix s s.
Proof. intros s. exists []. reflexivity. Qed.
Lemma suffix_cons : forall x s, suffix s (x :: s).
Proof. intros x s. exists [x]. reflexivity. Qed.
Lemma suffix_trans : forall a b c, suffix a b -> suffix b c -> suffix a c.
Proof. intros a b c [p1 H1] [p2 H2]. exists (p2 ++ p1). subst. rewrite app_assoc. reflexivity. Qed.
Lemma suffix_length : forall a b, suffix a b -> List.length a <= List.length b.
Proof. intros a b [p H]. subst. rewrite app_length. lia. Qed.
Lemma suffix_forall : forall (P : ch -> Prop) a b, suffix a b -> Forall P b -> Forall P a.
Proof. intros P a b [p H] F. subst. apply Forall_app in F. tauto. Qed.

Lemma live_app : forall ic F G s, live ic (F ++ G) s = live ic F s || live ic G s.
Proof. intros ic F G s. destruct s as [|x s]; simpl; [reflexivity|]. apply existsb_app. Qed.

Lemma bnd0_le_dbound : forall r, poly1 r = true -> forall n Kd, bnd0 r <= dbound r n Kd.
Proof.
  induction r as [| cl | | | a IHa b IHb | a IHa b IHb | g a IHa | g a IHa | i a IHa]; intros Hp n Kd;
    cbn [poly1] in Hp; cbn [bnd0 dbound].
  - lia.
  - lia.
  - lia.
  - lia.
  - apply andb_true_iff in Hp. destruct Hp as [Pa Pb].
    specialize (IHa Pa n (bnd0 b + Kd)). specialize (IHb Pb n Kd). lia.
  - apply andb_true_iff in Hp. destruct Hp as [Pa Pb].
    specialize (IHa Pa n Kd). specialize (IHb Pb n Kd). lia.
  - specialize (IHa Hp n Kd). lia.
  - destruct a; try discriminate. cbn [bnd0].
    assert (H : 1 * 3 <= (n + 1) * (Kd + 3)) by (apply Nat.mul_le_mono; lia). lia.
  - specialize (IHa Hp n Kd). lia.
Qed.

Section Det.
  Variable ic : bool.
  Variable R : Type.
  (* soundness of the decided class disjointness on the characters of the subject (discharged at the end of the
     file for well-formed characters) *)
  Variable good : ch -> Prop.
  Hypothesis disj_sound :
    forall c1 c2 x, cls_disjoint ic c1 c2 = true -> good x -> cls_match ic c1 x = true -> cls_match ic c2 x = false.

  Lemma disjoint_live :
    forall cs fs s, disjoint_from ic cs fs = true -> Forall good s -> live ic cs s = true -> live ic fs s = false.
  Proof.
    intros cs fs s D G L. destruct s as [|x s]; [reflexivity|]. simpl in *.
    inversion G as [|? ? Gx _]; subst.
    apply existsb_exists in L. destruct L as (c1 & In1 & M1).
    destruct (existsb (fun cl => cls_match ic cl x) fs) eqn:E; [|reflexivity].
    apply existsb_exists in E. destruct E as (c2 & In2 & M2).
    unfold disjoint_from in D. rewrite forallb_forall in D. specialize (D c1 In1).
    rewrite forallb_forall in D. specialize (D c2 In2).
    rewrite (disj_sound c1 c2 x D Gx M1) in M2. discriminate.
  Qed.

  (* ---- a regex whose first character is wrong: only its skippable parts run, the continuation is called (if at
     all) where the regex started ---- *)
  Lemma dead_start :
    forall r F, poly1 r = true -> det ic r F = true ->
      forall p s c (k : kontc R) Ks,
        live ic (first r) s = false ->
        (nullable r = true -> forall p' c', fst (k p' s c') <= Ks) ->
        fst (mc ic r p s c k) <= bnd0 r + (if nullable r then Ks else 0).
  Proof.
    induction r as [| cl | | | a IHa b IHb | a IHa b IHb | g a IHa | g a IHa | i a IHa];
      intros F Hp Hd p s c k Ks Hl Hk; cbn [poly1 det] in Hp, Hd; cbn [bnd0 nullable].
    - cbn [mc]. rewrite fst_tick. specialize (Hk eq_refl p c). lia.
    - cbn [mc]. destruct s as [|x s']; [simpl; lia|]. simpl in Hl. rewrite orb_false_r in Hl. rewrite Hl. simpl. lia.
    - cbn [mc]. destruct (N.eqb p 0); [|simpl; lia]. rewrite fst_tick. specialize (Hk eq_refl p c). lia.
    - cbn [mc]. destruct s as [|x [|y s']]; [| |simpl; lia].
      + rewrite fst_tick. specialize (Hk eq_refl p c). lia.
      + destruct (is_nl x); [|simpl; lia]. rewrite fst_tick. specialize (Hk eq_refl p c). lia.
    - apply andb_true_iff in Hp. destruct Hp as [Pa Pb]. apply andb_true_iff in Hd. destruct Hd as [Da Db].
      cbn [first] in Hl. cbn [mc]. rewrite fst_tick.
      assert (La : live ic (first a) s = false).
      { destruct (nullable a); [rewrite live_app in Hl; apply orb_false_iff in Hl; tauto|exact Hl]. }
      assert (H := IHa _ Pa Da p s c (fun p' s' c' => mc ic b p' s' c' k)
                       (bnd0 b + (if nullable b then Ks else 0)) La).
      assert (H' : fst (mc ic a p s c (fun p' s' c' => mc ic b p' s' c' k))
                   <= bnd0 a + (if nullable a then bnd0 b + (if nullable b then Ks else 0) else 0)).
      { apply H. intros Na p' c'.
        assert (Lb : live ic (first b) s = false).
        { rewrite Na in Hl. rewrite live_app in Hl. apply orb_false_iff in Hl. tauto. }
        apply (IHb _ Pb Db p' s c' k Ks Lb). intros Nb. apply Hk. cbn [nullable]. rewrite Na, Nb. reflexivity. }
      destruct (nullable a), (nullable b); simpl in *; lia.
    - apply andb_true_iff in Hp. destruct Hp as [Pa Pb].
      repeat (apply andb_true_iff in Hd; destruct Hd as [Hd ?]).
      apply negb_true_iff in Hd.
      match goal with H : negb (nullable b) = true |- _ => apply negb_true_iff in H; rename H into Nb end.
      cbn [first] in Hl. rewrite live_app in Hl. apply orb_false_iff in Hl. destruct Hl as [La Lb].
      cbn [mc]. rewrite fst_tick.
      match goal with |- S (fst (orelse ?x ?y)) <= _ => pose proof (orelse_cost _ x y) as Ho end. cbv beta in Ho.
      match goal with Da : det ic a F = true, Db : det ic b F = true |- _ =>
        assert (HA := IHa _ Pa Da p s c k Ks La); assert (HB := IHb _ Pb Db p s c k Ks Lb) end.
      rewrite Hd in HA. rewrite Nb in HB. rewrite Hd, Nb. simpl.
      assert (HA' := HA (fun E => False_ind _ (Bool.diff_false_true E))).
      assert (HB' := HB (fun E => False_ind _ (Bool.diff_false_true E))). lia.
    - repeat (apply andb_true_iff in Hd; destruct Hd as [Hd ?]). apply negb_true_iff in Hd.
      cbn [first] in Hl.
      match goal with Da : det ic a F = true |- _ => assert (HA := IHa _ Hp Da p s c k Ks Hl) end.
      rewrite Hd in HA. assert (HA' := HA (fun E => False_ind _ (Bool.diff_false_true E))).
      assert (Hkk : fst (k p s c) <= Ks) by (apply Hk; reflexivity).
      destruct g; cbn [mc]; rewrite fst_tick;
        match goal with |- S (fst (orelse ?x ?y)) <= _ => pose proof (orelse_cost _ x y) as Ho end; cbv beta in Ho; lia.
    - destruct a; try discriminate. cbn [first] in Hl. rewrite mc_star. rewrite fst_tick.
      assert (Hkk : fst (k p s c) <= Ks) by (apply Hk; reflexivity).
      assert (Hbody : forall kk : kontc R, fst (mc ic (RChr c0) p s c kk) <= 1).
      { intros kk. rewrite mc_chr. destruct s as [|x s']; [simpl; lia|].
        simpl in Hl. rewrite orb_false_r in Hl. rewrite Hl. simpl. lia. }
      destruct (List.length s) as [|j]; cbn [star_loopc].
      + rewrite fst_tick. cbn [bnd0]. lia.
      + destruct g; rewrite fst_tick;
          match goal with |- S (S (fst (orelse ?x ?y))) <= _ => pose proof (orelse_cost _ x y) as Ho end; cbv beta in Ho;
          match goal with Ho : context [mc ic (RChr c0) p s c ?kk] |- _ => pose proof (Hbody kk) end; cbn [bnd0]; lia.
    - cbn [first] in Hl. cbn [mc]. rewrite fst_tick.
      assert (H := IHa _ Hp Hd p s c (fun p' s' c' => k p' s' ((i, (p, p')) :: c')) Ks Hl).
      assert (H' : fst (mc ic a p s c (fun p' s' c' => k p' s' ((i, (p, p')) :: c'))) <= bnd0 a + (if nullable a then Ks else 0)).
      { apply H. intros Na p' c'. apply Hk. exact Na. }
      lia.
  Qed.

  (* ---- a deterministic regex: polynomial plus ONE expensive continuation call ---- *)
  Definition kdead (k : kontc R) (F : list cls) (s : list ch) (Kd : nat) : Prop :=
    forall s', suffix s' s -> live ic F s' = false -> forall p' c', fst (k p' s' c') <= Kd.
  Definition klive (k : kontc R) (s : list ch) (Kl : nat) : Prop :=
    forall s', suffix s' s -> forall p' c', fst (k p' s' c') <= Kl.

  Lemma star_chr_det :
    forall cl g (k : kontc R) F Kd Kl,
      disjoint_from ic [cl] F = true -> Kd <= Kl ->
      forall n p s c, Forall good s -> kdead k F s Kd -> klive k s Kl ->
        fst (star_loopc (mc ic (RChr cl)) g k n p s c) <= (n + 1) * (Kd + 3) + Kl.
  Proof.
    intros cl g k F Kd Kl D Le. induction n as [|n IH]; intros p s c G Hd Hl.
    - cbn [star_loopc]. rewrite fst_tick. specialize (Hl s (suffix_refl s) p c). lia.
    - cbn [star_loopc].
      replace ((S n + 1) * (Kd + 3)) with ((n + 1) * (Kd + 3) + (Kd + 3)) by ring.
      destruct s as [|x s'].
      + (* nothing left: the body fails, the continuation is called once *)
        assert (Hb : forall kk : kontc R, fst (mc ic (RChr cl) p [] c kk) <= 1) by (intros kk; rewrite mc_chr; simpl; lia).
        assert (Hk := Hl [] (suffix_refl []) p c).
        destruct g; rewrite fst_tick;
          match goal with |- S (fst (orelse ?x ?y)) <= _ => pose proof (orelse_cost _ x y) as Ho end; cbv beta in Ho;
          match goal with Ho : context [mc ic (RChr cl) p [] c ?kk] |- _ => pose proof (Hb kk) end; lia.
      + destruct (cls_match ic cl x) eqn:M.
        * (* the character is repeated: what follows the quantifier cannot start here *)
          assert (Lf : live ic F (x :: s') = false).
          { apply (disjoint_live [cl] F (x :: s') D G). simpl. rewrite M. reflexivity. }
          assert (Hk : fst (k p (x :: s') c) <= Kd) by (apply (Hd (x :: s') (suffix_refl _) Lf)).
          assert (Hagain : fst (mc ic (RChr cl) p (x :: s') c
                     (fun p' s'' c' => if N.ltb p p' then star_loopc (mc ic (RChr cl)) g k n p' s'' c' else (0, None)))
                   <= 1 + ((n + 1) * (Kd + 3) + Kl)).
          { rewrite mc_chr. rewrite M.
            assert (E : N.ltb p (N.succ p) = true) by (apply N.ltb_lt; lia). rewrite E. rewrite fst_tick.
            assert (H := IH (N.succ p) s' c).
            assert (G' : Forall good s') by (inversion G; assumption).
            assert (Hd' : kdead k F s' Kd).
            { intros s2 S2. apply Hd. eapply suffix_trans; [exact S2|apply suffix_cons]. }
            assert (Hl' : klive k s' Kl).
            { intros s2 S2. apply Hl. eapply suffix_trans; [exact S2|apply suffix_cons]. }
            specialize (H G' Hd' Hl'). lia. }
          destruct g; rewrite fst_tick;
            match goal with |- S (fst (orelse ?x ?y)) <= _ => pose proof (orelse_cost _ x y) as Ho end; cbv beta in Ho; lia.
        * assert (Hb : forall kk : kontc R, fst (mc ic (RChr cl) p (x :: s') c kk) <= 1)
            by (intros kk; rewrite mc_chr; rewrite M; simpl; lia).
          assert (Hk := Hl (x :: s') (suffix_refl _) p c).
          destruct g; rewrite fst_tick;
            match goal with |- S (fst (orelse ?x ?y)) <= _ => pose proof (orelse_cost _ x y) as Ho end; cbv beta in Ho;
            match goal with Ho : context [mc ic (RChr cl) p (x :: s') c ?kk] |- _ => pose proof (Hb kk) end; lia.
  Qed.

  Lemma det_bound :
    forall r F, poly1 r = true -> det ic r F = true ->
      forall n Kd Kl p s c (k : kontc R),
        List.length s <= n -> Forall good s -> Kd <= Kl ->
        kdead k F s Kd -> klive k s Kl ->
        fst (mc ic r p s c k) <= dbound r n Kd + Kl.
  Proof.
    induction r as [| cl | | | a IHa b IHb | a IHa b IHb | g a IHa | g a IHa | i a IHa];
      intros F Hp Hdet n Kd Kl p s c k Hn G Le Hd Hl; cbn [poly1 det] in Hp, Hdet; cbn [dbound].
    - cbn [mc]. rewrite fst_tick. specialize (Hl s (suffix_refl s) p c). lia.
    - cbn [mc]. destruct s as [|x s']; [simpl; lia|]. destruct (cls_match ic cl x); [|simpl; lia].
      rewrite fst_tick. specialize (Hl s' (suffix_cons x s') (N.succ p) c). lia.
    - cbn [mc]. destruct (N.eqb p 0); [|simpl; lia]. rewrite fst_tick. specialize (Hl s (suffix_refl s) p c). lia.
    - cbn [mc]. destruct s as [|x [|y s']]; [| |simpl; lia].
      + rewrite fst_tick. specialize (Hl [] (suffix_refl _) p c). lia.
      + destruct (is_nl x); [|simpl; lia]. rewrite fst_tick. specialize (Hl [x] (suffix_refl _) p c). lia.
    - (* sequence *)
      apply andb_true_iff in Hp. destruct Hp as [Pa Pb]. apply andb_true_iff in Hdet. destruct Hdet as [Da Db].
      cbn [mc]. rewrite fst_tick.
      set (Fa := if nullable b then first b ++ F else first b) in *.
      assert (B0 := bnd0_le_dbound b Pb n Kd).
      assert (H := IHa Fa Pa Da n (bnd0 b + Kd) (dbound b n Kd + Kl) p s c (fun p' s' c' => mc ic b p' s' c' k) Hn G).
      assert (H' : fst (mc ic a p s c (fun p' s' c' => mc ic b p' s' c' k))
                   <= dbound a n (bnd0 b + Kd) + (dbound b n Kd + Kl)).
      { apply H; [lia| |].
        - (* where b cannot start (and, when b can be skipped, neither can what follows): b fails at once *)
          intros s' S' L' p' c'.
          assert (Lb : live ic (first b) s' = false).
          { subst Fa. destruct (nullable b); [rewrite live_app in L'; apply orb_false_iff in L'; tauto|exact L']. }
          assert (D := dead_start b F Pb Db p' s' c' k Kd Lb).
          assert (D' : fst (mc ic b p' s' c' k) <= bnd0 b + (if nullable b then Kd else 0)).
          { apply D. intros Nb p2 c2. apply (Hd s' S'). subst Fa. rewrite Nb in L'.
            rewrite live_app in L'. apply orb_false_iff in L'. tauto. }
          destruct (nullable b); lia.
        - intros s' S' p' c'.
          apply (IHb F Pb Db n Kd Kl p' s' c' k); auto.
          + apply suffix_length in S'. lia.
          + eapply suffix_forall; eauto.
          + intros s2 S2. apply Hd. eapply suffix_trans; eauto.
          + intros s2 S2. apply Hl. eapply suffix_trans; eauto. }
      lia.
    - (* alternatives: the first character picks at most one of them *)
      apply andb_true_iff in Hp. destruct Hp as [Pa Pb].
      repeat (apply andb_true_iff in Hdet; destruct Hdet as [Hdet ?]).
      apply negb_true_iff in Hdet.
      match goal with H : negb (nullable b) = true |- _ => apply negb_true_iff in H; rename H into Nb end.
      match goal with H : disjoint_from ic (first a) (first b) = true |- _ => rename H into Dab end.
      match goal with Da : det ic a F = true, Db : det ic b F = true |- _ => rename Da into DA; rename Db into DB end.
      cbn [mc]. rewrite fst_tick.
      match goal with |- S (fst (orelse ?x ?y)) <= _ => pose proof (orelse_cost _ x y) as Ho end. cbv beta in Ho.
      assert (B0a := bnd0_le_dbound a Pa n Kd). assert (B0b := bnd0_le_dbound b Pb n Kd).
      destruct (live ic (first a) s) eqn:La.
      + assert (Lb := disjoint_live _ _ s Dab G La).
        assert (H2 := dead_start b F Pb DB p s c k 0 Lb). rewrite Nb in H2.
        assert (H2' := H2 (fun E => False_ind _ (Bool.diff_false_true E))).
        assert (H1 := IHa F Pa DA n Kd Kl p s c k Hn G Le Hd Hl). lia.
      + assert (H1 := dead_start a F Pa DA p s c k 0 La). rewrite Hdet in H1.
        assert (H1' := H1 (fun E => False_ind _ (Bool.diff_false_true E))).
        assert (H2 := IHb F Pb DB n Kd Kl p s c k Hn G Le Hd Hl). lia.
    - (* optional part *)
      repeat (apply andb_true_iff in Hdet; destruct Hdet as [Hdet ?]). apply negb_true_iff in Hdet.
      match goal with H : disjoint_from ic (first a) F = true |- _ => rename H into Daf end.
      match goal with Da : det ic a F = true |- _ => rename Da into DA end.
      assert (B0a := bnd0_le_dbound a Hp n Kd).
      assert (Hcost : fst (mc ic a p s c k) + fst (k p s c) <= bnd0 a + dbound a n Kd + Kd + Kl).
      { destruct (live ic (first a) s) eqn:La.
        - assert (Lf := disjoint_live _ _ s Daf G La).
          assert (Hk := Hd s (suffix_refl s) Lf p c).
          assert (H1 := IHa F Hp DA n Kd Kl p s c k Hn G Le Hd Hl). lia.
        - assert (H1 := dead_start a F Hp DA p s c k 0 La). rewrite Hdet in H1.
          assert (H1' := H1 (fun E => False_ind _ (Bool.diff_false_true E))).
          assert (Hk := Hl s (suffix_refl s) p c). lia. }
      destruct g; cbn [mc]; rewrite fst_tick;
        match goal with |- S (fst (orelse ?x ?y)) <= _ => pose proof (orelse_cost _ x y) as Ho end; cbv beta in Ho; lia.
    - (* quantifier over one character matcher *)
      destruct a; try discriminate.
      repeat (apply andb_true_iff in Hdet; destruct Hdet as [Hdet ?]).
      match goal with H : disjoint_from ic (first (RChr c0)) F = true |- _ => rename H into Dcf end.
      cbn [first] in Dcf. rewrite mc_star. rewrite fst_tick.
      assert (HS := star_chr_det c0 g k F Kd Kl Dcf Le (List.length s) p s c G Hd Hl).
      assert (Hm : (List.length s + 1) * (Kd + 3) <= (n + 1) * (Kd + 3)) by (apply Nat.mul_le_mono; lia).
      lia.
    - cbn [mc]. rewrite fst_tick.
      assert (H := IHa F Hp Hdet n Kd Kl p s c (fun p' s' c' => k p' s' ((i, (p, p')) :: c')) Hn G Le).
      assert (H' : fst (mc ic a p s c (fun p' s' c' => k p' s' ((i, (p, p')) :: c'))) <= dbound a n Kd + Kl).
      { apply H.
        - intros s' S' L' p' c'. apply (Hd s' S' L').
        - intros s' S' p' c'. apply (Hl s' S'). }
      lia.
  Qed.

  (* ---- the delimited iteration ---- *)
  Lemma delimited_loop :
    forall d rest g (k : kontc R) K n,
      poly1 rest = true -> det ic rest [d] = true ->
      forall j p s c, List.length s <= n -> Forall good s -> klive k s K ->
        fst (star_loopc (mc ic (RSeq (RChr d) rest)) g k j p s c)
        <= (List.length s + 1) * (dbound rest n (K + 3) + K + 4) + (K + 1).
  Proof.
    intros d rest g k K n Pr Dr.
    set (C1 := dbound rest n (K + 3) + K + 4).
    (* an iteration that starts on a character other than the delimiter *)
    assert (Dead : forall j p s c, live ic [d] s = false -> klive k s K ->
               fst (star_loopc (mc ic (RSeq (RChr d) rest)) g k j p s c) <= K + 3).
    { intros j p s c L Hl. assert (Hk := Hl s (suffix_refl s) p c).
      destruct j as [|j]; cbn [star_loopc]; [rewrite fst_tick; lia|].
      assert (Hb : forall kk : kontc R, fst (mc ic (RSeq (RChr d) rest) p s c kk) <= 2).
      { intros kk. cbn [mc]. rewrite fst_tick. destruct s as [|x s']; [simpl; lia|].
        simpl in L. rewrite orb_false_r in L. rewrite L. simpl. lia. }
      destruct g; rewrite fst_tick;
        match goal with |- S (fst (orelse ?x ?y)) <= _ => pose proof (orelse_cost _ x y) as Ho end; cbv beta in Ho;
        match goal with Ho : context [mc ic (RSeq (RChr d) rest) p s c ?kk] |- _ => pose proof (Hb kk) end; lia. }
    induction j as [|j IH]; intros p s c Hn G Hl.
    - cbn [star_loopc]. rewrite fst_tick. assert (Hk := Hl s (suffix_refl s) p c).
      assert (0 <= (List.length s + 1) * C1) by lia. lia.
    - destruct (live ic [d] s) eqn:L.
      + (* the delimiter is there: one deterministic pass over rest, whose continuation is the loop again *)
        destruct s as [|x s']; [discriminate|].
        simpl in L. rewrite orb_false_r in L.
        assert (G' : Forall good s') by (inversion G; assumption).
        assert (Hl' : klive k s' K).
        { intros s2 S2. apply Hl. eapply suffix_trans; [exact S2|apply suffix_cons]. }
        assert (Hk := Hl (x :: s') (suffix_refl _) p c).
        cbn [star_loopc].
        set (cont := fun p' s'' c' => if N.ltb p p' then star_loopc (mc ic (RSeq (RChr d) rest)) g k j p' s'' c' else (0, None)).
        assert (Hagain : fst (mc ic (RSeq (RChr d) rest) p (x :: s') c cont)
                         <= 2 + (dbound rest n (K + 3) + (List.length s' + 1) * C1 + (K + 1))).
        { cbn [mc]. rewrite fst_tick. rewrite L. rewrite fst_tick.
          assert (H := det_bound rest [d] Pr Dr n (K + 3) ((List.length s' + 1) * C1 + (K + 1))
                                 (N.succ p) s' c cont).
          assert (H' : fst (mc ic rest (N.succ p) s' c cont) <= dbound rest n (K + 3) + ((List.length s' + 1) * C1 + (K + 1))).
          { apply H; auto.
            - simpl in Hn. lia.
            - assert (1 * 4 <= (List.length s' + 1) * C1) by (apply Nat.mul_le_mono; subst C1; lia). lia.
            - intros s2 S2 L2 p2 c2. unfold cont. destruct (N.ltb p p2); [|simpl; lia].
              apply Dead; [exact L2|]. intros s3 S3. apply Hl'. eapply suffix_trans; eauto.
            - intros s2 S2 p2 c2. unfold cont. destruct (N.ltb p p2); [|simpl; lia].
              assert (Hs2 := suffix_length _ _ S2).
              assert (H2 := IH p2 s2 c2).
              assert (H2' : fst (star_loopc (mc ic (RSeq (RChr d) rest)) g k j p2 s2 c2)
                            <= (List.length s2 + 1) * C1 + (K + 1)).
              { apply H2.
                - simpl in Hn. lia.
                - eapply suffix_forall; eauto.
                - intros s3 S3. apply Hl'. eapply suffix_trans; eauto. }
              assert ((List.length s2 + 1) * C1 <= (List.length s' + 1) * C1) by (apply Nat.mul_le_mono; lia).
              lia. }
          lia. }
        simpl List.length.
        replace ((S (List.length s') + 1) * C1) with ((List.length s' + 1) * C1 + C1) by ring.
        destruct g; rewrite fst_tick;
          match goal with |- S (fst (orelse ?x ?y)) <= _ => pose proof (orelse_cost _ x y) as Ho end; cbv beta in Ho;
          fold cont in Ho; subst C1; lia.
      + assert (H := Dead (S j) p s c L Hl).
        assert (0 <= (List.length s + 1) * C1) by lia. lia.
  Qed.

  (* ---- the bound under A2 ---- *)
  Lemma mc_bound2 :
    forall r, poly2 ic r = true ->
      forall n K p s c (k : kontc R), List.length s <= n -> Forall good s -> klive k s K ->
        fst (mc ic r p s c k) <= bound2 r n K.
  Proof.
    induction r as [| cl | | | a IHa b IHb | a IHa b IHb | g a IHa | g a IHa | i a IHa];
      intros Hp n K p s c k Hn G Hl; cbn [poly2] in Hp.
    - cbn [mc bound2]. rewrite fst_tick. specialize (Hl s (suffix_refl s) p c). lia.
    - cbn [mc bound2]. destruct s as [|x s']; [simpl; lia|]. destruct (cls_match ic cl x); [|simpl; lia].
      rewrite fst_tick. specialize (Hl s' (suffix_cons x s') (N.succ p) c). lia.
    - cbn [mc bound2]. destruct (N.eqb p 0); [|simpl; lia]. rewrite fst_tick. specialize (Hl s (suffix_refl s) p c). lia.
    - cbn [mc bound2]. destruct s as [|x [|y s']]; [| |simpl; lia].
      + rewrite fst_tick. specialize (Hl [] (suffix_refl _) p c). lia.
      + destruct (is_nl x); [|simpl; lia]. rewrite fst_tick. specialize (Hl [x] (suffix_refl _) p c). lia.
    - apply andb_true_iff in Hp. destruct Hp as [Pa Pb]. cbn [mc bound2]. rewrite fst_tick.
      apply le_n_S. apply IHa; auto.
      intros s' S' p' c'. apply IHb; auto.
      + apply suffix_length in S'. lia.
      + eapply suffix_forall; eauto.
      + intros s2 S2. apply Hl. eapply suffix_trans; eauto.
    - apply andb_true_iff in Hp. destruct Hp as [Pa Pb]. cbn [mc bound2]. rewrite fst_tick.
      match goal with |- S (fst (orelse ?x ?y)) <= _ => pose proof (orelse_cost _ x y) as Ho end. cbv beta in Ho.
      assert (H1 := IHa Pa n K p s c k Hn G Hl). assert (H2 := IHb Pb n K p s c k Hn G Hl). lia.
    - assert (Hk := Hl s (suffix_refl s) p c).
      assert (H1 := IHa Hp n K p s c k Hn G Hl).
      destruct g; cbn [mc bound2]; rewrite fst_tick;
        match goal with |- S (fst (orelse ?x ?y)) <= _ => pose proof (orelse_cost _ x y) as Ho end; cbv beta in Ho; lia.
    - destruct a as [| c0 | | | a1 a2 | | | |]; try discriminate.
      + (* one character matcher: nothing has to be told apart (F = []) *)
        rewrite mc_star. cbn [bound2]. rewrite fst_tick.
        assert (H := star_chr_det c0 g k [] K K eq_refl (le_n K) (List.length s) p s c G).
        assert (H' : fst (star_loopc (mc ic (RChr c0)) g k (List.length s) p s c) <= (List.length s + 1) * (K + 3) + K).
        { apply H.
          - intros s' S' _ p' c'. apply (Hl s' S').
          - exact Hl. }
        assert (Hm : (List.length s + 1) * (K + 3) <= (n + 1) * (K + 3)) by (apply Nat.mul_le_mono; lia).
        lia.
      + (* delimited iteration *)
        destruct a1 as [| d | | | | | | |]; try discriminate.
        unfold delimited in Hp.
        apply andb_true_iff in Hp. destruct Hp as [Hp Dr]. apply andb_true_iff in Hp. destruct Hp as [Pr _].
        rewrite mc_star. cbn [bound2]. rewrite fst_tick.
        assert (H := delimited_loop d a2 g k K n Pr Dr (List.length s) p s c Hn G Hl).
        assert (Hm : (List.length s + 1) * (dbound a2 n (K + 3) + K + 4) <= (n + 1) * (dbound a2 n (K + 3) + K + 4))
          by (apply Nat.mul_le_mono; lia).
        lia.
    - cbn [mc bound2]. rewrite fst_tick. apply le_n_S. apply IHa; auto.
      intros s' S' p' c'. apply (Hl s' S').
  Qed.
End Det.

(* ---------------- soundness of the decided class disjointness for well-formed characters ---------------- *)
Lemma ascii_ch_of_wf : forall x, ch_wf x = true -> (cp x < 128)%N -> x = ascii_ch (cp x).
Proof.
  intros [c w s d ci low] H L. unfold ch_wf in H. cbn [cp c_word c_space c_digit c_ci c_low] in *.
  apply N.ltb_lt in L. rewrite L in H.
  repeat (apply andb_true_iff in H; destruct H as [H ?]).
  destruct low as [|l [|l2 low']]; try discriminate.
  apply Bool.eqb_prop in H. match goal with E : Bool.eqb s _ = true |- _ => apply Bool.eqb_prop in E end.
  match goal with E : Bool.eqb d _ = true |- _ => apply Bool.eqb_prop in E end.
  repeat match goal with E : N.eqb _ _ = true |- _ => apply N.eqb_eq in E end.
  subst. reflexivity.
Qed.

Lemma in_ascii_codes : forall c, (c < 128)%N -> In c ascii_codes.
Proof.
  intros c L. unfold ascii_codes. replace c with (N.of_nat (N.to_nat c)) by apply N2Nat.id.
  apply in_map. apply in_seq. lia.
Qed.

Lemma wf_nonascii :
  forall x, ch_wf x = true -> (128 <= cp x)%N ->
    (c_ci x <> 0%N -> is_lower (c_ci x) = true /\ c_word x = true /\ c_space x = false /\ c_digit x = false) /\
    (c_digit x = true -> c_word x = true /\ c_space x = false) /\
    (c_space x = true -> c_word x = false).
Proof.
  intros x H L. unfold ch_wf in H. assert (E : N.ltb (cp x) 128 = false) by (apply N.ltb_ge; exact L).
  rewrite E in H. apply andb_true_iff in H. destruct H as [H Hs]. apply andb_true_iff in H. destruct H as [Hc Hd].
  split; [|split].
  - intros NZ. apply N.eqb_neq in NZ. rewrite NZ in Hc. simpl in Hc.
    apply andb_true_iff in Hc. destruct Hc as [Hc D]. apply andb_true_iff in Hc. destruct Hc as [Hc S].
    apply andb_true_iff in Hc. destruct Hc as [Lw Wd].
    apply negb_true_iff in D. apply negb_true_iff in S. auto.
  - intros D. rewrite D in Hd. simpl in Hd. apply andb_true_iff in Hd. destruct Hd as [Wd S].
    apply negb_true_iff in S. auto.
  - intros S. rewrite S in Hs. simpl in Hs. apply negb_true_iff in Hs. exact Hs.
Qed.

(* a class that matches a character above 127 is one that [cls_nonascii] flags *)
Lemma item_match_nonascii :
  forall ic x it, ch_wf x = true -> (128 <= cp x)%N -> item_match ic x it = true -> item_nonascii ic it = true.
Proof.
  intros ic x it W L M. destruct (wf_nonascii x W L) as (Hci & _ & _).
  destruct it as [c0 | a b | k neg]; cbn [item_match item_nonascii] in *; [| |reflexivity].
  - apply orb_true_iff in M. destruct M as [M|M].
    + cbn [cp_in] in M. apply N.eqb_eq in M. apply orb_true_iff. left. apply N.leb_le. lia.
    + repeat (apply andb_true_iff in M; destruct M as [M ?]). subst. apply orb_true_iff. right.
      match goal with E : negb (N.eqb (c_ci x) 0) = true |- _ => apply negb_true_iff in E; apply N.eqb_neq in E;
        destruct (Hci E) as (Lw & _) end.
      unfold is_lower, in_range in Lw. apply andb_true_iff in Lw. destruct Lw as [L1 L2].
      apply N.leb_le in L1. apply N.leb_le in L2.
      cbn [has_letter]. unfold is_upper, is_lower, in_range.
      match goal with E : cp_in (c_ci x) (ILit c0) || cp_in (c_ci x - 32) (ILit c0) = true |- _ =>
        apply orb_true_iff in E; destruct E as [E|E]; cbn [cp_in] in E; apply N.eqb_eq in E end.
      * apply orb_true_iff. right. apply andb_true_iff. split; apply N.leb_le; lia.
      * apply orb_true_iff. left. apply andb_true_iff. split; apply N.leb_le; lia.
  - apply orb_true_iff in M. destruct M as [M|M].
    + cbn [cp_in] in M. unfold in_range in M. apply andb_true_iff in M. destruct M as [_ M]. apply N.leb_le in M.
      apply orb_true_iff. left. apply N.leb_le. lia.
    + repeat (apply andb_true_iff in M; destruct M as [M ?]). subst. apply orb_true_iff. right.
      match goal with E : negb (N.eqb (c_ci x) 0) = true |- _ => apply negb_true_iff in E; apply N.eqb_neq in E;
        destruct (Hci E) as (Lw & _) end.
      unfold is_lower, in_range in Lw. apply andb_true_iff in Lw. destruct Lw as [L1 L2].
      apply N.leb_le in L1. apply N.leb_le in L2.
      cbn [has_letter].
      match goal with E : cp_in (c_ci x) (IRange a b) || cp_in (c_ci x - 32) (IRange a b) = true |- _ =>
        apply orb_true_iff in E; destruct E as [E|E]; cbn [cp_in] in E; unfold in_range in E;
        apply andb_true_iff in E; destruct E as [E1 E2]; apply N.leb_le in E1; apply N.leb_le in E2 end.
      * repeat (apply andb_true_iff; split); try reflexivity; try (apply N.leb_le; lia).
        apply negb_true_iff. apply andb_false_iff. left. apply N.ltb_ge. lia.
      * repeat (apply andb_true_iff; split); try reflexivity; try (apply N.leb_le; lia).
        apply negb_true_iff. apply andb_false_iff. right. apply N.ltb_ge. lia.
Qed.

Lemma cls_match_nonascii :
  forall ic x c, ch_wf x = true -> (128 <= cp x)%N -> cls_match ic c x = true -> cls_nonascii ic c = true.
Proof.
  intros ic x c W L M. destruct c as [|neg items]; [reflexivity|]. destruct neg; [reflexivity|].
  cbn [cls_match cls_nonascii] in *. rewrite xorb_false_l in M.
  apply existsb_exists in M. destruct M as (it & In1 & M). apply existsb_exists. exists it. split; [exact In1|].
  eapply item_match_nonascii; eauto.
Qed.

(* a class that names no code point above 127 sees such a character only through its categories *)
Definition abstract_of (x : ch) : ch := mkCh 1114112 (c_word x) (c_space x) (c_digit x) (c_ci x) [].

Lemma item_match_abstract :
  forall ic x it, (128 <= cp x)%N -> item_explicit_nonascii it = false ->
    item_match ic x it = item_match ic (abstract_of x) it.
Proof.
  intros ic x it L E. destruct it as [c0 | a b | k neg]; cbn [item_match item_explicit_nonascii] in *.
  - apply N.leb_gt in E. cbn [cp_in abstract_of cp c_ci].
    replace (N.eqb (cp x) c0) with false by (symmetry; apply N.eqb_neq; lia).
    replace (N.eqb 1114112 c0) with false by (symmetry; apply N.eqb_neq; lia). reflexivity.
  - apply N.leb_gt in E. cbn [cp_in abstract_of cp c_ci]. unfold in_range.
    replace (N.leb (cp x) b) with false by (symmetry; apply N.leb_gt; lia).
    replace (N.leb 1114112 b) with false by (symmetry; apply N.leb_gt; lia).
    rewrite !andb_false_r. reflexivity.
  - destruct k; reflexivity.
Qed.

Lemma cls_match_abstract :
  forall ic x c, (128 <= cp x)%N -> cls_explicit_nonascii c = false ->
    cls_match ic c x = cls_match ic c (abstract_of x).
Proof.
  intros ic x c L E. destruct c as [|neg items]; cbn [cls_match].
  - cbn [abstract_of cp]. replace (N.eqb (cp x) 10) with false by (symmetry; apply N.eqb_neq; lia). reflexivity.
  - f_equal. cbn [cls_explicit_nonascii] in E. induction items as [|it r IH]; [reflexivity|].
    cbn [existsb] in *. apply orb_false_iff in E. destruct E as [E1 E2].
    rewrite (item_match_abstract ic x it L E1). rewrite (IH E2). reflexivity.
Qed.

Lemma abstract_in_list : forall x, ch_wf x = true -> (128 <= cp x)%N -> In (abstract_of x) abstract_chars.
Proof.
  intros x W L. destruct (wf_nonascii x W L) as (Hci & Hd & Hs).
  unfold abstract_of, abstract_chars. cbv zeta.
  destruct (N.eq_dec (c_ci x) 0) as [Z|NZ].
  - rewrite Z. apply in_or_app. left.
    destruct (c_word x) eqn:Ew, (c_space x) eqn:Es, (c_digit x) eqn:Ed; simpl; auto;
      try (destruct (Hs eq_refl); discriminate); try (specialize (Hs eq_refl); discriminate);
      try (destruct (Hd eq_refl) as [A B]; discriminate).
  - destruct (Hci NZ) as (Lw & Ew & Es & Ed). rewrite Ew, Es, Ed.
    apply in_or_app. right.
    unfold is_lower, in_range in Lw. apply andb_true_iff in Lw. destruct Lw as [L1 L2].
    apply N.leb_le in L1. apply N.leb_le in L2.
    replace (c_ci x) with (N.of_nat (N.to_nat (c_ci x))) by apply N2Nat.id.
    apply (in_map (fun l => mkCh 1114112 true false false (N.of_nat l) [])). apply in_seq. lia.
Qed.

Theorem cls_disjoint_sound :
  forall ic c1 c2 x, cls_disjoint ic c1 c2 = true -> ch_wf x = true ->
    cls_match ic c1 x = true -> cls_match ic c2 x = false.
Proof.
  intros ic c1 c2 x D W M1. unfold cls_disjoint in D. apply andb_true_iff in D. destruct D as [Da Dn].
  destruct (N.lt_ge_cases (cp x) 128) as [L|L].
  - rewrite (ascii_ch_of_wf x W L) in *. rewrite forallb_forall in Da.
    specialize (Da (cp x) (in_ascii_codes _ L)). cbn [cp ascii_ch] in Da.
    rewrite M1 in Da. simpl in Da. apply negb_true_iff in Da. exact Da.
  - destruct (cls_explicit_nonascii c1 || cls_explicit_nonascii c2) eqn:E.
    + apply negb_true_iff in Dn. rewrite (cls_match_nonascii ic x c1 W L M1) in Dn. simpl in Dn.
      destruct (cls_match ic c2 x) eqn:M2; [|reflexivity].
      rewrite (cls_match_nonascii ic x c2 W L M2) in Dn. discriminate.
    + apply orb_false_iff in E. destruct E as [E1 E2].
      rewrite forallb_forall in Dn. specialize (Dn _ (abstract_in_list x W L)).
      rewrite <- (cls_match_abstract ic x c1 L E1), <- (cls_match_abstract ic x c2 L E2) in Dn.
      rewrite M1 in Dn. simpl in Dn. apply negb_true_iff in Dn. exact Dn.
Qed.

(* ---------------- the theorem for A2 ---------------- *)
Definition wf_text (s : list ch) : Prop := Forall (fun x => ch_wf x = true) s.

Theorem poly2_bounded :
  forall ic (R : Type) r, poly2 ic r = true ->
    forall n K p s c (k : kontc R), List.length s <= n -> wf_text s ->
      (forall s', suffix s' s -> forall p' c', fst (k p' s' c') <= K) ->
      fst (mc ic r p s c k) <= bound2 r n K.
Proof.
  intros ic R r Hp n K p s c k Hn W Hk.
  exact (mc_bound2 ic R (fun x => ch_wf x = true) (fun c1 c2 x D G M => cls_disjoint_sound ic c1 c2 x D G M)
                   r Hp n K p s c k Hn W Hk).
Qed.

Lemma poly2_match_bounded :
  forall ic r s, poly2 ic r = true -> wf_text s -> fst (re_match_c ic r s) <= bound2 r (List.length s) 0.
Proof.
  intros ic r s Hp W. unfold re_match_c. apply poly2_bounded; auto; try (intros s' _ p' c'; simpl; lia).
Qed.

(* non-vacuity: the iteration of further names of the Numpy parameter regex, on "a, b, c" *)
Definition re_names : re :=
  let nm := CSet false [ILit 95%N; IRange 97%N 122%N] in
  let nm2 := CSet false [ILit 95%N; IRange 97%N 122%N; IRange 48%N 57%N] in
  let name := RSeq (RChr nm) (RStar true (RChr nm2)) in
  RSeq name (RStar true (RSeq (RChr (CSet false [ILit 44%N])) (RSeq (RChr (CSet false [ICat CSpace false])) name))).
Example names_accepted :
  poly1 re_names = false /\ poly2 true re_names = true /\
  re_match true re_names (str_ch "a, b, c : int") = Some (7%N, []) /\
  fst (re_match_c true re_names (str_ch "a, b, c : int")) <= bound2 re_names 13 0.
Proof.
  split; [reflexivity|]. split; [vm_compute; reflexivity|]. split; [vm_compute; reflexivity|].
  apply poly2_match_bounded; [vm_compute; reflexivity|].
  unfold wf_text. apply Forall_forall. apply (proj1 (forallb_forall _ _)). vm_compute. reflexivity.
Qed.

(* every regular expression of the docstring parsers (regenerated from /repo), on every well-formed subject *)
From Verif Require Import Gen.C12_regexes.
Theorem repo_regexes_bounded :
  forall key x s, In (key, x) all_regexes -> wf_text s ->
    fst (re_match_c (rx_ic x) (rx_re x) s) <= bound2 (rx_re x) (List.length s) 0.
Proof.
  intros key x s HIn W. apply poly2_match_bounded; [|exact W].
  assert (H := repo_regexes_meet_criterion). rewrite forallb_forall in H.
  exact (H (key, x) HIn).
Qed.
