(* C12, regex level: the step-counting matcher computes the model matcher's result; under criterion A1 (every
   unbounded quantifier repeats one character matcher) its steps are bounded by [bound], a polynomial in the
   length of the subject; every regular expression regenerated from the docstring parsers of /repo meets the
   criterion A2 (A1 or a delimited deterministic iteration), and all but the Numpy parameter regex meet A1. *)
From Coq Require Import List NArith Bool Arith Lia String Ascii.
From Verif Require Import Model.C12_regex Gen.C12_regexes.
Import ListNotations.
Open Scope list_scope.
Open Scope nat_scope.

Arguments tick {R} x : simpl never.
Arguments orelse {R} x y : simpl never.

Section Steps.
  Variable ic : bool.
  Variable R : Type.

  Lemma fst_tick : forall x : nat * option R, fst (tick x) = S (fst x).
  Proof. reflexivity. Qed.
  Lemma snd_tick : forall x : nat * option R, snd (tick x) = snd x.
  Proof. reflexivity. Qed.

  Lemma orelse_cost : forall (x : nat * option R) y, fst (orelse x y) <= fst x + fst (y tt).
  Proof. intros x y. unfold orelse. destruct (snd x); simpl; lia. Qed.

  Lemma orelse_snd : forall (x : nat * option R) y,
      snd (orelse x y) = match snd x with Some v => Some v | None => snd (y tt) end.
  Proof. intros x y. unfold orelse. destruct (snd x) eqn:E; simpl; auto. Qed.

  (* ---------------- the step-counting matcher returns the matcher's result ---------------- *)
  Definition krel (k : kontc R) (k' : kont R) : Prop := forall p s c, snd (k p s c) = k' p s c.

  Lemma star_loop_result :
    forall (body : N -> list ch -> caps -> kontc R -> nat * option R)
           (body' : N -> list ch -> caps -> kont R -> option R) g k k',
      (forall p s c K K', krel K K' -> snd (body p s c K) = body' p s c K') ->
      krel k k' ->
      forall n p s c, snd (star_loopc body g k n p s c) = star_loop body' g k' n p s c.
  Proof.
    intros body body' g k k' Hb Hk. induction n as [|n IH]; intros p s c; cbn [star_loopc star_loop].
    - rewrite snd_tick. apply Hk.
    - assert (HK : krel (fun p' s' c' => if N.ltb p p' then star_loopc body g k n p' s' c' else (0, None))
                        (fun p' s' c' => if N.ltb p p' then star_loop body' g k' n p' s' c' else None)).
      { intros p' s' c'. destruct (N.ltb p p'); simpl; auto. }
      destruct g; rewrite snd_tick, orelse_snd.
      + rewrite (Hb p s c _ _ HK). rewrite Hk. reflexivity.
      + rewrite Hk. rewrite (Hb p s c _ _ HK). reflexivity.
  Qed.

  Lemma mc_result : forall r p s c k k', krel k k' -> snd (mc ic r p s c k) = m ic r p s c k'.
  Proof.
    induction r as [| cl | | | a IHa b IHb | a IHa b IHb | g a IHa | g a IHa | i a IHa]; intros p s c k k' Hk; cbn [mc m].
    - rewrite snd_tick. apply Hk.
    - destruct s as [|x s']; [reflexivity|]. destruct (cls_match ic cl x); [|reflexivity]. rewrite snd_tick. apply Hk.
    - destruct (N.eqb p 0); [|reflexivity]. rewrite snd_tick. apply Hk.
    - destruct s as [|x [|y s']]; [rewrite snd_tick; apply Hk| |reflexivity].
      destruct (is_nl x); [|reflexivity]. rewrite snd_tick. apply Hk.
    - rewrite snd_tick. apply IHa. intros p' s' c'. apply IHb. exact Hk.
    - rewrite snd_tick, orelse_snd. rewrite (IHa p s c k k' Hk). rewrite (IHb p s c k k' Hk). reflexivity.
    - destruct g; rewrite snd_tick, orelse_snd.
      + rewrite (IHa p s c k k' Hk). rewrite Hk. reflexivity.
      + rewrite Hk. rewrite (IHa p s c k k' Hk). reflexivity.
    - rewrite snd_tick. apply star_loop_result; [|exact Hk]. intros p0 s0 c0 K K' HK. apply IHa. exact HK.
    - rewrite snd_tick. apply IHa. intros p' s' c'. apply Hk.
  Qed.

  (* ---------------- the bound ---------------- *)
  (* every call of the continuation on at most L characters costs at most K steps *)
  Definition kbound (k : kontc R) (L K : nat) : Prop := forall p s c, List.length s <= L -> fst (k p s c) <= K.

  Lemma kbound_le : forall k L L' K, kbound k L K -> L' <= L -> kbound k L' K.
  Proof. intros k L L' K H HL p s c Hs. apply H. lia. Qed.

  Lemma mc_chr : forall cl p s c (k : kontc R),
      mc ic (RChr cl) p s c k =
      match s with
      | x :: s' => if cls_match ic cl x then tick (k (N.succ p) s' c) else (1, None)
      | [] => (1, None)
      end.
  Proof. reflexivity. Qed.

  Lemma mc_star : forall g a p s c (k : kontc R),
      mc ic (RStar g a) p s c k = tick (star_loopc (mc ic a) g k (List.length s) p s c).
  Proof. reflexivity. Qed.

  Lemma star_chr_bound :
    forall cl g k K n p s c,
      kbound k (List.length s) K ->
      fst (star_loopc (mc ic (RChr cl)) g k n p s c) <= (n + 1) * (K + 2).
  Proof.
    intros cl g k K. induction n as [|n IH]; intros p s c Hk.
    - cbn [star_loopc]. rewrite fst_tick. specialize (Hk p s c (le_n _)). lia.
    - cbn [star_loopc].
      replace ((S n + 1) * (K + 2)) with ((n + 1) * (K + 2) + (K + 2)) by ring.
      assert (Hkk : fst (k p s c) <= K) by (apply Hk; lia).
      assert (Hagain : fst (mc ic (RChr cl) p s c
                 (fun p' s' c' => if N.ltb p p' then star_loopc (mc ic (RChr cl)) g k n p' s' c' else (0, None)))
               <= 1 + (n + 1) * (K + 2)).
      { rewrite mc_chr. destruct s as [|x s']; [simpl; lia|].
        destruct (cls_match ic cl x); [|simpl; lia].
        assert (E : N.ltb p (N.succ p) = true) by (apply N.ltb_lt; lia). rewrite E. rewrite fst_tick.
        assert (H' : kbound k (List.length s') K) by (eapply kbound_le; [exact Hk|simpl; lia]).
        assert (H := IH (N.succ p) s' c H'). lia. }
      destruct g; rewrite fst_tick.
      + match goal with |- S (fst (orelse ?x ?y)) <= _ => pose proof (orelse_cost x y) as Ho end.
        cbv beta in Ho. lia.
      + match goal with |- S (fst (orelse ?x ?y)) <= _ => pose proof (orelse_cost x y) as Ho end.
        cbv beta in Ho. lia.
  Qed.

  Lemma mc_bound :
    forall r, poly1 r = true ->
      forall n K p s c k, List.length s <= n -> kbound k (List.length s) K ->
        fst (mc ic r p s c k) <= bound r n K.
  Proof.
    induction r as [| cl | | | a IHa b IHb | a IHa b IHb | g a IHa | g a IHa | i a IHa];
      intros Hp n K p s c k Hn Hk; simpl in Hp.
    - cbn [mc bound]. rewrite fst_tick. specialize (Hk p s c (le_n _)). lia.
    - cbn [mc bound]. destruct s as [|x s']; [simpl; lia|]. destruct (cls_match ic cl x); [|simpl; lia].
      rewrite fst_tick. assert (H : fst (k (N.succ p) s' c) <= K) by (apply Hk; simpl; lia). lia.
    - cbn [mc bound]. destruct (N.eqb p 0); [|simpl; lia]. rewrite fst_tick. specialize (Hk p s c (le_n _)). lia.
    - cbn [mc bound]. destruct s as [|x [|y s']]; [| |simpl; lia].
      + rewrite fst_tick. specialize (Hk p [] c (le_n _)). lia.
      + destruct (is_nl x); [|simpl; lia]. rewrite fst_tick. specialize (Hk p [x] c (le_n _)). lia.
    - apply andb_true_iff in Hp. destruct Hp as [Ha Hb]. cbn [mc bound]. rewrite fst_tick.
      apply le_n_S. apply IHa; auto.
      intros p' s' c' Hs'. apply IHb; auto; try lia. eapply kbound_le; eauto.
    - apply andb_true_iff in Hp. destruct Hp as [Ha Hb]. cbn [mc bound]. rewrite fst_tick.
      match goal with |- S (fst (orelse ?x ?y)) <= _ => pose proof (orelse_cost x y) as Ho end. cbv beta in Ho.
      assert (H1 := IHa Ha n K p s c k Hn Hk). assert (H2 := IHb Hb n K p s c k Hn Hk). lia.
    - assert (Hkk : fst (k p s c) <= K) by (apply Hk; lia).
      assert (H1 := IHa Hp n K p s c k Hn Hk).
      destruct g; cbn [mc bound]; rewrite fst_tick;
        match goal with |- S (fst (orelse ?x ?y)) <= _ => pose proof (orelse_cost x y) as Ho end; cbv beta in Ho; lia.
    - destruct a; try discriminate. rewrite mc_star. cbn [bound]. rewrite fst_tick.
      assert (H := star_chr_bound c0 g k K (List.length s) p s c Hk).
      assert (Hm : (List.length s + 1) * (K + 2) <= (n + 1) * (K + 4)) by (apply Nat.mul_le_mono; lia).
      lia.
    - cbn [mc bound]. rewrite fst_tick. apply le_n_S. apply IHa; auto.
      intros p' s' c' Hs'. apply Hk. exact Hs'.
  Qed.
End Steps.

(* ---------------- the parsers' entry points ---------------- *)
(* pattern.match(subject), counting steps *)
Definition re_match_c (ic : bool) (r : re) (s : list ch) : nat * option (N * caps) :=
  mc ic r 0%N s [] (fun p _ c => (0, Some (p, c))).

Lemma re_match_c_result : forall ic r s, snd (re_match_c ic r s) = re_match ic r s.
Proof. intros. unfold re_match_c, re_match. apply mc_result. intros p s' c. reflexivity. Qed.

Lemma poly1_match_bounded :
  forall ic r s, poly1 r = true -> fst (re_match_c ic r s) <= bound r (List.length s) 0.
Proof.
  intros ic r s Hp. unfold re_match_c. apply mc_bound; auto. intros p s' c _. simpl. lia.
Qed.

(* pattern.search / pattern.sub try the match at every start position: steps of all the attempts together *)
Fixpoint re_scan_c (ic : bool) (r : re) (p : N) (s : list ch) : nat :=
  fst (mc ic r p s [] (fun e _ c => (0, Some (e, c))))
  + match s with [] => 0 | _ :: s' => re_scan_c ic r (N.succ p) s' end.

Lemma poly1_scan_bounded :
  forall ic r, poly1 r = true ->
    forall n s p, List.length s <= n -> re_scan_c ic r p s <= (List.length s + 1) * bound r n 0.
Proof.
  intros ic r Hp n. induction s as [|x s IH]; intros p Hn.
  - simpl. assert (H := mc_bound ic _ r Hp n 0 p [] [] (fun e _ c => (0, Some (e, c))) Hn).
    assert (H' : fst (mc ic r p [] [] (fun e _ c => (0, Some (e, c)))) <= bound r n 0)
      by (apply H; intros p' s' c' _; simpl; lia).
    lia.
  - cbn [re_scan_c]. simpl in Hn.
    assert (H' : fst (mc ic r p (x :: s) [] (fun e _ c => (0, Some (e, c)))) <= bound r n 0).
    { apply mc_bound; auto. intros p' s' c' _; simpl; lia. }
    assert (H2 := IH (N.succ p)). assert (Hs : List.length s <= n) by lia. specialize (H2 Hs).
    simpl List.length. lia.
Qed.

(* ---------------- the bound is a polynomial: degree = number of unbounded quantifiers ---------------- *)
Fixpoint stars (r : re) : nat :=
  match r with
  | REps | RBol | REol | RChr _ => 0
  | RSeq a b | RAlt a b => stars a + stars b
  | ROpt _ a | RGrp _ a => stars a
  | RStar _ _ => 1
  end.
Fixpoint coef (r : re) : nat :=
  match r with
  | REps | RBol | REol | RChr _ => 1
  | RSeq a b => 1 + 2 * coef a * coef b
  | RAlt a b => 1 + coef a + coef b
  | ROpt _ a | RGrp _ a => 1 + coef a
  | RStar _ _ => 5
  end.

Lemma pow_ge_1 : forall x k, 1 <= (x + 1) ^ k.
Proof. intros x k. induction k; simpl; nia. Qed.

Lemma bound_polynomial : forall r n K, bound r n K <= coef r * (n + 1) ^ stars r * (K + 1).
Proof.
  induction r as [| cl | | | a IHa b IHb | a IHa b IHb | g a IHa | g a IHa | i a IHa]; intros n K;
    cbn [bound coef stars]; try (simpl; lia).
  - (* seq *)
    specialize (IHb n K). specialize (IHa n (bound b n K)).
    rewrite Nat.pow_add_r.
    assert (Pa := pow_ge_1 n (stars a)). assert (Pb := pow_ge_1 n (stars b)).
    set (A := (n + 1) ^ stars a) in *. set (B := (n + 1) ^ stars b) in *.
    set (ca := coef a) in *. set (cb := coef b) in *. set (X := bound b n K) in *.
    assert (Hca : 1 <= ca) by (subst ca; destruct a; simpl; lia).
    assert (Hcb : 1 <= cb) by (subst cb; destruct b; simpl; lia).
    assert (H1 : ca * A * (X + 1) <= ca * A * (cb * B * (K + 1) + 1)) by (apply Nat.mul_le_mono_l; lia).
    assert (H2 : 1 <= cb * B * (K + 1)) by nia.
    assert (H3 : ca * A * (cb * B * (K + 1) + 1) <= ca * A * (2 * (cb * B * (K + 1)))) by (apply Nat.mul_le_mono_l; lia).
    assert (H4 : 1 <= ca * A * (cb * B * (K + 1))) by nia.
    nia.
  - (* alt *)
    specialize (IHa n K). specialize (IHb n K). rewrite Nat.pow_add_r.
    assert (Pa := pow_ge_1 n (stars a)). assert (Pb := pow_ge_1 n (stars b)).
    set (A := (n + 1) ^ stars a) in *. set (B := (n + 1) ^ stars b) in *.
    assert (H1 : coef a * A * (K + 1) <= coef a * (A * B) * (K + 1)) by nia.
    assert (H2 : coef b * B * (K + 1) <= coef b * (A * B) * (K + 1)) by nia.
    assert (H3 : 1 <= A * B * (K + 1)) by nia.
    nia.
  - (* opt *)
    specialize (IHa n K). assert (Pa := pow_ge_1 n (stars a)).
    set (A := (n + 1) ^ stars a) in *.
    assert (H1 : K + 1 <= A * (K + 1)) by nia.
    replace ((1 + coef a) * A * (K + 1)) with (coef a * A * (K + 1) + A * (K + 1)) by ring.
    lia.
  - (* grp *)
    specialize (IHa n K). assert (Pa := pow_ge_1 n (stars a)).
    set (A := (n + 1) ^ stars a) in *.
    assert (H1 : K + 1 <= A * (K + 1)) by nia.
    replace ((1 + coef a) * A * (K + 1)) with (coef a * A * (K + 1) + A * (K + 1)) by ring.
    lia.
Qed.

(* ---------------- the regexes of the parsers (regenerated from /repo on every run) ---------------- *)
Lemma repo_regexes_meet_criterion : forallb (fun x => regex_ok (snd x)) all_regexes = true.
Proof. vm_compute. reflexivity. Qed.

(* which of them are outside A1 (and rest on A2 alone): only the Numpy parameter regex *)
Lemma repo_regexes_a1_except :
  map fst (filter (fun x => negb (regex_a1 (snd x))) all_regexes) = ["numpy._RE_PARAMETER"%string].
Proof. vm_compute. reflexivity. Qed.

(* non-vacuity: the criterion rejects the nested quantifier "(?:[^()]+|\([^()]*\))+" and accepts "\w+\s*:" *)
Definition cl_np : cls := CSet true [ILit 40%N; ILit 41%N].
Definition re_nested : re :=
  let body := RAlt (RSeq (RChr cl_np) (RStar true (RChr cl_np)))
                   (RSeq (RChr (CSet false [ILit 40%N])) (RSeq (RStar true (RChr cl_np)) (RChr (CSet false [ILit 41%N])))) in
  RSeq body (RStar true body).
Example nested_quantifier_rejected : poly2 false re_nested = false /\ poly1 re_nested = false.
Proof. split; vm_compute; reflexivity. Qed.

Definition str_ch (s : string) : list ch := map (fun a => ascii_ch (N_of_ascii a)) (list_ascii_of_string s).
Definition re_word_colon : re :=
  RSeq (RGrp 1 (RSeq (RChr (CSet false [ICat CWord false])) (RStar true (RChr (CSet false [ICat CWord false])))))
       (RSeq (RStar true (RChr (CSet false [ICat CSpace false]))) (RChr (CSet false [ILit 58%N]))).
Example word_colon_accepted :
  poly1 re_word_colon = true /\
  re_match false re_word_colon (str_ch "name  : x") = Some (7%N, [(1, (0%N, 4%N))]) /\
  fst (re_match_c false re_word_colon (str_ch "name  : x")) <= bound re_word_colon 9 0.
Proof. split; [reflexivity|split; [vm_compute; reflexivity|apply poly1_match_bounded; reflexivity]]. Qed.

(* the nested quantifier really is exponential for the model matcher: steps on "(" x^n, for n = 4, 8, 12, 16 *)
Definition re_m4_type : re :=
  RSeq (RChr (CSet false [ILit 40%N])) (RSeq (RGrp 2 re_nested) (RSeq (RChr (CSet false [ILit 41%N])) (RChr (CSet false [ILit 58%N])))).
Definition xs (n : nat) : list ch := ascii_ch 40%N :: repeat (ascii_ch 120%N) n.
Example nested_quantifier_doubles :
  (2 * fst (re_match_c false re_m4_type (xs 4)) <=? fst (re_match_c false re_m4_type (xs 5))) = true /\
  (2 * fst (re_match_c false re_m4_type (xs 8)) <=? fst (re_match_c false re_m4_type (xs 9))) = true /\
  (2 * fst (re_match_c false re_m4_type (xs 12)) <=? fst (re_match_c false re_m4_type (xs 13))) = true.
Proof. repeat split; vm_compute; reflexivity. Qed.

(* ---------------- the quantifier's counter is not a cut-off ----------------
   [star_loop] counts its iterations down from the number of characters left.  The matcher consults its continuation
   only at positions that lie forward in the subject (fwd), a successful iteration that moved the position has
   shortened the text, so the counter never reaches 0 while an iteration could still consume something: any
   larger counter gives the same result.  The matcher is therefore the fuel-free backtracking matcher. *)
Section Forward.
  Variable ic : bool.
  Variable R : Type.

  (* from position p with s left to position p' with s' left: forward, and as many characters gone as positions *)
  Definition fwd (p : N) (s : list ch) (p' : N) (s' : list ch) : Prop :=
    (p <= p')%N /\ (N.of_nat (List.length s') + (p' - p) = N.of_nat (List.length s))%N.

  Lemma fwd_refl : forall p s, fwd p s p s.
  Proof. intros p s. unfold fwd. lia. Qed.

  Lemma fwd_trans : forall p s p1 s1 p2 s2, fwd p s p1 s1 -> fwd p1 s1 p2 s2 -> fwd p s p2 s2.
  Proof. unfold fwd. intros. lia. Qed.

  Lemma fwd_cons : forall p x s, fwd p (x :: s) (N.succ p) s.
  Proof. intros p x s. unfold fwd. simpl List.length. lia. Qed.

  Definition kagree (p : N) (s : list ch) (k1 k2 : kont R) : Prop :=
    forall p' s' c', fwd p s p' s' -> k1 p' s' c' = k2 p' s' c'.

  Lemma kagree_fwd : forall p s p' s' k1 k2, kagree p s k1 k2 -> fwd p s p' s' -> kagree p' s' k1 k2.
  Proof. intros p s p' s' k1 k2 H F p2 s2 c2 F2. apply H. eapply fwd_trans; eauto. Qed.

  Lemma star_loop_agree :
    forall (body : N -> list ch -> caps -> kont R -> option R) g k1 k2,
      (forall p s c K1 K2, kagree p s K1 K2 -> body p s c K1 = body p s c K2) ->
      forall n p s c, kagree p s k1 k2 -> star_loop body g k1 n p s c = star_loop body g k2 n p s c.
  Proof.
    intros body g k1 k2 Hb. induction n as [|n IH]; intros p s c Hk; cbn [star_loop].
    - apply Hk. apply fwd_refl.
    - assert (E : body p s c (fun p' s' c' => if N.ltb p p' then star_loop body g k1 n p' s' c' else None)
                = body p s c (fun p' s' c' => if N.ltb p p' then star_loop body g k2 n p' s' c' else None)).
      { apply Hb. intros p' s' c' F. destruct (N.ltb p p'); [|reflexivity].
        apply IH. eapply kagree_fwd; eauto. }
      rewrite E. rewrite (Hk p s c (fwd_refl p s)). reflexivity.
  Qed.

  Lemma m_agree : forall r p s c k1 k2, kagree p s k1 k2 -> m ic r p s c k1 = m ic r p s c k2.
  Proof.
    induction r as [| cl | | | a IHa b IHb | a IHa b IHb | g a IHa | g a IHa | i a IHa]; intros p s c k1 k2 Hk; cbn [m].
    - apply Hk. apply fwd_refl.
    - destruct s as [|x s']; [reflexivity|]. destruct (cls_match ic cl x); [|reflexivity].
      apply Hk. apply fwd_cons.
    - destruct (N.eqb p 0); [|reflexivity]. apply Hk. apply fwd_refl.
    - destruct s as [|x [|y s']]; [apply Hk; apply fwd_refl| |reflexivity].
      destruct (is_nl x); [|reflexivity]. apply Hk. apply fwd_refl.
    - apply IHa. intros p' s' c' F. apply IHb. eapply kagree_fwd; eauto.
    - rewrite (IHa p s c k1 k2 Hk), (IHb p s c k1 k2 Hk). reflexivity.
    - destruct g; rewrite (IHa p s c k1 k2 Hk), (Hk p s c (fwd_refl p s)); reflexivity.
    - apply star_loop_agree; [|exact Hk]. intros p0 s0 c0 K1 K2 HK. apply IHa. exact HK.
    - apply IHa. intros p' s' c' F. apply Hk. exact F.
  Qed.

  (* a match succeeds only through its continuation *)
  Lemma star_loop_none :
    forall (body : N -> list ch -> caps -> kont R -> option R) g (k : kont R),
      (forall p s c K, (forall p' s' c', K p' s' c' = None) -> body p s c K = None) ->
      (forall p s c, k p s c = None) ->
      forall n p s c, star_loop body g k n p s c = None.
  Proof.
    intros body g k Hb Hk. induction n as [|n IH]; intros p s c; cbn [star_loop]; [apply Hk|].
    rewrite Hk. rewrite Hb; [destruct g; reflexivity|].
    intros p' s' c'. destruct (N.ltb p p'); [apply IH|reflexivity].
  Qed.

  Lemma m_none : forall r p s c (k : kont R), (forall p' s' c', k p' s' c' = None) -> m ic r p s c k = None.
  Proof.
    induction r as [| cl | | | a IHa b IHb | a IHa b IHb | g a IHa | g a IHa | i a IHa]; intros p s c k Hk; cbn [m].
    - apply Hk.
    - destruct s as [|x s']; [reflexivity|]. destruct (cls_match ic cl x); [apply Hk|reflexivity].
    - destruct (N.eqb p 0); [apply Hk|reflexivity].
    - destruct s as [|x [|y s']]; [apply Hk| |reflexivity]. destruct (is_nl x); [apply Hk|reflexivity].
    - apply IHa. intros p' s' c'. apply IHb. exact Hk.
    - rewrite (IHa p s c k Hk). apply IHb. exact Hk.
    - destruct g; rewrite (IHa p s c k Hk), Hk; reflexivity.
    - apply star_loop_none; [|exact Hk]. intros p0 s0 c0 K HK. apply IHa. exact HK.
    - apply IHa. intros p' s' c'. apply Hk.
  Qed.

  (* any counter that is at least the number of characters left gives the same result *)
  Lemma star_loop_counter :
    forall a g (k : kont R) n n' p s c,
      List.length s <= n -> List.length s <= n' ->
      star_loop (m ic a) g k n p s c = star_loop (m ic a) g k n' p s c.
  Proof.
    intros a g k. induction n as [|n IH]; intros n' p s c Hn Hn'.
    - (* nothing left: an iteration cannot move the position, so it fails *)
      assert (s = []) by (destruct s; [reflexivity|simpl in Hn; lia]). subst s.
      destruct n' as [|n']; [reflexivity|]. cbn [star_loop].
      assert (E : m ic a p [] c (fun p' s' c' => if N.ltb p p' then star_loop (m ic a) g k n' p' s' c' else None) = None).
      { rewrite (m_agree a p [] c _ (fun _ _ _ => None)); [apply m_none; reflexivity|].
        intros p' s' c' [F1 F2]. simpl in F2.
        assert (Hlt : N.ltb p p' = false) by (apply N.ltb_ge; lia). rewrite Hlt. reflexivity. }
      rewrite E. destruct g; [reflexivity|]. destruct (k p [] c); reflexivity.
    - destruct n' as [|n'].
      + assert (s = []) by (destruct s; [reflexivity|simpl in Hn'; lia]). subst s.
        cbn [star_loop].
        assert (E : m ic a p [] c (fun p' s' c' => if N.ltb p p' then star_loop (m ic a) g k n p' s' c' else None) = None).
        { rewrite (m_agree a p [] c _ (fun _ _ _ => None)); [apply m_none; reflexivity|].
          intros p' s' c' [F1 F2]. simpl in F2.
          assert (Hlt : N.ltb p p' = false) by (apply N.ltb_ge; lia). rewrite Hlt. reflexivity. }
        rewrite E. destruct g; [reflexivity|]. destruct (k p [] c); reflexivity.
      + cbn [star_loop].
        assert (E : m ic a p s c (fun p' s' c' => if N.ltb p p' then star_loop (m ic a) g k n p' s' c' else None)
                  = m ic a p s c (fun p' s' c' => if N.ltb p p' then star_loop (m ic a) g k n' p' s' c' else None)).
        { apply m_agree. intros p' s' c' [F1 F2]. destruct (N.ltb p p') eqn:L; [|reflexivity].
          apply N.ltb_lt in L. apply IH; lia. }
        rewrite E. reflexivity.
  Qed.

  Theorem star_counter_irrelevant :
    forall g a p s c (k : kont R) n, List.length s <= n ->
      m ic (RStar g a) p s c k = star_loop (m ic a) g k n p s c.
  Proof. intros. cbn [m]. apply star_loop_counter; auto. Qed.
End Forward.
