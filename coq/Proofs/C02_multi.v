(* C02 proofs: containers of different functions never influence one another, whatever the history; merging a stub
   signature keeps the definition's names/kinds/defaults and annotates every parameter BY NAME. *)
From Coq Require Import List ZArith String Bool Arith Lia.
From Verif Require Import Lib.Sexp Model.C02_kinds Model.C02_params Model.C02_container Model.C02_multi Proofs.C02_container.
Import ListNotations.
Open Scope string_scope.
Open Scope list_scope.
Open Scope nat_scope.

Lemma nth_error_upd_same {A} i (x : A) l : i < List.length l -> nth_error (upd_nth i x l) i = Some x.
Proof. revert i; induction l as [|y r IH]; intros [|i] H; simpl in *; try lia; auto. apply IH. lia. Qed.

Lemma nth_error_upd_other {A} i j (x : A) l : i <> j -> nth_error (upd_nth i x l) j = nth_error l j.
Proof.
  revert i j; induction l as [|y r IH]; intros [|i] [|j] H; simpl; try reflexivity; try congruence.
  apply IH. congruence.
Qed.

Lemma run_ops_snd_cons step l o r : snd (run_ops step l (o :: r)) = snd (run_ops step (fst (step l o)) r).
Proof. simpl. destruct (step l o) as [l' b]. simpl. destruct (run_ops step l' r). reflexivity. Qed.

Lemma run_multi_snd_cons st io r : snd (run_multi st (io :: r)) = snd (run_multi (fst (m_step st io)) r).
Proof. reflexivity. Qed.

Lemma ops_for_cons j i o r : ops_for j ((i, o) :: r) = if Nat.eqb i j then o :: ops_for j r else ops_for j r.
Proof. unfold ops_for. simpl. destruct (Nat.eqb i j); reflexivity. Qed.

(* every history over every store: what container j holds in the end is what its own operations alone make of it *)
Theorem containers_independent : forall ios st j l,
  nth_error st j = Some l ->
  nth_error (snd (run_multi st ios)) j = Some (snd (run_ops c_step l (ops_for j ios))).
Proof.
  induction ios as [|[i o] r IH]; intros st j l H; [exact H|].
  rewrite run_multi_snd_cons, ops_for_cons. unfold m_step. cbn [fst snd].
  destruct (Nat.eqb i j) eqn:E.
  - apply Nat.eqb_eq in E. subst i. rewrite H. cbn [fst snd].
    rewrite run_ops_snd_cons. apply IH. apply nth_error_upd_same. apply nth_error_Some. congruence.
  - apply Nat.eqb_neq in E.
    destruct (nth_error st i) as [li|]; cbn [fst snd]; apply IH; [rewrite nth_error_upd_other by exact E|]; exact H.
Qed.

(* ---------- stub merging ---------- *)
Definition shape (p : param) := (pname p, pkind p, pdef p).

Lemma update_first_shape n a l : map shape (update_first n a l) = map shape l.
Proof. induction l as [|p r IH]; simpl; [reflexivity|]. destruct (name_is n p); simpl; [reflexivity|]. rewrite IH. reflexivity. Qed.

(* names, order, kinds and defaults stay those of the definition (= CPython's runtime signature), for all lists *)
Theorem merge_keeps_shape stub : forall impl, map shape (merge_stub_parameters impl stub) = map shape impl.
Proof.
  unfold merge_stub_parameters. induction stub as [|q r IH]; intros impl; simpl; [reflexivity|].
  rewrite IH. apply update_first_shape.
Qed.

Lemma update_first_absent n a l : existsb (name_is n) l = false -> update_first n a l = l.
Proof.
  induction l as [|p r IH]; simpl; [reflexivity|]. intros H. apply orb_false_iff in H. destruct H as [H1 H2].
  rewrite H1, (IH H2). reflexivity.
Qed.

Lemma name_is_with_ann n a p : name_is n (with_ann a p) = name_is n p.
Proof. reflexivity. Qed.

Lemma existsb_update_first m n a l : existsb (name_is m) (update_first n a l) = existsb (name_is m) l.
Proof.
  induction l as [|p r IH]; simpl; [reflexivity|]. destruct (name_is n p); simpl; [reflexivity|]. rewrite IH. reflexivity.
Qed.

Lemma nodup_update_first n a l : nodupb (names_of (update_first n a l)) = nodupb (names_of l).
Proof.
  induction l as [|p r IH]; simpl; [reflexivity|]. destruct (name_is n p); simpl; [reflexivity|].
  rewrite IH, !existsb_names, existsb_update_first. reflexivity.
Qed.

(* one stub parameter at a time, on a definition with distinct names *)
Lemma update_first_spec n a l : nodupb (names_of l) = true ->
  update_first n a l = map (fun p => if name_is n p then with_ann a p else p) l.
Proof.
  induction l as [|p r IH]; simpl; [reflexivity|]. intros H. apply andb_prop in H. destruct H as [H1 H2].
  destruct (name_is n p) eqn:E.
  - f_equal. apply name_is_true in E. apply negb_true_iff in H1. rewrite existsb_names, E in H1.
    clear IH H2. induction r as [|x r IHr]; simpl in *; [reflexivity|].
    apply orb_false_iff in H1. destruct H1 as [Hx Hr]. rewrite Hx. f_equal. apply IHr. exact Hr.
  - f_equal. apply IH. exact H2.
Qed.

(* THE statement: with distinct names on both sides (what Python guarantees), the merged signature annotates every
   parameter of the definition as the stub annotates the parameter of that NAME -- whatever the lengths and orders *)
Theorem merge_is_by_name stub : forall impl,
  nodupb (names_of impl) = true -> nodupb (names_of stub) = true ->
  merge_stub_parameters impl stub = merged_spec impl stub.
Proof.
  unfold merge_stub_parameters, merged_spec. induction stub as [|q r IH]; intros impl Hi Hs; simpl.
  - rewrite map_id. reflexivity.
  - simpl in Hs. apply andb_prop in Hs. destruct Hs as [Hq Hr].
    rewrite IH by (rewrite ?nodup_update_first; assumption).
    rewrite (update_first_spec _ _ _ Hi), map_map. apply map_ext. intros p.
    apply negb_true_iff in Hq. rewrite existsb_names in Hq.
    destruct (name_is (pname q) p) eqn:E; simpl.
    + apply name_is_true in E.
      assert (E1 : name_is (pname p) q = true) by (apply name_is_true; symmetry; exact E).
      assert (Hn : find (name_is (pname p)) r = None).
      { rewrite E. clear -Hq. induction r as [|x r IHr]; simpl in *; [reflexivity|].
        apply orb_false_iff in Hq. destruct Hq as [H1 H2]. rewrite H1. apply IHr. exact H2. }
      rewrite E1, Hn. reflexivity.
    + apply name_is_false in E.
      assert (E1 : name_is (pname p) q = false) by (apply name_is_false; congruence).
      rewrite E1. reflexivity.
Qed.

Example merge_example :
  let impl := [mkParam "host" None PK DNone; mkParam "args" None VP (DStr "()"); mkParam "timeout" None KO (DExpr 1);
               mkParam "options" None VK (DStr "{}")] in
  let stub := [mkParam "host" (Some 1%Z) PK DNone; mkParam "timeout" (Some 2%Z) KO (DExpr 9); mkParam "user" (Some 3%Z) KO (DExpr 9);
               mkParam "options" (Some 4%Z) VK (DStr "{}")] in
  merge_stub_parameters impl stub =
    [mkParam "host" (Some 1%Z) PK DNone; mkParam "args" None VP (DStr "()"); mkParam "timeout" (Some 2%Z) KO (DExpr 1);
     mkParam "options" (Some 4%Z) VK (DStr "{}")].
Proof. reflexivity. Qed.

Example independent_example :
  let a := mkParam "a" None PK DNone in
  snd (run_multi [[]; []; [a]] [(0, OAdd a); (2, ODel (KInt 0)); (0, OAdd (mkParam "b" None KO DNone))]) =
    [[a; mkParam "b" None KO DNone]; []; []].
Proof. reflexivity. Qed.
