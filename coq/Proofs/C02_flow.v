(* C02 proofs: when [dead_ok] holds, the statements CPython does not execute leave no trace in what Griffe reports
   (members, pending overloads, and what happened to every live definition), for every tagged body; together with
   the agreement theorem this relates Griffe's flow-insensitive visit of the whole body to CPython's execution. *)
From Coq Require Import List ZArith String Ascii Bool Arith Lia.
From Verif Require Import Lib.Sexp Model.C02_kinds Gen.C02_tables Model.C02_scope Model.C02_flow Proofs.C02_scope.
Import ListNotations.
Open Scope string_scope.
Open Scope list_scope.

Lemma zlist_eqb_eq a b : zlist_eqb a b = true -> a = b.
Proof.
  revert b; induction a as [|x r IH]; intros [|y s]; simpl; try discriminate; [reflexivity|].
  intros H. apply andb_prop in H. destruct H as [H1 H2]. apply Z.eqb_eq in H1. subst. f_equal. apply IH. exact H2.
Qed.

(* the Griffe run over everything (sG) and the run over the live statements only (sC) *)
Definition inv (D : dirty) (sG sC : scope) : Prop :=
  tracks sG = tracks sC /\
  forall n, match lookup n D with
            | None => mem n sG = mem n sC /\ buf n sG = buf n sC
            | Some b => buf n sC = b
            end.

Lemma inv_dead D sG sC it : inv D sG sC ->
  inv (match lookup (iname it) D with Some _ => D | None => assign (iname it) (buf (iname it) sG) D end) (step sG it) sC.
Proof.
  intros [Ht H]. split; [rewrite tracks_step; exact Ht|]. intros n.
  destruct (String.eqb (iname it) n) eqn:E.
  - apply String.eqb_eq in E. subst n. specialize (H (iname it)).
    destruct (lookup (iname it) D) as [b|] eqn:El.
    + rewrite El. exact H.
    + rewrite lookup_assign_same. destruct H as [_ H]. auto.
  - apply String.eqb_neq in E. specialize (H n).
    destruct (step_other_name sG it n E) as [H1 H2]. rewrite H1, H2.
    destruct (lookup (iname it) D); [exact H|].
    rewrite lookup_assign_other by exact E. exact H.
Qed.

(* a live statement, seen from another name: nothing moves on either side *)
Lemma inv_live_other D D' sG sC it : inv D sG sC ->
  (forall m, m <> iname it -> lookup m D' = lookup m D) ->
  (match lookup (iname it) D' with
   | None => mem (iname it) (step sG it) = mem (iname it) (step sC it) /\ buf (iname it) (step sG it) = buf (iname it) (step sC it)
   | Some b => buf (iname it) (step sC it) = b
   end) ->
  inv D' (step sG it) (step sC it).
Proof.
  intros [Ht H] Hl Hn. split; [rewrite !tracks_step; exact Ht|]. intros m.
  destruct (String.eqb (iname it) m) eqn:E.
  - apply String.eqb_eq in E. subst m. exact Hn.
  - apply String.eqb_neq in E. rewrite (Hl m) by (intros X; apply E; symmetry; exact X).
    destruct (step_other_name sG it m E) as [H1 H2]. destruct (step_other_name sC it m E) as [H3 H4].
    specialize (H m). destruct (lookup m D); [rewrite H4; exact H|]. rewrite H1, H2, H3, H4. exact H.
Qed.

Lemma lookup_remove_other' {A} n m (l : list (string * A)) : m <> n -> lookup m (remove_key n l) = lookup m l.
Proof. intros H. apply lookup_remove_other. intros X; apply H; symmetry; exact X. Qed.

Lemma lookup_assign_other' {A} n m (v : A) l : m <> n -> lookup m (assign n v l) = lookup m l.
Proof. intros H. apply lookup_assign_other. intros X; apply H; symmetry; exact X. Qed.

Theorem dead_code_invisible_gen : forall its D sG sC,
  dead_ok D its sG = true -> inv D sG sC ->
  (forall n, mem n (visit_items (all_items its) sG) = mem n (visit_items (live_items its) sC) /\
             buf n (visit_items (all_items its) sG) = buf n (visit_items (live_items its) sC)) /\
  live_log its (visit_log (all_items its) sG) = visit_log (live_items its) sC.
Proof.
  induction its as [|[live it] r IH]; intros D sG sC Hok Hinv.
  - simpl in *. destruct D; [|discriminate]. destruct Hinv as [_ H]. split; [|reflexivity].
    intros n. specialize (H n). simpl in H. exact H.
  - destruct live; simpl in Hok.
    2:{ (* a dead statement: only Griffe's run moves *)
      unfold all_items, live_items in *. simpl. apply (IH _ _ _ Hok). apply inv_dead. exact Hinv. }
    unfold all_items, live_items in *. simpl.
    pose proof Hinv as [Ht H].
    pose proof (handle_item_local sG it) as LG. pose proof (handle_item_local sC it) as LC.
    destruct (lookup (iname it) D) as [b|] eqn:El.
    + (* the name is dirty *)
      destruct (zlist_eqb (buf (iname it) sG) b) eqn:Eb; [|discriminate]. apply zlist_eqb_eq in Eb.
      pose proof (H (iname it)) as Hn. rewrite El in Hn.
      rewrite Eb, Ht in LG. rewrite Hn in LC.
      assert (Hcase : (exists f, it = IDef f /\ plain_overload_b f = true /\
                         dead_ok (assign (iname it) (buf (iname it) (step sG it)) D) r (step sG it) = true) \/
                      (unconditional_binder it = true /\ dead_ok (remove_key (iname it) D) r (step sG it) = true)).
      { destruct it as [f|i m]; [|right; split; [reflexivity|exact Hok]].
        destruct (plain_overload_b f) eqn:Ep; [left; eauto|].
        destruct (unconditional_binder (IDef f)) eqn:Eu; [right; auto|discriminate]. }
      destruct Hcase as [[f [Hf [Hp Hok']]]|[Hu Hok']].
      * subst it. simpl in LG, LC. rewrite (local_overload _ _ _ _ Hp) in LG. rewrite (local_overload _ _ _ _ Hp) in LC.
        assert (Hs : buf (fname f) (step sG (IDef f)) = buf (fname f) (step sC (IDef f)) /\
                     snd (handle_item sG (IDef f)) = snd (handle_item sC (IDef f))).
        { simpl. destruct (tracks sC); inversion LG; inversion LC; split; congruence. }
        destruct Hs as [Hs1 Hs2].
        destruct (IH _ (step sG (IDef f)) (step sC (IDef f)) Hok') as [I1 I2].
        { apply (inv_live_other D); [exact Hinv|intros m Hm; apply lookup_assign_other'; exact Hm|].
          rewrite lookup_assign_same. symmetry. exact Hs1. }
        split; [exact I1|]. rewrite I2, Hs2. reflexivity.
      * rewrite (local_unconditional _ (mem (iname it) sG) (mem (iname it) sC) _ _ Hu) in LG. rewrite <- LC in LG.
        assert (M := f_equal (fun x => fst (fst x)) LG). assert (B := f_equal (fun x => snd (fst x)) LG).
        assert (O := f_equal snd LG). cbn [fst snd] in M, B, O.
        destruct (IH _ (step sG it) (step sC it) Hok') as [I1 I2].
        { apply (inv_live_other D); [exact Hinv|intros m Hm; apply lookup_remove_other'; exact Hm|].
          rewrite lookup_remove_same. auto. }
        split; [exact I1|]. rewrite I2, O. reflexivity.
    + (* the name is clean: both runs take the same step *)
      pose proof (H (iname it)) as Hn. rewrite El in Hn. destruct Hn as [Hm Hb].
      destruct (step_same_name sG sC it (iname it) eq_refl Ht Hm Hb) as [S1 [S2 S3]].
      destruct (IH _ (step sG it) (step sC it) Hok) as [I1 I2].
      { apply (inv_live_other D); [exact Hinv|reflexivity|]. rewrite El. auto. }
      split; [exact I1|]. rewrite I2, S3. reflexivity.
Qed.

(* THE statement: if [dead_ok] accepts the body, Griffe's visit of everything reports, for every name, the member and
   the pending overloads that its visit of the executed statements alone reports, and every executed definition
   has the same outcome (same attached overloads, same property) in both *)
Theorem dead_code_invisible its s :
  dead_ok [] its s = true ->
  (forall n, mem n (visit_items (all_items its) s) = mem n (visit_items (live_items its) s) /\
             buf n (visit_items (all_items its) s) = buf n (visit_items (live_items its) s)) /\
  live_log its (visit_log (all_items its) s) = visit_log (live_items its) s.
Proof.
  intros H. apply (dead_code_invisible_gen its [] s s H). split; [reflexivity|]. intros n. simpl. auto.
Qed.

(* ... hence the whole body, as Griffe sees it, agrees with CPython executing the live statements *)
Theorem flow_insensitive_visit_agrees_with_cpython its c :
  dead_ok [] its (mkScope true [] []) = true ->
  cpy_exec (live_items its) (mkC [] []) = Ok c ->
  let s0 := mkScope true [] [] in
  forall n, agrees n (visit_items (all_items its) s0) c
                   (attached n (combine (live_items its) (live_log its (visit_log (all_items its) s0)))).
Proof.
  intros Hd Hc s0 n. destruct (dead_code_invisible its s0 Hd) as [H1 H2].
  pose proof (bodies_agree_with_cpython (live_items its) c Hc n) as A. cbn zeta in A. fold s0 in A.
  rewrite H2. destruct (H1 n) as [M B]. unfold agrees in *. rewrite M, B. exact A.
Qed.

(* non-vacuity: a name overloaded and implemented in both branches of an if/else (else taken), another name only in
   the dead branch is refused, a dead overload leaking into a live implementation is refused *)
Example dead_ok_examples :
  let o i := IDef (mkF i "f" [DOverload]) in let d i := IDef (mkF i "f" []) in
  let s0 := mkScope true [] [] in
  dead_ok [] [(false, o 1%Z); (false, o 2%Z); (false, d 3%Z); (true, o 4%Z); (true, o 5%Z); (true, d 6%Z)] s0 = true /\
  dead_ok [] [(false, IDef (mkF 1%Z "g" [])); (true, d 2%Z)] s0 = false /\
  dead_ok [] [(false, o 1%Z); (true, d 2%Z)] s0 = false /\
  dead_ok [] [(false, IDef (mkF 1%Z "x" [])); (true, IDef (mkF 2%Z "x" [DProperty])); (true, IDef (mkF 3%Z "x" [DSetter "x"]))] s0 = true /\
  dead_ok [] [(true, IDef (mkF 1%Z "x" [DProperty])); (false, IDef (mkF 2%Z "x" [])); (true, IDef (mkF 3%Z "x" [DSetter "x"]))] s0 = false.
Proof. repeat split; reflexivity. Qed.
