(* C01 layout proofs: slicing the rendered text by any span Griffe reports cuts out exactly the text of the item the
   span belongs to -- for every layout tree (any nesting, any number of gap / decorator / header / continuation
   lines); and every member's reported span is such a span. *)
From Coq Require Import List ZArith String Ascii Bool Arith Lia.
From Verif Require Import Lib.Sexp Model.C01_base Gen.C01_tables Model.C01_visitor Model.C01_content Model.C01_layout
  Proofs.C01_visitor Proofs.C01_content.
Import ListNotations.
Open Scope string_scope.
Open Scope list_scope.
Open Scope nat_scope.

(* ---------- induction principle for the nested layout type ---------- *)
Section lay_induction.
  Variable P : lay -> Prop.
  Hypothesis HLeaf : forall gap text s, P (LLeaf gap text s).
  Hypothesis HDoc : forall gap pre str post, P (LDocS gap pre str post).
  Hypothesis HDef : forall gap decos header name a body, Forall P body -> P (LDef gap decos header name a body).
  Hypothesis HCls : forall gap decos header name body, Forall P body -> P (LCls gap decos header name body).
  Hypothesis HIf : forall gap header tc body egap eheader orelse,
    Forall P body -> Forall P orelse -> P (LIf gap header tc body egap eheader orelse).
  Hypothesis HBlock : forall ch, Forall P ch -> P (LBlock ch).
  Hypothesis HSub : forall gap header h body, Forall P body -> P (LSub gap header h body).

  Fixpoint lay_ind2 (l : lay) : P l :=
    let list_ind := fix go (ls : list lay) : Forall P ls :=
                      match ls with [] => Forall_nil P | x :: r => Forall_cons x (lay_ind2 x) (go r) end in
    match l with
    | LLeaf gap text s => HLeaf gap text s
    | LDocS gap pre str post => HDoc gap pre str post
    | LDef gap decos header name a body => HDef gap decos header name a body (list_ind body)
    | LCls gap decos header name body => HCls gap decos header name body (list_ind body)
    | LIf gap header tc body egap eheader orelse => HIf gap header tc body egap eheader orelse (list_ind body) (list_ind orelse)
    | LBlock ch => HBlock ch (list_ind ch)
    | LSub gap header h body => HSub gap header h body (list_ind body)
    end.
End lay_induction.

(* ---------- unfolding ---------- *)
Lemma rl_eq : forall ls,
  (fix rl (ls : list lay) {struct ls} : lines := match ls with [] => [] | x :: r => render x ++ rl r end) ls = render_list ls.
Proof. induction ls; simpl; congruence. Qed.
Lemma render_LDef : forall gap decos header name a body,
  render (LDef gap decos header name a body) = gap ++ deco_lines decos ++ header ++ render_list body.
Proof. intros. simpl. rewrite rl_eq. reflexivity. Qed.
Lemma render_LCls : forall gap decos header name body,
  render (LCls gap decos header name body) = gap ++ deco_lines decos ++ header ++ render_list body.
Proof. intros. simpl. rewrite rl_eq. reflexivity. Qed.
Lemma render_LIf : forall gap header tc body egap eheader orelse,
  render (LIf gap header tc body egap eheader orelse) =
  gap ++ header ++ render_list body ++ egap ++ eheader ++ render_list orelse.
Proof. intros. simpl. rewrite !rl_eq. reflexivity. Qed.
Lemma render_LBlock : forall ch, render (LBlock ch) = render_list ch.
Proof. intros. simpl. rewrite rl_eq. reflexivity. Qed.
Lemma render_LSub : forall gap header h body, render (LSub gap header h body) = gap ++ header ++ render_list body.
Proof. intros. simpl. rewrite rl_eq. reflexivity. Qed.

Lemma ol_eq : forall ls start,
  (fix ol (start : nat) (ls : list lay) {struct ls} : list occurrence :=
     match ls with [] => [] | x :: r => occ start x ++ ol (start + height x) r end) start ls = occ_list start ls.
Proof. induction ls; intros; simpl; [reflexivity|]. rewrite IHls. reflexivity. Qed.
Lemma nl_eq : forall ls start,
  (fix nl (start : nat) (ls : list lay) {struct ls} : list stmt :=
     match ls with [] => [] | x :: r => number start x :: nl (start + height x) r end) start ls = number_list start ls.
Proof. induction ls; intros; simpl; [reflexivity|]. rewrite IHls. reflexivity. Qed.

Lemma occ_LDef : forall start gap decos header name a body,
  occ start (LDef gap decos header name a body) =
  (let first := start + List.length gap in
   let ln := first + List.length (deco_lines decos) in
   let last := start + height (LDef gap decos header name a body) - 1 in
   mkOcc (OFun name) (def_first_line ln first (map fst decos)) last (deco_lines decos ++ header ++ render_list body)
   :: mkOcc (OProp name) ln last (header ++ render_list body)
   :: occ_list (ln + List.length header) body).
Proof. intros. cbv zeta. simpl occ. rewrite ol_eq. reflexivity. Qed.
Lemma occ_LCls : forall start gap decos header name body,
  occ start (LCls gap decos header name body) =
  (let first := start + List.length gap in
   let ln := first + List.length (deco_lines decos) in
   let last := start + height (LCls gap decos header name body) - 1 in
   mkOcc (OCls name) (def_first_line ln first (map fst decos)) last (deco_lines decos ++ header ++ render_list body)
   :: occ_list (ln + List.length header) body).
Proof. intros. cbv zeta. simpl occ. rewrite ol_eq. reflexivity. Qed.
Lemma occ_LIf : forall start gap header tc body egap eheader orelse,
  occ start (LIf gap header tc body egap eheader orelse) =
  (let b0 := start + List.length gap + List.length header in
   occ_list b0 body ++ occ_list (b0 + height_list body + List.length egap + List.length eheader) orelse).
Proof. intros. cbv zeta. simpl occ. rewrite !ol_eq. reflexivity. Qed.
Lemma occ_LBlock : forall start ch, occ start (LBlock ch) = occ_list start ch.
Proof. intros. simpl occ. rewrite ol_eq. reflexivity. Qed.
Lemma occ_LSub : forall start gap header h body,
  occ start (LSub gap header h body) = occ_list (start + List.length gap + List.length header) body.
Proof. intros. simpl occ. rewrite ol_eq. reflexivity. Qed.

(* ---------- slicing ---------- *)
Lemma skipn_length_app : forall A (pre l : list A), skipn (List.length pre) (pre ++ l) = l.
Proof. induction pre; simpl; auto. Qed.
Lemma firstn_length_app : forall A (mid post : list A), firstn (List.length mid) (mid ++ post) = mid.
Proof. induction mid; simpl; intros; [reflexivity|]. rewrite IHmid. reflexivity. Qed.

Lemma slice_mid : forall pre mid post a b,
  a = List.length pre + 1 -> b + 1 = a + List.length mid -> slice (pre ++ mid ++ post) a b = mid.
Proof.
  intros. unfold slice. subst a.
  replace (List.length pre + 1 - 1) with (List.length pre) by lia.
  replace (b + 1 - (List.length pre + 1)) with (List.length mid) by lia.
  rewrite skipn_length_app. apply firstn_length_app.
Qed.

Definition geo (l : lay) : Prop := forall start pre post o,
  List.length pre + 1 = start -> In o (occ start l) ->
  slice (pre ++ render l ++ post) (o_first o) (o_last o) = o_text o.
Definition geo_list (ls : list lay) : Prop := forall start pre post o,
  List.length pre + 1 = start -> In o (occ_list start ls) ->
  slice (pre ++ render_list ls ++ post) (o_first o) (o_last o) = o_text o.

Lemma geo_list_of : forall ls, Forall geo ls -> geo_list ls.
Proof.
  induction 1 as [|x r Hx Hr IH]; intros start pre post o Hs Hin.
  - destruct Hin.
  - simpl in Hin. apply in_app_or in Hin. simpl render_list. destruct Hin as [Hin|Hin].
    + replace (pre ++ (render x ++ render_list r) ++ post) with (pre ++ render x ++ (render_list r ++ post))
        by (rewrite <- !app_assoc; reflexivity).
      apply (Hx start); assumption.
    + replace (pre ++ (render x ++ render_list r) ++ post) with ((pre ++ render x) ++ render_list r ++ post)
        by (rewrite <- !app_assoc; reflexivity).
      apply (IH (start + height x)); [|assumption]. rewrite app_length. unfold height. lia.
Qed.

Ltac lens := unfold height, height_list in *; rewrite ?render_LDef, ?render_LCls, ?render_LIf, ?render_LSub, ?render_LBlock in *;
             repeat rewrite app_length in *; simpl List.length in *; try lia.

Lemma geo_all : forall l, geo l.
Proof.
  induction l using lay_ind2; intros start pre0 post0 o Hs Hin.
  - (* leaf *)
    simpl in Hin. destruct Hin as [E|[]]. subst o. simpl o_first. simpl o_last. simpl o_text. simpl render.
    replace (pre0 ++ (gap ++ text) ++ post0) with ((pre0 ++ gap) ++ text ++ post0) by (rewrite <- !app_assoc; reflexivity).
    apply slice_mid; lens.
  - (* docstring statement *)
    simpl in Hin. destruct Hin as [E|[]]. subst o. simpl o_first. simpl o_last. simpl o_text. simpl render.
    replace (pre0 ++ (gap ++ pre ++ str ++ post) ++ post0) with ((pre0 ++ gap ++ pre) ++ str ++ (post ++ post0))
      by (rewrite <- !app_assoc; reflexivity).
    apply slice_mid; lens.
  - (* def *)
    rewrite occ_LDef in Hin. cbv zeta in Hin. rewrite render_LDef.
    destruct Hin as [E|[E|Hin]].
    + subst o. simpl o_first. simpl o_last. simpl o_text.
      replace (pre0 ++ (gap ++ deco_lines decos ++ header ++ render_list body) ++ post0)
        with ((pre0 ++ gap) ++ (deco_lines decos ++ header ++ render_list body) ++ post0) by (rewrite <- !app_assoc; reflexivity).
      apply slice_mid.
      * unfold def_first_line. destruct (map fst decos) eqn:M.
        -- destruct decos; [|discriminate]. simpl. lens.
        -- lens.
      * unfold def_first_line. destruct (map fst decos) eqn:M.
        -- destruct decos; [|discriminate]. simpl. lens.
        -- lens.
    + subst o. simpl o_first. simpl o_last. simpl o_text.
      replace (pre0 ++ (gap ++ deco_lines decos ++ header ++ render_list body) ++ post0)
        with ((pre0 ++ gap ++ deco_lines decos) ++ (header ++ render_list body) ++ post0) by (rewrite <- !app_assoc; reflexivity).
      apply slice_mid; lens.
    + replace (pre0 ++ (gap ++ deco_lines decos ++ header ++ render_list body) ++ post0)
        with ((pre0 ++ gap ++ deco_lines decos ++ header) ++ render_list body ++ post0) by (rewrite <- !app_assoc; reflexivity).
      apply (geo_list_of _ H (start + List.length gap + List.length (deco_lines decos) + List.length header)); [lens|exact Hin].
  - (* class *)
    rewrite occ_LCls in Hin. cbv zeta in Hin. rewrite render_LCls.
    destruct Hin as [E|Hin].
    + subst o. simpl o_first. simpl o_last. simpl o_text.
      replace (pre0 ++ (gap ++ deco_lines decos ++ header ++ render_list body) ++ post0)
        with ((pre0 ++ gap) ++ (deco_lines decos ++ header ++ render_list body) ++ post0) by (rewrite <- !app_assoc; reflexivity).
      apply slice_mid.
      * unfold def_first_line. destruct (map fst decos) eqn:M.
        -- destruct decos; [|discriminate]. simpl. lens.
        -- lens.
      * unfold def_first_line. destruct (map fst decos) eqn:M.
        -- destruct decos; [|discriminate]. simpl. lens.
        -- lens.
    + replace (pre0 ++ (gap ++ deco_lines decos ++ header ++ render_list body) ++ post0)
        with ((pre0 ++ gap ++ deco_lines decos ++ header) ++ render_list body ++ post0) by (rewrite <- !app_assoc; reflexivity).
      apply (geo_list_of _ H (start + List.length gap + List.length (deco_lines decos) + List.length header)); [lens|exact Hin].
  - (* if *)
    rewrite occ_LIf in Hin. cbv zeta in Hin. rewrite render_LIf. apply in_app_or in Hin. destruct Hin as [Hin|Hin].
    + replace (pre0 ++ (gap ++ header ++ render_list body ++ egap ++ eheader ++ render_list orelse) ++ post0)
        with ((pre0 ++ gap ++ header) ++ render_list body ++ (egap ++ eheader ++ render_list orelse ++ post0))
        by (rewrite <- !app_assoc; reflexivity).
      apply (geo_list_of _ H (start + List.length gap + List.length header)); [lens|exact Hin].
    + replace (pre0 ++ (gap ++ header ++ render_list body ++ egap ++ eheader ++ render_list orelse) ++ post0)
        with ((pre0 ++ gap ++ header ++ render_list body ++ egap ++ eheader) ++ render_list orelse ++ post0)
        by (rewrite <- !app_assoc; reflexivity).
      apply (geo_list_of _ H0 (start + List.length gap + List.length header + height_list body + List.length egap + List.length eheader));
        [lens|exact Hin].
  - (* block *)
    rewrite occ_LBlock in Hin. rewrite render_LBlock. apply (geo_list_of _ H start); assumption.
  - (* clause *)
    rewrite occ_LSub in Hin. rewrite render_LSub.
    replace (pre0 ++ (gap ++ header ++ render_list body) ++ post0) with ((pre0 ++ gap ++ header) ++ render_list body ++ post0)
      by (rewrite <- !app_assoc; reflexivity).
    apply (geo_list_of _ H (start + List.length gap + List.length header)); [lens|exact Hin].
Qed.

(* slicing the source by a reported span returns exactly the text of the item the span is reported for: every item at
   any depth, every layout, the item sitting anywhere in a larger text *)
Theorem slice_reported_span : forall items pre post o,
  In o (occ_list (List.length pre + 1) items) ->
  slice (pre ++ render_list items ++ post) (o_first o) (o_last o) = o_text o.
Proof.
  intros. assert (F : Forall geo items) by (apply Forall_forall; intros; apply geo_all).
  apply (geo_list_of items F (List.length pre + 1)); auto.
Qed.
Corollary slice_reported_span_module : forall items o,
  In o (occ_list 1 items) -> slice (render_list items) (o_first o) (o_last o) = o_text o.
Proof.
  intros. pose proof (slice_reported_span items [] [] o H) as S. simpl in S. rewrite app_nil_r in S. exact S.
Qed.

(* ================= provenance: every reported span is the span of an item that defines that name ================= *)
Definition db_span (d : dbind) : nat * nat :=
  match d with
  | DBDef _ ln dln eln _ a ds _ => (if def_is_property a ds then ln else def_first_line ln dln ds, eln)
  | DBCls _ ln dln eln _ ds _ => (def_first_line ln dln ds, eln)
  | DBAttr _ _ ln eln _ _ _ => (ln, eln)
  | DBAlias _ ln eln _ _ => (ln, eln)
  end.
Definition db_kind (d : dbind) : okind :=
  match d with
  | DBDef _ _ _ _ _ a ds _ => if def_is_property a ds then KAttr else KFun
  | DBCls _ _ _ _ _ _ _ => KCls
  | DBAttr _ _ _ _ _ _ _ => KAttr
  | DBAlias _ _ _ _ _ => KAlias
  end.
Definition db_doc (d : dbind) : option (nat * nat) :=
  match d with
  | DBDef _ _ _ _ _ _ _ doc => doc | DBCls _ _ _ _ _ _ doc => doc | DBAttr _ _ _ _ _ _ doc => doc | DBAlias _ _ _ _ _ => None
  end.

Definition same_place (i0 i : info) : Prop := ikind i0 = ikind i /\ iline i0 = iline i /\ iend i0 = iend i.

Lemma step_prov : forall cur d i, step cur d = Some i ->
  ((exists i0, cur = Some i0 /\ same_place i0 i) \/ (db_kind d = ikind i /\ db_span d = (iline i, iend i))) /\
  (forall sp, idoc i = Some sp -> (exists i0, cur = Some i0 /\ idoc i0 = Some sp) \/ db_doc d = Some sp).
Proof.
  intros cur d i H. destruct d; simpl in H.
  - destruct (def_is_property a ds) eqn:P.
    + injection H as H. subst i. simpl. rewrite P. split; [right; auto|]. intros. right. assumption.
    + destruct (def_is_overload ds).
      * subst cur. split; [left; exists i; unfold same_place; auto|]. intros. left. eauto.
      * destruct (base_property_i cur name ds).
        -- destruct cur as [i0|]; [|discriminate]. injection H as H. subst i. simpl.
           split; [left; exists i0; unfold same_place; auto|]. intros. left. eauto.
        -- injection H as H. subst i. simpl. rewrite P. split; [right; auto|]. intros. right. assumption.
  - injection H as H. subst i. simpl. split; [right; auto|]. intros. right. assumption.
  - destruct cur as [i0|].
    + destruct cond.
      * injection H as H. subst i0. split; [left; exists i; unfold same_place; auto|]. intros. left. eauto.
      * injection H as H. subst i. simpl. split; [right; auto|]. intros sp E.
        simpl in E. destruct (ikind i0); simpl in E; (destruct doc; [right; exact E|first [left; eexists; split; [reflexivity|exact E]|right; exact E]]).
    + injection H as H. subst i. simpl. split; [right; auto|]. intros. right. assumption.
  - injection H as H. subst i. simpl. split; [right; auto|]. intros. discriminate.
Qed.

Lemma content_cons : forall n cur d r,
  content n cur (d :: r) = content n (if String.eqb (db_name d) n then step cur d else cur) r.
Proof. reflexivity. Qed.

Lemma content_prov : forall n ds cur i, content n cur ds = Some i ->
  ((exists i0, cur = Some i0 /\ same_place i0 i) \/
   (exists d, In d ds /\ db_name d = n /\ db_kind d = ikind i /\ db_span d = (iline i, iend i))) /\
  (forall sp, idoc i = Some sp ->
     (exists i0, cur = Some i0 /\ idoc i0 = Some sp) \/ (exists d, In d ds /\ db_name d = n /\ db_doc d = Some sp)).
Proof.
  induction ds as [|d r IH]; intros cur i H.
  - simpl in H. subst cur. split; [left; exists i; unfold same_place; auto|]. intros. left. eauto.
  - rewrite content_cons in H. destruct (String.eqb (db_name d) n) eqn:E.
    + apply String.eqb_eq in E. destruct (IH _ _ H) as [A B]. split.
      * destruct A as [[i1 [S1 P1]]|[d' [I' R']]].
        -- destruct (step_prov _ _ _ S1) as [[[i0 [C0 P0]]|[K Sp]] _].
           ++ left. exists i0. split; [exact C0|]. unfold same_place in *. intuition congruence.
           ++ right. exists d. split; [left; reflexivity|]. unfold same_place in P1. destruct P1 as [P1 [P2 P3]].
              split; [exact E|]. split; [congruence|]. rewrite Sp. congruence.
        -- right. exists d'. split; [right; exact I'|exact R'].
      * intros sp Hd. destruct (B sp Hd) as [[i1 [S1 D1]]|[d' [I' R']]].
        -- destruct (step_prov _ _ _ S1) as [_ Dc]. destruct (Dc sp D1) as [[i0 [C0 D0]]|Dd].
           ++ left. eauto.
           ++ right. exists d. split; [left; reflexivity|]. auto.
        -- right. exists d'. split; [right; exact I'|exact R'].
    + destruct (IH _ _ H) as [A B]. split.
      * destruct A as [A|[d' [I' R']]]; [left; exact A|]. right. exists d'. split; [right; exact I'|exact R'].
      * intros sp Hd. destruct (B sp Hd) as [A'|[d' [I' R']]]; [left; exact A'|]. right. exists d'. split; [right; exact I'|exact R'].
Qed.

(* ---------- numbered layouts: every binding detail is covered by an occurrence ---------- *)
Definition tag_ok (t : otag) (d : dbind) : Prop :=
  match t, d with
  | OFun m, DBDef _ _ _ _ name a ds _ => m = name /\ def_is_property a ds = false
  | OProp m, DBDef _ _ _ _ name a ds _ => m = name /\ def_is_property a ds = true
  | OCls m, DBCls _ _ _ _ name _ _ => m = name
  | OLeaf s, DBAttr _ _ _ _ name _ _ => In name (leaf_binds s)
  | OLeaf s, DBAlias _ _ _ name _ => In name (leaf_binds s)
  | _, _ => False
  end.
Definition doc_cov (Q : occurrence -> Prop) (nd : option (nat * nat)) : Prop :=
  forall sp, nd = Some sp -> exists o, Q o /\ o_tag o = ODoc /\ (o_first o, o_last o) = sp.
Definition covered (Q : occurrence -> Prop) (d : dbind) : Prop :=
  (exists o, Q o /\ (o_first o, o_last o) = db_span d /\ tag_ok (o_tag o) d) /\ doc_cov Q (db_doc d).

Lemma number_LDef : forall start gap decos header name a body,
  number start (LDef gap decos header name a body) =
  (let first := start + List.length gap in
   let ln := first + List.length (deco_lines decos) in
   SDef ln first (start + height (LDef gap decos header name a body) - 1) name a (map fst decos)
        (number_list (ln + List.length header) body)).
Proof. intros. cbv zeta. simpl number. rewrite nl_eq. reflexivity. Qed.
Lemma number_LCls : forall start gap decos header name body,
  number start (LCls gap decos header name body) =
  (let first := start + List.length gap in
   let ln := first + List.length (deco_lines decos) in
   SCls ln first (start + height (LCls gap decos header name body) - 1) name (map fst decos)
        (number_list (ln + List.length header) body)).
Proof. intros. cbv zeta. simpl number. rewrite nl_eq. reflexivity. Qed.
Lemma number_LIf : forall start gap header tc body egap eheader orelse,
  number start (LIf gap header tc body egap eheader orelse) =
  (let b0 := start + List.length gap + List.length header in
   SIf tc (number_list b0 body) (number_list (b0 + height_list body + List.length egap + List.length eheader) orelse)).
Proof. intros. cbv zeta. simpl number. rewrite !nl_eq. reflexivity. Qed.
Lemma number_LBlock : forall start ch, number start (LBlock ch) = SBlock (number_list start ch).
Proof. intros. simpl number. rewrite nl_eq. reflexivity. Qed.
Lemma number_LSub : forall start gap header h body,
  number start (LSub gap header h body) = SSub h (number_list (start + List.length gap + List.length header) body).
Proof. intros. simpl number. rewrite nl_eq. reflexivity. Qed.

Lemma next_doc_head : forall r, next_doc r None = head_doc r.
Proof. destruct r as [|[] ?]; reflexivity. Qed.

Lemma set_span_not_doc : forall a b s ln eln, set_span a b s <> SDoc ln eln.
Proof. destruct s; simpl; discriminate. Qed.

Lemma head_doc_occ : forall ls start sp, head_doc (number_list start ls) = Some sp ->
  exists o, In o (occ_list start ls) /\ o_tag o = ODoc /\ (o_first o, o_last o) = sp.
Proof.
  intros ls start sp H. destruct ls as [|x r]; [discriminate|]. simpl number_list in H.
  destruct x.
  - simpl in H. destruct (set_span _ _ s) eqn:E; try discriminate. exfalso. eapply set_span_not_doc; eauto.
  - simpl in H. injection H as H. subst sp. eexists. split; [simpl; left; reflexivity|]. auto.
  - rewrite number_LDef in H. discriminate.
  - rewrite number_LCls in H. discriminate.
  - rewrite number_LIf in H. discriminate.
  - rewrite number_LBlock in H. discriminate.
  - rewrite number_LSub in H. discriminate.
Qed.

Lemma plain_In : forall n ns, In n (plain_names ns) -> In n ns /\ has_dot n = false.
Proof. unfold plain_names. intros. apply filter_In in H. destruct H. split; auto. destruct (has_dot n); auto; discriminate. Qed.

Lemma has_dot_append : forall a b, has_dot (String.append a (String.append "." b)) = true.
Proof. induction a as [|c r IH]; intros; simpl; [reflexivity|]. destruct (Ascii.eqb c "."%char); [reflexivity|]. apply (IH b). Qed.

Lemma names_scope_plain : forall ts ns n, names_scope ts = Some ns -> In n (plain_names ns) -> In n (flat_map target_names ts).
Proof.
  unfold names_scope. intros ts ns n H I. destruct (existsb target_bad ts); [discriminate|]. injection H as H. subst ns.
  apply plain_In in I. destruct I as [I D]. apply in_flat_map in I. destruct I as [t [It In']].
  apply in_flat_map. exists t. split; [exact It|]. destruct t; simpl in *.
  - exact In'.
  - destruct In' as [E|[]]. subst n. change (has_dot (String.append "self" (String.append "." rest)) = false) in D.
    rewrite has_dot_append in D. discriminate.
  - destruct In' as [E|[]]. subst n. discriminate.
  - destruct In'.
Qed.
Lemma names_init_plain : forall ts ns n, names_init ts = Some ns -> In n (plain_names ns) -> In n (flat_map target_names ts).
Proof.
  unfold names_init. intros ts ns n H I. destruct (existsb target_bad ts); [discriminate|]. injection H as H. subst ns.
  apply plain_In in I. destruct I as [I D]. apply in_flat_map in I. destruct I as [t [It In']].
  apply in_flat_map. exists t. split; [exact It|]. destruct t; simpl in *; try destruct In'. left. assumption. destruct H.
Qed.

Lemma attr_details_In : forall g cond ln eln labels nd ns d,
  In d (attr_details g cond ln eln labels nd ns) -> exists n, In n (plain_names ns) /\ d = DBAttr g cond ln eln n labels nd.
Proof. unfold attr_details. intros. apply in_map_iff in H. destruct H as [n [E I]]. eauto. Qed.

Lemma importfrom_details_In : forall g ln eln path names d,
  In d (importfrom_details g ln eln path names) -> exists an ap, d = DBAlias g ln eln an ap /\ In an (flat_map impname_names names).
Proof.
  induction names as [|x r IH]; simpl; intros d H; [destruct H|].
  destruct x as [an ap|an ap|].
  - destruct (String.eqb ap (dot path an)).
    + destruct (IH _ H) as [a [p [E I]]]. exists a, p. split; [exact E|]. simpl. right. exact I.
    + destruct H as [H|H].
      * exists an, ap. split; [auto|]. simpl. left. reflexivity.
      * destruct (IH _ H) as [a [p [E I]]]. exists a, p. split; [exact E|]. simpl. right. exact I.
  - destruct (String.eqb ap (dot path an)).
    + destruct (IH _ H) as [a [p [E I]]]. exists a, p. split; [exact E|]. simpl. right. exact I.
    + destruct H as [H|H].
      * exists an, ap. split; [auto|]. simpl. left. reflexivity.
      * destruct (IH _ H) as [a [p [E I]]]. exists a, p. split; [exact E|]. simpl. right. exact I.
  - destruct (IH _ H) as [a [p [E I]]]. exists a, p. split; [exact E|]. exact I.
Qed.

(* a leaf: whatever it binds (at a module / class level, or as instance attributes) is covered by its one occurrence *)
Lemma leaf_level_covered : forall k path g pk nd a b s (Q : occurrence -> Prop) txt,
  Q (mkOcc (OLeaf s) a b txt) -> doc_cov Q nd ->
  forall d, In d (level_details k path g pk nd (set_span a b s)) -> covered Q d.
Proof.
  intros k path g pk nd a b s Q txt HQ HD d I. destruct s; simpl in I; try destruct I.
  - destruct k; try destruct I;
      (destruct (names_scope targets) as [ns|] eqn:N; [|destruct I]; apply attr_details_In in I; destruct I as [n [In' E]]; subst d;
       split; [eexists; split; [exact HQ|]; split; [reflexivity|]; simpl; eapply names_scope_plain; eauto|exact HD]).
  - destruct k; try destruct I;
      (destruct (names_scope [t]) as [ns|] eqn:N; [|destruct I]; apply attr_details_In in I; destruct I as [n [In' E]]; subst d;
       split; [eexists; split; [exact HQ|]; split; [reflexivity|]; simpl;
               pose proof (names_scope_plain [t] ns n N In') as X; simpl in X; rewrite app_nil_r in X; exact X|exact HD]).
  - unfold import_details in I. apply in_map_iff in I. destruct I as [x [E I]]. subst d.
    split; [eexists; split; [exact HQ|]; split; [reflexivity|]; simpl; apply in_map; exact I|intros sp C; discriminate].
  - apply importfrom_details_In in I. destruct I as [an [ap [E I]]]. subst d.
    split; [eexists; split; [exact HQ|]; split; [reflexivity|]; simpl; exact I|intros sp C; discriminate].
Qed.
Lemma leaf_init_covered : forall g pk nd a b s (Q : occurrence -> Prop) txt,
  Q (mkOcc (OLeaf s) a b txt) -> doc_cov Q nd ->
  forall d, In d (init_details g pk nd (set_span a b s)) -> covered Q d.
Proof.
  intros g pk nd a b s Q txt HQ HD d I. destruct s; simpl in I; try destruct I.
  - destruct (names_init targets) as [ns|] eqn:N; [|destruct I]. apply attr_details_In in I. destruct I as [n [In' E]]. subst d.
    split; [eexists; split; [exact HQ|]; split; [reflexivity|]; simpl; eapply names_init_plain; eauto|exact HD].
  - destruct (names_init [t]) as [ns|] eqn:N; [|destruct I]. apply attr_details_In in I. destruct I as [n [In' E]]. subst d.
    split; [eexists; split; [exact HQ|]; split; [reflexivity|]; simpl;
            pose proof (names_init_plain [t] ns n N In') as X; simpl in X; rewrite app_nil_r in X; exact X|exact HD].
Qed.

Definition Bi (l : lay) : Prop := forall g pk nd start (Q : occurrence -> Prop),
  (forall o, In o (occ start l) -> Q o) -> doc_cov Q nd ->
  forall d, In d (init_details g pk nd (number start l)) -> covered Q d.
Definition Bi_list (ls : list lay) : Prop := forall g pk start (Q : occurrence -> Prop),
  (forall o, In o (occ_list start ls) -> Q o) ->
  forall d, In d (init_details_list g pk None (number_list start ls)) -> covered Q d.

Lemma Bi_list_of : forall ls, Forall Bi ls -> Bi_list ls.
Proof.
  induction 1 as [|x r Hx Hr IH]; intros g pk start Q HQ d I.
  - destruct I.
  - simpl number_list in I. simpl init_details_list in I. apply in_app_or in I. destruct I as [I|I].
    + apply (Hx g pk (next_doc (number_list (start + height x) r) None) start Q); [| |exact I].
      * intros o Ho. apply HQ. simpl. apply in_or_app. left. exact Ho.
      * intros sp E. rewrite next_doc_head in E. destruct (head_doc_occ _ _ _ E) as [o [Ho R]].
        exists o. split; [|exact R]. apply HQ. simpl. apply in_or_app. right. exact Ho.
    + apply (IH g pk (start + height x) Q); [|exact I]. intros o Ho. apply HQ. simpl. apply in_or_app. right. exact Ho.
Qed.

Lemma Bi_all : forall l, Bi l.
Proof.
  induction l using lay_ind2; intros g pk nd start Q HQ HD d I.
  - simpl number in I. eapply leaf_init_covered; [|exact HD|exact I]. apply HQ. simpl. left. reflexivity.
  - simpl in I. destruct I.
  - rewrite number_LDef in I. simpl in I. destruct I.
  - rewrite number_LCls in I. simpl in I. destruct I.
  - rewrite number_LIf in I. cbv zeta in I. rewrite id_SIf in I. rewrite occ_LIf in HQ. cbv zeta in HQ.
    apply in_app_or in I. destruct I as [I|I].
    + eapply (Bi_list_of _ H); [|exact I]. intros o Ho. apply HQ. apply in_or_app. left. exact Ho.
    + eapply (Bi_list_of _ H0); [|exact I]. intros o Ho. apply HQ. apply in_or_app. right. exact Ho.
  - rewrite number_LBlock, id_SBlock in I. rewrite occ_LBlock in HQ. eapply (Bi_list_of _ H); eauto.
  - rewrite number_LSub, id_SSub in I. rewrite occ_LSub in HQ. eapply (Bi_list_of _ H); eauto.
Qed.
Lemma Bi_list_all : forall ls, Bi_list ls.
Proof. intros. apply Bi_list_of. apply Forall_forall. intros. apply Bi_all. Qed.

Definition Bl (l : lay) : Prop := forall k path g pk nd start (Q : occurrence -> Prop),
  (forall o, In o (occ start l) -> Q o) -> doc_cov Q nd ->
  forall d, In d (level_details k path g pk nd (number start l)) -> covered Q d.
Definition Bl_list (ls : list lay) : Prop := forall k path g pk start (Q : occurrence -> Prop),
  (forall o, In o (occ_list start ls) -> Q o) ->
  forall d, In d (level_details_list k path g pk None (number_list start ls)) -> covered Q d.

Lemma Bl_list_of : forall ls, Forall Bl ls -> Bl_list ls.
Proof.
  induction 1 as [|x r Hx Hr IH]; intros k path g pk start Q HQ d I.
  - destruct I.
  - simpl number_list in I. simpl level_details_list in I. apply in_app_or in I. destruct I as [I|I].
    + apply (Hx k path g pk (next_doc (number_list (start + height x) r) None) start Q); [| |exact I].
      * intros o Ho. apply HQ. simpl. apply in_or_app. left. exact Ho.
      * intros sp E. rewrite next_doc_head in E. destruct (head_doc_occ _ _ _ E) as [o [Ho R]].
        exists o. split; [|exact R]. apply HQ. simpl. apply in_or_app. right. exact Ho.
    + apply (IH k path g pk (start + height x) Q); [|exact I]. intros o Ho. apply HQ. simpl. apply in_or_app. right. exact Ho.
Qed.

Lemma Bl_all : forall l, Bl l.
Proof.
  induction l using lay_ind2; intros k path g pk nd start Q HQ HD d I.
  - simpl number in I. eapply leaf_level_covered; [|exact HD|exact I]. apply HQ. simpl. left. reflexivity.
  - simpl in I. destruct I.
  - (* def *)
    rewrite number_LDef in I. cbv zeta in I. rewrite ld_SDef in I. rewrite occ_LDef in HQ. cbv zeta in HQ.
    destruct I as [E|I].
    + subst d. split.
      * destruct (def_is_property a (map fst decos)) eqn:P.
        -- eexists. split; [apply HQ; right; left; reflexivity|]. simpl. rewrite P. auto.
        -- eexists. split; [apply HQ; left; reflexivity|]. simpl. rewrite P. auto.
      * intros sp E. simpl in E. destruct (head_doc_occ _ _ _ E) as [o [Ho R]].
        exists o. split; [|exact R]. apply HQ. right. right. exact Ho.
    + destruct k; try destruct I.
      destruct (String.eqb name "__init__" && negb (def_is_property a (map fst decos))); [|destruct I].
      eapply (Bi_list_all body); [|exact I]. intros o Ho. apply HQ. right. right. exact Ho.
  - (* class *)
    rewrite number_LCls in I. cbv zeta in I. simpl level_details in I. rewrite occ_LCls in HQ. cbv zeta in HQ.
    destruct I as [E|[]]. subst d. split.
    + eexists. split; [apply HQ; left; reflexivity|]. simpl. auto.
    + intros sp E. simpl in E. destruct (head_doc_occ _ _ _ E) as [o [Ho R]].
      exists o. split; [|exact R]. apply HQ. right. exact Ho.
  - rewrite number_LIf in I. cbv zeta in I. rewrite ld_SIf in I. rewrite occ_LIf in HQ. cbv zeta in HQ.
    apply in_app_or in I. destruct I as [I|I].
    + eapply (Bl_list_of _ H); [|exact I]. intros o Ho. apply HQ. apply in_or_app. left. exact Ho.
    + eapply (Bl_list_of _ H0); [|exact I]. intros o Ho. apply HQ. apply in_or_app. right. exact Ho.
  - rewrite number_LBlock, ld_SBlock in I. rewrite occ_LBlock in HQ. eapply (Bl_list_of _ H); eauto.
  - rewrite number_LSub, ld_SSub in I. rewrite occ_LSub in HQ. eapply (Bl_list_of _ H); eauto.
Qed.
Lemma Bl_list_all : forall ls, Bl_list ls.
Proof. intros. apply Bl_list_of. apply Forall_forall. intros. apply Bl_all. Qed.

Lemma tag_ok_names : forall t d, tag_ok t d -> tag_names t (db_name d) (db_kind d).
Proof.
  intros t d H. destruct t, d; simpl in *; try contradiction.
  - auto.
  - auto.
  - destruct H as [H P]. rewrite P. auto.
  - destruct H as [H P]. rewrite P. auto.
  - auto.
Qed.

(* what a reported span (and a reported docstring span) cuts out of the text, for any member table that the bindings of
   a numbered layout produce, the layout sitting anywhere in a larger text *)
Definition span_cuts (whole : lines) (occs : list occurrence) (n : string) (i : info) : Prop :=
  (exists o, In o occs /\ o_first o = iline i /\ o_last o = iend i /\ tag_names (o_tag o) n (ikind i) /\
             slice whole (iline i) (iend i) = o_text o) /\
  (forall a b, idoc i = Some (a, b) ->
     exists o, In o occs /\ o_tag o = ODoc /\ o_first o = a /\ o_last o = b /\ slice whole a b = o_text o).

Lemma table_spans_slice : forall k path g pk items start pre post n i,
  List.length pre + 1 = start ->
  lookup n (run_table (level_details_list k path g pk None (number_list start items)) []) = Some i ->
  span_cuts (pre ++ render_list items ++ post) (occ_list start items) n i.
Proof.
  intros k path g pk items start pre post n i Hs L. rewrite lookup_run_table in L. simpl lookup in L.
  destruct (content_prov _ _ _ _ L) as [A B].
  assert (C : forall d, In d (level_details_list k path g pk None (number_list start items)) ->
                        covered (fun o => In o (occ_list start items)) d).
  { intros d Hd. eapply (Bl_list_all items); [|exact Hd]. auto. }
  split.
  - destruct A as [[i0 [X _]]|[d [Hd [Hn [Hk Hsp]]]]]; [discriminate|].
    destruct (C d Hd) as [[o [Ho [Sp Tg]]] _]. exists o. rewrite Hsp in Sp. injection Sp as S1 S2.
    split; [exact Ho|]. split; [exact S1|]. split; [exact S2|]. split.
    + apply tag_ok_names in Tg. rewrite Hn, Hk in Tg. exact Tg.
    + rewrite <- S1, <- S2. subst start. apply slice_reported_span. exact Ho.
  - intros a b Hdoc. destruct (B _ Hdoc) as [[i0 [X _]]|[d [Hd [Hn Hdd]]]]; [discriminate|].
    destruct (C d Hd) as [_ Dc]. destruct (Dc _ Hdd) as [o [Ho [Tg Sp]]]. injection Sp as S1 S2.
    exists o. split; [exact Ho|]. split; [exact Tg|]. split; [exact S1|]. split; [exact S2|].
    rewrite <- S1, <- S2. subst start. apply slice_reported_span. exact Ho.
Qed.

(* Module level: for every layout, slicing the rendered source by the span reported for a member cuts out exactly the
   text of an item that defines that very name with that kind -- decorators included for functions and classes, the
   `def` line onwards for property-attributes, the whole statement for attributes and aliases; and slicing by the
   reported docstring span cuts out the lines of the string constant. *)
Theorem module_spans_slice : forall items mname r n i,
  run_visit mname (number_list 1 items) = Ok r -> lookup n (minfo (r_members r)) = Some i ->
  span_cuts (render_list items) (occ_list 1 items) n i.
Proof.
  intros items mname r n i H L. rewrite (module_table _ _ _ H) in L.
  pose proof (table_spans_slice InModule mname false PScope items 1 [] [] n i eq_refl L) as S.
  simpl in S. rewrite app_nil_r in S. exact S.
Qed.

(* The same for the members of every class, wherever the class item is evaluated and wherever its text sits. *)
Theorem class_spans_slice : forall g pk nd start gap decos header name body own up pre post,
  List.length pre + 1 = start ->
  exists o, lookup name (fmembers (l_own (sem_stmt g pk nd (number start (LCls gap decos header name body)) own up))) = Some o /\
    forall n i, lookup n (minfo (omembers o)) = Some i ->
      span_cuts (pre ++ render (LCls gap decos header name body) ++ post) (occ start (LCls gap decos header name body)) n i.
Proof.
  intros. rewrite number_LCls. cbv zeta.
  destruct (class_table g pk nd (start + List.length gap + List.length (deco_lines decos)) (start + List.length gap)
              (start + height (LCls gap decos header name body) - 1) name (map fst decos)
              (number_list (start + List.length gap + List.length (deco_lines decos) + List.length header) body) own up)
    as [o [L [_ Tb]]].
  exists o. split; [exact L|]. intros n i Li. rewrite Tb in Li.
  pose proof (table_spans_slice InClass (child_path own name) g PScope body
                (start + List.length gap + List.length (deco_lines decos) + List.length header)
                (pre ++ gap ++ deco_lines decos ++ header) post n i) as S.
  assert (E : List.length (pre ++ gap ++ deco_lines decos ++ header) + 1 =
              start + List.length gap + List.length (deco_lines decos) + List.length header)
    by (repeat rewrite app_length; lia).
  specialize (S E Li). rewrite render_LCls, occ_LCls. cbv zeta.
  replace (pre ++ (gap ++ deco_lines decos ++ header ++ render_list body) ++ post)
    with ((pre ++ gap ++ deco_lines decos ++ header) ++ render_list body ++ post) by (rewrite <- !app_assoc; reflexivity).
  destruct S as [[oc [Ho R]] D]. split.
  - exists oc. split; [right; exact Ho|exact R].
  - intros a b Hd. destruct (D a b Hd) as [oc' [Ho' R']]. exists oc'. split; [right; exact Ho'|exact R'].
Qed.

(* ---------- non-vacuity: a layout with gaps, decorators over several lines, a continued header, a parenthesised
   docstring and a property ---------- *)
Definition layout_sample : list lay :=
  [LDocS ["# comment"] [] ["""""""Module."""""""] [];
   LLeaf [""] ["import os"] (SImport 0 0 [("os", "os")]);
   LCls [""; "# the class"] [(DPath "dataclasses.dataclass", ["@dataclasses.dataclass("; "    frozen=True)"])] ["class C("; "        Base):"] "C"
     [LDocS [] ["    ("] ["        ""doc of C"""] ["    )"];
      LLeaf [""] ["    x: int = ("; "        1"; "    )"] (SAnn 0 0 (TName "x") true false []);
      LDocS [] [] ["    """"""doc of x"""""""] [];
      LDef ["    # a property"] [(DPath "property", ["    @property"])] ["    def p(self):"] "p" false
        [LLeaf [] ["        return 1"] SOther];
      LDef [""] [] ["    def __init__(self):"] "__init__" false
        [LIf [] ["        if a:"] TCNone [LLeaf [] ["            self.y = 1"] (SAssign 0 0 [TSelf "y"] [])]
             ["            # no"] ["        else:"] [LLeaf [] ["            self.y = 2"] (SAssign 0 0 [TSelf "y"] [])]]];
   LDef [""] [(DPath "functools.cache", ["@functools.cache"])] ["def f():"] "f" false [LLeaf [] ["    pass"] SOther]].
Example layout_sample_ok :
  forallb well_formed layout_sample = true /\
  List.length (render_list layout_sample) = 33 /\
  exists r, run_visit "m" (number_list 1 layout_sample) = Ok r /\
    minfo (r_members r) =
      [("os", mkInfo KAlias 4 4 true [] None "os");
       ("C", mkInfo KCls 7 29 true ["dataclass"] (Some (12, 12)) "");
       ("f", mkInfo KFun 31 33 true ["cached"] None "")] /\
    slice (render_list layout_sample) 31 33 = ["@functools.cache"; "def f():"; "    pass"] /\
    slice (render_list layout_sample) 12 12 = ["        ""doc of C"""] /\
    exists c, lookup "C" (r_members r) = Some c /\
      option_map oinfo (lookup "x" (omembers c)) =
        Some (mkInfo KAttr 15 17 true ["class-attribute"; "instance-attribute"] (Some (18, 18)) "") /\
      slice (render_list layout_sample) 15 17 = ["    x: int = ("; "        1"; "    )"] /\
      option_map oinfo (lookup "p" (omembers c)) = Some (mkInfo KAttr 21 22 true ["property"] None "") /\
      slice (render_list layout_sample) 21 22 = ["    def p(self):"; "        return 1"].
Proof.
  split; [vm_compute; reflexivity|]. split; [vm_compute; reflexivity|].
  eexists. split; [vm_compute; reflexivity|]. split; [vm_compute; reflexivity|].
  split; [vm_compute; reflexivity|]. split; [vm_compute; reflexivity|].
  eexists. split; [vm_compute; reflexivity|]. repeat split; vm_compute; reflexivity.
Qed.
