(* C18 proofs, part 3: the three shapes of the merging code (Model/C18_modes.v) against CPython. *)
From Coq Require Import List Arith Bool Lia.
From Verif Require Import Lib.Sexp Model.C18_dataclass Model.C18_modes Proofs.C18_dataclass.
Import ListNotations.
Open Scope list_scope. Open Scope nat_scope.

(* ------------------------------------------------------------------ small facts *)
Lemma flat_map_rev_single : forall {A B} (G : A -> list B) l, (forall x, List.length (G x) <= 1) ->
  rev (flat_map G l) = flat_map G (rev l).
Proof.
  intros A B G l HG. induction l as [|x r IH]; simpl; auto.
  rewrite rev_app_distr, IH, flat_map_app. simpl. rewrite app_nil_r. f_equal.
  specialize (HG x). destruct (G x) as [|a [|b q]]; simpl in *; auto; lia.
Qed.

Lemma flat_map_flat_map : forall {A B C} (F : B -> list C) (G : A -> list B) l,
  flat_map F (flat_map G l) = flat_map (fun x => flat_map F (G x)) l.
Proof. intros. induction l as [|x r IH]; simpl; auto. rewrite flat_map_app, IH. reflexivity. Qed.

Lemma g_class_params_undec : forall b, decorated b = false -> g_class_params b = [].
Proof. intros b H. unfold g_class_params, decorated in *. destruct (c_dec b); [discriminate|reflexivity]. Qed.
Lemma g_own_all_undec : forall b, decorated b = false -> g_own_all b = [].
Proof. intros b H. unfold g_own_all, decorated in *. destruct (c_dec b); [discriminate|reflexivity]. Qed.

(* the entries with the flag set are the parameters of the FlatFilterFirst shape *)
Lemma scan_all_filter : forall body kw, map g_par (filter g_in (g_scan_all kw body)) = g_scan kw body.
Proof.
  induction body as [|s r IH]; intros kw; simpl; auto.
  destruct s as [n a v | n p | n]; auto.
  destruct a; simpl; auto; destruct (g_init_false v); simpl; auto; rewrite IH; reflexivity.
Qed.
Lemma own_all_filter : forall b, map g_par (filter g_in (g_own_all b)) = g_class_params b.
Proof. intros b. unfold g_own_all, g_class_params. destruct (c_dec b); auto. apply scan_all_filter. Qed.

(* what a class index contributes, in the three readings *)
Definition contrib (t : table) (j : nat) : list param :=
  match nth_error t j with Some b => if decorated b then g_class_params b else [] | None => [] end.

Lemma dec_own_static : forall t k,
  dec_own t (own_static t) k = match nth_error t k with Some b => if decorated b then g_own_all b else [] | None => [] end.
Proof. intros t k. unfold dec_own, decorated_at, own_static. destruct (nth_error t k) as [b|]; auto. Qed.

Lemma collect_is_g_collect : forall t j c, nth_error t j = Some c ->
  flat_map (contrib t) (rev (c_mro c) ++ [j]) = g_collect t c.
Proof.
  intros t j c Hj. rewrite flat_map_app. simpl. rewrite app_nil_r. unfold g_collect. f_equal.
  - unfold mro_classes.
    rewrite (flat_map_rev_single (fun j0 => match nth_error t j0 with Some b => [b] | None => [] end)).
    + rewrite flat_map_flat_map. apply flat_map_ext. intros k. unfold contrib.
      destruct (nth_error t k); simpl; auto. rewrite app_nil_r. reflexivity.
    + intros x. destruct (nth_error t x); simpl; lia.
  - unfold contrib. rewrite Hj. destruct (decorated c) eqn:Hd; auto. symmetry. apply g_class_params_undec. auto.
Qed.

(* the decorated classes feeding class i, as indices and as classes *)
Lemma own_all_chain : forall t j c, nth_error t j = Some c ->
  flat_map (dec_own t (own_static t)) (rev (c_mro c) ++ [j]) = flat_map g_own_all (chain t c).
Proof.
  intros t j c Hj. unfold chain. rewrite <- flat_map_filter_if. rewrite !flat_map_app. simpl. rewrite !app_nil_r. f_equal.
  - unfold mro_classes.
    rewrite (flat_map_rev_single (fun j0 => match nth_error t j0 with Some b => [b] | None => [] end)).
    + rewrite flat_map_flat_map. apply flat_map_ext. intros k. rewrite dec_own_static.
      destruct (nth_error t k); simpl; auto. rewrite app_nil_r. reflexivity.
    + intros x. destruct (nth_error t x); simpl; lia.
  - rewrite dec_own_static, Hj. reflexivity.
Qed.

(* ================================================================== FlatFilterFirst IS the model of Model/C18_dataclass.v *)
Lemma gm_FFF : forall t i c, nth_error t i = Some c -> gm_init_member FlatFilterFirst t i c = g_init_member t c.
Proof.
  intros t i c Hi. unfold gm_init_member, g_init_member. destruct (c_hw c); auto.
  destruct (decorated c); auto. destruct (init_false c); auto. f_equal. unfold gm_params. f_equal.
  rewrite <- (collect_is_g_collect t i c Hi). apply flat_map_ext. intros k. rewrite dec_own_static. unfold contrib.
  destruct (nth_error t k) as [b|]; auto. destruct (decorated b); auto. apply own_all_filter.
Qed.

(* ================================================================== the relation entry ~ CPython field *)
Definition R (g : gfld) (f : fld) : Prop :=
  gkey g = f_name f /\ g_in g = in_init f /\ (in_init f = true -> g_par g = to_param f).

Lemma scan_all_R : forall inhf body kw seen own,
  py_scan inhf kw seen body = Some own ->
  g2_scan inhf body = false -> g7_scan body = false ->
  Forall2 R (g_scan_all kw body) own.
Proof.
  intros inhf. induction body as [|s r IH]; intros kw seen own Hpy H2 H7.
  - simpl in Hpy. inversion Hpy. constructor.
  - destruct s as [n a v | n p | n].
    + destruct a.
      * (* no annotation *)
        simpl in Hpy. simpl.
        assert (Hr : py_scan inhf kw seen r = Some own) by (destruct v; congruence).
        apply (IH kw seen own Hr); [destruct v; simpl in H2; auto | simpl in H7; auto].
      * (* x: int *)
        simpl in H7. destruct v as [| | fa]; simpl in Hpy, H2.
        -- apply orb_false_iff in H2. destruct H2 as [Hn H2]. rewrite Hn in Hpy.
           destruct (py_scan inhf kw seen r) as [o|] eqn:Er; simpl in Hpy; [|discriminate]. inversion Hpy; subst own.
           simpl. constructor; [|eapply IH; eauto]. unfold R, gkey, in_init, to_param. simpl. repeat split; auto. destruct kw; reflexivity.
        -- destruct (py_scan inhf kw seen r) as [o|] eqn:Er; simpl in Hpy; [|discriminate]. inversion Hpy; subst own.
           simpl. constructor; [|eapply IH; eauto]. unfold R, gkey, in_init, to_param. simpl. repeat split; auto. destruct kw; reflexivity.
        -- destruct (fa_default fa && fa_factory fa) eqn:Eb; [discriminate|].
           destruct (py_scan inhf kw seen r) as [o|] eqn:Er; simpl in Hpy; [|discriminate]. inversion Hpy; subst own.
           simpl. constructor; [|eapply IH; eauto]. unfold R, gkey, in_init, to_param, opt_is. simpl.
           destruct (fa_init fa) as [[|]|]; simpl; repeat split; auto; try discriminate;
             intros _; destruct (fa_kw fa) as [[|]|]; destruct kw; simpl; rewrite (orb_comm (fa_factory fa)); reflexivity.
      * (* x: ClassVar[int] *)
        simpl in H2, H7.
        assert (Hr : exists f o, py_scan inhf kw seen r = Some o /\ own = f :: o /\ f_type f = FClassVar /\ f_name f = n).
        { simpl in Hpy. destruct v as [| | fa].
          - destruct (py_scan inhf kw seen r) as [o|]; simpl in Hpy; [|discriminate]. inversion Hpy. eexists; eexists; repeat split; eauto.
          - destruct (py_scan inhf kw seen r) as [o|]; simpl in Hpy; [|discriminate]. inversion Hpy. eexists; eexists; repeat split; eauto.
          - destruct ((fa_factory fa || match fa_kw fa with Some _ => true | None => false end) || fa_default fa && fa_factory fa); [discriminate|].
            destruct (py_scan inhf kw seen r) as [o|]; simpl in Hpy; [|discriminate]. inversion Hpy. eexists; eexists; repeat split; eauto. }
        destruct Hr as [f [o [Er [Ho [Hf Hn]]]]]. subst own.
        simpl. constructor.
        -- unfold R, gkey, in_init. simpl. rewrite Hf, Hn. repeat split; auto. discriminate.
        -- apply (IH kw seen o Er); [destruct v; auto | auto].
      * (* x: InitVar[int] *)
        simpl in H7. destruct v as [| | fa]; simpl in Hpy, H2.
        -- apply orb_false_iff in H2. destruct H2 as [Hn H2]. rewrite Hn in Hpy.
           destruct (py_scan inhf kw seen r) as [o|] eqn:Er; simpl in Hpy; [|discriminate]. inversion Hpy; subst own.
           simpl. constructor; [|eapply IH; eauto]. unfold R, gkey, in_init, to_param. simpl. repeat split; auto. destruct kw; reflexivity.
        -- destruct (py_scan inhf kw seen r) as [o|] eqn:Er; simpl in Hpy; [|discriminate]. inversion Hpy; subst own.
           simpl. constructor; [|eapply IH; eauto]. unfold R, gkey, in_init, to_param. simpl. repeat split; auto. destruct kw; reflexivity.
        -- destruct (fa_factory fa || fa_default fa && fa_factory fa) eqn:Eb; [discriminate|].
           destruct (py_scan inhf kw seen r) as [o|] eqn:Er; simpl in Hpy; [|discriminate]. inversion Hpy; subst own.
           simpl. constructor; [|eapply IH; eauto]. unfold R, gkey, in_init, to_param, opt_is. simpl.
           destruct (fa_init fa) as [[|]|]; simpl; repeat split; auto; try discriminate;
             intros _; destruct (fa_kw fa) as [[|]|]; destruct kw; simpl; rewrite (orb_comm (fa_factory fa)); reflexivity.
      * (* _: KW_ONLY *)
        simpl in Hpy, H2, H7. destruct seen; [discriminate|].
        simpl. apply (IH true true own Hpy); [destruct v; auto | auto].
    + simpl in *. apply (IH kw seen own Hpy); auto.
    + simpl in H7. discriminate.
Qed.

Definition clean (t : table) (b : cls) : Prop :=
  hw_assigns b = false /\ g2_scan (inh t b) (c_body b) = false /\ g7_scan (c_body b) = false.

Lemma own_all_R : forall t b own, decorated b = true -> py_own t b = Some own -> clean t b ->
  Forall2 R (g_own_all b) own.
Proof.
  intros t b own Hd Hown [H4 [H2 H7]]. unfold g_own_all, py_own, decorated in *.
  destruct (c_dec b) as [d|]; [|discriminate].
  assert (Hb : g_body b = c_body b).
  { unfold g_body, hw_assigns in *. destruct (c_hw b) as [[|n l]|]; simpl; try discriminate; apply app_nil_r. }
  rewrite Hb. eapply scan_all_R; eauto.
Qed.

(* dict operations keep the relation *)
Lemma upd_R : forall m m' x x', Forall2 R m m' -> R x x' -> Forall2 R (upd gkey m x) (upd f_name m' x').
Proof.
  intros m m' x x' H. revert x x'. induction H as [|y y' l l' Hy Hl IH]; intros x x' Hx; simpl.
  - constructor; auto.
  - destruct Hy as [Hk Hy]. destruct Hx as [Hkx Hx']. rewrite Hk, Hkx.
    destruct (Nat.eqb (f_name y') (f_name x')).
    + constructor; auto. split; auto.
    + constructor; [split; auto|]. apply IH. split; auto.
Qed.
Lemma merge_R : forall l l', Forall2 R l l' -> forall m m', Forall2 R m m' -> Forall2 R (merge gkey m l) (merge f_name m' l').
Proof.
  unfold merge. intros l l' H. induction H as [|x x' l l' Hx Hl IH]; intros m m' Hm; simpl; auto.
  apply IH. apply upd_R; auto.
Qed.
Lemma dedup_R : forall l l', Forall2 R l l' -> Forall2 R (dedup gkey l) (dedup f_name l').
Proof. intros. unfold dedup. apply merge_R; auto. Qed.
Lemma flat_map_R : forall {A} (F : A -> list gfld) (F' : A -> list fld) l,
  (forall x, In x l -> Forall2 R (F x) (F' x)) -> Forall2 R (flat_map F l) (flat_map F' l).
Proof.
  intros A F F' l. induction l as [|x r IH]; intros H; simpl; [constructor|].
  apply Forall2_app; [apply H; left; auto | apply IH; intros; apply H; right; auto].
Qed.

(* what reaches __init__ *)
Lemma final_R : forall l l', Forall2 R l l' -> map g_par (filter g_in l) = map to_param (filter in_init l').
Proof.
  intros l l' H. induction H as [|x x' l l' [Hk [Hi Hp]] Hl IH]; simpl; auto.
  rewrite Hi. destruct (in_init x') eqn:E; simpl; auto. rewrite IH, (Hp eq_refl). reflexivity.
Qed.
Lemma partition_py : forall fl, partition_params (map to_param (filter in_init fl)) = py_params fl.
Proof.
  intros fl. unfold partition_params, py_params. rewrite !filter_map_comm.
  f_equal; f_equal; apply filter_ext; intros f; unfold is_pk, is_ko, to_param; simpl; destruct (f_kw f); reflexivity.
Qed.

Lemma known_gap_m_false : forall m t e i c, known_gap_m m t e i c = false ->
  G2 t c = false /\ (filter_after m = false -> G3 t c = false) /\ G4 t c = false /\
  (accumulates m = false -> G6 t e i c = false) /\ G7 t c = false.
Proof.
  intros m t e i c H. unfold known_gap_m, gaps_m in H. simpl in H.
  repeat (apply orb_false_iff in H; destruct H as [? H]).
  repeat split; auto.
  - intros Hf. rewrite Hf in *. auto.
  - intros Ha. rewrite Ha in *. auto.
Qed.

Lemma chain_clean : forall t c, G2 t c = false -> G4 t c = false -> G7 t c = false ->
  forall b, In b (chain t c) -> clean t b.
Proof.
  intros t c H2 H4 H7 b Hb. unfold clean. repeat split.
  - apply (existsb_false_forall _ _ H4 b Hb).
  - apply (existsb_false_forall _ _ H2 b Hb).
  - apply (existsb_false_forall _ _ H7 b Hb).
Qed.

(* ================================================================== FlatFilterLast: G3 is gone *)
Lemma init_eq_FFL : forall t e i c,
  py_eval_table t = Some e -> nth_error t i = Some c ->
  decorated c = true -> c_hw c = None ->
  known_gap_m FlatFilterLast t e i c = false ->
  gm_init_member FlatFilterLast t i c = py_init_member e i c.
Proof.
  intros t e i c Hev Hnth Hdec Hhw Hgap.
  apply known_gap_m_false in Hgap. destruct Hgap as [H2 [_ [H4 [H6 H7]]]]. specialize (H6 eq_refl).
  assert (Hin : In c t) by (eapply nth_error_In; eauto).
  unfold G6 in H6. destruct (nth_error e i) as [[fl|]|] eqn:Ee; try discriminate.
  apply negb_false_iff in H6. apply (list_eqb_eq fld_eqb fld_eqb_eq) in H6. subst fl.
  unfold gm_init_member, py_init_member. rewrite Hhw, Hdec, Ee.
  unfold init_false. unfold decorated in Hdec. destruct (c_dec c) as [d|] eqn:Ed; [|discriminate].
  destruct (opt_is (d_init d) false); [reflexivity|].
  f_equal. unfold gm_params. rewrite (own_all_chain t i c Hnth).
  rewrite <- partition_py. f_equal. apply final_R. unfold flat_fields. apply dedup_R. apply flat_map_R.
  intros b Hb. destruct (chain_in t c b Hin Hb) as [Hbt Hbd].
  destruct (py_eval_own t t [] e Hev b Hbt) as [own Hown].
  unfold own_or_nil. rewrite Hown. apply (own_all_R t b own Hbd Hown). apply (chain_clean t c H2 H4 H7 b Hb).
Qed.

(* and the former F3 witness is inside the theorem now *)
Example repaired_F3 : known_gap_m FlatFilterLast w3 (env_of w3) 1 (cls_at w3 1) = false /\
  gm_init_member FlatFilterLast w3 1 (cls_at w3 1) = Synth [mkp 1 PK true] /\
  gm_init_member FlatFilterFirst w3 1 (cls_at w3 1) = Synth [mkp 0 PK true; mkp 1 PK true].
Proof. vm_compute. repeat split; reflexivity. Qed.

(* ================================================================== Accumulated: G3 and G6 are gone *)

(* ---- what the environment holds after the module ran ---- *)
Lemma entry_spec : forall t e, py_eval_table t = Some e -> forall k b, nth_error t k = Some b ->
  (decorated b = false -> nth_error e k = Some None) /\
  (decorated b = true -> exists own, py_own t b = Some own /\
                         nth_error e k = Some (Some (merge f_name (inherited t (firstn k e) b) own))).
Proof.
  intros t e Hev k b Hk. destruct (py_eval_nth t t [] e Hev) as [res [He Hres]]. simpl in He. subst res.
  destruct (Hres k b Hk) as [x [Hx Hs]]. simpl in Hs. unfold py_step in Hs. unfold decorated.
  destruct (c_dec b) as [d|] eqn:Ed.
  - split; [discriminate|]. intros _. destruct (py_own t b) as [own|] eqn:Eo; [|discriminate].
    destruct (opt_is (d_init d) false || order_ok false (merge f_name (inherited t (firstn k e) b) own)); [|discriminate].
    inversion Hs; subst x. eauto.
  - split; [|discriminate]. intros _. inversion Hs; subst x. auto.
Qed.

Lemma find_some_ext_in : forall {A B} (f g : A -> option B) l, (forall x, In x l -> f x = g x) -> find_some f l = find_some g l.
Proof.
  intros A B f g. induction l as [|x r IH]; simpl; intros H; auto.
  rewrite (H x) by auto. destruct (g x); auto.
Qed.

Lemma getattr_prefix : forall t e n k b, nth_error t k = Some b -> k < n -> (forall x, In x (c_mro b) -> x < n) ->
  getattr_fields t (firstn n e) k = getattr_fields t e k.
Proof.
  intros t e n k b Hk Hlt Hm. unfold getattr_fields. rewrite Hk. apply find_some_ext_in.
  intros x [Hx|Hx]; [subst x|]; rewrite nth_error_firstn_lt; auto.
Qed.

Lemma fold_left_ext_in : forall {A B} (f g : A -> B -> A) l, (forall a x, In x l -> f a x = g a x) ->
  forall a, fold_left f l a = fold_left g l a.
Proof.
  intros A B f g. induction l as [|x r IH]; simpl; intros H a; auto.
  rewrite (H a x) by auto. apply IH. intros; apply H; auto.
Qed.

Lemma merge_nil_r : forall {A} (key : A -> name) m, merge key m [] = m.
Proof. reflexivity. Qed.

Lemma inherited_as_Gj : forall t e b,
  inherited t e b = fold_left (fun acc j => merge f_name acc (Gj t e j)) (rev (c_mro b)) [].
Proof.
  intros t e b. unfold inherited. apply fold_left_ext_in. intros a x _. unfold Gj. destruct (getattr_fields t e x); reflexivity.
Qed.

(* ---- well-formed MRO lists ---- *)
Lemma wf_from_nth : forall t l s, wf_from t s l = true -> forall k b, nth_error l k = Some b -> wf_at t (s + k) b = true.
Proof.
  intros t. induction l as [|c r IH]; simpl; intros s H k b Hk.
  - destruct k; discriminate.
  - apply andb_true_iff in H. destruct H as [H1 H2]. destruct k; simpl in Hk.
    + inversion Hk; subst. rewrite Nat.add_0_r. auto.
    + rewrite <- Nat.add_succ_comm. apply (IH (S s) H2 k b Hk).
Qed.

Lemma wf_spec : forall t, wf_mro t = true -> forall i c, nth_error t i = Some c ->
  forall j, In j (c_mro c) -> j < i /\ exists b, nth_error t j = Some b /\ (forall x, In x (c_mro b) -> In x (c_mro c)).
Proof.
  intros t Hwf i c Hi j Hj. pose proof (wf_from_nth t t 0 Hwf i c Hi) as H. simpl in H. unfold wf_at in H.
  rewrite forallb_forall in H. specialize (H j Hj). apply andb_true_iff in H. destruct H as [Hlt Hs].
  apply Nat.ltb_lt in Hlt. split; auto. destruct (nth_error t j) as [b|]; [|discriminate]. exists b. split; auto.
  intros x Hx. unfold subset_nat in Hs. rewrite forallb_forall in Hs. specialize (Hs x Hx).
  apply existsb_exists in Hs. destruct Hs as [y [Hy Hxy]]. apply Nat.eqb_eq in Hxy. subst y. auto.
Qed.

Lemma inherited_prefix : forall t e, wf_mro t = true -> forall j b, nth_error t j = Some b ->
  inherited t (firstn j e) b = inherited t e b.
Proof.
  intros t e Hwf j b Hj. unfold inherited. apply fold_left_ext_in. intros a x Hx. apply in_rev in Hx.
  destruct (wf_spec t Hwf j b Hj x Hx) as [Hlt [bx [Hbx Hsub]]].
  rewrite (getattr_prefix t e j x bx Hbx Hlt); auto.
  intros y Hy. destruct (wf_spec t Hwf j b Hj y (Hsub y Hy)) as [Hy' _]. auto.
Qed.

(* ---- attribute lookup of __dataclass_fields__ ---- *)
Definition entry_fields (e : env) (k : nat) : option (list fld) :=
  match nth_error e k with Some (Some fl) => Some fl | _ => None end.

Lemma Gj_decorated : forall t e k b fl, nth_error t k = Some b -> nth_error e k = Some (Some fl) -> Gj t e k = fl.
Proof. intros t e k b fl Hk He. unfold Gj, getattr_fields. rewrite Hk. simpl. rewrite He. reflexivity. Qed.

Lemma find_some_find : forall t e l,
  (forall x, In x l -> (decorated_at t x = false -> entry_fields e x = None) /\ (decorated_at t x = true -> entry_fields e x <> None)) ->
  find_some (entry_fields e) l = match find (decorated_at t) l with Some k => entry_fields e k | None => None end.
Proof.
  intros t e. induction l as [|x r IH]; simpl; intros H; auto.
  destruct (H x (or_introl eq_refl)) as [H1 H2]. destruct (decorated_at t x) eqn:Ed.
  - destruct (entry_fields e x); auto. exfalso. apply H2; auto.
  - rewrite (H1 eq_refl). apply IH. intros; apply H; right; auto.
Qed.

Lemma Gj_undecorated : forall t e, py_eval_table t = Some e -> wf_mro t = true ->
  forall j b, nth_error t j = Some b -> decorated b = false ->
  Gj t e j = match find (decorated_at t) (c_mro b) with Some k => Gj t e k | None => [] end.
Proof.
  intros t e Hev Hwf j b Hj Hd. unfold Gj at 1. unfold getattr_fields. rewrite Hj.
  change (fun k => match nth_error e k with Some (Some fl) => Some fl | _ => None end) with (entry_fields e).
  simpl. unfold entry_fields at 1. destruct (entry_spec t e Hev j b Hj) as [Hu _]. rewrite (Hu Hd).
  rewrite (find_some_find t e (c_mro b)).
  - destruct (find (decorated_at t) (c_mro b)) as [k|] eqn:Ef; auto.
    apply List.find_some in Ef. destruct Ef as [Hin Hdk].
    destruct (wf_spec t Hwf j b Hj k Hin) as [_ [bk [Hbk _]]].
    unfold decorated_at in Hdk. rewrite Hbk in Hdk.
    destruct (entry_spec t e Hev k bk Hbk) as [_ Hdec]. destruct (Hdec Hdk) as [own [_ He]].
    unfold entry_fields. rewrite He. symmetry. eapply Gj_decorated; eauto.
  - intros x Hx. destruct (wf_spec t Hwf j b Hj x Hx) as [_ [bx [Hbx _]]].
    unfold decorated_at, entry_fields. rewrite Hbx. destruct (entry_spec t e Hev x bx Hbx) as [Hu' Hd'].
    split; intros H.
    + rewrite (Hu' H). reflexivity.
    + destruct (Hd' H) as [own [_ He]]. rewrite He. discriminate.
Qed.

Lemma fold_R : forall (A : nat -> list gfld) (B : nat -> list fld) l, (forall k, In k l -> Forall2 R (A k) (B k)) ->
  forall acc acc', Forall2 R acc acc' ->
  Forall2 R (fold_left (fun a k => merge gkey a (A k)) l acc) (fold_left (fun a k => merge f_name a (B k)) l acc').
Proof.
  intros A B. induction l as [|x r IH]; simpl; intros H acc acc' Ha; auto.
  apply IH; [intros; apply H; auto|]. apply merge_R; auto.
Qed.

(* the recursion of _dataclass_fields computes CPython's __dataclass_fields__, class by class *)
Lemma accum_R : forall t e, py_eval_table t = Some e -> wf_mro t = true ->
  forall fuel j b, nth_error t j = Some b -> j < fuel ->
  (forall k bk, In k (j :: c_mro b) -> nth_error t k = Some bk -> decorated bk = true -> clean t bk) ->
  Forall2 R (accum t (own_static t) fuel j) (Gj t e j).
Proof.
  intros t e Hev Hwf. induction fuel as [|f IH]; intros j b Hj Hlt Hclean; [lia|].
  simpl. rewrite Hj. unfold accum_body. destruct (decorated b) eqn:Hd.
  - destruct (entry_spec t e Hev j b Hj) as [_ Hdec]. destruct (Hdec Hd) as [own [Hown He]].
    rewrite (Gj_decorated t e j b _ Hj He), (inherited_prefix t e Hwf j b Hj), inherited_as_Gj.
    apply merge_R.
    + unfold own_static. rewrite Hj. apply (own_all_R t b own Hd Hown). apply (Hclean j b); auto. left; auto.
    + apply fold_R; [|constructor]. intros k Hk. apply in_rev in Hk.
      destruct (wf_spec t Hwf j b Hj k Hk) as [Hkj [bk [Hbk Hsub]]].
      apply (IH k bk Hbk); [lia|].
      intros x bx [Hx|Hx] Hbx Hdx; [subst x; apply (Hclean k bx); auto; right; auto|].
      apply (Hclean x bx); auto. right. apply Hsub. auto.
  - rewrite (Gj_undecorated t e Hev Hwf j b Hj Hd).
    destruct (find (decorated_at t) (c_mro b)) as [k|] eqn:Ef; [|constructor].
    apply List.find_some in Ef. destruct Ef as [Hk _].
    destruct (wf_spec t Hwf j b Hj k Hk) as [Hkj [bk [Hbk Hsub]]].
    apply (IH k bk Hbk); [lia|].
    intros x bx [Hx|Hx] Hbx Hdx; [subst x; apply (Hclean k bx); auto; right; auto|].
    apply (Hclean x bx); auto. right. apply Hsub. auto.
Qed.

Lemma dedup_id : forall {A} (key : A -> name) l, NoDup (map key l) -> dedup key l = l.
Proof. intros A key l H. unfold dedup, merge. apply (merge_fresh A key l []). simpl. auto. Qed.

Lemma inherited_nodup : forall t e b, NoDup (map f_name (inherited t e b)).
Proof.
  intros t e b. unfold inherited. generalize (rev (c_mro b)). intros l.
  assert (H : forall acc, NoDup (map f_name acc) ->
            NoDup (map f_name (fold_left (fun acc j => match getattr_fields t e j with Some fl => merge f_name acc fl | None => acc end) l acc))).
  { induction l as [|x r IH]; simpl; intros acc Ha; auto. apply IH. destruct (getattr_fields t e x); auto. apply merge_nodup. auto. }
  apply H. constructor.
Qed.

Lemma init_eq_Acc : forall t e i c,
  py_eval_table t = Some e -> wf_mro t = true -> nth_error t i = Some c ->
  decorated c = true -> c_hw c = None ->
  known_gap_m Accumulated t e i c = false ->
  gm_init_member Accumulated t i c = py_init_member e i c.
Proof.
  intros t e i c Hev Hwf Hnth Hdec Hhw Hgap.
  apply known_gap_m_false in Hgap. destruct Hgap as [H2 [_ [H4 [_ H7]]]].
  destruct (entry_spec t e Hev i c Hnth) as [_ Hd]. destruct (Hd Hdec) as [own [Hown He]].
  unfold gm_init_member, py_init_member. rewrite Hhw, Hdec, He.
  unfold init_false. unfold decorated in Hdec. destruct (c_dec c) as [d|] eqn:Ed; [|discriminate].
  destruct (opt_is (d_init d) false); [reflexivity|].
  f_equal. unfold gm_params. rewrite <- partition_py. f_equal.
  set (fl := merge f_name (inherited t (firstn i e) c) own) in *.
  assert (Hnd : NoDup (map f_name fl)) by (apply merge_nodup; apply inherited_nodup).
  rewrite <- (dedup_id f_name fl Hnd). apply final_R. apply dedup_R.
  assert (Hdc : decorated c = true) by (unfold decorated; rewrite Ed; reflexivity).
  rewrite <- (Gj_decorated t e i c fl Hnth He).
  apply (accum_R t e Hev Hwf (S (List.length t)) i c Hnth).
  - assert (i < List.length t) by (apply nth_error_Some; congruence). lia.
  - intros k bk Hk Hbk Hdk. apply (chain_clean t c H2 H4 H7). unfold chain. apply filter_In. split; auto.
    apply in_or_app. destruct Hk as [Hk|Hk].
    + subst k. rewrite Hnth in Hbk. inversion Hbk. right. left. auto.
    + left. apply -> in_rev. unfold mro_classes. apply in_flat_map. exists k. split; auto. rewrite Hbk. left. auto.
Qed.

(* the recursion never runs out of fuel on well-formed tables: any larger fuel gives the same dictionary *)
Lemma accum_fuel : forall t own, wf_mro t = true -> forall f1 f2 j, j < f1 -> j < f2 -> accum t own f1 j = accum t own f2 j.
Proof.
  intros t own Hwf. induction f1 as [|f1 IH]; intros f2 j H1 H2; [lia|]. destruct f2 as [|f2]; [lia|].
  simpl. destruct (nth_error t j) as [b|] eqn:Hj; auto. unfold accum_body.
  destruct (decorated b).
  - f_equal. apply fold_left_ext_in. intros a x Hx. apply in_rev in Hx.
    destruct (wf_spec t Hwf j b Hj x Hx) as [Hlt _]. f_equal. apply IH; lia.
  - destruct (find (decorated_at t) (c_mro b)) as [k|] eqn:Ef; auto. apply List.find_some in Ef. destruct Ef as [Hk _].
    destruct (wf_spec t Hwf j b Hj k Hk) as [Hlt _]. apply IH; lia.
Qed.

(* the former witnesses of F3 and F6 are inside the theorem now *)
Example repaired_F6 : wf_mro w6 = true /\ known_gap_m Accumulated w6 (env_of w6) 3 (cls_at w6 3) = false /\
  gm_init_member Accumulated w6 3 (cls_at w6 3) = Synth [mkp 0 PK false; mkp 1 PK true] /\
  gm_init_member FlatFilterFirst w6 3 (cls_at w6 3) = Synth [mkp 0 PK true; mkp 1 PK true].
Proof. vm_compute. repeat split; reflexivity. Qed.
Example repaired_F3_acc : wf_mro w3 = true /\ known_gap_m Accumulated w3 (env_of w3) 1 (cls_at w3 1) = false /\
  gm_init_member Accumulated w3 1 (cls_at w3 1) = Synth [mkp 1 PK true].
Proof. vm_compute. repeat split; reflexivity. Qed.

(* ================================================================== one statement for the three shapes *)
Definition mode_ok (m : mode) (t : table) : bool := negb (accumulates m) || wf_mro t.

Theorem init_eq_cpython_by_mode : forall m t e i c,
  py_eval_table t = Some e -> mode_ok m t = true -> nth_error t i = Some c ->
  decorated c = true -> c_hw c = None ->
  known_gap_m m t e i c = false ->
  gm_init_member m t i c = py_init_member e i c.
Proof.
  intros m t e i c Hev Hok Hnth Hd Hh Hg. destruct m.
  - rewrite (gm_FFF t i c Hnth). apply init_eq_cpython_modulo_known; auto.
  - apply init_eq_FFL; auto.
  - apply init_eq_Acc; auto.
Qed.
