(* C14, namespace packages over several portions: what the repaired iter_submodules(list of portions) never yields.
   The shapes of the former findings F8 (two source files of one name from different portions), F3 and F10 (a file
   from inside a folder that ANOTHER portion provides as a regular package, be that portion earlier or later, at
   any depth) are shown impossible for every universe and every list of portions. *)
From Coq Require Import List ZArith String Ascii Bool Arith Lia Permutation Sorting.Sorted.
From Verif Require Import Lib.Sexp Model.C14_finder Proofs.C14_finder Proofs.C14_order.
Import ListNotations.
Open Scope string_scope. Open Scope list_scope.

(* ------------------------------------------------------------------------------------------------------------- *)
(* A.  first module of a name wins (F8) *)
Definition src (e : entry) : bool := (path_suffix (e_abs e) =? ".py") || (path_suffix (e_abs e) =? ".pyi").
Definition fkey (e : entry) : list string * string := (e_parts e, path_suffix (e_abs e)).

Lemma found_get_app : forall F k d, found_get (F ++ [(k, d)]) k = match found_get F k with Some x => Some x | None => Some d end.
Proof.
  induction F as [|[[p s] x] F IH]; intros [kp ks] d; simpl.
  - rewrite lstr_eqb_refl, String.eqb_refl. reflexivity.
  - destruct (lstr_eqb p kp && (s =? ks)); auto.
Qed.

Lemma found_get_app_other : forall F k k' d, k' <> k -> found_get (F ++ [(k, d)]) k' = found_get F k'.
Proof.
  induction F as [|[[p s] x] F IH]; intros [kp ks] [kp' ks'] d Hne; simpl.
  - destruct (lstr_eqb kp kp' && (ks =? ks')) eqn:E; auto. apply andb_true_iff in E. destruct E as [E1 E2].
    apply lstr_eqb_eq in E1. apply String.eqb_eq in E2. subst. congruence.
  - destruct (lstr_eqb p kp' && (s =? ks')); auto.
Qed.

Lemma fkey_dec : forall a b : list string * string, a = b \/ a <> b.
Proof.
  intros [p s] [q t]. destruct (lstr_eqb p q) eqn:E1, (s =? t) eqn:E2.
  - apply lstr_eqb_eq in E1. apply String.eqb_eq in E2. subst. auto.
  - right. intro H. inversion H; subst. rewrite String.eqb_refl in E2. discriminate.
  - right. intro H. inversion H; subst. rewrite lstr_eqb_refl in E1. discriminate.
  - right. intro H. inversion H; subst. rewrite lstr_eqb_refl in E1. discriminate.
Qed.

Lemma first_wins_found : forall P subs F e d,
  In e (first_wins P subs F) -> src e = true -> found_get F (fkey e) = Some d -> e_base e = d.
Proof.
  induction subs as [|x r IH]; intros F e d Hin Hs Hf; simpl in Hin. contradiction.
  destruct (shadowed P (e_base x) (e_folders x)). eauto.
  fold (src x) in Hin. destruct (src x) eqn:Sx; simpl in Hin.
  - fold (fkey x) in Hin. destruct (found_get F (fkey x)) as [dx|] eqn:Fx.
    + destruct (path_eqb dx (e_base x)) eqn:Ed.
      * destruct Hin as [Ex|Hin]. subst e. apply path_eqb_eq in Ed. congruence. eauto.
      * eauto.
    + destruct Hin as [Ex|Hin]. subst e. congruence.
      apply (IH _ e d Hin Hs). destruct (fkey_dec (fkey e) (fkey x)) as [E|E].
      * rewrite E in Hf. congruence.
      * rewrite found_get_app_other; auto.
  - destruct Hin as [Ex|Hin]. subst e. congruence. eauto.
Qed.

Lemma first_wins_unique : forall P subs F a b,
  In a (first_wins P subs F) -> In b (first_wins P subs F) -> src a = true -> fkey a = fkey b -> e_base a = e_base b.
Proof.
  induction subs as [|x r IH]; intros F a b Ha Hb Hs Hk; simpl in Ha, Hb. contradiction.
  assert (Sb : src b = true). { unfold src in *. unfold fkey in Hk. injection Hk as H1 H2. rewrite <- H2. exact Hs. }
  destruct (shadowed P (e_base x) (e_folders x)). eauto.
  fold (src x) in Ha, Hb. destruct (src x) eqn:Sx; simpl in Ha, Hb.
  - fold (fkey x) in Ha, Hb. destruct (found_get F (fkey x)) as [dx|] eqn:Fx.
    + destruct (path_eqb dx (e_base x)) eqn:Ed; [|eauto]. apply path_eqb_eq in Ed. subst dx.
      destruct Ha as [Ea|Ha], Hb as [Eb|Hb]; try subst a; try subst b; auto.
      * symmetry. apply (first_wins_found P r F b (e_base x)); auto. rewrite <- Hk. auto.
      * apply (first_wins_found P r F a (e_base x)); auto. rewrite Hk. auto.
      * eauto.
    + destruct Ha as [Ea|Ha], Hb as [Eb|Hb]; try subst a; try subst b; auto.
      * symmetry. apply (first_wins_found P r (F ++ [(fkey x, e_base x)]) b (e_base x)); auto. rewrite <- Hk, found_get_app, Fx. reflexivity.
      * apply (first_wins_found P r (F ++ [(fkey x, e_base x)]) a (e_base x)); auto. rewrite Hk, found_get_app, Fx. reflexivity.
      * eauto.
  - destruct Ha as [Ea|Ha]. congruence. destruct Hb as [Eb|Hb]. congruence. eauto.
Qed.

Lemma dup_across_spec : forall es, dup_across es = true ->
  exists a b, In a es /\ In b es /\ src a = true /\ fkey a = fkey b /\ e_base a <> e_base b.
Proof.
  induction es as [|e r IH]; simpl; intro H. discriminate.
  apply orb_true_iff in H. destruct H as [H|H].
  - apply andb_true_iff in H. destruct H as [Hs H]. apply existsb_exists in H. destruct H as (e' & He' & H).
    apply andb_true_iff in H. destruct H as [H Hb]. apply andb_true_iff in H. destruct H as [Hp Hx].
    apply lstr_eqb_eq in Hp. apply String.eqb_eq in Hx. apply negb_true_iff in Hb.
    exists e, e'. repeat split; auto. unfold fkey. congruence.
    intro E. rewrite E, path_eqb_refl in Hb. discriminate.
  - destruct (IH H) as (a & b & Ha & Hb & Hrest). exists a, b. repeat split; auto; tauto.
Qed.

(* F8 cannot happen: no two source files of one name and suffix from different portions are yielded *)
Theorem no_dup_across_portions : forall U ds, dup_across (iter_portions U ds) = false.
Proof.
  intros U ds. destruct (dup_across (iter_portions U ds)) eqn:E; auto. exfalso.
  apply dup_across_spec in E. destruct E as (a & b & Ha & Hb & Hs & Hk & Hne).
  apply Hne. unfold iter_portions in Ha, Hb. eapply first_wins_unique; eauto.
Qed.

(* ------------------------------------------------------------------------------------------------------------- *)
(* B.  a regular sub-package is provided by one portion and shadows the folder in all others (F3, F10) *)
Lemma first_wins_incl : forall P subs F e, In e (first_wins P subs F) -> In e subs /\ shadowed P (e_base e) (e_folders e) = false.
Proof.
  induction subs as [|x r IH]; intros F e H; simpl in H. contradiction.
  destruct (shadowed P (e_base x) (e_folders x)) eqn:Sh.
  - destruct (IH _ _ H). split; auto. right; auto.
  - destruct (negb ((path_suffix (e_abs x) =? ".py") || (path_suffix (e_abs x) =? ".pyi"))).
    + destruct H as [<-|H]. split; auto. left; auto. destruct (IH _ _ H). split; auto. right; auto.
    + destruct (found_get F (e_parts x, path_suffix (e_abs x))) as [d|].
      * destruct (path_eqb d (e_base x)).
        -- destruct H as [<-|H]. split; auto. left; auto. destruct (IH _ _ H). split; auto. right; auto.
        -- destruct (IH _ _ H). split; auto. right; auto.
      * destruct H as [<-|H]. split; auto. left; auto. destruct (IH _ _ H). split; auto. right; auto.
Qed.

(* providers only grow, and never change the provider of a folder *)
Definition ext (P P' : provs) : Prop := forall k d, prov_get P k = Some d -> prov_get P' k = Some d.

Lemma prov_get_app : forall P k d k', prov_get (P ++ [(k, d)]) k' =
  match prov_get P k' with Some x => Some x | None => if lstr_eqb k k' then Some d else None end.
Proof.
  induction P as [|[p x] P IH]; intros k d k'; simpl. reflexivity.
  destruct (lstr_eqb p k'); auto.
Qed.

Lemma prov_step_ext : forall P e, ext P (prov_step P e).
Proof.
  intros P e k d H. unfold prov_step.
  destruct (is_init_entry e && negb (path_suffix (e_abs e) =? ".pyi") && negb (shadowed P (e_base e) (removelast (e_parts e)))); auto.
  destruct (prov_get P (e_parts e)); auto. rewrite prov_get_app, H. reflexivity.
Qed.

Lemma fold_prov_ext : forall L P, ext P (fold_left prov_step L P).
Proof.
  induction L as [|e L IH]; intros P k d H; simpl; auto. apply IH. apply prov_step_ext. auto.
Qed.

Lemma shadowed_mono : forall P P' d f, ext P P' -> shadowed P d f = true -> shadowed P' d f = true.
Proof.
  intros P P' d f He H. unfold shadowed in *. apply existsb_exists in H. destruct H as (j & Hj & H).
  apply existsb_exists. exists j. split; auto.
  destruct (prov_get P (firstn j f)) as [d'|] eqn:E; [|discriminate]. rewrite (He _ _ E). auto.
Qed.

Lemma firstn_removelast : forall (l : list string) j, j < List.length l -> firstn j (removelast l) = firstn j l.
Proof.
  induction l as [|a l IH]; intros j Hj; simpl in *. lia.
  destruct l as [|b l]. { destruct j; simpl; auto. simpl in Hj. lia. }
  destruct j; simpl; auto. f_equal. apply IH. simpl in *. lia.
Qed.

Lemma length_removelast' : forall (l : list string), List.length (removelast l) = List.length l - 1.
Proof.
  induction l as [|a l IH]; simpl; auto. destruct l as [|b l]; simpl in *; auto. rewrite IH. lia.
Qed.

Lemma shadowed_removelast : forall P d f, shadowed P d (removelast f) = true -> shadowed P d f = true.
Proof.
  intros P d f H. unfold shadowed in *. apply existsb_exists in H. destruct H as (j & Hj & H).
  apply in_seq in Hj. rewrite length_removelast' in Hj.
  apply existsb_exists. exists j. split. apply in_seq. lia.
  rewrite firstn_removelast in H by lia. auto.
Qed.

(* an __init__ module (not a stub) that is not shadowed itself: its portion IS the provider of its folder *)
Lemma provider_of_init : forall L i P0,
  In i L -> is_init_entry i = true -> (path_suffix (e_abs i) =? ".pyi") = false -> e_parts i <> [] ->
  shadowed (fold_left prov_step L P0) (e_base i) (e_parts i) = false ->
  prov_get (fold_left prov_step L P0) (e_parts i) = Some (e_base i).
Proof.
  intros L i P0 Hin Hinit Hpyi Hne Hsh.
  apply in_split in Hin. destruct Hin as (L1 & L2 & ->). rewrite fold_left_app in *. simpl in *.
  set (P1 := fold_left prov_step L1 P0) in *. set (P2 := prov_step P1 i) in *. set (Pf := fold_left prov_step L2 P2) in *.
  assert (E2 : ext P2 Pf) by apply fold_prov_ext.
  assert (E1 : ext P1 P2) by apply prov_step_ext.
  assert (Hn1 : shadowed P1 (e_base i) (removelast (e_parts i)) = false).
  { destruct (shadowed P1 (e_base i) (removelast (e_parts i))) eqn:E; auto.
    apply shadowed_removelast in E. apply (shadowed_mono P1 P2) in E; auto. apply (shadowed_mono P2 Pf) in E; auto. congruence. }
  assert (H2 : exists d', prov_get P2 (e_parts i) = Some d').
  { unfold P2, prov_step. rewrite Hinit, Hpyi, Hn1. simpl.
    destruct (prov_get P1 (e_parts i)) as [d'|] eqn:E. eauto.
    exists (e_base i). rewrite prov_get_app, E, lstr_eqb_refl. reflexivity. }
  destruct H2 as (d' & H2). pose proof (E2 _ _ H2) as Hf. rewrite Hf. f_equal.
  (* the provider registered for the folder is the entry's own portion, else the entry would be shadowed *)
  unfold shadowed in Hsh. rewrite <- not_true_iff_false in Hsh.
  destruct (path_eqb d' (e_base i)) eqn:Ed. apply path_eqb_eq. auto.
  exfalso. apply Hsh. apply existsb_exists. exists (List.length (e_parts i)). split.
  - apply in_seq. destruct (e_parts i); [congruence|simpl; lia].
  - rewrite firstn_all, Hf, Ed. reflexivity.
Qed.

Lemma is_prefix_firstn : forall a b, is_prefix a b = true -> a = firstn (List.length a) b /\ List.length a <= List.length b.
Proof.
  induction a as [|x a IH]; intros b H; simpl in *. split; auto. lia.
  destruct b as [|y b]; [discriminate|]. apply andb_true_iff in H. destruct H as [H1 H2]. apply String.eqb_eq in H1. subst y.
  destruct (IH b H2). split. simpl. f_equal. auto. simpl. lia.
Qed.

Lemma shadow_violation_spec : forall es, shadow_violation es = true ->
  exists i e, In i es /\ In e es /\ is_init_entry i = true /\ (path_suffix (e_abs i) =? ".pyi") = false /\
              is_prefix (e_parts i) (e_folders e) = true /\ e_base e <> e_base i.
Proof.
  intros es H. unfold shadow_violation in H. apply existsb_exists in H. destruct H as (i & Hi & H).
  apply andb_true_iff in H. destruct H as [H H2]. apply andb_true_iff in H. destruct H as [Hinit Hp]. apply negb_true_iff in Hp.
  apply existsb_exists in H2. destruct H2 as (e & He & H2). apply andb_true_iff in H2. destruct H2 as [Hpre Hb].
  apply negb_true_iff in Hb. exists i, e. repeat split; auto. intro E. rewrite E, path_eqb_refl in Hb. discriminate.
Qed.

(* every entry of a portion has a name *)
Lemma iter_one_parts : forall U d e, In e (iter_one U d) -> e_parts e <> [].
Proof.
  intros U d e H. unfold iter_one in H. destruct (start_dir d) as [d'|]; [|contradiction].
  destruct (iter_files_flat d' (portion_files U d') []) as (s & E). rewrite E in H.
  apply in_flat_map in H. destruct H as (r & Hr & H). apply ylist_yields in H.
  eapply yields_parts_nonempty; eauto. unfold portion_files in Hr. destruct (node_at U d'); [|contradiction].
  eapply walk_nonempty; eauto.
Qed.

(* F3 and F10 cannot happen: whatever is yielded from inside a folder in which a yielded __init__ module (not a stub)
   lives comes from that module's portion *)
Theorem no_shadow_violation : forall U ds, shadow_violation (iter_portions U ds) = false.
Proof.
  intros U ds. destruct (shadow_violation (iter_portions U ds)) eqn:E; auto. exfalso.
  apply shadow_violation_spec in E. destruct E as (i & e & Hi & He & Hinit & Hpyi & Hpre & Hne).
  unfold iter_portions in Hi, He. set (subs := all_subs U ds) in *. set (P := providers_of subs) in *.
  apply first_wins_incl in Hi, He. destruct Hi as [Hi Hsi], He as [He Hse].
  assert (Hparts : e_parts i <> []).
  { unfold subs, all_subs in Hi. apply in_flat_map in Hi. destruct Hi as (d & _ & Hi). eapply iter_one_parts; eauto. }
  assert (Hfi : e_folders i = e_parts i) by (unfold e_folders; rewrite Hinit; reflexivity). rewrite Hfi in Hsi.
  assert (Hprov : prov_get P (e_parts i) = Some (e_base i)).
  { unfold P, providers_of. apply provider_of_init; auto. apply depth_sort_In. auto. }
  apply is_prefix_firstn in Hpre. destruct Hpre as [Hfn Hlen].
  unfold shadowed in Hse. rewrite <- not_true_iff_false in Hse. apply Hse.
  apply existsb_exists. exists (List.length (e_parts i)). split.
  - apply in_seq. destruct (e_parts i); [congruence|simpl in *; lia].
  - rewrite <- Hfn, Hprov. apply negb_true_iff. destruct (path_eqb (e_base i) (e_base e)) eqn:Eb; auto.
    apply path_eqb_eq in Eb. congruence.
Qed.

(* non-vacuity: the predicates do hold of lists the UNREPAIRED finder produced (the former witnesses), and the
   repaired finder yields something on those layouts *)
Definition F0n : node := File false [].
Definition U_F8n : universe := [(0, [("aa", Dir [("n.py", F0n); ("x.py", F0n)])]); (1, [("aa", Dir [("n.py", F0n)])])].
Example dup_across_nonvacuous :
  dup_across (all_subs U_F8n [(0, ["aa"]); (1, ["aa"])]) = true /\
  List.length (iter_portions U_F8n [(0, ["aa"]); (1, ["aa"])]) = 2.
Proof. split; vm_compute; reflexivity. Qed.

Definition U_F10n : universe :=
  [(0, [("aa", Dir [("sub", Dir [("early.py", F0n)])])]); (1, [("aa", Dir [("sub", Dir [("__init__.py", F0n); ("late.py", F0n)])])])].
Example shadow_violation_nonvacuous :
  shadow_violation (all_subs U_F10n [(0, ["aa"]); (1, ["aa"])]) = true /\
  List.length (iter_portions U_F10n [(0, ["aa"]); (1, ["aa"])]) = 2.
Proof. split; vm_compute; reflexivity. Qed.
