(* C15 proofs, part 4: which files the loader reads itself -- only source files (.py / .pyi), whatever the options, the
   world, the nesting of loads and the entry point.  [nr s s']: s' is s with events appended that are all fine. *)
From Coq Require Import List ZArith String Ascii Bool Arith Lia.
From Verif Require Import Lib.Sexp Model.C15_base Gen.C15_ladder Model.C15_loader Proofs.C15_loader.
Import ListNotations.
Open Scope string_scope. Open Scope list_scope. Open Scope nat_scope.
Arguments rewrap : simpl never.
Arguments caught_by : simpl never.
Arguments str_in : simpl never.

Definition nr (s s' : st) : Prop := exists l, log s' = l ++ log s /\ forallb read_ok l = true.

Lemma nr_refl : forall s, nr s s.
Proof. intros s. exists []. split; reflexivity. Qed.

Lemma nr_trans : forall a b c, nr a b -> nr b c -> nr a c.
Proof.
  intros a b c (l1 & E1 & F1) (l2 & E2 & F2). exists (l2 ++ l1). split.
  - rewrite E2, E1. apply app_assoc.
  - rewrite forallb_app, F1, F2. reflexivity.
Qed.

Lemma nr_log : forall e s, read_ok e = true -> nr s (log_ev e s).
Proof. intros e s H. exists [e]. split; [reflexivity | simpl; rewrite H; reflexivity]. Qed.

Lemma nr_same : forall s s', log s' = log s -> nr s s'.
Proof. intros s s' H. exists []. split; [exact H | reflexivity]. Qed.

Lemma nr_keeps : forall s s', nr s s' -> reads_source_only s -> reads_source_only s'.
Proof.
  unfold reads_source_only. intros s s' (l & E & F) H. rewrite E, forallb_app, F, H. reflexivity.
Qed.

Lemma apply_effect_log : forall e s, log (apply_effect e s) = log s.
Proof.
  induction e as [p | p | | l | paths inner IH] using effect_ind2; intros s; try reflexivity.
  rewrite apply_scope_eq.
  assert (E : forall s0, log (apply_effects inner s0) = log s0).
  { unfold apply_effects. induction IH as [| x r Hx Hr IHr]; intros s0; simpl; [reflexivity |]. rewrite IHr. apply Hx. }
  unfold scoped, with_sys_path.
  destruct (is_nil paths && sys_path_noop_when_empty); simpl; rewrite E; reflexivity.
Qed.

Lemma apply_effects_log : forall es s, log (apply_effects es s) = log s.
Proof.
  unfold apply_effects. induction es as [| e r IH]; intros s; simpl; [reflexivity |].
  rewrite IH. apply apply_effect_log.
Qed.

Lemma import_prefixes_nr : forall w rest pre s, nr s (snd (import_prefixes w pre rest s)).
Proof.
  intros w rest. induction rest as [| p r IH]; intros pre s; simpl; [apply nr_refl |].
  destruct (mem_name (pre ++ [p]) (mods s)); [apply IH |].
  destruct (lookup_beh (w_beh w) (pre ++ [p])) as [b |]; [| apply nr_refl].
  destruct (visible b (heap s (cur s))); [| apply nr_refl].
  set (s1 := if b_runs b then apply_effects (b_effects b) (log_ev (EvExec (pre ++ [p]) (heap s (cur s))) s) else s).
  assert (H1 : nr s s1).
  { unfold s1. destruct (b_runs b); [| apply nr_refl].
    eapply nr_trans; [apply (nr_log (EvExec (pre ++ [p]) (heap s (cur s)))); reflexivity |].
    apply nr_same. apply apply_effects_log. }
  destruct (b_fault b); simpl; [exact H1 |].
  eapply nr_trans; [exact H1 |]. eapply nr_trans; [| apply IH]. apply nr_same. reflexivity.
Qed.

Lemma dyn_attempts_nr : forall w rp objs s, nr s (snd (dyn_attempts w rp objs s)).
Proof.
  intros w rp. induction rp as [| l r IH]; intros objs s; simpl; [apply nr_refl |].
  unfold import_module.
  pose proof (import_prefixes_nr w (rev r ++ [l]) [] s) as H.
  destruct (import_prefixes w [] (rev r ++ [l]) s) as [res s1]. simpl in H.
  destruct res as [x |]; simpl; [| exact H].
  destruct (caught_by import_attempt_catches x); simpl; [| exact H].
  eapply nr_trans; [exact H | apply IH].
Qed.

Lemma with_sys_path_nr :
  forall A paths (body : st -> (exn + A) * st) s,
    (forall s0, nr s0 (snd (body s0))) -> nr s (snd (with_sys_path paths body s)).
Proof.
  intros A paths body s Hb. unfold with_sys_path.
  destruct (is_nil paths && sys_path_noop_when_empty); [apply Hb |].
  pose proof (Hb (rebind paths s)) as H.
  destruct (body (rebind paths s)) as [r s2]. simpl in H.
  assert (K : nr s (set_cur (cur s) s2)).
  { destruct H as (l & E & F). exists l. split; [exact E | exact F]. }
  destruct r; simpl; [| exact K].
  destruct sys_path_restores_on_exception; [exact K |].
  destruct H as (l & E & F). exists l. split; [exact E | exact F].
Qed.

Lemma getattrs_nr : forall w parts owner s, nr s (snd (getattrs w owner parts s)).
Proof.
  intros w parts. induction parts as [| p r IH]; intros owner s; simpl; [apply nr_refl |].
  destruct (lookup_attr (w_attr w) owner p) as [[y |] |]; [apply nr_refl | apply IH |].
  destruct (mem_name owner (w_lazy w)); [| apply nr_refl].
  unfold import_module.
  pose proof (import_prefixes_nr w (owner ++ [p]) [] s) as H.
  destruct (import_prefixes w [] (owner ++ [p]) s) as [res s1]. simpl in H.
  destruct res; simpl; [exact H | eapply nr_trans; [exact H | apply IH]].
Qed.

Lemma dynamic_import_nr : forall w n paths s, nr s (snd (dynamic_import w n paths s)).
Proof.
  intros w n paths s. unfold dynamic_import. apply with_sys_path_nr. intros s0.
  pose proof (dyn_attempts_nr w (rev n) [] s0) as H.
  destruct (dyn_attempts w (rev n) [] s0) as [[x | [m objs]] s1]; [exact H |].
  eapply nr_trans; [exact H | apply getattrs_nr].
Qed.

Lemma inspect_call_nr : forall w n file search s, nr s (snd (inspect_call w n file search s)).
Proof.
  intros w n file search s. unfold inspect_call.
  pose proof (dynamic_import_nr w n (import_paths_for n file search) s) as H.
  destruct (dynamic_import w n (import_paths_for n file search) s) as [[x | v] s1]; exact H.
Qed.

(* what _inspect_module reads has one of the suffixes of its own test, and those are the source suffixes *)
Lemma inspect_reads_sources : forall store file, inspect_reads store file = true -> source_suffix (file_suffix file) = true.
Proof.
  intros store [f |] H; [| discriminate H]. unfold inspect_reads in H. apply andb_true_iff in H. destruct H as [_ H]. exact H.
Qed.

Lemma run_isteps_nr : forall steps w store n file search s, nr s (snd (run_isteps steps w store n file search s)).
Proof.
  intros steps w store n file search. induction steps as [| st r IH]; intros s; simpl; [apply nr_refl |].
  destruct st.
  - destruct (ignored n); [apply nr_refl | apply IH].
  - destruct (inspect_reads store file) eqn:R; [| apply IH].
    assert (K : nr s (log_ev (EvRead n (file_suffix file)) s)).
    { apply nr_log. simpl. eapply inspect_reads_sources. exact R. }
    destruct (undecodable file); [exact K | eapply nr_trans; [exact K | apply IH]].
  - pose proof (inspect_call_nr w n file search s) as H.
    destruct (inspect_call w n file search s) as [res s1]. simpl in H.
    destruct res; [exact H | eapply nr_trans; [exact H | apply IH]].
Qed.

(* only source files are ever handed to the visitor *)
Lemma visit_only_sources : forall l f a sfx, agent_ladder l f a sfx = AVisit -> source_suffix sfx = true.
Proof.
  intros l f a sfx. unfold agent_ladder, source_suffix.
  repeat match goal with |- context [if ?c then _ else _] => destruct c eqn:? end; intro H; try discriminate H; try reflexivity; assumption.
Qed.

Lemma load_module_nr : forall w allow force store search f s, nr s (snd (load_module w allow force store search f s)).
Proof.
  intros w a fo store search f s. unfold load_module.
  destruct (agent_ladder false fo a (m_suffix f)) eqn:L; simpl.
  - apply nr_log. reflexivity.
  - assert (Hv : forall b : bool, nr s (if b then log_ev (EvRead (m_name f) (m_suffix f)) (log_ev (EvVisit (m_name f) (m_suffix f)) s)
                                         else log_ev (EvVisit (m_name f) (m_suffix f)) s)).
    { intros [|]; [apply nr_trans with (log_ev (EvVisit (m_name f) (m_suffix f)) s) |]; apply nr_log; try reflexivity.
      simpl. eapply visit_only_sources. exact L. }
    exact (Hv visit_reads_source).
  - unfold inspect_module.
    pose proof (run_isteps_nr inspect_module_steps w store (m_name f) (Some f) search (log_ev (EvInspect (m_name f) (m_suffix f)) s)) as H.
    destruct (run_isteps inspect_module_steps w store (m_name f) (Some f) search (log_ev (EvInspect (m_name f) (m_suffix f)) s)) as [r s1]. simpl in *.
    eapply nr_trans; [apply (nr_log (EvInspect (m_name f) (m_suffix f))); reflexivity | exact H].
  - apply nr_refl.
Qed.

Lemma load_subs_nr : forall w allow force store search ns subs loaded s, nr s (snd (load_subs w allow force store search ns subs loaded s)).
Proof.
  intros w a fo store search ns subs. induction subs as [| f r IH]; intros loaded s; simpl; [apply nr_refl |].
  destruct (negb ns && negb (mem_name (removelast (m_name f)) loaded)).
  { eapply nr_trans; [apply (nr_log (EvOrphan (m_name f) (m_suffix f))); reflexivity | apply IH]. }
  pose proof (load_module_nr w a fo store search f s) as H.
  destruct (load_module w a fo store search f s) as [res s1]. simpl in H.
  destruct res as [x |].
  - destruct (caught_by load_submodule_catches x); [| exact H].
    eapply nr_trans; [exact H |]. eapply nr_trans; [apply (nr_log (EvSkip (m_name f) (m_suffix f))); reflexivity | apply IH].
  - eapply nr_trans; [exact H | apply IH].
Qed.

Lemma load_package_with_nr :
  forall np w allow force store sm search top subs stubs s,
    (forall s0, nr s0 (snd (np s0))) -> nr s (snd (load_package_with np w allow force store sm search top subs stubs s)).
Proof.
  intros np w a fo store sm0 search top subs stubs s Hnp. unfold load_package_with.
  generalize (recurse_submodules sm0). intro sm.
  pose proof (load_module_nr w a fo store search top s) as S1.
  destruct (load_module w a fo store search top s) as [r1 s1]. simpl in S1.
  destruct r1; [exact S1 |].
  assert (S2 : nr s1 (snd (if sm then load_subs w a fo store search false subs [m_name top] s1 else (None, s1)))).
  { destruct sm; [apply load_subs_nr | apply nr_refl]. }
  destruct (if sm then load_subs w a fo store search false subs [m_name top] s1 else (None, s1)) as [r2 s2]. simpl in S2.
  pose proof (nr_trans _ _ _ S1 S2) as S12.
  destruct r2; [exact S12 |].
  destruct stubs as [[st_top st_subs] |]; [| exact S12].
  pose proof (Hnp s2) as Sn.
  destruct (np s2) as [rn s2']. simpl in Sn.
  pose proof (nr_trans _ _ _ S12 Sn) as S12n.
  destruct rn; [exact S12n |].
  pose proof (load_module_nr w a fo store search st_top s2') as S3.
  destruct (load_module w a fo store search st_top s2') as [r3 s3]. simpl in S3.
  pose proof (nr_trans _ _ _ S12n S3) as S123.
  destruct r3; [exact S123 |].
  destruct sm; [| exact S123].
  eapply nr_trans; [exact S123 | apply load_subs_nr].
Qed.

Lemma load_one_with_nr :
  forall np w allow force store sm search req s,
    (forall s0, nr s0 (snd (np s0))) -> nr s (snd (load_one_with np w allow force store sm search req s)).
Proof.
  intros np w a fo store sm search req s Hnp. unfold load_one_with.
  match goal with |- context [let (r, s') := ?X in _] =>
    assert (H : nr s (snd X)); [| destruct X as [r s']; simpl in *; eapply nr_trans; [exact H | apply nr_log; reflexivity]] end.
  destruct (find_pkg (w_find w) req) as [top subs stubs | n subs | via | e].
  - apply load_package_with_nr; assumption.
  - destruct (recurse_submodules sm); [| apply nr_log; reflexivity].
    eapply nr_trans; [apply (nr_log (EvCreate n)); reflexivity | apply load_subs_nr].
  - destruct (not_found_reraises a fo); [apply nr_refl |].
    pose proof (dynamic_import_nr w [req] search s) as S1.
    destruct (dynamic_import w [req] search s) as [[x | v] s1]; simpl in S1; [exact S1 |].
    destruct via as [[top subs] |].
    + eapply nr_trans; [exact S1 | apply load_package_with_nr; assumption].
    + eapply nr_trans; [exact S1 |]. eapply nr_trans; [apply (nr_log (EvInspect [req] "")); reflexivity |].
      unfold inspect_module. apply run_isteps_nr.
  - apply nr_refl.
Qed.

Lemma load_tree_nr :
  forall w allow force store search t sm s, nr s (snd (load_tree w allow force store sm search t s)).
Proof.
  intros w a fo store search t. induction t as [req kids IH] using rtree_ind2. intros sm s.
  rewrite load_tree_eq. apply load_one_with_nr.
  intros s0. apply (reentries_with_rel nr (fun _ : st => True) _ kids nr_refl nr_trans (fun (a b : st) (_ : True) (_ : nr a b) => I)); [| exact I].
  eapply Forall_impl; [| exact IH]. intros k Hk s1 _. apply Hk.
Qed.

Lemma reentries_nr : forall w allow force store search ks s, nr s (snd (reentries w allow force store search ks s)).
Proof.
  intros w a fo store search ks s. unfold reentries.
  apply (reentries_with_rel nr (fun _ : st => True) _ ks nr_refl nr_trans (fun (a b : st) (_ : True) (_ : nr a b) => I)); [| exact I].
  rewrite Forall_forall. intros k _ s1 _. apply load_tree_nr.
Qed.

Lemma session_nr :
  forall w allow force store sm search root later s, nr s (snd (session w allow force store sm search root later s)).
Proof.
  intros w a fo store sm search root later s. unfold session.
  destruct root as [t |]; [| apply reentries_nr].
  pose proof (load_tree_nr w a fo store search t sm s) as S1.
  destruct (load_tree w a fo store sm search t s) as [res s1]. simpl in S1.
  destruct res; [exact S1 | eapply nr_trans; [exact S1 | apply reentries_nr]].
Qed.

Lemma run_phases_nr : forall allow force store phs s, nr s (snd (run_phases allow force store phs s)).
Proof.
  intros a fo store phs. induction phs as [| ph r IH]; intros s; simpl; [apply nr_refl |].
  pose proof (session_nr (ph_world ph) (entry_allow (ph_entry ph) a) (entry_force (ph_entry ph) fo) (entry_store (ph_entry ph) store)
                (entry_submodules (ph_entry ph) (ph_submodules ph)) (phase_search ph s) (ph_root ph) (ph_later ph) s) as S.
  destruct (session (ph_world ph) (entry_allow (ph_entry ph) a) (entry_force (ph_entry ph) fo) (entry_store (ph_entry ph) store)
              (entry_submodules (ph_entry ph) (ph_submodules ph)) (phase_search ph s) (ph_root ph) (ph_later ph) s) as [res s1]. simpl in S.
  destruct res as [x |].
  - destruct (caught_by (entry_catches (ph_entry ph)) x); [eapply nr_trans; [exact S | apply IH] | exact S].
  - eapply nr_trans; [exact S | apply IH].
Qed.

Theorem reads_are_sources :
  forall allow force store phs s r s',
    reads_source_only s -> run_phases allow force store phs s = (r, s') -> reads_source_only s'.
Proof.
  intros a fo store phs s r s' H0 H. pose proof (run_phases_nr a fo store phs s) as N. rewrite H in N. simpl in N.
  eapply nr_keeps; eauto.
Qed.

(* non-vacuity: forced inspection of a package reads its source file (store_source) and not the compiled one *)
Example reads_exercised :
  let top := mkMod ["p"] ["sp"; "p"] "__init__" ".py" None in
  let a := mkMod ["p"; "a"] ["sp"; "p"] "a" ".pyc" None in
  let w := mkWorld [("p", FPkg top [a] None)] [(["p"], mkBeh (Some ["sp"]) true [] None); (["p"; "a"], mkBeh None true [] None)] [] [] in
  let ph := mkPhase ELoad w [["sp"]] [] true (Some (RNode "p" [])) [] in
  let s' := snd (run_phases true true true [ph] (init_state [["orig"]])) in
  filter (fun e => match e with EvRead _ _ => true | _ => false end) (log s') = [EvRead ["p"] ".py"] /\ List.length (inspections s') = 2.
Proof. vm_compute. split; reflexivity. Qed.
