(* C01 extension containers: whatever the history of registrations and visits on one container, every visit is
   announced completely and in order to every extension registered before it, and to no other. *)
From Coq Require Import List ZArith String Ascii Bool Arith Lia.
From Verif Require Import Lib.Sexp Model.C01_base Gen.C01_tables Model.C01_visitor Model.C01_ext Proofs.C01_visitor.
Import ListNotations.
Open Scope string_scope.
Open Scope list_scope.
Open Scope nat_scope.

Lemma received_app : forall e a b, received e (a ++ b) = received e a ++ received e b.
Proof. intros. unfold received. rewrite filter_app, map_app. reflexivity. Qed.

Lemma received_one : forall e ev c, NoDup c -> In e c -> received e (map (fun x => (x, ev)) c) = [ev].
Proof.
  induction c as [|x r IH]; intros N I; [destruct I|].
  inversion N as [|? ? Nx Nr]; subst. unfold received in *. simpl. destruct (Nat.eqb x e) eqn:E.
  - apply Nat.eqb_eq in E. subst x. simpl. f_equal.
    assert (Z : filter (fun p : nat * event => Nat.eqb (fst p) e) (map (fun x => (x, ev)) r) = []).
    { clear - Nx. induction r as [|y r IHr]; [reflexivity|]. simpl. destruct (Nat.eqb y e) eqn:E.
      - apply Nat.eqb_eq in E. subst. exfalso. apply Nx. left. reflexivity.
      - apply IHr. intros C. apply Nx. right. exact C. }
    rewrite Z. reflexivity.
  - destruct I as [I|I]; [subst; rewrite Nat.eqb_refl in E; discriminate|]. apply IH; assumption.
Qed.
Lemma received_none : forall e ev c, ~ In e c -> received e (map (fun x => (x, ev)) c) = [].
Proof.
  induction c as [|x r IH]; intros N; [reflexivity|]. unfold received in *. simpl. destruct (Nat.eqb x e) eqn:E.
  - apply Nat.eqb_eq in E. subst. exfalso. apply N. left. reflexivity.
  - apply IH. intros C. apply N. right. exact C.
Qed.

(* one visit: a registered extension receives exactly the trace, an unregistered one nothing *)
Lemma received_deliver : forall e c evs, NoDup c ->
  received e (deliver c evs) = if existsb (Nat.eqb e) c then evs else [].
Proof.
  intros e c evs N. induction evs as [|ev r IH]; simpl.
  - destruct (existsb (Nat.eqb e) c); reflexivity.
  - rewrite received_app, IH. destruct (existsb (Nat.eqb e) c) eqn:X.
    + rewrite received_one; [reflexivity|exact N|]. apply existsb_exists in X. destruct X as [x [I E]].
      apply Nat.eqb_eq in E. subst. exact I.
    + rewrite received_none; [reflexivity|]. intros I.
      assert (Y : existsb (Nat.eqb e) c = true) by (apply existsb_exists; exists e; split; [exact I|apply Nat.eqb_refl]).
      congruence.
Qed.

Lemma run_history_app_adds : forall pre c m b post,
  nth_error (run_history c (pre ++ HVisit m b :: post)) (visits pre) = Some (deliver (c ++ adds pre) (visit_events m b)).
Proof.
  induction pre as [|o r IH]; intros.
  - simpl. rewrite app_nil_r. reflexivity.
  - destruct o as [e|m' b']; simpl.
    + unfold visits in *. simpl. rewrite IH. rewrite <- app_assoc. reflexivity.
    + unfold visits in *. simpl. apply IH.
Qed.

(* Every history on one container: the visit following the prefix [pre] is announced to extension e completely, in
   order and once -- its received events are exactly the visit's trace, which is well bracketed -- if e was registered
   at the start or by an `add` of the prefix, however many visits the container served before that `add`; and e receives
   nothing of that visit otherwise. *)
Theorem history_announces_to_registered : forall pre m b post c e,
  NoDup (c ++ adds pre) ->
  exists log, nth_error (run_history c (pre ++ HVisit m b :: post)) (visits pre) = Some log /\
    received e log = (if existsb (Nat.eqb e) (c ++ adds pre) then visit_events m b else []) /\
    well_bracketed (visit_events m b) = true.
Proof.
  intros. eexists. split; [apply run_history_app_adds|]. split; [apply received_deliver; assumption|].
  unfold visit_events. destruct (run_visit m b) as [r|] eqn:R.
  - eapply events_well_bracketed; eauto.
  - destruct (visit_total m b) as [r R']. congruence.
Qed.

Example history_sample :
  let h := [HVisit "a" [SAssign 1 1 [TName "x"] []]; HAdd 7; HVisit "b" [SImport 1 1 [("os", "os")]]] in
  map (received 7) (run_history [3] h) =
    [[]; [EvNode "module" 0; EvInst KMod "b" 0 "" false; EvAlias "os" 1 "b" false; EvMembers KMod "b" 0 "b"]] /\
  map (received 3) (run_history [3] h) =
    [[EvNode "module" 0; EvInst KMod "a" 0 "" false; EvNode "attribute" 1; EvInst KAttr "x" 1 "a" false; EvMembers KMod "a" 0 "a"];
     [EvNode "module" 0; EvInst KMod "b" 0 "" false; EvAlias "os" 1 "b" false; EvMembers KMod "b" 0 "b"]].
Proof. split; vm_compute; reflexivity. Qed.

(* ---------- without the NoDup hypothesis: an extension registered k times receives every event k times ---------- *)
Lemma received_row : forall e ev c,
  received e (map (fun x => (x, ev)) c) = repeat ev (count_occ Nat.eq_dec c e).
Proof.
  induction c as [|x r IH]; [reflexivity|]. unfold received in *. simpl.
  destruct (Nat.eq_dec x e) as [E|E].
  - subst x. rewrite Nat.eqb_refl. simpl. f_equal. exact IH.
  - apply Nat.eqb_neq in E. rewrite E. exact IH.
Qed.
Lemma received_deliver_general : forall e c evs,
  received e (deliver c evs) = flat_map (fun ev => repeat ev (count_occ Nat.eq_dec c e)) evs.
Proof.
  intros. induction evs as [|ev r IH]; [reflexivity|].
  unfold deliver in *. simpl. rewrite received_app, IH, received_row. reflexivity.
Qed.

(* Every history, every container (no hypothesis): what extension e receives of the visit that follows [pre] is the
   visit's trace with every event repeated as many times as e is registered at that moment (0 times: nothing; once:
   exactly the trace). *)
Theorem history_announces_general : forall pre m b post c e,
  exists log, nth_error (run_history c (pre ++ HVisit m b :: post)) (visits pre) = Some log /\
    received e log = flat_map (fun ev => repeat ev (count_occ Nat.eq_dec (c ++ adds pre) e)) (visit_events m b).
Proof. intros. eexists. split; [apply run_history_app_adds|apply received_deliver_general]. Qed.
