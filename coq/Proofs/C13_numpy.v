(* C13 proofs, Numpy style: parse_numpy (render_numpy secs) = expect_numpy secs for well-formed written structures. *)
From Coq Require Import List Ascii String Bool Arith Lia.
From Verif Require Import Model.C13_strings Model.C13_google Model.C13_google_spec Model.C13_numpy Model.C13_numpy_spec
  Proofs.C13_strings Proofs.C13_google.
Import ListNotations.
Open Scope char_scope.
Open Scope list_scope.
Open Scope nat_scope.

(* ---- dash lines *)
Lemma is_dash_line_nil : is_dash_line [] = false.
Proof. reflexivity. Qed.

Lemma is_dash_line_dashes : forall h, h <> [] -> is_dash_line (dashes h) = true.
Proof.
  intros h Hh. unfold is_dash_line, dashes. destruct h as [|x h']; [congruence|].
  simpl List.length. simpl repeat. apply andb_true_iff. split.
  - reflexivity.
  - simpl. apply forallb_repeat. reflexivity.
Qed.

Lemma forallb_app_b : forall (f : ascii -> bool) a b, forallb f (a ++ b) = forallb f a && forallb f b.
Proof. intros. apply forallb_app. Qed.

Lemma is_dash_line_indent : forall n s, is_dash_line (spaces n ++ s) = is_dash_line s.
Proof.
  intros n s. unfold is_dash_line. rewrite is_empty_spaces_app. rewrite forallb_app_b.
  replace (forallb (fun c => is_space c || ceq c dash) (spaces n)) with true; [reflexivity|].
  symmetry. unfold spaces. apply forallb_repeat. reflexivity.
Qed.

(* ---- the item loop *)
Lemma n_rbi_cons : forall l r,
  n_rbi (l :: r) =
  if is_empty_line l then let '(c, its, k) := n_rbi r in ([] :: c, its, S k)
  else if startswith (spaces 4) l then let '(c, its, k) := n_rbi r in (skipn 4 l :: c, its, S k)
  else if startswith [sp] l then let '(c, its, k) := n_rbi r in (lstrip l :: c, its, S k)
  else if next_is_dash r then ([], [], 0)
  else let '(c, its, k) := n_rbi r in ([], (l :: c) :: its, S k).
Proof. reflexivity. Qed.

Lemma n_rbi_blank : forall r, n_rbi ([] :: r) = let '(c, its, k) := n_rbi r in ([] :: c, its, S k).
Proof. reflexivity. Qed.

Lemma n_rbi_blanks : forall m r,
  n_rbi (repeat [] m ++ r) = let '(c, its, k) := n_rbi r in (repeat [] m ++ c, its, m + k).
Proof.
  induction m; intros r; simpl repeat; simpl app.
  - destruct (n_rbi r) as [[c its] k]. reflexivity.
  - rewrite n_rbi_blank. rewrite IHm. destruct (n_rbi r) as [[c its] k]. reflexivity.
Qed.

Lemma n_rbi_cont : forall c r, is_empty_line c = false ->
  n_rbi ((spaces 4 ++ c) :: r) = let '(cs, its, k) := n_rbi r in (c :: cs, its, S k).
Proof.
  intros c r Hc. rewrite n_rbi_cons. rewrite is_empty_spaces_app, Hc.
  replace (startswith (spaces 4) (spaces 4 ++ c)) with true.
  2:{ symmetry. apply (startswith_spaces_le 4 4 c). lia. }
  rewrite skipn_spaces. reflexivity.
Qed.

Lemma indent_line_nonempty : forall n c, c <> [] -> indent_line n c = spaces n ++ c.
Proof. intros n c H. destruct c; [congruence|reflexivity]. Qed.

Lemma wf_cont_cases : forall c, wf_cont c = true -> c = [] \/ (c <> [] /\ is_empty_line c = false).
Proof.
  intros c H. unfold wf_cont in H. apply andb_true_iff in H. destruct H as [_ H].
  destruct c as [|x c']; [left; reflexivity|right]. split; [discriminate|].
  simpl nonempty in H. simpl negb in H. simpl orb in H. apply negb_true_iff in H. exact H.
Qed.

Lemma n_rbi_conts : forall conts r, forallb wf_cont conts = true ->
  n_rbi (map (indent_line 4) conts ++ r) =
  let '(cs, its, k) := n_rbi r in (conts ++ cs, its, List.length conts + k).
Proof.
  induction conts as [|c conts IH]; intros r H.
  - simpl. destruct (n_rbi r) as [[cs its] k]. reflexivity.
  - simpl in H. apply andb_true_iff in H. destruct H as [Hc H].
    simpl map. rewrite <- app_comm_cons.
    destruct (wf_cont_cases c Hc) as [->|[Hne He]].
    + simpl indent_line. rewrite n_rbi_blank. rewrite (IH r H). destruct (n_rbi r) as [[cs its] k]. reflexivity.
    + rewrite (indent_line_nonempty 4 c Hne). rewrite (n_rbi_cont c _ He). rewrite (IH r H).
      destruct (n_rbi r) as [[cs its] k]. reflexivity.
Qed.

Lemma startswith_sp_nsp : forall h, nsp_head h = true -> startswith [sp] h = false.
Proof.
  intros h H. destruct h as [|x h']; [reflexivity|]. simpl. simpl in H. apply negb_true_iff in H.
  destruct (ceq sp x) eqn:E; [|reflexivity]. apply ceq_eq in E. subst x. discriminate.
Qed.

Lemma startswith_spaces4_nsp : forall h, nsp_head h = true -> startswith (spaces 4) h = false.
Proof.
  intros h H. destruct h as [|x h']; [reflexivity|]. simpl. simpl in H. apply negb_true_iff in H.
  destruct (ceq sp x) eqn:E; [|reflexivity]. apply ceq_eq in E. subst x. discriminate.
Qed.

Lemma n_rbi_head : forall h r, nsp_head h = true -> next_is_dash r = false ->
  n_rbi (h :: r) = let '(c, its, k) := n_rbi r in ([], (h :: c) :: its, S k).
Proof.
  intros h r Hh Hd. rewrite n_rbi_cons. rewrite (nsp_head_not_empty h Hh).
  rewrite (startswith_spaces4_nsp h Hh). rewrite (startswith_sp_nsp h Hh). rewrite Hd. reflexivity.
Qed.

Lemma n_rbi_stop : forall h r, nsp_head h = true -> next_is_dash r = true -> n_rbi (h :: r) = ([], [], 0).
Proof.
  intros h r Hh Hd. rewrite n_rbi_cons. rewrite (nsp_head_not_empty h Hh).
  rewrite (startswith_spaces4_nsp h Hh). rewrite (startswith_sp_nsp h Hh). rewrite Hd. reflexivity.
Qed.

(* what follows a block of items inside a rendered docstring: nothing, or a blank line and the next section's title
   with its underline.  tr = what the last item absorbs, n = how many lines that is. *)
Inductive n_tail_ok : list str -> list str -> nat -> Prop :=
| NT_nil : n_tail_ok [] [] 0
| NT_next : forall h d more, nsp_head h = true -> is_dash_line d = true -> n_tail_ok ([] :: h :: d :: more) [[]] 1.

Lemma n_rbi_tail : forall tail tr n, n_tail_ok tail tr n -> n_rbi tail = (tr, [], n).
Proof.
  intros tail tr n H. destruct H as [|h d more Hh Hd].
  - reflexivity.
  - rewrite n_rbi_blank. rewrite (n_rbi_stop h (d :: more) Hh); [reflexivity|exact Hd].
Qed.

Lemma n_tail_tr : forall tail tr n, n_tail_ok tail tr n -> tr = repeat [] n.
Proof. intros tail tr n H. destruct H; reflexivity. Qed.

(* ---- descriptions: dedent / join / strip are the identity on a well-formed description followed by blank lines *)
Lemma sptab_space : forall c, is_sptab c = true -> is_space c = true.
Proof.
  intros c H. unfold is_sptab in H. apply orb_true_iff in H. destruct H as [H|H]; apply ceq_eq in H; subst c; reflexivity.
Qed.

Lemma forallb_sptab_empty : forall l, forallb is_sptab l = true -> is_empty_line l = true.
Proof.
  induction l as [|x l IH]; intros H; [reflexivity|]. simpl in H. apply andb_true_iff in H. destruct H as [Hx Hl].
  unfold is_empty_line. simpl. rewrite (sptab_space x Hx). exact (IH Hl).
Qed.

Lemma norm_ws_wf_cont : forall c, wf_cont c = true -> norm_ws_line c = c.
Proof.
  intros c H. destruct (wf_cont_cases c H) as [->|[_ He]]; [reflexivity|].
  unfold norm_ws_line. destruct (forallb is_sptab c) eqn:E; [|reflexivity].
  apply forallb_sptab_empty in E. congruence.
Qed.

Lemma map_norm_ws : forall ls, forallb wf_cont ls = true -> map norm_ws_line ls = ls.
Proof.
  induction ls as [|c ls IH]; intros H; [reflexivity|]. simpl in H. apply andb_true_iff in H. destruct H as [Hc H].
  simpl. rewrite (norm_ws_wf_cont c Hc), (IH H). reflexivity.
Qed.

Lemma margin_nil : forall ls, margin_of (Some []) ls = Some [].
Proof. induction ls as [|l ls IH]; [reflexivity|]. simpl. destruct l; exact IH. Qed.

Lemma lead_ws_nsp : forall l, nsp_head l = true -> lead_ws l = [].
Proof.
  intros l H. destruct l as [|x l']; [discriminate|]. unfold lead_ws. simpl.
  destruct (is_sptab x) eqn:E; [|reflexivity]. apply sptab_space in E. simpl in H. rewrite E in H. discriminate.
Qed.

Lemma wf_cont_blank : wf_cont [] = true.
Proof. reflexivity. Qed.

Lemma forallb_wf_cont_blanks : forall ls m, forallb wf_cont ls = true -> forallb wf_cont (ls ++ repeat [] m) = true.
Proof.
  intros ls m H. rewrite forallb_app. rewrite H. simpl. induction m; [reflexivity|]. simpl. exact IHm.
Qed.

Lemma dedent_noop : forall d0 ls, nsp_head d0 = true -> forallb wf_cont (d0 :: ls) = true -> dedent (d0 :: ls) = d0 :: ls.
Proof.
  intros d0 ls Hd H. unfold dedent. rewrite (map_norm_ws _ H).
  destruct d0 as [|x d0']; [discriminate|].
  change (margin_of None ((x :: d0') :: ls)) with (margin_of (Some (lead_ws (x :: d0'))) ls).
  rewrite (lead_ws_nsp _ Hd). rewrite margin_nil. reflexivity.
Qed.

Lemma forallb_repeat_nl : forall (f : ascii -> bool) m, f nl = true -> forallb f (repeat nl m) = true.
Proof. intros. apply forallb_repeat. assumption. Qed.

Definition desc_ok (desc : list str) : Prop :=
  exists d0 r, desc = d0 :: r /\ nsp_head d0 = true /\ is_dash_line d0 = false /\ forallb wf_cont desc = true /\ last desc [] <> [].

Lemma desc_ok_printable : forall desc, desc_ok desc -> forall l, In l desc -> forallb printable l = true.
Proof.
  intros desc [d0 [r [E [_ [_ [H _]]]]]] l Hin. eapply wf_cont_printable; eauto.
Qed.

Lemma n_text_ok : forall desc m, desc_ok desc -> n_text (desc ++ repeat [] m) = join_nl desc.
Proof.
  intros desc m Hd. assert (HP := desc_ok_printable desc Hd). destruct Hd as [d0 [r [E [Hh [Hdash [Hc Hl]]]]]].
  unfold n_text. subst desc. rewrite <- app_comm_cons.
  rewrite dedent_noop; auto.
  2:{ rewrite app_comm_cons. apply forallb_wf_cont_blanks. exact Hc. }
  rewrite app_comm_cons. rewrite join_nl_blanks by discriminate.
  unfold rstrip_nl. rewrite rstrip_by_app_drop by (apply forallb_repeat; reflexivity).
  apply rstrip_join; [discriminate|exact HP|exact Hl].
Qed.

Lemma last_not_space_facts : forall s, s <> [] -> all_printable s = true -> last_not_space s = true ->
  exists y c, s = y ++ [c] /\ is_space c = false.
Proof.
  intros s Hn Hp Hl. destruct (exists_last Hn) as [y [c Hy]]. exists y, c. split; [exact Hy|].
  unfold last_not_space in Hl. rewrite Hy in Hl. rewrite last_last in Hl. apply negb_true_iff in Hl.
  assert (Hpc : printable c = true).
  { unfold all_printable in Hp. rewrite Hy in Hp. rewrite forallb_app in Hp. apply andb_true_iff in Hp. destruct Hp as [_ Hp].
    simpl in Hp. rewrite andb_true_r in Hp. exact Hp. }
  rewrite (printable_space c Hpc). exact Hl.
Qed.

Lemma n_desc_rstrip_ok : forall desc m, desc_ok desc -> last_not_space (last desc []) = true ->
  rstrip (join_nl (desc ++ repeat [] m)) = join_nl desc.
Proof.
  intros desc m Hd Hlns. assert (HP := desc_ok_printable desc Hd). destruct Hd as [d0 [r [E [Hh [Hdash [Hc Hl]]]]]].
  assert (Hne : desc <> []) by (subst desc; discriminate).
  rewrite join_nl_blanks by exact Hne.
  unfold rstrip. rewrite rstrip_by_app_drop by (apply forallb_repeat; reflexivity).
  assert (Hpl : all_printable (last desc []) = true) by (apply HP; apply last_in; exact Hne).
  destruct (last_not_space_facts _ Hl Hpl Hlns) as [y [c [Hy Hsp]]].
  destruct (join_last desc y c Hne Hy) as [Y HY]. rewrite HY. apply rstrip_by_snoc_keep. exact Hsp.
Qed.

Lemma join_nl_head : forall d0 r, exists rest, join_nl (d0 :: r) = d0 ++ rest.
Proof.
  intros d0 r. destruct r as [|x r'].
  - exists []. simpl. rewrite app_nil_r. reflexivity.
  - exists (nl :: join_nl (x :: r')). reflexivity.
Qed.

Lemma n_text_strip_ok : forall desc m, desc_ok desc -> last_not_space (last desc []) = true ->
  n_text_strip (desc ++ repeat [] m) = join_nl desc.
Proof.
  intros desc m Hd Hlns. assert (Hr := n_desc_rstrip_ok desc m Hd Hlns).
  destruct Hd as [d0 [r [E [Hh [Hdash [Hc Hl]]]]]]. unfold n_text_strip. subst desc. rewrite <- app_comm_cons.
  rewrite dedent_noop; auto.
  2:{ rewrite app_comm_cons. apply forallb_wf_cont_blanks. exact Hc. }
  unfold strip. rewrite lstrip_nsp.
  - rewrite app_comm_cons. exact Hr.
  - destruct (join_nl_head d0 (r ++ repeat [] m)) as [rest Er]. rewrite Er. apply nsp_head_app. exact Hh.
Qed.

(* ---- a block of items *)
Definition n_raw (k : kind) (it : nitem) : list str := n_head k it :: ni_desc it ++ repeat [] (ni_sep it).

Fixpoint n_raws (k : kind) (tr : list str) (its : list nitem) : list (list str) :=
  match its with
  | [] => []
  | [it] => [n_raw k it ++ tr]
  | it :: r => n_raw k it :: n_raws k tr r
  end.

Definition n_item_ok (k : kind) (it : nitem) : Prop := nsp_head (n_head k it) = true /\ desc_ok (ni_desc it).

Lemma n_item_lines_length : forall k it,
  List.length (n_item_lines k it) = S (List.length (ni_desc it) + ni_sep it).
Proof. intros. unfold n_item_lines. simpl. rewrite app_length, map_length, repeat_length. reflexivity. Qed.

Lemma next_is_dash_desc : forall desc rest, desc_ok desc -> next_is_dash (map (indent_line 4) desc ++ rest) = false.
Proof.
  intros desc rest [d0 [r [E [Hh [Hd _]]]]]. subst desc. simpl map. rewrite <- app_comm_cons. unfold next_is_dash.
  destruct d0 as [|x d0']; [discriminate|]. change (indent_line 4 (x :: d0')) with (spaces 4 ++ x :: d0').
  rewrite is_dash_line_indent. exact Hd.
Qed.

Lemma n_rbi_item : forall k it R, n_item_ok k it ->
  n_rbi (n_item_lines k it ++ R) =
  let '(c, its, cnt) := n_rbi R in
  ([], (n_raw k it ++ c) :: its, List.length (n_item_lines k it) + cnt).
Proof.
  intros k it R [Hh Hd]. unfold n_item_lines. rewrite <- app_comm_cons. rewrite <- app_assoc.
  rewrite n_rbi_head; [|exact Hh|apply next_is_dash_desc; exact Hd].
  assert (Hc : forallb wf_cont (ni_desc it) = true) by (destruct Hd as [d0 [r [_ [_ [_ [H _]]]]]]; exact H).
  rewrite (n_rbi_conts _ _ Hc). rewrite n_rbi_blanks.
  destruct (n_rbi R) as [[c its] cnt]. unfold n_raw. simpl List.length. rewrite app_length, map_length, repeat_length.
  rewrite <- app_comm_cons. rewrite <- app_assoc. f_equal. lia.
Qed.

Lemma n_rbi_items : forall k its tail tr n, n_tail_ok tail tr n -> Forall (n_item_ok k) its -> its <> [] ->
  n_rbi (flat_map (n_item_lines k) its ++ tail) = ([], n_raws k tr its, List.length (flat_map (n_item_lines k) its) + n).
Proof.
  intros k its tail tr n Ht. induction its as [|it r IH]; intros Hok Hne; [congruence|].
  inversion Hok as [|? ? Hit Hr]; subst.
  change (flat_map (n_item_lines k) (it :: r)) with (n_item_lines k it ++ flat_map (n_item_lines k) r).
  rewrite <- app_assoc. rewrite (n_rbi_item k it _ Hit).
  destruct r as [|it2 r'].
  - change (flat_map (n_item_lines k) []) with (@nil str). rewrite app_nil_l, app_nil_r.
    rewrite (n_rbi_tail tail tr n Ht). reflexivity.
  - rewrite IH; [|exact Hr|discriminate]. rewrite app_nil_r. rewrite app_length.
    change (n_raws k tr (it :: it2 :: r')) with (n_raw k it :: n_raws k tr (it2 :: r')). f_equal. lia.
Qed.

Lemma skip_empty_nsp : forall h r, nsp_head h = true -> skip_empty (h :: r) = Some (0, h, r).
Proof. intros h r H. simpl. rewrite (nsp_head_not_empty h H). reflexivity. Qed.

Lemma n_read_block_items_ok : forall k it r tail tr n, n_tail_ok tail tr n -> Forall (n_item_ok k) (it :: r) ->
  n_read_block_items (flat_map (n_item_lines k) (it :: r) ++ tail) =
  RBI (n_raws k tr (it :: r)) (List.length (flat_map (n_item_lines k) (it :: r)) + n).
Proof.
  intros k it r tail tr n Ht Hok. inversion Hok as [|? ? [Hh Hd] Hr]; subst.
  change (flat_map (n_item_lines k) (it :: r)) with (n_item_lines k it ++ flat_map (n_item_lines k) r).
  rewrite app_length. rewrite n_item_lines_length.
  change (n_item_lines k it) with (n_head k it :: map (indent_line 4) (ni_desc it) ++ repeat [] (ni_sep it)).
  rewrite <- !app_comm_cons.
  unfold n_read_block_items. rewrite (skip_empty_nsp _ _ Hh).
  assert (Hc : forallb wf_cont (ni_desc it) = true) by (destruct Hd as [d0 [r0 [_ [_ [_ [H _]]]]]]; exact H).
  rewrite <- !app_assoc. rewrite (n_rbi_conts _ _ Hc). rewrite n_rbi_blanks.
  destruct r as [|it2 r'].
  - change (flat_map (n_item_lines k) []) with (@nil str). rewrite app_nil_l.
    rewrite (n_rbi_tail tail tr n Ht). simpl n_raws. unfold n_raw.
    rewrite <- app_assoc. simpl List.length. f_equal. lia.
  - rewrite (n_rbi_items k (it2 :: r') tail tr n Ht Hr) by discriminate.
    change (n_raws k tr (it :: it2 :: r')) with (n_raw k it :: n_raws k tr (it2 :: r')). unfold n_raw at 1.
    rewrite app_nil_r. f_equal. lia.
Qed.

(* ---- the readers of one item *)
Definition n_rawm (k : kind) (it : nitem) (m : nat) : list str := n_head k it :: ni_desc it ++ repeat [] m.

Lemma repeat_app_nil : forall (a b : nat), repeat (A:=str) [] a ++ repeat [] b = repeat [] (a + b).
Proof. intros. symmetry. apply repeat_app. Qed.

Lemma n_raw_tr : forall k it n, n_raw k it ++ repeat [] n = n_rawm k it (ni_sep it + n).
Proof. intros. unfold n_raw, n_rawm. rewrite <- app_comm_cons. rewrite <- app_assoc. rewrite repeat_app_nil. reflexivity. Qed.

Lemma n_raw_rawm : forall k it, n_raw k it = n_rawm k it (ni_sep it).
Proof. reflexivity. Qed.

Lemma wf_ndesc_ok : forall se desc, wf_ndesc se desc = true ->
  desc_ok desc /\ (se = true -> last_not_space (last desc []) = true).
Proof.
  intros se desc H. unfold wf_ndesc in H. destruct desc as [|d0 r]; [discriminate|].
  apply andb_true_iff in H; destruct H as [H Hse].
  apply andb_true_iff in H; destruct H as [H Hlast].
  apply andb_true_iff in H; destruct H as [H Hc].
  apply andb_true_iff in H; destruct H as [H Hdash].
  apply andb_true_iff in H; destruct H as [Hne Hfs].
  split.
  - exists d0, r. split; [reflexivity|]. split.
    + apply nsp_head_of; auto. simpl in Hc. apply andb_true_iff in Hc. destruct Hc as [Hc0 _].
      unfold wf_cont in Hc0. apply andb_true_iff in Hc0. destruct Hc0 as [Hp _]. exact Hp.
    + split; [apply negb_true_iff in Hdash; exact Hdash|]. split; [exact Hc|].
      destruct (last (d0 :: r) []); [discriminate|discriminate].
  - intros ->. exact Hse.
Qed.

Lemma wf_line0_facts : forall s, wf_line0 s = true -> s <> [] /\ all_printable s = true /\ first_not_space s = true /\ nsp_head s = true.
Proof.
  intros s H. unfold wf_line0 in H. apply andb_true_iff in H; destruct H as [H Hf]. apply andb_true_iff in H; destruct H as [Hn Hp].
  repeat split; auto. - destruct s; [discriminate|discriminate]. - apply nsp_head_of; auto.
Qed.

Lemma strip_noop : forall s, wf_stripped s = true -> strip s = s.
Proof.
  intros s H. unfold wf_stripped in H. apply andb_true_iff in H. destruct H as [H0 Hl].
  destruct (wf_line0_facts s H0) as [Hn [Hp [Hf _]]].
  unfold strip. rewrite (lstrip_wf s Hf Hp).
  destruct (last_not_space_facts s Hn Hp Hl) as [y [c [Hy Hc]]]. rewrite Hy. unfold rstrip. apply rstrip_by_snoc_keep. exact Hc.
Qed.

Lemma rstrip_noop_stripped : forall s, wf_stripped s = true -> rstrip s = s.
Proof.
  intros s H. unfold wf_stripped in H. apply andb_true_iff in H. destruct H as [H0 Hl].
  destruct (wf_line0_facts s H0) as [Hn [Hp [Hf _]]].
  destruct (last_not_space_facts s Hn Hp Hl) as [y [c [Hy Hc]]]. rewrite Hy. unfold rstrip. apply rstrip_by_snoc_keep. exact Hc.
Qed.

(* Raises / Warns *)
Lemma n_parse_raise_ok : forall k it m, (k = KRaises \/ k = KWarns) -> wf_nitem k it = true ->
  n_parse_raise (n_rawm k it m) = Some (mkItem None (ni_ann it) (join_nl (ni_desc it)) None).
Proof.
  intros k it m Hk H.
  assert (H' : (wf_ndesc false (ni_desc it)
      && match ni_names it with [] => true | _ => false end
      && match ni_ann it with Some a => wf_line0 a | None => false end
      && negb (is_some (ni_default it)) && negb (ni_optional it)) = true) by (destruct Hk; subst k; exact H).
  clear H. apply andb_true_iff in H'; destruct H' as [H _]. apply andb_true_iff in H; destruct H as [H _].
  apply andb_true_iff in H; destruct H as [H Ha]. apply andb_true_iff in H; destruct H as [Hd _].
  destruct (wf_ndesc_ok _ _ Hd) as [Hok _].
  unfold n_rawm, n_parse_raise. rewrite (n_text_ok _ m Hok).
  destruct (ni_ann it) as [a|] eqn:Ea; [|discriminate].
  replace (n_head k it) with a; [reflexivity|]. unfold n_head. destruct Hk; subst k; rewrite Ea; reflexivity.
Qed.

(* Attributes *)
Lemma contains_char_snoc_sp : forall n, contains_char colon n = false -> contains_char colon (n ++ [sp]) = false.
Proof. intros n H. rewrite contains_char_app, H. reflexivity. Qed.

Lemma n_parse_attr_ok : forall c it m, wf_nitem KAttrs it = true ->
  n_parse_attr c (n_rawm KAttrs it m) =
  Some (mkItem (Some (ni_name it)) (orelse (ni_ann it) (match lookup_attr c (ni_name it) with Some a => a | None => None end))
               (join_nl (ni_desc it)) None).
Proof.
  intros c it m H. simpl in H.
  apply andb_true_iff in H; destruct H as [H _]. apply andb_true_iff in H; destruct H as [H _].
  apply andb_true_iff in H; destruct H as [H Ha]. apply andb_true_iff in H; destruct H as [Hd Hn].
  destruct (wf_ndesc_ok _ _ Hd) as [Hok _].
  destruct (ni_names it) as [|n [|n2 ns]] eqn:En; try discriminate.
  apply andb_true_iff in Hn; destruct Hn as [Hn Hnc]. apply negb_true_iff in Hnc.
  unfold n_rawm, n_parse_attr. rewrite (n_text_ok _ m Hok).
  unfold n_head, ni_name. rewrite En. simpl hd.
  destruct (ni_ann it) as [a|] eqn:Ea.
  - simpl in Ha.
    change (n ++ s_colon3 ++ a) with (n ++ [sp] ++ colon :: sp :: a). rewrite app_assoc.
    rewrite (split_first_app colon (n ++ [sp]) (sp :: a) (contains_char_snoc_sp n Hnc)).
    assert (Hsn : strip (n ++ [sp]) = n).
    { unfold strip. assert (Hw := Hn). unfold wf_stripped in Hw. apply andb_true_iff in Hw. destruct Hw as [Hw0 _].
      destruct (wf_line0_facts n Hw0) as [_ [_ [_ Hh]]].
      rewrite (lstrip_nsp (n ++ [sp])) by (apply nsp_head_app; exact Hh).
      unfold rstrip. rewrite rstrip_by_app_drop by reflexivity. apply (rstrip_noop_stripped n Hn). }
    assert (Hsa : strip (sp :: a) = a).
    { unfold strip. rewrite lstrip_sp_cons. apply (strip_noop a Ha). }
    rewrite Hsn, Hsa.
    assert (Hane : a <> []) by (unfold wf_stripped in Ha; apply andb_true_iff in Ha; destruct Ha as [Ha0 _]; apply (wf_line0_facts a Ha0)).
    destruct a as [|x a']; [congruence|]. reflexivity.
  - rewrite app_nil_r. rewrite (split_first_none colon n Hnc). reflexivity.
Qed.

(* Functions / Classes / Modules *)
Lemma n_parse_func_ok : forall k it m, (k = KFuncs \/ k = KClasses \/ k = KModules) -> wf_nitem k it = true ->
  n_parse_func (n_rawm k it m) =
  Some (mkItem (Some (ni_name it))
               (match ni_ann it with Some a => Some (ni_name it ++ lparen :: a ++ [rparen]) | None => None end)
               (join_nl (ni_desc it)) None).
Proof.
  intros k it m Hk H.
  assert (H' : (wf_ndesc true (ni_desc it)
      && match ni_names it with [n] => wf_stripped n && negb (contains_char lparen n) | _ => false end
      && opt_all all_printable (ni_ann it)
      && (match k with KModules => negb (is_some (ni_ann it)) | _ => true end)
      && negb (is_some (ni_default it)) && negb (ni_optional it)) = true) by (destruct Hk as [->|[->| ->]]; exact H).
  clear H. apply andb_true_iff in H'; destruct H' as [H _]. apply andb_true_iff in H; destruct H as [H _].
  apply andb_true_iff in H; destruct H as [H _]. apply andb_true_iff in H; destruct H as [H Ha].
  apply andb_true_iff in H; destruct H as [Hd Hn].
  destruct (wf_ndesc_ok _ _ Hd) as [Hok Hlns]. specialize (Hlns eq_refl).
  destruct (ni_names it) as [|n [|n2 ns]] eqn:En; try discriminate.
  apply andb_true_iff in Hn; destruct Hn as [Hn Hnc]. apply negb_true_iff in Hnc.
  unfold n_rawm, n_parse_func. rewrite (n_text_strip_ok _ m Hok Hlns).
  replace (n_head k it) with (n ++ match ni_ann it with Some a => lparen :: a ++ [rparen] | None => [] end).
  2:{ unfold n_head, ni_name. rewrite En. destruct Hk as [->|[->| ->]]; reflexivity. }
  unfold ni_name. rewrite En. simpl hd.
  destruct (ni_ann it) as [a|] eqn:Ea.
  - rewrite (split_first_app lparen n (a ++ [rparen]) Hnc). rewrite (strip_noop n Hn).
    assert (Hl0 : strip (n ++ lparen :: a ++ [rparen]) = n ++ lparen :: a ++ [rparen]).
    { assert (Hw := Hn). unfold wf_stripped in Hw. apply andb_true_iff in Hw. destruct Hw as [Hw0 _].
      destruct (wf_line0_facts n Hw0) as [_ [_ [_ Hh]]].
      unfold strip. rewrite (lstrip_nsp (n ++ lparen :: a ++ [rparen])) by (apply nsp_head_app; exact Hh).
      replace (n ++ lparen :: a ++ [rparen]) with ((n ++ lparen :: a) ++ [rparen]) by (rewrite <- app_assoc; reflexivity).
      unfold rstrip. apply rstrip_by_snoc_keep. reflexivity. }
    rewrite Hl0. reflexivity.
  - rewrite app_nil_r. rewrite (split_first_none lparen n Hnc). reflexivity.
Qed.

(* ---- _RE_NAME *)
Lemma name_start_not_star : forall c, is_name_start c = true -> ceq c star = false.
Proof.
  intros c H. destruct (ceq c star) eqn:E; [|reflexivity]. apply ceq_eq in E. subst c. discriminate.
Qed.

Lemma name_start_word : forall c, is_name_start c = true -> is_word c = true.
Proof.
  intros c H. unfold is_name_start in H. unfold is_word.
  apply orb_true_iff in H. destruct H as [H|H].
  - apply orb_true_iff in H. destruct H as [H|H]; rewrite H; rewrite ?orb_true_r; reflexivity.
  - rewrite H. rewrite ?orb_true_r. reflexivity.
Qed.

Lemma wf_ident_facts : forall t, wf_ident t = true -> exists c r, t = c :: r /\ is_name_start c = true /\ forallb is_word r = true.
Proof.
  intros t H. destruct t as [|c r]; [discriminate|]. simpl in H. apply andb_true_iff in H. destruct H as [H1 H2].
  exists c, r. auto.
Qed.

(* a well-formed name is `stars ++ ident` with at most two stars *)
Lemma wf_pname_split : forall n, wf_pname n = true ->
  exists stars c r, n = stars ++ c :: r /\ (stars = [] \/ stars = [star] \/ stars = [star; star]) /\
                    is_name_start c = true /\ forallb is_word r = true.
Proof.
  intros n H. unfold wf_pname, strip_stars2 in H.
  destruct n as [|c1 [|c2 t]].
  - discriminate.
  - destruct (ceq c1 star) eqn:E1; [discriminate|].
    destruct (wf_ident_facts _ H) as [c [r [E [Hc Hr]]]]. exists [], c, r. auto.
  - destruct (ceq c1 star) eqn:E1; destruct (ceq c2 star) eqn:E2; simpl andb in H; cbv iota in H.
    + apply ceq_eq in E1, E2. subst. destruct (wf_ident_facts _ H) as [c [r [E [Hc Hr]]]]. subst t.
      exists [star; star], c, r. auto 6.
    + apply ceq_eq in E1. subst. destruct (wf_ident_facts _ H) as [c [r [E [Hc Hr]]]].
      exists [star], c, r. rewrite E. auto 6.
    + destruct (wf_ident_facts _ H) as [c [r [E [Hc Hr]]]]. exists [], c, r. auto.
    + destruct (wf_ident_facts _ H) as [c [r [E [Hc Hr]]]]. exists [], c, r. auto.
Qed.

Definition stops_word (rest : str) : Prop := match rest with c :: _ => is_word c = false | [] => True end.

Lemma re_name_nostar : forall c t, ceq c star = false ->
  re_name (c :: t) = if is_name_start c then let '(w, rest) := span is_word t in Some (c :: w, rest) else None.
Proof. intros c t H. destruct t as [|c2 t']; unfold re_name; rewrite H; reflexivity. Qed.

Lemma re_name_app : forall n rest, wf_pname n = true -> stops_word rest -> re_name (n ++ rest) = Some (n, rest).
Proof.
  intros n rest H Hs. destruct (wf_pname_split n H) as [stars [c [r [E [Hst [Hc Hr]]]]]]. subst n.
  assert (Hcs := name_start_not_star c Hc).
  assert (Hspan : span is_word (r ++ rest) = (r, rest)) by (apply span_app; auto).
  destruct Hst as [->|[->| ->]].
  - simpl app. rewrite (re_name_nostar c _ Hcs). rewrite Hc, Hspan. reflexivity.
  - simpl app. unfold re_name. rewrite ceq_refl. rewrite Hcs. simpl andb. cbv iota. rewrite Hc. rewrite Hspan. reflexivity.
  - simpl app. unfold re_name. rewrite ceq_refl. simpl andb. cbv iota. rewrite Hc. rewrite Hspan. reflexivity.
Qed.

Lemma wf_pname_nsp : forall n, wf_pname n = true -> nsp_head n = true.
Proof.
  intros n H. destruct (wf_pname_split n H) as [stars [c [r [E [Hst [Hc Hr]]]]]]. subst n.
  destruct Hst as [->|[->| ->]]; simpl; try reflexivity.
  rewrite (word_not_space c (name_start_word c Hc)). reflexivity.
Qed.

Lemma wf_pname_nocomma : forall n, wf_pname n = true -> contains_char comma n = false.
Proof.
  intros n H. destruct (wf_pname_split n H) as [stars [c [r [E [Hst [Hc Hr]]]]]]. subst n.
  rewrite contains_char_app.
  assert (Hw : contains_char comma (c :: r) = false).
  { apply (not_contains is_word comma (c :: r)).
    - simpl. rewrite (name_start_word c Hc). exact Hr.
    - intros x Hx. destruct (ceq comma x) eqn:E; [|reflexivity]. apply ceq_eq in E. subst x. discriminate. }
  rewrite Hw. destruct Hst as [->|[->| ->]]; reflexivity.
Qed.

(* ---- _RE_RETURNS on the four documented spellings *)
Lemma re_returns_name_type : forall n a, wf_pname n = true -> wf_line0 a = true ->
  re_returns (n ++ s_colon3 ++ a) = Some (Some n, Some a).
Proof.
  intros n a Hn Ha. destruct (wf_line0_facts a Ha) as [Hne [Hp [Hf Hh]]].
  unfold re_returns. rewrite (re_name_app n (s_colon3 ++ a) Hn) by reflexivity.
  change (lstrip (s_colon3 ++ a)) with (colon :: sp :: a). cbv iota.
  change (lstrip (sp :: a)) with (lstrip a). rewrite (lstrip_nsp a Hh).
  destruct a as [|x a']; [congruence|]. reflexivity.
Qed.

Lemma re_returns_name : forall n, wf_pname n = true -> re_returns (n ++ [sp; colon]) = Some (Some n, None).
Proof.
  intros n Hn. unfold re_returns. rewrite (re_name_app n [sp; colon] Hn) by reflexivity. reflexivity.
Qed.

Lemma re_returns_type : forall a, wf_line0 a = true -> re_returns (colon :: sp :: a) = Some (None, Some a).
Proof.
  intros a Ha. destruct (wf_line0_facts a Ha) as [Hne [Hp [Hf Hh]]].
  unfold re_returns. change (re_name (colon :: sp :: a)) with (@None (str * str)). cbv iota.
  change (lstrip (colon :: sp :: a)) with (colon :: sp :: a). cbv iota.
  change (is_empty_line (sp :: a)) with (is_empty_line a). rewrite (nsp_head_not_empty a Hh).
  change (lstrip (sp :: a)) with (lstrip a). rewrite (lstrip_nsp a Hh). reflexivity.
Qed.

Lemma re_returns_none : re_returns [colon] = Some (None, None).
Proof. reflexivity. Qed.

Definition rkindP (k : kind) : Prop := k = KReturns \/ k = KYields \/ k = KReceives.

Lemma n_ret_item_ok : forall k it m, rkindP k -> wf_nitem k it = true ->
  exists l0, n_rawm k it m = l0 :: ni_desc it ++ repeat [] m /\
             re_returns l0 = Some (match ni_names it with [] => None | n :: _ => Some n end, ni_ann it) /\
             n_text (ni_desc it ++ repeat [] m) = join_nl (ni_desc it).
Proof.
  intros k it m Hk H.
  assert (H' : (wf_ndesc false (ni_desc it)
      && match ni_names it with [] => true | [n] => wf_pname n | _ => false end
      && opt_all wf_line0 (ni_ann it)
      && negb (is_some (ni_default it)) && negb (ni_optional it)) = true) by (destruct Hk as [->|[->| ->]]; exact H).
  clear H. apply andb_true_iff in H'; destruct H' as [H _]. apply andb_true_iff in H; destruct H as [H _].
  apply andb_true_iff in H; destruct H as [H Ha]. apply andb_true_iff in H; destruct H as [Hd Hn].
  destruct (wf_ndesc_ok _ _ Hd) as [Hok _].
  exists (n_head k it). split; [reflexivity|]. split; [|apply n_text_ok; exact Hok].
  replace (n_head k it) with
      (match ni_names it, ni_ann it with
       | [], None => [colon]
       | [], Some a => colon :: sp :: a
       | n :: _, None => n ++ [sp; colon]
       | n :: _, Some a => n ++ s_colon3 ++ a
       end) by (destruct Hk as [->|[->| ->]]; reflexivity).
  destruct (ni_names it) as [|n [|n2 ns]]; try discriminate; destruct (ni_ann it) as [a|]; simpl in Ha.
  - apply re_returns_type; exact Ha.
  - apply re_returns_none.
  - apply re_returns_name_type; auto.
  - apply re_returns_name; auto.
Qed.

(* ---- _RE_PARAMETER *)
Fixpoint more_names (ns : list str) : str :=
  match ns with [] => [] | n :: r => comma :: sp :: n ++ more_names r end.

Lemma join_with_more : forall ns n, join_with s_cs (n :: ns) = n ++ more_names ns.
Proof.
  induction ns as [|n2 r IH]; intros n.
  - simpl. rewrite app_nil_r. reflexivity.
  - change (join_with s_cs (n :: n2 :: r)) with (n ++ s_cs ++ join_with s_cs (n2 :: r)). rewrite IH. reflexivity.
Qed.

Definition sp_or_nil (R : str) : Prop := R = [] \/ exists R', R = sp :: R'.

Lemma stops_word_more : forall ns R, sp_or_nil R -> stops_word (more_names ns ++ R).
Proof.
  intros ns R HR. destruct ns as [|n r].
  - simpl. destruct HR as [->|[R' ->]]; simpl; auto.
  - simpl. reflexivity.
Qed.

Lemma re_more_names_ok : forall ns R fuel, Forall (fun n => wf_pname n = true) ns -> sp_or_nil R -> List.length ns <= fuel ->
  re_more_names fuel (more_names ns ++ R) = Some (more_names ns, R).
Proof.
  induction ns as [|n r IH]; intros R fuel Hns HR Hf.
  - simpl app. destruct HR as [->|[R' ->]]; destruct fuel; reflexivity.
  - destruct fuel as [|f]; [simpl in Hf; lia|].
    inversion Hns as [|? ? Hn Hr]; subst.
    simpl more_names. rewrite <- !app_comm_cons. rewrite <- app_assoc.
    change (re_more_names (S f) (comma :: sp :: n ++ more_names r ++ R)) with
      (match re_name (n ++ more_names r ++ R) with
       | Some (n0, rest) => match re_more_names f rest with
                            | Some (m, rest') => Some (comma :: sp :: n0 ++ m, rest')
                            | None => None
                            end
       | None => Some ([], comma :: sp :: n ++ more_names r ++ R)
       end).
    rewrite (re_name_app n _ Hn (stops_word_more r R HR)).
    rewrite (IH R f Hr HR) by (simpl in Hf; lia).
    reflexivity.
Qed.

Lemma more_names_length : forall ns, List.length ns <= List.length (more_names ns).
Proof. induction ns as [|n r IH]; simpl; [lia|]. rewrite app_length. lia. Qed.

(* names.split(", ") *)
Lemma split_cs_ne : forall s b, split_cs b s <> [].
Proof.
  induction s as [|c r IH]; intros b; simpl; [discriminate|].
  destruct b; [apply IH|].
  destruct (ceq c comma && match r with d :: _ => ceq d sp | [] => false end); [discriminate|].
  destruct (split_cs false r); discriminate.
Qed.

Lemma split_cs_nocomma : forall n R, contains_char comma n = false ->
  split_cs false (n ++ R) = match split_cs false R with p :: ps => (n ++ p) :: ps | [] => [n] end.
Proof.
  induction n as [|c n' IH]; intros R H.
  - simpl. destruct (split_cs false R) eqn:E; [exfalso; exact (split_cs_ne R false E)|reflexivity].
  - simpl in H. apply orb_false_iff in H. destruct H as [Hc Hn'].
    rewrite <- app_comm_cons.
    change (split_cs false (c :: n' ++ R)) with
      (if ceq c comma && match n' ++ R with d :: _ => ceq d sp | [] => false end then [] :: split_cs true (n' ++ R)
       else match split_cs false (n' ++ R) with p :: ps => (c :: p) :: ps | [] => [[c]] end).
    rewrite ceq_sym in Hc. rewrite Hc. simpl andb. cbv iota.
    rewrite (IH R Hn'). destruct (split_cs false R); reflexivity.
Qed.

Lemma split_cs_names : forall ns n, Forall (fun n => contains_char comma n = false) (n :: ns) ->
  split_cs false (n ++ more_names ns) = n :: ns.
Proof.
  induction ns as [|n2 r IH]; intros n H; inversion H as [|? ? Hn Hr]; subst.
  - simpl more_names. rewrite (split_cs_nocomma n [] Hn). simpl. rewrite app_nil_r. reflexivity.
  - simpl more_names. rewrite (split_cs_nocomma n _ Hn).
    change (split_cs false (comma :: sp :: n2 ++ more_names r)) with ([] :: split_cs false (n2 ++ more_names r)).
    rewrite (IH n2 Hr). rewrite app_nil_r. reflexivity.
Qed.

(* the default-value regex *)
Lemma find_default_cons_none : forall x T, no_dflt T = true -> find_default (x :: T) = None.
Proof.
  intros x T. revert x. induction T as [|d0 t IH]; intros x H; [reflexivity|].
  simpl in H. apply andb_true_iff in H. destruct H as [Hd Ht].
  change (find_default (x :: d0 :: t)) with
    (match find_default (d0 :: t) with
     | Some (a, d) => Some (x :: a, d)
     | None => if ceq d0 comma then match default_tail t with Some d => Some ([x], d) | None => None end else None
     end).
  rewrite (IH d0 Ht). destruct (ceq d0 comma); [|reflexivity]. destruct (default_tail t); [discriminate|reflexivity].
Qed.

Lemma find_default_none : forall s, no_dflt s = true -> find_default s = None.
Proof.
  intros s H. destruct s as [|c r]; [reflexivity|]. simpl in H. apply andb_true_iff in H. destruct H as [_ H].
  apply find_default_cons_none. exact H.
Qed.

Lemma find_default_ok : forall a T v, a <> [] -> no_dflt T = true -> default_tail T = Some v ->
  find_default (a ++ comma :: T) = Some (a, v).
Proof.
  induction a as [|c a' IH]; intros T v Ha HT Hv; [congruence|].
  destruct a' as [|c2 a''].
  - change (find_default ([c] ++ comma :: T)) with
      (match find_default (comma :: T) with
       | Some (a, d) => Some (c :: a, d)
       | None => if ceq comma comma then match default_tail T with Some d => Some ([c], d) | None => None end else None
       end).
    rewrite (find_default_cons_none comma T HT). rewrite ceq_refl. rewrite Hv. reflexivity.
  - change (find_default ((c :: c2 :: a'') ++ comma :: T)) with
      (match find_default ((c2 :: a'') ++ comma :: T) with
       | Some (a, d) => Some (c :: a, d)
       | None => match (c2 :: a'') ++ comma :: T with
                 | d0 :: t => if ceq d0 comma then match default_tail t with Some d => Some ([c], d) | None => None end else None
                 | [] => None
                 end
       end).
    rewrite (IH T v) by (auto; discriminate). reflexivity.
Qed.

Definition dflt_tail (f : nat) (v : str) : str := s_of " default" ++ default_sep f ++ v.

Lemma no_dflt_app_nocomma : forall p s, contains_char comma p = false -> no_dflt s = true -> no_dflt (p ++ s) = true.
Proof.
  induction p as [|c p' IH]; intros s Hp Hs; [exact Hs|].
  simpl in Hp. apply orb_false_iff in Hp. destruct Hp as [Hc Hp'].
  simpl. rewrite ceq_sym in Hc. rewrite Hc. simpl. apply IH; auto.
Qed.

Lemma dflt_tail_facts : forall f v, v <> [] -> no_dflt v = true ->
  no_dflt (dflt_tail f v) = true /\ default_tail (dflt_tail f v) = Some v.
Proof.
  intros f v Hv Hn. split.
  - unfold dflt_tail. rewrite app_assoc. apply no_dflt_app_nocomma; [|exact Hn].
    destruct f as [|[|f']]; reflexivity.
  - destruct v as [|x y]; [congruence|]. destruct f as [|[|f']]; reflexivity.
Qed.

Lemma removesuffix_app : forall suf a, removesuffix suf (a ++ suf) = a.
Proof.
  intros suf. induction a as [|x a' IH].
  - simpl. destruct suf as [|y suf']; [reflexivity|].
    change (removesuffix (y :: suf') (y :: suf')) with (if str_eqb (y :: suf') (y :: suf') then [] else y :: removesuffix (y :: suf') suf').
    replace (str_eqb (y :: suf') (y :: suf')) with true; [reflexivity|]. symmetry. apply str_eqb_eq. reflexivity.
  - rewrite <- app_comm_cons.
    change (removesuffix suf (x :: a' ++ suf)) with (if str_eqb (x :: a' ++ suf) suf then [] else x :: removesuffix suf (a' ++ suf)).
    destruct (str_eqb (x :: a' ++ suf) suf) eqn:E.
    + apply str_eqb_eq in E. apply (f_equal (@List.length ascii)) in E. simpl in E. rewrite app_length in E. lia.
    + rewrite IH. reflexivity.
Qed.

Lemma re_parameter_notype : forall n1 ns, wf_pname n1 = true -> Forall (fun n => wf_pname n = true) ns ->
  re_parameter (n1 ++ more_names ns) = ReYes (n1 ++ more_names ns, None, None).
Proof.
  intros n1 ns H1 Hns. unfold re_parameter.
  rewrite (re_name_app n1 (more_names ns) H1).
  2:{ rewrite <- (app_nil_r (more_names ns)). apply stops_word_more. left; reflexivity. }
  rewrite <- (app_nil_r (more_names ns)) at 1 2.
  rewrite (re_more_names_ok ns [] _ Hns (or_introl eq_refl)).
  2:{ rewrite app_nil_r. apply more_names_length. }
  reflexivity.
Qed.

Lemma re_parameter_type : forall n1 ns T, wf_pname n1 = true -> Forall (fun n => wf_pname n = true) ns ->
  T <> [] -> ceq (hd sp T) lbrace = false ->
  re_parameter (n1 ++ more_names ns ++ s_colon3 ++ T) = ReYes (n1 ++ more_names ns, None, Some T).
Proof.
  intros n1 ns T H1 Hns HT Hb. unfold re_parameter.
  assert (HR : sp_or_nil (s_colon3 ++ T)) by (right; eexists; reflexivity).
  rewrite (re_name_app n1 (more_names ns ++ s_colon3 ++ T) H1 (stops_word_more ns _ HR)).
  rewrite (re_more_names_ok ns (s_colon3 ++ T) _ Hns HR).
  2:{ rewrite app_length. assert (H := more_names_length ns). lia. }
  change (s_colon3 ++ T) with (sp :: colon :: sp :: T). cbv iota.
  change (is_space sp && is_space sp) with true. cbv iota.
  destruct T as [|c0 u]; [congruence|]. simpl in Hb. rewrite Hb. reflexivity.
Qed.

Lemma wf_names_facts : forall names, forallb wf_pname names = true ->
  Forall (fun n => wf_pname n = true) names /\ Forall (fun n => contains_char comma n = false) names.
Proof.
  induction names as [|n r IH]; intros H; [split; constructor|].
  simpl in H. apply andb_true_iff in H. destruct H as [Hn Hr]. destruct (IH Hr) as [A B].
  split; constructor; auto. apply wf_pname_nocomma. exact Hn.
Qed.

Definition pkindP (k : kind) : Prop := k = KParams \/ k = KOther.

Lemma n_parse_param_ok : forall c k it m mult idx, pkindP k -> wf_nitem k it = true ->
  n_parse_param c (n_rawm k it m) = Some (n_expect_item c k mult idx it).
Proof.
  intros c k it m mult idx Hk H.
  assert (H' : (wf_ndesc true (ni_desc it)
      && match ni_names it with [] => false | _ => true end && forallb wf_pname (ni_names it) && wf_param_type it) = true)
    by (destruct Hk; subst k; exact H).
  clear H. apply andb_true_iff in H'; destruct H' as [H Hty]. apply andb_true_iff in H; destruct H as [H Hnames].
  apply andb_true_iff in H; destruct H as [Hd Hne].
  destruct (wf_ndesc_ok _ _ Hd) as [Hok Hlns]. specialize (Hlns eq_refl).
  destruct (ni_names it) as [|n1 ns] eqn:En; [discriminate|].
  destruct (wf_names_facts _ Hnames) as [Hwf Hnc].
  inversion Hwf as [|? ? H1 Hns]; subst.
  assert (Hexp : n_expect_item c k mult idx it =
     map (fun nm => mkItem (Some nm)
                            (orelse (ni_ann it) (match lookup_param c nm with Some (a, _) => a | None => None end))
                            (join_nl (ni_desc it))
                            (orelse (omap snd (ni_default it)) (match lookup_param c nm with Some (_, v) => v | None => None end)))
          (n1 :: ns)).
  { unfold n_expect_item. rewrite En. destruct Hk; subst k; reflexivity. }
  rewrite Hexp.
  assert (Hhead : n_head k it = join_with s_cs (n1 :: ns) ++
      match ni_ann it with
      | None => []
      | Some a => s_colon3 ++ a
                  ++ (match ni_default it with Some (f, v) => s_comma_default ++ default_sep f ++ v | None => [] end)
                  ++ (if ni_optional it then s_optional else [])
      end).
  { unfold n_head. rewrite En. destruct Hk; subst k; reflexivity. }
  unfold n_rawm, n_parse_param. rewrite Hhead. rewrite join_with_more.
  rewrite (n_desc_rstrip_ok _ m Hok Hlns).
  unfold wf_param_type in Hty.
  destruct (ni_ann it) as [a|] eqn:Ea.
  - apply andb_true_iff in Hty; destruct Hty as [Hty Hrest].
    apply andb_true_iff in Hty; destruct Hty as [Hty Hbr].
    apply andb_true_iff in Hty; destruct Hty as [Hane Hap].
    assert (Ha : a <> []) by (destruct a; [discriminate|discriminate]).
    apply negb_true_iff in Hbr.
    set (T := a ++ (match ni_default it with Some (f, v) => s_comma_default ++ default_sep f ++ v | None => [] end)
                ++ (if ni_optional it then s_optional else [])).
    assert (HT : T <> []) by (unfold T; destruct a; [congruence|discriminate]).
    assert (HTb : ceq (hd sp T) lbrace = false) by (unfold T; destruct a; [congruence|exact Hbr]).
    rewrite <- app_assoc.
    rewrite (re_parameter_type n1 ns T H1 Hns HT HTb).
    rewrite (split_cs_names ns n1 Hnc).
    destruct (ni_default it) as [[f v]|] eqn:Edf.
    + apply andb_true_iff in Hrest; destruct Hrest as [Hrest Hend].
      apply andb_true_iff in Hrest; destruct Hrest as [Hrest Hnd].
      apply andb_true_iff in Hrest; destruct Hrest as [Hrest Hvp].
      apply andb_true_iff in Hrest; destruct Hrest as [Hopt Hvne].
      apply negb_true_iff in Hopt. apply negb_true_iff in Hend.
      assert (Hv : v <> []) by (destruct v; [discriminate|discriminate]).
      destruct (dflt_tail_facts f v Hv Hnd) as [HT1 HT2].
      assert (ET : T = a ++ comma :: dflt_tail f v).
      { unfold T. rewrite Hopt. rewrite app_nil_r. reflexivity. }
      rewrite ET. rewrite (find_default_ok a (dflt_tail f v) v Ha HT1 HT2).
      rewrite (removesuffix_noop s_optional a Hend). reflexivity.
    + apply andb_true_iff in Hrest; destruct Hrest as [Hnd Hend].
      assert (ET : T = a ++ (if ni_optional it then s_optional else [])) by reflexivity.
      rewrite ET. rewrite (find_default_none _ Hnd).
      destruct (ni_optional it).
      * rewrite removesuffix_app. reflexivity.
      * simpl in Hend. apply negb_true_iff in Hend. rewrite app_nil_r. rewrite (removesuffix_noop s_optional a Hend). reflexivity.
  - apply andb_true_iff in Hty; destruct Hty as [Hdf Hopt].
    rewrite app_nil_r. rewrite (re_parameter_notype n1 ns H1 Hns).
    rewrite (split_cs_names ns n1 Hnc).
    destruct (ni_default it); [discriminate|]. reflexivity.
Qed.

(* ---- a whole section of items *)
Fixpoint n_rawms (k : kind) (n : nat) (its : list nitem) : list (list str) :=
  match its with
  | [] => []
  | [it] => [n_rawm k it (ni_sep it + n)]
  | it :: r => n_rawm k it (ni_sep it) :: n_rawms k n r
  end.

Lemma n_raws_rawms : forall k n its, n_raws k (repeat [] n) its = n_rawms k n its.
Proof.
  intros k n. induction its as [|it r IH]; [reflexivity|].
  destruct r as [|it2 r'].
  - change (n_raws k (repeat [] n) [it]) with [n_raw k it ++ repeat [] n]. rewrite n_raw_tr. reflexivity.
  - change (n_raws k (repeat [] n) (it :: it2 :: r')) with (n_raw k it :: n_raws k (repeat [] n) (it2 :: r')).
    rewrite IH. reflexivity.
Qed.

Lemma n_rawms_length : forall k n its, List.length (n_rawms k n its) = List.length its.
Proof.
  intros k n. induction its as [|it r IH]; [reflexivity|]. destruct r as [|it2 r']; [reflexivity|].
  change (S (List.length (n_rawms k n (it2 :: r'))) = S (List.length (it2 :: r'))). f_equal. exact IH.
Qed.

Lemma filter_map_cons : forall (A B : Type) (f : A -> option B) x l,
  filter_map f (x :: l) = match f x with Some y => y :: filter_map f l | None => filter_map f l end.
Proof. reflexivity. Qed.

Lemma n_parse_params_cons : forall c it r,
  n_parse_params c (it :: r) = match n_parse_param c it, n_parse_params c r with Some a, Some b => Some (a ++ b) | _, _ => None end.
Proof. reflexivity. Qed.

Lemma filter_map_rawms : forall (f : list str -> option pitem) (g : nitem -> pitem) k n its,
  (forall it m, In it its -> f (n_rawm k it m) = Some (g it)) ->
  filter_map f (n_rawms k n its) = map g its.
Proof.
  intros f g k n. induction its as [|it r IH]; intros H; [reflexivity|].
  destruct r as [|it2 r'].
  - change (n_rawms k n [it]) with [n_rawm k it (ni_sep it + n)]. rewrite filter_map_cons.
    rewrite (H it _ (or_introl eq_refl)). reflexivity.
  - change (n_rawms k n (it :: it2 :: r')) with (n_rawm k it (ni_sep it) :: n_rawms k n (it2 :: r')).
    rewrite filter_map_cons. rewrite (H it _ (or_introl eq_refl)). rewrite IH; [reflexivity|].
    intros it' m Hin. apply H. right. exact Hin.
Qed.

Lemma n_parse_params_rawms : forall c k n its mult idx, pkindP k -> forallb (wf_nitem k) its = true ->
  n_parse_params c (n_rawms k n its) = Some (n_expect_items c k mult idx its).
Proof.
  intros c k n its mult. induction its as [|it r IH]; intros idx Hk H; [reflexivity|].
  simpl in H. apply andb_true_iff in H. destruct H as [Hit Hr].
  destruct r as [|it2 r'].
  - change (n_rawms k n [it]) with [n_rawm k it (ni_sep it + n)]. rewrite n_parse_params_cons.
    rewrite (n_parse_param_ok c k it _ mult idx Hk Hit). reflexivity.
  - change (n_rawms k n (it :: it2 :: r')) with (n_rawm k it (ni_sep it) :: n_rawms k n (it2 :: r')).
    rewrite n_parse_params_cons. rewrite (n_parse_param_ok c k it _ mult idx Hk Hit).
    rewrite (IH (S idx) Hk Hr). reflexivity.
Qed.

Definition plainP (k : kind) : Prop := k = KAttrs \/ k = KFuncs \/ k = KClasses \/ k = KModules \/ k = KRaises \/ k = KWarns.

Lemma n_expect_items_plain : forall c k mult idx its, plainP k ->
  n_expect_items c k mult idx its = flat_map (n_expect_item c k false 0) its.
Proof.
  intros c k mult idx its Hk. revert idx. induction its as [|it r IH]; intros idx; [reflexivity|].
  simpl. rewrite IH. f_equal.
  destruct Hk as [->|[->|[->|[->|[->| ->]]]]]; reflexivity.
Qed.

Lemma flat_map_single : forall (A B : Type) (g : A -> B) l, flat_map (fun x => [g x]) l = map g l.
Proof. intros. induction l; simpl; [reflexivity|rewrite IHl; reflexivity]. Qed.

Definition fb_of (c : pctx) (k : kind) (mult : bool) : nat -> option str :=
  match k with
  | KReturns => n_returns_fallback c mult
  | KYields => n_yields_fallback c
  | _ => n_receives_fallback c
  end.

Definition fb_cond (c : pctx) (k : kind) (mult : bool) (idx : nat) : bool :=
  match c_ret c with
  | RNone => true
  | _ => match part_of c k with
         | Some (RPTuple _ es) => negb mult || (idx <? List.length es)
         | Some (RPName _) => true
         | None => false
         end
  end.

Definition no_tuple_part (c : pctx) (k : kind) : Prop := forall w es, part_of c k <> Some (RPTuple w es).

Lemma fb_agree : forall c k mult idx, rkindP k -> fb_cond c k mult idx = true ->
  (k = KReturns \/ mult = true \/ no_tuple_part c k) ->
  fb_of c k mult idx = n_doc_fallback c k mult idx.
Proof.
  intros c k mult idx Hk Hc HG. unfold fb_cond in Hc. unfold fb_of, n_doc_fallback, part_of in *.
  destruct Hk as [->|[->| ->]]; unfold n_returns_fallback, n_yields_fallback, n_receives_fallback;
    destruct (c_ret c) as [|p|w p|w y s r] eqn:Er; try reflexivity; try discriminate.
  - (* returns, plain *) destruct p as [s|w es]; [destruct mult; reflexivity|]. destruct mult; [|reflexivity].
    simpl. destruct (nth_error es idx); reflexivity.
  - (* yields, iterator *) destruct p as [s|w' es]; [reflexivity|].
    simpl in Hc. unfold elem_or, tuple_split.
    destruct mult.
    + simpl in Hc. apply Nat.ltb_lt in Hc. destruct (nth_error es idx) eqn:En; [reflexivity|].
      apply nth_error_None in En. lia.
    + destruct HG as [HG|[HG|HG]]; try discriminate. exfalso. apply (HG w' es). unfold part_of. rewrite Er. reflexivity.
  - (* yields, generator *) destruct y as [s0|w' es]; [reflexivity|].
    simpl in Hc. unfold elem_or, tuple_split.
    destruct mult.
    + simpl in Hc. apply Nat.ltb_lt in Hc. destruct (nth_error es idx) eqn:En; [reflexivity|].
      apply nth_error_None in En. lia.
    + destruct HG as [HG|[HG|HG]]; try discriminate. exfalso. apply (HG w' es). unfold part_of. rewrite Er. reflexivity.
  - (* receives, generator *) destruct s as [s0|w' es]; [reflexivity|].
    simpl in Hc. unfold elem_or, tuple_split.
    destruct mult.
    + simpl in Hc. apply Nat.ltb_lt in Hc. destruct (nth_error es idx) eqn:En; [reflexivity|].
      apply nth_error_None in En. lia.
    + destruct HG as [HG|[HG|HG]]; try discriminate. exfalso. apply (HG w' es). unfold part_of. rewrite Er. reflexivity.
Qed.

Lemma n_parse_ret_items_cons : forall fb idx l0 conts r,
  n_parse_ret_items fb idx ((l0 :: conts) :: r) =
  match re_returns l0 with
  | None => n_parse_ret_items fb (S idx) r
  | Some (name, ann) =>
      mkItem (Some (ostr name)) (match ann with Some a => Some a | None => fb idx end) (n_text conts) None
        :: n_parse_ret_items fb (S idx) r
  end.
Proof. reflexivity. Qed.

Definition ret_G (c : pctx) (k : kind) (mult : bool) (its : list nitem) : Prop :=
  forall it, In it its -> ni_ann it = None -> (k = KReturns \/ mult = true \/ no_tuple_part c k).

Lemma wf_fallbacks_cons : forall c k mult idx it r, wf_fallbacks c k mult idx (it :: r) = true ->
  (ni_ann it = None -> fb_cond c k mult idx = true) /\ wf_fallbacks c k mult (S idx) r = true.
Proof.
  intros c k mult idx it r H. simpl in H. apply andb_true_iff in H. destruct H as [H1 H2]. split; [|exact H2].
  intros Ea. rewrite Ea in H1. exact H1.
Qed.

Lemma n_ret_expect_item : forall c k mult idx it, rkindP k ->
  n_expect_item c k mult idx it =
  [mkItem (Some (ni_name it)) (orelse (ni_ann it) (n_doc_fallback c k mult idx)) (join_nl (ni_desc it)) None].
Proof. intros c k mult idx it [->|[->| ->]]; reflexivity. Qed.

Lemma n_parse_ret_one : forall c k mult idx it m, rkindP k -> wf_nitem k it = true ->
  (ni_ann it = None -> fb_cond c k mult idx = true) ->
  (ni_ann it = None -> (k = KReturns \/ mult = true \/ no_tuple_part c k)) ->
  forall r, n_parse_ret_items (fb_of c k mult) idx (n_rawm k it m :: r) =
            n_expect_item c k mult idx it ++ n_parse_ret_items (fb_of c k mult) (S idx) r.
Proof.
  intros c k mult idx it m Hk Hit Hc HG r.
  destruct (n_ret_item_ok k it m Hk Hit) as [l0 [E [Hre Htext]]].
  rewrite E. rewrite n_parse_ret_items_cons. rewrite Hre. rewrite Htext.
  rewrite (n_ret_expect_item c k mult idx it Hk). simpl app.
  assert (Hname : ostr (match ni_names it with [] => None | n :: _ => Some n end) = ni_name it).
  { unfold ni_name. destruct (ni_names it); reflexivity. }
  rewrite Hname.
  destruct (ni_ann it) as [a|] eqn:Ea; [reflexivity|].
  simpl orelse. rewrite (fb_agree c k mult idx Hk (Hc eq_refl) (HG eq_refl)). reflexivity.
Qed.

Lemma n_parse_ret_items_ok : forall c k mult n its idx, rkindP k -> forallb (wf_nitem k) its = true ->
  wf_fallbacks c k mult idx its = true -> ret_G c k mult its ->
  n_parse_ret_items (fb_of c k mult) idx (n_rawms k n its) = n_expect_items c k mult idx its.
Proof.
  intros c k mult n. induction its as [|it r IH]; intros idx Hk H Hfb HG; [reflexivity|].
  simpl in H. apply andb_true_iff in H. destruct H as [Hit Hr].
  destruct (wf_fallbacks_cons c k mult idx it r Hfb) as [Hc Hfb'].
  assert (HGit : ni_ann it = None -> k = KReturns \/ mult = true \/ no_tuple_part c k) by (apply HG; left; reflexivity).
  assert (HGr : ret_G c k mult r) by (intros it' Hin; apply HG; right; exact Hin).
  destruct r as [|it2 r'].
  - change (n_rawms k n [it]) with [n_rawm k it (ni_sep it + n)].
    rewrite (n_parse_ret_one c k mult idx it _ Hk Hit Hc HGit). reflexivity.
  - change (n_rawms k n (it :: it2 :: r')) with (n_rawm k it (ni_sep it) :: n_rawms k n (it2 :: r')).
    rewrite (n_parse_ret_one c k mult idx it _ Hk Hit Hc HGit).
    rewrite (IH (S idx) Hk Hr Hfb' HGr). reflexivity.
Qed.

(* what a well-formed item looks like to the block reader *)
Lemma wf_nitem_ok : forall k it, wf_nitem k it = true -> n_item_ok k it.
Proof.
  intros k it H. unfold n_item_ok.
  destruct k; try discriminate; simpl in H.
  - (* params *)
    apply andb_true_iff in H; destruct H as [H Hty]. apply andb_true_iff in H; destruct H as [H Hnames].
    apply andb_true_iff in H; destruct H as [Hd Hne].
    split; [|apply (wf_ndesc_ok _ _ Hd)].
    destruct (ni_names it) as [|n1 ns] eqn:En; [discriminate|]. simpl in Hnames. apply andb_true_iff in Hnames. destruct Hnames as [H1 _].
    unfold n_head. rewrite En. rewrite join_with_more. rewrite <- app_assoc. apply nsp_head_app. apply wf_pname_nsp. exact H1.
  - (* other params *)
    apply andb_true_iff in H; destruct H as [H Hty]. apply andb_true_iff in H; destruct H as [H Hnames].
    apply andb_true_iff in H; destruct H as [Hd Hne].
    split; [|apply (wf_ndesc_ok _ _ Hd)].
    destruct (ni_names it) as [|n1 ns] eqn:En; [discriminate|]. simpl in Hnames. apply andb_true_iff in Hnames. destruct Hnames as [H1 _].
    unfold n_head. rewrite En. rewrite join_with_more. rewrite <- app_assoc. apply nsp_head_app. apply wf_pname_nsp. exact H1.
  - (* raises *)
    apply andb_true_iff in H; destruct H as [H _]. apply andb_true_iff in H; destruct H as [H _].
    apply andb_true_iff in H; destruct H as [H Ha]. apply andb_true_iff in H; destruct H as [Hd _].
    split; [|apply (wf_ndesc_ok _ _ Hd)]. unfold n_head. destruct (ni_ann it) as [a|]; [|discriminate]. apply (wf_line0_facts a Ha).
  - (* warns *)
    apply andb_true_iff in H; destruct H as [H _]. apply andb_true_iff in H; destruct H as [H _].
    apply andb_true_iff in H; destruct H as [H Ha]. apply andb_true_iff in H; destruct H as [Hd _].
    split; [|apply (wf_ndesc_ok _ _ Hd)]. unfold n_head. destruct (ni_ann it) as [a|]; [|discriminate]. apply (wf_line0_facts a Ha).
  - (* attributes *)
    apply andb_true_iff in H; destruct H as [H _]. apply andb_true_iff in H; destruct H as [H _].
    apply andb_true_iff in H; destruct H as [H Ha]. apply andb_true_iff in H; destruct H as [Hd Hn].
    split; [|apply (wf_ndesc_ok _ _ Hd)].
    destruct (ni_names it) as [|n [|n2 ns]] eqn:En; try discriminate.
    apply andb_true_iff in Hn; destruct Hn as [Hn _]. unfold wf_stripped in Hn. apply andb_true_iff in Hn. destruct Hn as [Hn _].
    unfold n_head, ni_name. rewrite En. apply nsp_head_app. apply (wf_line0_facts n Hn).
  - (* functions *)
    apply andb_true_iff in H; destruct H as [H _]. apply andb_true_iff in H; destruct H as [H _].
    apply andb_true_iff in H; destruct H as [H _]. apply andb_true_iff in H; destruct H as [H _].
    apply andb_true_iff in H; destruct H as [Hd Hn].
    split; [|apply (wf_ndesc_ok _ _ Hd)].
    destruct (ni_names it) as [|n [|n2 ns]] eqn:En; try discriminate.
    apply andb_true_iff in Hn; destruct Hn as [Hn _]. unfold wf_stripped in Hn. apply andb_true_iff in Hn. destruct Hn as [Hn _].
    unfold n_head, ni_name. rewrite En. apply nsp_head_app. apply (wf_line0_facts n Hn).
  - (* classes *)
    apply andb_true_iff in H; destruct H as [H _]. apply andb_true_iff in H; destruct H as [H _].
    apply andb_true_iff in H; destruct H as [H _]. apply andb_true_iff in H; destruct H as [H _].
    apply andb_true_iff in H; destruct H as [Hd Hn].
    split; [|apply (wf_ndesc_ok _ _ Hd)].
    destruct (ni_names it) as [|n [|n2 ns]] eqn:En; try discriminate.
    apply andb_true_iff in Hn; destruct Hn as [Hn _]. unfold wf_stripped in Hn. apply andb_true_iff in Hn. destruct Hn as [Hn _].
    unfold n_head, ni_name. rewrite En. apply nsp_head_app. apply (wf_line0_facts n Hn).
  - (* modules *)
    apply andb_true_iff in H; destruct H as [H _]. apply andb_true_iff in H; destruct H as [H _].
    apply andb_true_iff in H; destruct H as [H _]. apply andb_true_iff in H; destruct H as [H _].
    apply andb_true_iff in H; destruct H as [Hd Hn].
    split; [|apply (wf_ndesc_ok _ _ Hd)].
    destruct (ni_names it) as [|n [|n2 ns]] eqn:En; try discriminate.
    apply andb_true_iff in Hn; destruct Hn as [Hn _]. unfold wf_stripped in Hn. apply andb_true_iff in Hn. destruct Hn as [Hn _].
    unfold n_head, ni_name. rewrite En. apply nsp_head_app. apply (wf_line0_facts n Hn).
  - (* returns *)
    apply andb_true_iff in H; destruct H as [H _]. apply andb_true_iff in H; destruct H as [H _].
    apply andb_true_iff in H; destruct H as [H Ha]. apply andb_true_iff in H; destruct H as [Hd Hn].
    split; [|apply (wf_ndesc_ok _ _ Hd)]. unfold n_head.
    destruct (ni_names it) as [|n [|n2 ns]]; try discriminate; destruct (ni_ann it); try reflexivity;
      apply nsp_head_app; apply wf_pname_nsp; exact Hn.
  - (* yields *)
    apply andb_true_iff in H; destruct H as [H _]. apply andb_true_iff in H; destruct H as [H _].
    apply andb_true_iff in H; destruct H as [H Ha]. apply andb_true_iff in H; destruct H as [Hd Hn].
    split; [|apply (wf_ndesc_ok _ _ Hd)]. unfold n_head.
    destruct (ni_names it) as [|n [|n2 ns]]; try discriminate; destruct (ni_ann it); try reflexivity;
      apply nsp_head_app; apply wf_pname_nsp; exact Hn.
  - (* receives *)
    apply andb_true_iff in H; destruct H as [H _]. apply andb_true_iff in H; destruct H as [H _].
    apply andb_true_iff in H; destruct H as [H Ha]. apply andb_true_iff in H; destruct H as [Hd Hn].
    split; [|apply (wf_ndesc_ok _ _ Hd)]. unfold n_head.
    destruct (ni_names it) as [|n [|n2 ns]]; try discriminate; destruct (ni_ann it); try reflexivity;
      apply nsp_head_app; apply wf_pname_nsp; exact Hn.
Qed.

Lemma wf_nitems_ok : forall k its, forallb (wf_nitem k) its = true -> Forall (n_item_ok k) its.
Proof.
  intros k its H. apply Forall_forall. intros it Hin. rewrite forallb_forall in H. apply wf_nitem_ok. apply H. exact Hin.
Qed.

Lemma n_read_section_ok : forall c k it r tail tr n,
  n_tail_ok tail tr n -> forallb (wf_nitem k) (it :: r) = true ->
  (rkindb k = true -> wf_fallbacks c k (negb (List.length (it :: r) <=? 1)) 0 (it :: r) = true /\
                      ret_G c k (negb (List.length (it :: r) <=? 1)) (it :: r)) ->
  n_read_section n_default_opts c k (flat_map (n_item_lines k) (it :: r) ++ tail) =
  NRS (BItems (n_expect_items c k (negb (List.length (it :: r) <=? 1)) 0 (it :: r)))
      (List.length (flat_map (n_item_lines k) (it :: r)) + n).
Proof.
  intros c k it r tail tr n Ht Hwf Hret.
  assert (Hrbi := n_read_block_items_ok k it r tail tr n Ht (wf_nitems_ok k _ Hwf)).
  rewrite (n_tail_tr _ _ _ Ht) in Hrbi. rewrite n_raws_rawms in Hrbi.
  set (its := it :: r) in *. set (mult := negb (List.length its <=? 1)) in *.
  assert (Hin : forall it', In it' its -> wf_nitem k it' = true) by (intros it' Hi; rewrite forallb_forall in Hwf; apply Hwf; exact Hi).
  destruct k; try (exfalso; unfold its in Hwf; simpl in Hwf; discriminate).
  - (* parameters *)
    unfold n_read_section. rewrite Hrbi.
    rewrite (n_parse_params_rawms c KParams n its mult 0 (or_introl eq_refl) Hwf). reflexivity.
  - (* other parameters *)
    unfold n_read_section. rewrite Hrbi.
    rewrite (n_parse_params_rawms c KOther n its mult 0 (or_intror eq_refl) Hwf). reflexivity.
  - (* raises *)
    unfold n_read_section, n_items_reader. rewrite Hrbi. unfold lift_rs.
    rewrite (filter_map_rawms n_parse_raise (fun it' => mkItem None (ni_ann it') (join_nl (ni_desc it')) None) KRaises n its)
      by (intros it' m Hi; apply n_parse_raise_ok; [left; reflexivity|apply Hin; exact Hi]).
    rewrite (n_expect_items_plain c KRaises mult 0 its) by (unfold plainP; tauto).
    rewrite <- flat_map_single. reflexivity.
  - (* warns *)
    unfold n_read_section, n_items_reader. rewrite Hrbi. unfold lift_rs.
    rewrite (filter_map_rawms n_parse_raise (fun it' => mkItem None (ni_ann it') (join_nl (ni_desc it')) None) KWarns n its)
      by (intros it' m Hi; apply n_parse_raise_ok; [right; reflexivity|apply Hin; exact Hi]).
    rewrite (n_expect_items_plain c KWarns mult 0 its) by (unfold plainP; tauto).
    rewrite <- flat_map_single. reflexivity.
  - (* attributes *)
    unfold n_read_section, n_items_reader. rewrite Hrbi. unfold lift_rs.
    rewrite (filter_map_rawms (n_parse_attr c)
               (fun it' => mkItem (Some (ni_name it')) (orelse (ni_ann it') (match lookup_attr c (ni_name it') with Some a => a | None => None end))
                                  (join_nl (ni_desc it')) None) KAttrs n its)
      by (intros it' m Hi; apply n_parse_attr_ok; apply Hin; exact Hi).
    rewrite (n_expect_items_plain c KAttrs mult 0 its) by (unfold plainP; tauto).
    rewrite <- flat_map_single. reflexivity.
  - (* functions *)
    unfold n_read_section, n_items_reader. rewrite Hrbi. unfold lift_rs.
    rewrite (filter_map_rawms n_parse_func
               (fun it' => mkItem (Some (ni_name it'))
                                  (match ni_ann it' with Some a => Some (ni_name it' ++ lparen :: a ++ [rparen]) | None => None end)
                                  (join_nl (ni_desc it')) None) KFuncs n its)
      by (intros it' m Hi; apply n_parse_func_ok; [tauto|apply Hin; exact Hi]).
    rewrite (n_expect_items_plain c KFuncs mult 0 its) by (unfold plainP; tauto).
    rewrite <- flat_map_single. reflexivity.
  - (* classes *)
    unfold n_read_section, n_items_reader. rewrite Hrbi. unfold lift_rs.
    rewrite (filter_map_rawms n_parse_func
               (fun it' => mkItem (Some (ni_name it'))
                                  (match ni_ann it' with Some a => Some (ni_name it' ++ lparen :: a ++ [rparen]) | None => None end)
                                  (join_nl (ni_desc it')) None) KClasses n its)
      by (intros it' m Hi; apply n_parse_func_ok; [tauto|apply Hin; exact Hi]).
    rewrite (n_expect_items_plain c KClasses mult 0 its) by (unfold plainP; tauto).
    rewrite <- flat_map_single. reflexivity.
  - (* modules *)
    unfold n_read_section, n_items_reader. rewrite Hrbi. unfold lift_rs.
    rewrite (filter_map_rawms n_parse_func
               (fun it' => mkItem (Some (ni_name it'))
                                  (match ni_ann it' with Some a => Some (ni_name it' ++ lparen :: a ++ [rparen]) | None => None end)
                                  (join_nl (ni_desc it')) None) KModules n its)
      by (intros it' m Hi; apply n_parse_func_ok; [tauto|apply Hin; exact Hi]).
    rewrite (n_expect_items_plain c KModules mult 0 its) by (unfold plainP; tauto).
    rewrite <- flat_map_single. reflexivity.
  - (* returns *)
    destruct (Hret eq_refl) as [Hfb HG].
    unfold n_read_section, n_items_reader. rewrite Hrbi. unfold lift_rs. rewrite n_rawms_length.
    change (n_returns_fallback c (negb (List.length its <=? 1))) with (fb_of c KReturns mult).
    rewrite (n_parse_ret_items_ok c KReturns mult n its 0 (or_introl eq_refl) Hwf Hfb HG). reflexivity.
  - (* yields *)
    destruct (Hret eq_refl) as [Hfb HG].
    unfold n_read_section, n_items_reader. rewrite Hrbi. unfold lift_rs.
    change (n_yields_fallback c) with (fb_of c KYields mult).
    rewrite (n_parse_ret_items_ok c KYields mult n its 0 (or_intror (or_introl eq_refl)) Hwf Hfb HG). reflexivity.
  - (* receives *)
    destruct (Hret eq_refl) as [Hfb HG].
    unfold n_read_section, n_items_reader. rewrite Hrbi. unfold lift_rs.
    change (n_receives_fallback c) with (fb_of c KReceives mult).
    rewrite (n_parse_ret_items_ok c KReceives mult n its 0 (or_intror (or_intror eq_refl)) Hwf Hfb HG). reflexivity.
Qed.

(* Deprecated *)
Lemma n_read_deprecated_ok : forall c v ls tail tr n, n_tail_ok tail tr n -> wf_line0 v = true -> wf_ndesc false ls = true ->
  n_read_section n_default_opts c KDeprecated (v :: map (indent_line 4) ls ++ tail) =
  NRS (BItems [mkItem None (Some v) (join_nl ls) None]) (S (List.length ls) + n).
Proof.
  intros c v ls tail tr n Ht Hv Hd. destruct (wf_line0_facts v Hv) as [_ [_ [_ Hh]]].
  destruct (wf_ndesc_ok _ _ Hd) as [Hok _].
  assert (Hc : forallb wf_cont ls = true) by (destruct Hok as [d0 [r0 [_ [_ [_ [H _]]]]]]; exact H).
  unfold n_read_section, n_items_reader, n_read_block_items. rewrite (skip_empty_nsp v _ Hh).
  rewrite (n_rbi_conts ls tail Hc). rewrite (n_rbi_tail tail tr n Ht). unfold lift_rs.
  rewrite (n_tail_tr _ _ _ Ht). rewrite (n_text_ok ls n Hok). reflexivity.
Qed.


(* Examples *)
Lemma n_rb_rest_cons : forall l r,
  n_rb_rest (l :: r) =
  if is_empty_line l && (next_is_dash r || next_is_dash (tl r)) then ([], 0)
  else let '(b, k) := n_rb_rest r in (l :: b, S k).
Proof. reflexivity. Qed.

Lemma n_rb_rest_body : forall L tail tr n, Forall (fun l => is_dash_line l = false) L ->
  (L = [] \/ is_empty_line (last L []) = false) -> n_tail_ok tail tr n ->
  n_rb_rest (L ++ tail) = (L, List.length L).
Proof.
  intros L tail tr n. induction L as [|l L1 IH]; intros Hd Hl Ht.
  - simpl. destruct Ht as [|h d more Hh Hdd]; [reflexivity|].
    rewrite n_rb_rest_cons. simpl is_empty_line. simpl tl. unfold next_is_dash at 2. rewrite Hdd. rewrite orb_true_r. reflexivity.
  - inversion Hd as [|? ? Hdl Hd1]; subst.
    assert (Hl1 : L1 = [] \/ is_empty_line (last L1 []) = false).
    { destruct L1 as [|x L2]; [left; reflexivity|right]. destruct Hl as [Hl|Hl]; [discriminate|]. exact Hl. }
    rewrite <- app_comm_cons. rewrite n_rb_rest_cons. rewrite (IH Hd1 Hl1 Ht).
    destruct (is_empty_line l) eqn:He; [|reflexivity].
    (* a blank line inside the body: the two lines after it are no dash lines *)
    destruct L1 as [|x L2].
    + destruct Hl as [Hl|Hl]; [discriminate|]. simpl in Hl. congruence.
    + inversion Hd1 as [|? ? Hx Hd2]; subst.
      assert (H1 : next_is_dash ((x :: L2) ++ tail) = false) by (simpl; exact Hx).
      assert (H2 : next_is_dash (tl ((x :: L2) ++ tail)) = false).
      { simpl tl. destruct L2 as [|y L3].
        - simpl. destruct Ht; reflexivity.
        - inversion Hd2; subst. simpl. assumption. }
      rewrite H1, H2. reflexivity.
Qed.

Lemma flatten_lines : forall chunks, forallb wf_chunk chunks = true -> chunks <> [] ->
  flatten_chunks chunks <> [] /\
  (forall l, In l (flatten_chunks chunks) -> forallb printable l = true) /\
  is_empty_line (hd [] (flatten_chunks chunks)) = false /\
  is_empty_line (last (flatten_chunks chunks) []) = false.
Proof.
  induction chunks as [|[b ls] rest IH]; intros Hw Hne; [congruence|].
  simpl in Hw. apply andb_true_iff in Hw. destruct Hw as [Hc Hrest].
  destruct (wf_chunk_lines b ls Hc) as [Hn Hl].
  assert (Hlast : is_empty_line (last ls []) = false) by (apply (Hl (last ls [])); apply last_in; exact Hn).
  assert (Hhd : is_empty_line (hd [] ls) = false) by (destruct ls as [|x r]; [congruence|]; apply (Hl x); left; reflexivity).
  destruct rest as [|ch2 rest1].
  - simpl. repeat split; auto. intros l Hin. apply (Hl l Hin).
  - destruct (IH Hrest ltac:(discriminate)) as [A [B [C D]]].
    change (flatten_chunks ((b, ls) :: ch2 :: rest1)) with (ls ++ [] :: flatten_chunks (ch2 :: rest1)).
    repeat split.
    + destruct ls; [congruence|discriminate].
    + intros l Hin. apply in_app_or in Hin. destruct Hin as [Hin|[<-|Hin]]; [apply (Hl l Hin)|reflexivity|apply B; exact Hin].
    + destruct ls as [|x r]; [congruence|]. exact Hhd.
    + rewrite last_app_nonempty by discriminate.
      replace (last ([] :: flatten_chunks (ch2 :: rest1)) []) with (last (flatten_chunks (ch2 :: rest1)) [])
        by (destruct (flatten_chunks (ch2 :: rest1)); [congruence|reflexivity]).
      exact D.
Qed.

Lemma n_read_examples_ok : forall c chunks tail tr n, n_tail_ok tail tr n ->
  forallb wf_chunk chunks = true -> no_adjacent_prose chunks = true -> chunks <> [] ->
  forallb (fun l => negb (is_dash_line l)) (flatten_chunks chunks) = true ->
  n_read_section n_default_opts c KExamples (flatten_chunks chunks ++ tail) =
  NRS (BExamples (map (expect_chunk true) chunks)) (List.length (flatten_chunks chunks) + 0).
Proof.
  intros c chunks tail tr n Ht Hw Hadj Hne Hnd.
  destruct (flatten_lines chunks Hw Hne) as [Hfn [HP [Hhd Hlast]]].
  assert (Hd : Forall (fun l => is_dash_line l = false) (flatten_chunks chunks)).
  { apply Forall_forall. intros l Hin. rewrite forallb_forall in Hnd. specialize (Hnd l Hin). apply negb_true_iff in Hnd. exact Hnd. }
  unfold n_read_section, n_read_block.
  destruct (flatten_chunks chunks) as [|l0 ls] eqn:EF; [congruence|].
  simpl hd in Hhd. rewrite <- app_comm_cons.
  simpl skip_empty. rewrite Hhd.
  rewrite app_comm_cons. rewrite (n_rb_rest_body (l0 :: ls) tail tr n Hd (or_intror Hlast) Ht).
  assert (Hlne : last (l0 :: ls) [] <> []) by (destruct (last (l0 :: ls) []); [discriminate|discriminate]).
  rewrite (rstrip_join (l0 :: ls) ltac:(discriminate) HP Hlne).
  unfold parse_examples. change (n_trim n_default_opts) with true.
  assert (Hnn : l0 :: ls <> []) by discriminate.
  rewrite (split_nl_join _ Hnn HP). rewrite <- EF.
  rewrite (ex_chunks true chunks Hw Hadj). rewrite EF. f_equal. simpl. lia.
Qed.

(* ---- the main loop *)
Lemma nloop_cons : forall f o c cur adm incode l rest,
  nloop (S f) o c cur adm incode (l :: rest) =
  if incode then nloop f o c (cur ++ [l]) adm (negb (is_fence (lower l))) rest
  else if is_fence (lower l) then nloop f o c (cur ++ [l]) adm true rest
  else if is_empty_line l then nloop f o c (cur ++ [[]]) adm false rest
  else match rest with
       | [] => POk (n_append (cur ++ [l]) adm)
       | d :: after =>
           if is_dash_line d then
             match n_section_kind (lower l) with
             | Some k =>
                 match n_read_section o c k after with
                 | NRSErr => PErr "IndexError"
                 | NRSFuel => PFuel
                 | NRS b n => pcons (n_append cur adm ++ n_titled k b) (nloop f o c [] [] false (skipn n after))
                 end
             | None => pcons (n_append cur adm) (nloop f o c [] l false after)
             end
           else nloop f o c (cur ++ [l]) adm false rest
       end.
Proof. reflexivity. Qed.

Lemma nloop_nil : forall f o c cur adm incode,
  nloop (S f) o c cur adm incode [] =
  POk (if nonempty_list cur && is_nil adm && negb (any_truthy cur) then [GText []] else n_append cur adm).
Proof. reflexivity. Qed.

(* a fence line is not a dash line *)
Lemma fence_not_dash : forall l, is_fence l = true -> is_dash_line l = false.
Proof.
  intros l H. unfold is_dash_line. apply andb_false_iff. right.
  unfold is_fence in H. induction l as [|x l IH]; [discriminate|].
  simpl in H. simpl. destruct (ceq x sp) eqn:E.
  - apply ceq_eq in E. subst x. simpl. apply IH. exact H.
  - destruct l as [|y l']; simpl in H.
    + rewrite andb_false_r in H. discriminate.
    + apply andb_true_iff in H. destruct H as [Hx _]. apply ceq_eq in Hx. subst x. reflexivity.
Qed.

Lemma lower_char_space : forall c, is_space (lower_char c) = is_space c.
Proof. destruct c as [[] [] [] [] [] [] [] []]; reflexivity. Qed.
Lemma lower_char_dash : forall c, ceq (lower_char c) dash = ceq c dash.
Proof. destruct c as [[] [] [] [] [] [] [] []]; reflexivity. Qed.

Lemma lower_dash : forall l, is_dash_line (lower l) = is_dash_line l.
Proof.
  intros l. unfold is_dash_line. f_equal.
  - f_equal. unfold is_empty_line, lower. induction l as [|x l IH]; [reflexivity|]. simpl. rewrite IH, lower_char_space. reflexivity.
  - unfold lower. induction l as [|x l IH]; [reflexivity|]. simpl. rewrite IH, lower_char_space, lower_char_dash. reflexivity.
Qed.

Lemma wf_nbody_hd_not_dash : forall d r, wf_nbody_lines false (d :: r) = true -> is_dash_line d = false.
Proof.
  intros d r H. simpl in H. apply andb_true_iff in H. destruct H as [_ H].
  destruct (is_fence (lower d)) eqn:E.
  - rewrite <- lower_dash. apply fence_not_dash. exact E.
  - apply andb_true_iff in H. destruct H as [H _]. apply andb_true_iff in H. destruct H as [_ H]. apply negb_true_iff in H. exact H.
Qed.

(* the lines of a body, followed by something: all of them go to the current section *)
Lemma nloop_lines : forall o c ls rest cur adm f incode, wf_nbody_lines incode ls = true ->
  rest <> [] -> is_dash_line (hd [] rest) = false ->
  nloop (List.length ls + f) o c cur adm incode (ls ++ rest) = nloop f o c (cur ++ ls) adm false rest.
Proof.
  intros o c ls. induction ls as [|l ls' IH]; intros rest cur adm f incode Hw Hne Hd.
  - simpl in Hw. apply negb_true_iff in Hw. subst incode. simpl. rewrite app_nil_r. reflexivity.
  - simpl in Hw. apply andb_true_iff in Hw. destruct Hw as [Hp Hw].
    simpl List.length. simpl plus. rewrite <- app_comm_cons. rewrite nloop_cons.
    destruct incode.
    + rewrite (IH rest (cur ++ [l]) adm f _ Hw Hne Hd). rewrite <- app_assoc. reflexivity.
    + destruct (is_fence (lower l)) eqn:Ef.
      * rewrite (IH rest (cur ++ [l]) adm f _ Hw Hne Hd). rewrite <- app_assoc. reflexivity.
      * apply andb_true_iff in Hw. destruct Hw as [Hw Hrest]. apply andb_true_iff in Hw. destruct Hw as [Hbl Hdash].
        assert (Hnext : nloop (List.length ls' + f) o c (cur ++ [l]) adm false (ls' ++ rest) = nloop f o c (cur ++ l :: ls') adm false rest).
        { rewrite (IH rest (cur ++ [l]) adm f false Hrest Hne Hd). rewrite <- app_assoc. reflexivity. }
        destruct l as [|x l'].
        -- simpl is_empty_line. cbv iota. exact Hnext.
        -- destruct (is_empty_line (x :: l')) eqn:He; [simpl in Hbl; discriminate|].
           destruct (ls' ++ rest) as [|d after] eqn:E.
           ++ destruct ls'; [simpl in E; congruence|discriminate].
           ++ assert (Hdd : is_dash_line d = false).
              { destruct ls' as [|l2 ls'']; simpl in E.
                - subst rest. exact Hd.
                - inversion E; subst. apply (wf_nbody_hd_not_dash d ls'' Hrest). }
              rewrite Hdd. exact Hnext.
Qed.

(* the lines of a body at the very end of the docstring *)
Lemma nloop_lines_end : forall o c ls cur adm f incode, wf_nbody_lines incode ls = true -> ls <> [] ->
  is_empty_line (last ls []) = false ->
  nloop (S (List.length ls) + f) o c cur adm incode ls = POk (n_append (cur ++ ls) adm).
Proof.
  intros o c ls. induction ls as [|l ls' IH]; intros cur adm f incode Hw Hne Hl; [congruence|].
  simpl in Hw. apply andb_true_iff in Hw. destruct Hw as [Hp Hw].
  assert (Hany : forall X, is_empty_line (last (l :: ls') []) = false -> any_truthy (X ++ l :: ls') = true).
  { intros X H. unfold any_truthy. rewrite existsb_app. apply orb_true_iff. right. apply existsb_exists.
    exists (last (l :: ls') []). split; [apply last_in; discriminate|]. destruct (last (l :: ls') []); [discriminate|reflexivity]. }
  destruct ls' as [|l2 ls''].
  - (* the last line *)
    simpl in Hl. simpl List.length. simpl plus. rewrite nloop_cons.
    assert (Hend : nloop (S f) o c (cur ++ [l]) adm (negb (is_fence (lower l))) [] = POk (n_append (cur ++ [l]) adm) /\
                   nloop (S f) o c (cur ++ [l]) adm true [] = POk (n_append (cur ++ [l]) adm)).
    { split; rewrite nloop_nil; rewrite (Hany cur Hl); rewrite andb_false_r; reflexivity. }
    destruct Hend as [E1 E2].
    destruct incode; [exact E1|].
    destruct (is_fence (lower l)); [exact E2|]. rewrite Hl. reflexivity.
  - change (last (l :: l2 :: ls'') []) with (last (l2 :: ls'') []) in Hl.
    change (S (List.length (l :: l2 :: ls'')) + f) with (S (S (List.length (l2 :: ls'')) + f)).
    rewrite nloop_cons.
    destruct incode.
    + rewrite (IH (cur ++ [l]) adm f _ Hw ltac:(discriminate) Hl). rewrite <- app_assoc. reflexivity.
    + destruct (is_fence (lower l)) eqn:Ef.
      * rewrite (IH (cur ++ [l]) adm f _ Hw ltac:(discriminate) Hl). rewrite <- app_assoc. reflexivity.
      * apply andb_true_iff in Hw. destruct Hw as [Hw Hrest]. apply andb_true_iff in Hw. destruct Hw as [Hbl Hdash].
        assert (Hnext : nloop (S (List.length (l2 :: ls'')) + f) o c (cur ++ [l]) adm false (l2 :: ls'') = POk (n_append (cur ++ l :: l2 :: ls'') adm)).
        { rewrite (IH (cur ++ [l]) adm f false Hrest ltac:(discriminate) Hl). rewrite <- app_assoc. reflexivity. }
        destruct l as [|x l'].
        -- simpl is_empty_line. cbv iota. exact Hnext.
        -- destruct (is_empty_line (x :: l')) eqn:He; [simpl in Hbl; discriminate|].
           rewrite (wf_nbody_hd_not_dash l2 ls'' Hrest). exact Hnext.
Qed.

Lemma wf_nheader_facts : forall h, wf_nheader h = true ->
  h <> [] /\ nsp_head h = true /\ is_fence (lower h) = false /\ is_empty_line h = false /\ is_dash_line (dashes h) = true.
Proof.
  intros h H. unfold wf_nheader in H. apply andb_true_iff in H. destruct H as [H0 Hf].
  destruct (wf_line0_facts h H0) as [Hne [_ [_ Hh]]]. apply negb_true_iff in Hf.
  repeat split; auto. - apply nsp_head_not_empty; exact Hh. - apply is_dash_line_dashes; exact Hne.
Qed.

Lemma nloop_known : forall f o c cur adm h after k b n, wf_nheader h = true ->
  n_section_kind (lower h) = Some k -> n_read_section o c k after = NRS b n ->
  nloop (S f) o c cur adm false (h :: dashes h :: after) =
  pcons (n_append cur adm ++ n_titled k b) (nloop f o c [] [] false (skipn n after)).
Proof.
  intros f o c cur adm h after k b n Hh Hk Hrs. destruct (wf_nheader_facts h Hh) as [_ [_ [Hf [He Hd]]]].
  rewrite nloop_cons. rewrite Hf, He, Hd, Hk, Hrs. reflexivity.
Qed.

Lemma nloop_adm : forall f o c cur adm h after, wf_nheader h = true -> n_section_kind (lower h) = None ->
  nloop (S f) o c cur adm false (h :: dashes h :: after) = pcons (n_append cur adm) (nloop f o c [] h false after).
Proof.
  intros f o c cur adm h after Hh Hk. destruct (wf_nheader_facts h Hh) as [_ [_ [Hf [He Hd]]]].
  rewrite nloop_cons. rewrite Hf, He, Hd, Hk. reflexivity.
Qed.

(* ---- putting sections together *)
Definition n_tail_of (r : list nsec) : list str := match r with [] => [] | _ => [] :: render_numpy r end.

Lemma render_numpy_tail : forall s r, render_numpy (s :: r) = render_nsec s ++ n_tail_of r.
Proof. intros. destruct r; [simpl; rewrite app_nil_r; reflexivity|reflexivity]. Qed.

Lemma render_nontext_head : forall c s, wf_nsec c s = true -> n_is_text s = false ->
  exists h more, render_nsec s = h :: dashes h :: more /\ wf_nheader h = true.
Proof.
  intros c s H Ht. destruct s as [ls|k h its|h ls|h v ls|trim h chunks]; [discriminate| | | |]; simpl in H.
  - apply andb_true_iff in H; destruct H as [H _]. apply andb_true_iff in H; destruct H as [H _].
    apply andb_true_iff in H; destruct H as [H _]. apply andb_true_iff in H; destruct H as [H _].
    eexists. eexists. split; [reflexivity|exact H].
  - apply andb_true_iff in H; destruct H as [H _]. apply andb_true_iff in H; destruct H as [H _].
    eexists. eexists. split; [reflexivity|exact H].
  - apply andb_true_iff in H; destruct H as [H _]. apply andb_true_iff in H; destruct H as [H _].
    apply andb_true_iff in H; destruct H as [H _].
    eexists. eexists. split; [reflexivity|exact H].
  - apply andb_true_iff in H; destruct H as [H _]. apply andb_true_iff in H; destruct H as [H _].
    apply andb_true_iff in H; destruct H as [H _]. apply andb_true_iff in H; destruct H as [H _].
    apply andb_true_iff in H; destruct H as [H _]. apply andb_true_iff in H; destruct H as [H _].
    eexists. eexists. split; [reflexivity|exact H].
Qed.

Definition all_nontext (secs : list nsec) : bool := forallb (fun s => negb (n_is_text s)) secs.

Lemma n_tail_of_ok : forall c r, forallb (wf_nsec c) r = true -> all_nontext r = true ->
  exists tr n, n_tail_ok (n_tail_of r) tr n /\ n = match r with [] => 0 | _ => 1 end.
Proof.
  intros c r H Hnt. destruct r as [|s r'].
  - exists [], 0. split; [constructor|reflexivity].
  - simpl in H. apply andb_true_iff in H. destruct H as [Hs _].
    simpl in Hnt. apply andb_true_iff in Hnt. destruct Hnt as [Hnt _]. apply negb_true_iff in Hnt.
    destruct (render_nontext_head c s Hs Hnt) as [h [more [E Hh]]].
    destruct (wf_nheader_facts h Hh) as [_ [Hns [_ [_ Hd]]]].
    exists [[]], 1. split; [|reflexivity]. unfold n_tail_of. rewrite render_numpy_tail. rewrite E.
    rewrite <- !app_comm_cons. constructor; auto.
Qed.

Lemma n_after_block : forall X r n, n = match r with [] => 0 | _ => 1 end ->
  skipn (List.length X + n) (X ++ n_tail_of r) = render_numpy r.
Proof.
  intros X r n ->. rewrite skipn_app_len. destruct r; reflexivity.
Qed.

Lemma n_expect_item_ne : forall c k mult idx it, wf_nitem k it = true -> n_expect_item c k mult idx it <> [].
Proof.
  intros c k mult idx it H. destruct k; try discriminate; simpl in H; unfold n_expect_item; try discriminate.
  - apply andb_true_iff in H; destruct H as [H _]. apply andb_true_iff in H; destruct H as [H _].
    apply andb_true_iff in H; destruct H as [_ Hne]. destruct (ni_names it); [discriminate|discriminate].
  - apply andb_true_iff in H; destruct H as [H _]. apply andb_true_iff in H; destruct H as [H _].
    apply andb_true_iff in H; destruct H as [_ Hne]. destruct (ni_names it); [discriminate|discriminate].
Qed.

Lemma n_titled_items : forall c k mult it r, wf_nitem k it = true ->
  n_titled k (BItems (n_expect_items c k mult 0 (it :: r))) = [GItems k None (n_expect_items c k mult 0 (it :: r))].
Proof.
  intros c k mult it r H. unfold n_titled, titled.
  assert (Hne := n_expect_item_ne c k mult 0 it H).
  simpl n_expect_items. destruct (n_expect_item c k mult 0 it) as [|p ps]; [congruence|]. reflexivity.
Qed.

Lemma wf_nbody_printable : forall ls incode, wf_nbody_lines incode ls = true -> forall l, In l ls -> forallb printable l = true.
Proof.
  induction ls as [|x ls IH]; intros incode H l Hin; [destruct Hin|].
  simpl in H. apply andb_true_iff in H. destruct H as [Hp H].
  destruct Hin as [<-|Hin]; [exact Hp|].
  destruct incode; [apply (IH _ H l Hin)|].
  destruct (is_fence (lower x)); [apply (IH _ H l Hin)|].
  apply andb_true_iff in H. destruct H as [_ H]. apply (IH _ H l Hin).
Qed.

Lemma wf_body_facts : forall ls, wf_body ls = true ->
  ls <> [] /\ wf_nbody_lines false ls = true /\ (forall l, In l ls -> forallb printable l = true) /\
  last ls [] <> [] /\ is_empty_line (last ls []) = false.
Proof.
  intros ls H. unfold wf_body in H. apply andb_true_iff in H; destruct H as [H Hlast]. apply andb_true_iff in H; destruct H as [Hne Hall].
  assert (Hn : ls <> []) by (destruct ls; [discriminate|discriminate]).
  apply negb_true_iff in Hlast.
  repeat split; auto.
  - apply (wf_nbody_printable ls false Hall).
  - destruct (last ls []); [discriminate|discriminate].
Qed.

(* what a finished body (free text: adm = []; admonition: adm = its title) is turned into *)
Definition flushed (ls : list str) (adm : str) : list gsec :=
  match adm with [] => [GText (join_nl ls)] | _ => [GAdm (n_adm_kind adm) adm (join_nl ls)] end.

Lemma any_truthy_last : forall ls rest, ls <> [] -> last ls [] <> [] -> any_truthy (ls ++ rest) = true.
Proof.
  intros ls rest Hn Hl. unfold any_truthy. rewrite existsb_app. apply orb_true_iff. left.
  apply existsb_exists. exists (last ls []). split; [apply last_in; exact Hn|]. destruct (last ls []); [congruence|reflexivity].
Qed.

Lemma n_append_flushed : forall ls adm, ls <> [] -> (forall l, In l ls -> forallb printable l = true) -> last ls [] <> [] ->
  n_append ls adm = flushed ls adm /\ n_append (ls ++ [[]]) adm = flushed ls adm.
Proof.
  intros ls adm Hn HP Hl. destruct (text_of_join ls Hn HP Hl) as [E1 E2].
  unfold n_append, flushed. destruct adm as [|a adm'].
  - assert (A1 : any_truthy ls = true) by (rewrite <- (app_nil_r ls); apply any_truthy_last; auto).
    assert (A2 : any_truthy (ls ++ [[]]) = true) by (apply any_truthy_last; auto).
    rewrite A1, A2, E1, E2. split; reflexivity.
  - rewrite E1, E2. split; reflexivity.
Qed.

Lemma body_then_rest : forall c ls adm r, wf_body ls = true ->
  (r <> [] -> forall f cur adm', List.length (render_numpy r) < f ->
     nloop f n_default_opts c cur adm' false (render_numpy r) = POk (n_append cur adm' ++ expect_numpy c r)) ->
  forall f, List.length (ls ++ n_tail_of r) < f ->
  nloop f n_default_opts c [] adm false (ls ++ n_tail_of r) = POk (flushed ls adm ++ expect_numpy c r).
Proof.
  intros c ls adm r Hb HP f Hf.
  destruct (wf_body_facts ls Hb) as [Hn [Hok [Hpr [Hl Hle]]]].
  destruct (n_append_flushed ls adm Hn Hpr Hl) as [F1 F2].
  destruct r as [|s2 r'].
  - simpl n_tail_of in *. rewrite app_nil_r in *.
    replace f with (S (List.length ls) + (f - S (List.length ls))) by lia.
    rewrite (nloop_lines_end n_default_opts c ls [] adm _ false Hok Hn Hle).
    simpl app at 1. rewrite F1. rewrite app_nil_r. reflexivity.
  - unfold n_tail_of in *. rewrite app_length in Hf.
    change (List.length ([] :: render_numpy (s2 :: r'))) with (S (List.length (render_numpy (s2 :: r')))) in Hf.
    replace f with (List.length ls + (f - List.length ls)) by lia.
    rewrite (nloop_lines n_default_opts c ls _ [] adm _ false Hok); [|discriminate|reflexivity].
    destruct (f - List.length ls) as [|f'] eqn:Ef; [lia|].
    rewrite nloop_cons. change (is_fence (lower [])) with false. change (is_empty_line []) with true. cbv iota.
    simpl app at 1.
    rewrite (HP ltac:(discriminate) f' (ls ++ [[]]) adm) by lia.
    rewrite F2. reflexivity.
Qed.

Lemma ret_conditions : forall c k h it r, rkindb k = true ->
  (if rkindb k then wf_fallbacks c k (negb (List.length (it :: r) <=? 1)) 0 (it :: r) else true) = true ->
  gap_F6_sec c (NItems k h (it :: r)) = false ->
  wf_fallbacks c k (negb (List.length (it :: r) <=? 1)) 0 (it :: r) = true /\
  ret_G c k (negb (List.length (it :: r) <=? 1)) (it :: r).
Proof.
  intros c k h it r Hk Hfb Hgap. rewrite Hk in Hfb. split; [exact Hfb|].
  intros it' Hin Ea. destruct r as [|it2 r'].
  - destruct Hin as [<-|[]]. unfold gap_F6_sec in Hgap.
    destruct k; try discriminate; [left; reflexivity| |]; cbv beta iota in Hgap.
    + right; right. rewrite Ea in Hgap. intros w es E. rewrite E in Hgap. discriminate.
    + right; right. rewrite Ea in Hgap. intros w es E. rewrite E in Hgap. discriminate.
  - right; left. reflexivity.
Qed.

Theorem numpy_sections : forall c secs,
  forallb (wf_nsec c) secs = true -> all_nontext secs = true -> gap_F6 c secs = false -> secs <> [] ->
  forall f cur adm, List.length (render_numpy secs) < f ->
  nloop f n_default_opts c cur adm false (render_numpy secs) = POk (n_append cur adm ++ expect_numpy c secs).
Proof.
  intros c secs. induction secs as [|s r IH]; intros Hwf Hnt Hgap Hne f cur adm Hf; [congruence|].
  simpl in Hwf. apply andb_true_iff in Hwf. destruct Hwf as [Hs Hr].
  simpl in Hnt. apply andb_true_iff in Hnt. destruct Hnt as [Hs_nt Hr_nt]. apply negb_true_iff in Hs_nt.
  unfold gap_F6 in Hgap. simpl in Hgap. apply orb_false_iff in Hgap. destruct Hgap as [Hgs Hgr].
  assert (IHr : r <> [] -> forall f cur adm', List.length (render_numpy r) < f ->
     nloop f n_default_opts c cur adm' false (render_numpy r) = POk (n_append cur adm' ++ expect_numpy c r)).
  { intros Hrne. apply IH; auto. }
  destruct (n_tail_of_ok c r Hr Hr_nt) as [tr [n [Htail Hn]]].
  rewrite render_numpy_tail in Hf |- *.
  assert (Hrest : forall f' X, List.length (render_numpy r) < f' ->
     nloop f' n_default_opts c [] [] false (skipn (List.length X + n) (X ++ n_tail_of r)) = POk (expect_numpy c r)).
  { intros f' X Hf'. rewrite (n_after_block X r n Hn). destruct r as [|s2 r'].
    - destruct f'; [simpl in Hf'; lia|]. reflexivity.
    - rewrite (IHr ltac:(discriminate) f' [] [] Hf'). reflexivity. }
  destruct s as [ls|k h its|h ls|h v ls|trim h chunks]; [discriminate| | | |].
  - (* a section of items *)
    simpl in Hs.
    apply andb_true_iff in Hs; destruct Hs as [Hs Hfb].
    apply andb_true_iff in Hs; destruct Hs as [Hs Hitems].
    apply andb_true_iff in Hs; destruct Hs as [Hs Hitne].
    apply andb_true_iff in Hs; destruct Hs as [Hh Hkind].
    destruct (n_section_kind (lower h)) as [k'|] eqn:Ek; [|discriminate].
    apply kind_eqb_eq in Hkind. subst k'.
    destruct its as [|it its']; [discriminate|].
    set (X := flat_map (n_item_lines k) (it :: its')) in *.
    change (render_nsec (NItems k h (it :: its'))) with (h :: dashes h :: X) in *.
    assert (Hrs : n_read_section n_default_opts c k (X ++ n_tail_of r) =
                  NRS (BItems (n_expect_items c k (negb (List.length (it :: its') <=? 1)) 0 (it :: its'))) (List.length X + n)).
    { apply (n_read_section_ok c k it its' (n_tail_of r) tr n Htail Hitems).
      intros Hk. apply (ret_conditions c k h it its' Hk Hfb Hgs). }
    destruct f as [|f']; [simpl in Hf; lia|].
    rewrite <- !app_comm_cons.
    rewrite (nloop_known f' n_default_opts c cur adm h _ k _ _ Hh Ek Hrs).
    rewrite Hrest.
    2:{ simpl in Hf. rewrite app_length in Hf. destruct r; simpl in *; lia. }
    assert (Hit : wf_nitem k it = true) by (simpl in Hitems; apply andb_true_iff in Hitems; destruct Hitems as [H _]; exact H).
    rewrite (n_titled_items c k _ it its' Hit). rewrite pcons_ok. rewrite <- app_assoc. reflexivity.
  - (* an admonition *)
    simpl in Hs.
    apply andb_true_iff in Hs; destruct Hs as [Hs Hbody]. apply andb_true_iff in Hs; destruct Hs as [Hh Hkind].
    destruct (n_section_kind (lower h)) as [k'|] eqn:Ek; [discriminate|].
    change (render_nsec (NAdm h ls)) with (h :: dashes h :: ls) in *.
    destruct f as [|f']; [simpl in Hf; lia|].
    rewrite <- !app_comm_cons.
    rewrite (nloop_adm f' n_default_opts c cur adm h _ Hh Ek).
    rewrite (body_then_rest c ls h r Hbody IHr f').
    2:{ simpl in Hf. lia. }
    rewrite pcons_ok. unfold flushed. destruct (wf_nheader_facts h Hh) as [Hhne _]. destruct h as [|x h']; [congruence|]. reflexivity.
  - (* Deprecated *)
    simpl in Hs.
    apply andb_true_iff in Hs; destruct Hs as [Hs Hd]. apply andb_true_iff in Hs; destruct Hs as [Hs Hv].
    apply andb_true_iff in Hs; destruct Hs as [Hh Hkind].
    destruct (n_section_kind (lower h)) as [k'|] eqn:Ek; [|discriminate].
    destruct k'; try discriminate.
    set (X := v :: map (indent_line 4) ls) in *.
    change (render_nsec (NDeprecated h v ls)) with (h :: dashes h :: X) in *.
    assert (Hrs : n_read_section n_default_opts c KDeprecated (X ++ n_tail_of r) =
                  NRS (BItems [mkItem None (Some v) (join_nl ls) None]) (List.length X + n)).
    { unfold X. rewrite <- app_comm_cons. rewrite (n_read_deprecated_ok c v ls (n_tail_of r) tr n Htail Hv Hd).
      simpl List.length. rewrite map_length. reflexivity. }
    destruct f as [|f']; [simpl in Hf; lia|].
    rewrite <- !app_comm_cons.
    rewrite (nloop_known f' n_default_opts c cur adm h _ KDeprecated _ _ Hh Ek Hrs).
    rewrite Hrest.
    2:{ simpl in Hf. rewrite app_length in Hf. destruct r; simpl in *; lia. }
    rewrite pcons_ok. rewrite <- app_assoc. reflexivity.
  - (* Examples *)
    simpl in Hs.
    apply andb_true_iff in Hs; destruct Hs as [Hs Hnd]. apply andb_true_iff in Hs; destruct Hs as [Hs Hadjp].
    apply andb_true_iff in Hs; destruct Hs as [Hs Hchunks]. apply andb_true_iff in Hs; destruct Hs as [Hs Hcne].
    apply andb_true_iff in Hs; destruct Hs as [Hs Htrim]. apply andb_true_iff in Hs; destruct Hs as [Hh Hkind].
    destruct (n_section_kind (lower h)) as [k1|] eqn:Ek; [|discriminate].
    destruct k1; try discriminate. subst trim.
    assert (Hcn : chunks <> []) by (destruct chunks; [discriminate|discriminate]).
    set (X := flatten_chunks chunks) in *.
    change (render_nsec (NExamples true h chunks)) with (h :: dashes h :: X) in *.
    assert (Hrs := n_read_examples_ok c chunks (n_tail_of r) tr n Htail Hchunks Hadjp Hcn Hnd). fold X in Hrs.
    assert (Hlen : 2 + List.length X + List.length (n_tail_of r) < f).
    { rewrite app_length in Hf. simpl List.length in Hf. lia. }
    destruct f as [|f1]; [lia|].
    rewrite <- !app_comm_cons.
    rewrite (nloop_known f1 n_default_opts c cur adm h _ KExamples _ _ Hh Ek Hrs).
    (* the reader stops in front of the blank line that separates the sections: the main loop skips it *)
    assert (Hafter : nloop f1 n_default_opts c [] [] false (skipn (List.length X + 0) (X ++ n_tail_of r)) = POk (expect_numpy c r)).
    { rewrite skipn_app_len. simpl skipn. destruct r as [|s2 r1].
      - simpl n_tail_of. destruct f1; [lia|]. reflexivity.
      - unfold n_tail_of in *.
        change (List.length ([] :: render_numpy (s2 :: r1))) with (S (List.length (render_numpy (s2 :: r1)))) in Hlen.
        destruct f1 as [|f2]; [lia|].
        rewrite nloop_cons. change (is_fence (lower [])) with false. change (is_empty_line []) with true. cbv iota.
        rewrite (IHr ltac:(discriminate) f2 ([] ++ [[]]) []) by lia. reflexivity. }
    rewrite Hafter.
    assert (Htitled : n_titled KExamples (BExamples (map (expect_chunk true) chunks)) = [GExamples None (map (expect_chunk true) chunks)]).
    { destruct chunks; [congruence|reflexivity]. }
    rewrite Htitled. rewrite pcons_ok. rewrite <- app_assoc. reflexivity.
Qed.

(* the whole docstring: optional free text first, then sections *)
Theorem numpy_roundtrip : forall c secs, wf_nsecs c secs = true -> gap_F6 c secs = false ->
  parse_numpy n_default_opts c (render_numpy secs) = POk (expect_numpy c secs).
Proof.
  intros c secs Hwf Hgap. unfold parse_numpy. simpl n_skip_summary. cbv iota.
  unfold wf_nsecs in Hwf. apply andb_true_iff in Hwf. destruct Hwf as [Hall Htl].
  destruct secs as [|s r].
  - reflexivity.
  - simpl tl in Htl. simpl in Hall. apply andb_true_iff in Hall. destruct Hall as [Hs Hr].
    unfold gap_F6 in Hgap. simpl in Hgap. apply orb_false_iff in Hgap. destruct Hgap as [Hgs Hgr].
    destruct (n_is_text s) eqn:Et.
    + destruct s as [ls| | | |]; try discriminate. simpl in Hs.
      rewrite render_numpy_tail. change (render_nsec (NText ls)) with ls.
      rewrite (body_then_rest c ls [] r Hs).
      * reflexivity.
      * intros Hrne f cur adm' Hf. apply numpy_sections; auto.
      * lia.
    + assert (Hnt : all_nontext (s :: r) = true) by (unfold all_nontext; simpl; rewrite Et; exact Htl).
      assert (Hw : forallb (wf_nsec c) (s :: r) = true) by (simpl; rewrite Hs, Hr; reflexivity).
      assert (Hg : gap_F6 c (s :: r) = false) by (unfold gap_F6; simpl; rewrite Hgs; exact Hgr).
      rewrite (numpy_sections c (s :: r) Hw Hnt Hg ltac:(discriminate) _ [] []); [reflexivity|lia].
Qed.

(* ---- consequences and witnesses *)
Lemma wf_nsecs_single : forall c s, wf_nsec c s = true -> wf_nsecs c [s] = true.
Proof. intros c s H. unfold wf_nsecs. simpl. rewrite H. reflexivity. Qed.

(* no content crosses a section boundary *)
Theorem numpy_no_leak : forall c secs i s, wf_nsecs c secs = true -> gap_F6 c secs = false -> nth_error secs i = Some s ->
  exists parsed,
    parse_numpy n_default_opts c (render_numpy secs) = POk parsed /\
    nth_error parsed i = Some (n_expect_sec c s) /\
    parse_numpy n_default_opts c (render_numpy [s]) = POk [n_expect_sec c s].
Proof.
  intros c secs i s Hwf Hgap Hn.
  exists (expect_numpy c secs). split; [apply numpy_roundtrip; auto|]. split.
  - unfold expect_numpy. rewrite nth_error_map. rewrite Hn. reflexivity.
  - assert (Hs : wf_nsec c s = true).
    { unfold wf_nsecs in Hwf. apply andb_true_iff in Hwf. destruct Hwf as [Hall _].
      rewrite forallb_forall in Hall. apply Hall. eapply nth_error_In; eauto. }
    assert (Hg : gap_F6 c [s] = false).
    { unfold gap_F6 in *. simpl. rewrite orb_false_r.
      destruct (gap_F6_sec c s) eqn:E; [|reflexivity].
      assert (existsb (gap_F6_sec c) secs = true) by (apply existsb_exists; exists s; split; [eapply nth_error_In; eauto|exact E]).
      congruence. }
    apply (numpy_roundtrip c [s] (wf_nsecs_single c s Hs) Hg).
Qed.

(* what the signature contributes: each of the names documented together gets its own annotation and default *)
Definition param_items (c : pctx) (it : nitem) : list pitem :=
  map (fun nm => mkItem (Some nm)
                        (match ni_ann it with Some a => Some a | None => parent_annotation c nm end)
                        (join_nl (ni_desc it))
                        (match ni_default it with Some (_, v) => Some v | None => parent_default c nm end))
      (ni_names it).

Lemma n_expect_items_params : forall c k mult its idx, pkindP k ->
  n_expect_items c k mult idx its = flat_map (param_items c) its.
Proof.
  intros c k mult its. induction its as [|it r IH]; intros idx Hk; [reflexivity|].
  simpl. rewrite (IH (S idx) Hk). f_equal.
  unfold n_expect_item, param_items. destruct Hk; subst k; apply map_ext; intros nm; unfold parent_annotation, parent_default, orelse, omap;
    destruct (ni_ann it); destruct (ni_default it) as [[f v]|]; reflexivity.
Qed.

Theorem numpy_signature_fallback_params : forall c h its k, (k = KParams \/ k = KOther) ->
  wf_nsecs c [NItems k h its] = true ->
  parse_numpy n_default_opts c (render_numpy [NItems k h its]) = POk [GItems k None (flat_map (param_items c) its)].
Proof.
  intros c h its k Hk Hwf.
  assert (Hg : gap_F6 c [NItems k h its] = false).
  { unfold gap_F6. simpl. rewrite orb_false_r. destruct its as [|it [|it2 r]]; try reflexivity. destruct Hk; subst k; reflexivity. }
  rewrite (numpy_roundtrip c _ Hwf Hg). unfold expect_numpy. simpl map. unfold n_expect_sec.
  rewrite (n_expect_items_params c k _ its 0 Hk). reflexivity.
Qed.

(* finding C13-F5 in the model: the documented "just the name" spelling of a Returns item is read as its type *)
Definition f5_lines : list str := map s_of ["Summary."; ""; "Returns"; "-------"; "success"; "    Whether it succeeded."]%string.
Lemma numpy_bare_name_F5 :
  parse_numpy n_default_opts no_parent f5_lines =
  POk [GText (s_of "Summary.");
       GItems KReturns None [mkItem (Some []) (Some (s_of "success")) (s_of "Whether it succeeded.") None]].
Proof. vm_compute. reflexivity. Qed.

(* finding C13-F6: a single Yields item without type, parent Iterator[tuple[int, str]]: first element instead of the tuple *)
Definition f6_ctx : pctx :=
  mkCtx (Some []) (Some []) (RIter (s_of "Iterator[tuple[int, str]]") (RPTuple (s_of "tuple[int, str]") [s_of "int"; s_of "str"])).
Definition f6_doc : list nsec :=
  [NText [s_of "Summary."]; NItems KYields (s_of "Yields") [mkNI [] None None false [s_of "Both."] 0]].
Lemma numpy_single_yield_F6 :
  wf_nsecs f6_ctx f6_doc = true /\ gap_F6 f6_ctx f6_doc = true /\
  parse_numpy n_default_opts f6_ctx (render_numpy f6_doc) =
    POk [GText (s_of "Summary."); GItems KYields None [mkItem (Some []) (Some (s_of "int")) (s_of "Both.") None]] /\
  expect_numpy f6_ctx f6_doc =
    [GText (s_of "Summary."); GItems KYields None [mkItem (Some []) (Some (s_of "tuple[int, str]")) (s_of "Both.") None]].
Proof. vm_compute. repeat split; reflexivity. Qed.

(* non-vacuity: free text with a fenced block (a dash-underlined line inside it), parameters documented together with `, optional`, a default, a signature fallback, blank
   lines between items, a dash-only line inside a description, two Returns items relying on the parent's tuple, an
   admonition, Raises, Deprecated *)
Definition n_sample_ctx : pctx :=
  mkCtx (Some [(s_of "a", (Some (s_of "int"), None)); (s_of "b", (Some (s_of "str"), Some (s_of "'x'"))); (s_of "d", (Some (s_of "bool"), Some (s_of "True")))])
        (Some []) (RPlain (RPTuple (s_of "tuple[int, str]") [s_of "int"; s_of "str"])).
Definition n_sample_doc : list nsec :=
  [NText [s_of "Summary line."; []; s_of "More text: with a colon."; s_of "```"; s_of "Title"; s_of "-----"; s_of "   "; s_of "```"];
   NItems KParams (s_of "Parameters")
     [mkNI [s_of "a"; s_of "*b"] (Some (s_of "int")) None true [s_of "Both of them."; s_of "-----"; []; s_of "    code"; s_of "end."] 1;
      mkNI [s_of "c"] (Some (s_of "list[int]")) (Some (1, s_of "[1, 2]")) false [s_of "With default."] 0;
      mkNI [s_of "d"; s_of "b"] None None false [s_of "From the signature."] 2];
   NItems KReturns (s_of "returns")
     [mkNI [s_of "first"] None None false [s_of "The int."] 0;
      mkNI [] None None false [s_of "The str."; s_of "Parameters"] 0];
   NAdm (s_of "Notes") [s_of "Some note."; []; s_of "Second paragraph."];
   NItems KRaises (s_of "Raises") [mkNI [] (Some (s_of "ValueError")) None false [s_of "When wrong."] 0];
   NDeprecated (s_of "Deprecated") (s_of "1.2") [s_of "Use something else."];
   NExamples true (s_of "Examples")
     [(false, [s_of "Some prose."]); (true, [s_of ">>> f(1)  # doctest: +SKIP"; s_of "<BLANKLINE>"; s_of "1"]); (true, [s_of ">>> g()"])];
   NAdm (s_of "See Also") [s_of "other"]].
Example n_sample_wf : wf_nsecs n_sample_ctx n_sample_doc = true /\ gap_F6 n_sample_ctx n_sample_doc = false.
Proof. vm_compute. split; reflexivity. Qed.
Example n_sample_parsed :
  parse_numpy n_default_opts n_sample_ctx (render_numpy n_sample_doc) = POk (expect_numpy n_sample_ctx n_sample_doc) /\
  nth_error (expect_numpy n_sample_ctx n_sample_doc) 1 =
  Some (GItems KParams None
    [mkItem (Some (s_of "a")) (Some (s_of "int")) (s_of "Both of them.
-----

    code
end.") None;
     mkItem (Some (s_of "*b")) (Some (s_of "int")) (s_of "Both of them.
-----

    code
end.") (Some (s_of "'x'"));
     mkItem (Some (s_of "c")) (Some (s_of "list[int]")) (s_of "With default.") (Some (s_of "[1, 2]"));
     mkItem (Some (s_of "d")) (Some (s_of "bool")) (s_of "From the signature.") (Some (s_of "True"));
     mkItem (Some (s_of "b")) (Some (s_of "str")) (s_of "From the signature.") (Some (s_of "'x'"))]).
Proof. vm_compute. split; reflexivity. Qed.
