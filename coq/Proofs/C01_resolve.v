(* C01 decorator-name resolution proofs: every definition's decorators are resolved against the frames the level
   semantics (= the visitor machine) has reached at that definition; resolution leaves no reference behind and never
   touches anything but unresolved references. *)
From Coq Require Import List ZArith String Ascii Bool Arith Lia.
From Verif Require Import Lib.Sexp Model.C01_base Gen.C01_tables Model.C01_visitor Model.C01_content Model.C01_resolve
  Proofs.C01_visitor Proofs.C01_content.
Import ListNotations.
Open Scope string_scope.
Open Scope list_scope.
Open Scope nat_scope.

Lemma rl_eq : forall l g pk own up env,
  (fix rl (g : bool) (pk : pkind) (own up : frame) (env : resolver) (l : list stmt) {struct l} : list stmt :=
     match l with
     | [] => []
     | x :: r =>
         let x' := resolve_stmt g pk own up env x in
         let a := sem_stmt g pk (next_doc r None) x' own up in
         x' :: rl g pk (l_own a) (l_up a) env r
     end) g pk own up env l = resolve_list g pk None own up env l.
Proof. induction l; intros; simpl; [reflexivity|]. rewrite IHl. reflexivity. Qed.

(* what resolution does to each kind of statement *)
Lemma resolve_SDef : forall g pk own up env ln dln eln name a ds body,
  resolve_stmt g pk own up env (SDef ln dln eln name a ds body) =
  (let ds' := map (resolve_deco own up env) ds in
   if descends own name a ds' then
     SDef ln dln eln name a ds'
          (resolve_list g PFunction None (empty_frame InInit name (child_path own name))
             (fst (op_def g ln dln eln name a ds' (head_doc body) own)) env body)
   else SDef ln dln eln name a ds' body).
Proof. intros. cbv zeta. simpl resolve_stmt. destruct (descends own name a _); [rewrite rl_eq|]; reflexivity. Qed.
Lemma resolve_SCls : forall g pk own up env ln dln eln name ds body,
  resolve_stmt g pk own up env (SCls ln dln eln name ds body) =
  (let ds' := map (resolve_deco own up env) ds in
   let own1 := set_members own (assign name (leaf (cls_info g ln dln eln ds' body)) (fmembers own)) in
   SCls ln dln eln name ds'
        (resolve_list g PScope None (empty_frame InClass name (child_path own name)) sentinel (class_env own1 up env) body)).
Proof. intros. cbv zeta. simpl resolve_stmt. rewrite rl_eq. reflexivity. Qed.
Lemma resolve_SIf : forall g pk own up env tc body orelse,
  resolve_stmt g pk own up env (SIf tc body orelse) =
  (let body' := resolve_list (gbody g pk tc) PIf None own up env body in
   let a := sem_list (gbody g pk tc) PIf None body' own up in
   SIf tc body' (resolve_list (gelse g pk tc) PIf None (l_own a) (l_up a) env orelse)).
Proof. intros. cbv zeta. simpl resolve_stmt. rewrite !rl_eq. reflexivity. Qed.
Lemma resolve_SBlock : forall g pk own up env ch,
  resolve_stmt g pk own up env (SBlock ch) = SBlock (resolve_list g POther None own up env ch).
Proof. intros. simpl resolve_stmt. rewrite rl_eq. reflexivity. Qed.
Lemma resolve_SSub : forall g pk own up env h body,
  resolve_stmt g pk own up env (SSub h body) = SSub h (resolve_list g (if h then PHandler else POther) None own up env body).
Proof. intros. simpl resolve_stmt. rewrite rl_eq. reflexivity. Qed.

Lemma next_doc_app : forall r rest follow, next_doc (r ++ rest) follow = next_doc r (next_doc rest follow).
Proof. destruct r as [|[] ?]; reflexivity. Qed.

(* Resolution in scope.  Cut a statement list anywhere: the statements after the cut are resolved against exactly
   the frames that the level semantics (= the visitor machine, C01_type_guard_flag) has reached after executing the
   resolved statements before the cut. *)
Theorem resolve_list_app : forall pre rest g pk follow own up env,
  resolve_list g pk follow own up env (pre ++ rest) =
  (let pre' := resolve_list g pk (next_doc rest follow) own up env pre in
   let a := sem_list g pk (next_doc rest follow) pre' own up in
   pre' ++ resolve_list g pk follow (l_own a) (l_up a) env rest).
Proof.
  induction pre as [|x r IH]; intros; cbv zeta.
  - reflexivity.
  - simpl app.
    change (resolve_list g pk follow own up env (x :: r ++ rest)) with
      (let x' := resolve_stmt g pk own up env x in
       let a := sem_stmt g pk (next_doc (r ++ rest) follow) x' own up in
       x' :: resolve_list g pk follow (l_own a) (l_up a) env (r ++ rest)).
    change (resolve_list g pk (next_doc rest follow) own up env (x :: r)) with
      (let x' := resolve_stmt g pk own up env x in
       let a := sem_stmt g pk (next_doc r (next_doc rest follow)) x' own up in
       x' :: resolve_list g pk (next_doc rest follow) (l_own a) (l_up a) env r).
    cbv zeta. rewrite next_doc_app.
    set (x' := resolve_stmt g pk own up env x).
    set (a := sem_stmt g pk (next_doc r (next_doc rest follow)) x' own up).
    rewrite IH. cbv zeta. simpl app. f_equal. f_equal.
    assert (N : forall l0, next_doc (resolve_list g pk (next_doc rest follow) (l_own a) (l_up a) env r) l0 = next_doc r l0).
    { intros. destruct r as [|y r']; [reflexivity|]. simpl resolve_list.
      destruct y; rewrite ?resolve_SDef, ?resolve_SCls, ?resolve_SIf, ?resolve_SBlock, ?resolve_SSub; cbv zeta;
        try destruct (descends _ _ _ _); reflexivity. }
    rewrite N. fold a. reflexivity.
Qed.

(* the one statement at a cut: its decorators are looked up in [own] / [up] / [env] of that moment *)
Corollary resolved_in_scope : forall pre x post g pk follow own up env,
  let pre' := resolve_list g pk (next_doc (x :: post) follow) own up env pre in
  let a := sem_list g pk (next_doc (x :: post) follow) pre' own up in
  nth_error (resolve_list g pk follow own up env (pre ++ x :: post)) (List.length pre) =
  Some (resolve_stmt g pk (l_own a) (l_up a) env x).
Proof.
  intros. rewrite resolve_list_app. cbv zeta. fold pre'. fold a.
  assert (L : List.length pre' = List.length pre).
  { unfold pre'. clear. generalize own, up. induction pre; intros; simpl; [reflexivity|]. rewrite IHpre. reflexivity. }
  rewrite nth_error_app2; [|lia]. rewrite L, Nat.sub_diag. reflexivity.
Qed.

(* resolution leaves no reference and touches nothing else *)
Lemma resolve_deco_resolved : forall own up env d, deco_resolved (resolve_deco own up env d) = true.
Proof. destruct d; reflexivity. Qed.
Lemma resolve_deco_id : forall own up env d, deco_resolved d = true -> resolve_deco own up env d = d.
Proof. destruct d; simpl; intros; [reflexivity|reflexivity|discriminate]. Qed.

(* the rule itself *)
Theorem resolution_rule : forall own up env h,
  resolve_head own up env h =
  match fkind own with
  | InModule => scope_lookup own h
  | InClass => orelse (scope_lookup own h) (env h)
  | InInit => orelse (scope_lookup own h)
                     (if String.eqb h (fname up) then Some (fpath up) else orelse (scope_lookup up h) (env h))
  end.
Proof. reflexivity. Qed.

(* ---------- non-vacuity: one spelling, two meanings ---------- *)
(*  1 from functools import cached_property
    2 class A:
    3     @cached_property                  -> functools.cached_property: a property
    4     def x(self): ...
    5     def cached_property(f): ...       (shadows the spelling in the rest of THIS class body)
    6     @cached_property                  -> m.A.cached_property: a plain function
    7     def y(self): ...
    8     class Inner:
    9         @cached_property              -> enclosing class bodies are skipped: functools again
   10         def z(self): ...
   11 def property(f): ...                  (rebinds the builtin spelling from here on)
   12 class B:
   13     @property                         -> m.property: a plain function
   14     def p(self): ...                                                                            *)
Definition shadow_sample : list stmt :=
  [SImportFrom 1 1 [IName "cached_property" "functools.cached_property"];
   SCls 2 2 10 "A" []
     [SDef 4 3 4 "x" false [DRef "cached_property" ""] [SOther];
      SDef 5 5 5 "cached_property" false [] [SOther];
      SDef 7 6 7 "y" false [DRef "cached_property" ""] [SOther];
      SCls 8 8 10 "Inner" [] [SDef 10 9 10 "z" false [DRef "cached_property" ""] [SOther]]];
   SDef 11 11 11 "property" false [] [SOther];
   SCls 12 12 14 "B" [] [SDef 14 13 14 "p" false [DRef "property" ""] [SOther]]].
Example shadow_sample_ok :
  exists r, run_visit "m" (resolve_module "m" shadow_sample) = Ok r /\
    exists a, lookup "A" (r_members r) = Some a /\
      map (fun p => (fst p, ikind (snd p), ilabels (snd p))) (minfo (omembers a)) =
        [("x", KAttr, ["cached"; "property"]); ("cached_property", KFun, []); ("y", KFun, []); ("Inner", KCls, [])] /\
      (exists i, lookup "Inner" (omembers a) = Some i /\
         map (fun p => (fst p, ikind (snd p), ilabels (snd p))) (minfo (omembers i)) = [("z", KAttr, ["cached"; "property"])]) /\
    exists b, lookup "B" (r_members r) = Some b /\
      map (fun p => (fst p, ikind (snd p), ilabels (snd p))) (minfo (omembers b)) = [("p", KFun, [])].
Proof.
  eexists. split; [vm_compute; reflexivity|]. eexists. split; [vm_compute; reflexivity|].
  split; [vm_compute; reflexivity|]. split.
  - eexists. split; vm_compute; reflexivity.
  - eexists. split; vm_compute; reflexivity.
Qed.
