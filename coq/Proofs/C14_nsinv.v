(* C14, namespace packages and the listing order, finder stage: under every permutation of every directory listing the
   repaired iter_submodules(list of portions) yields the same SET of entries.  The provider of a folder and the winner
   among same-named modules are decided by the order of the PORTIONS (search-path order) and by depth, never by the
   order in which a directory lists its entries. *)
From Coq Require Import List ZArith String Ascii Bool Arith Lia Permutation Sorting.Sorted.
From Verif Require Import Lib.Sexp Model.C14_finder Proofs.C14_finder Proofs.C14_order Proofs.C14_ns.
Import ListNotations.
Open Scope string_scope. Open Scope list_scope.

(* ------------------------------------------------------------------------------------------------------------- *)
(* A.  the provider of a folder: the first eligible __init__ entry in depth order *)
Definition elig (P : provs) (k : list string) (i : entry) : bool :=
  is_init_entry i && negb (path_suffix (e_abs i) =? ".pyi") && lstr_eqb (e_parts i) k &&
  negb (shadowed P (e_base i) (removelast k)).

Lemma existsb_ext_in' : forall (A : Type) (f g : A -> bool) l, (forall a, In a l -> f a = g a) -> existsb f l = existsb g l.
Proof. induction l as [|a l IH]; intros H; simpl; auto. rewrite H by (left; auto). f_equal. apply IH. intros. apply H. right; auto. Qed.

Lemma shadowed_ext_len : forall P P' d f,
  (forall k, List.length k <= List.length f -> prov_get P k = prov_get P' k) -> shadowed P d f = shadowed P' d f.
Proof.
  intros P P' d f H. unfold shadowed. apply existsb_ext_in'. intros j Hj. apply in_seq in Hj.
  rewrite H. reflexivity. rewrite firstn_length. lia.
Qed.

Lemma prov_step_get : forall P e k,
  prov_get (prov_step P e) k =
    match prov_get P k with
    | Some d => Some d
    | None => if is_init_entry e && negb (path_suffix (e_abs e) =? ".pyi") && negb (shadowed P (e_base e) (removelast (e_parts e)))
                 && lstr_eqb (e_parts e) k then Some (e_base e) else None
    end.
Proof.
  intros P e k. unfold prov_step.
  destruct (is_init_entry e && negb (path_suffix (e_abs e) =? ".pyi") && negb (shadowed P (e_base e) (removelast (e_parts e)))); simpl.
  - destruct (prov_get P (e_parts e)) as [d0|] eqn:E0.
    + destruct (prov_get P k) eqn:Ek; auto. destruct (lstr_eqb (e_parts e) k) eqn:Eq; auto. apply lstr_eqb_eq in Eq. congruence.
    + rewrite prov_get_app. destruct (prov_get P k); auto.
  - destruct (prov_get P k); auto.
Qed.

(* entries of depth >= n do not touch the keys shorter than n *)
Lemma fold_prov_short : forall L P0 n, (forall i, In i L -> n <= depth i) ->
  forall k, List.length k < n -> prov_get (fold_left prov_step L P0) k = prov_get P0 k.
Proof.
  induction L as [|i L IH]; intros P0 n H k Hk; simpl; auto.
  rewrite (IH _ n) by (intros; auto; apply H; right; auto). rewrite prov_step_get.
  destruct (prov_get P0 k); auto.
  destruct (lstr_eqb (e_parts i) k) eqn:E. apply lstr_eqb_length in E. specialize (H i (or_introl eq_refl)). unfold depth in H. lia.
  rewrite andb_false_r. reflexivity.
Qed.

Definition dsorted (L : list entry) : Prop := StronglySorted (fun a b => depth a <= depth b) L.

Lemma prov_char : forall L P0, dsorted L -> (forall i, In i L -> e_parts i <> []) ->
  forall k, prov_get (fold_left prov_step L P0) k =
    match prov_get P0 k with
    | Some d => Some d
    | None => option_map e_base (hd_error (filter (elig (fold_left prov_step L P0) k) L))
    end.
Proof.
  induction L as [|i L IH]; intros P0 Hs Hne k; simpl.
  - destruct (prov_get P0 k); reflexivity.
  - inversion Hs as [|? ? Hs' Hall]; subst. rewrite Forall_forall in Hall.
    set (P1 := prov_step P0 i). set (Pf := fold_left prov_step L P1).
    rewrite (IH P1 Hs') by (intros; apply Hne; right; auto). fold Pf.
    unfold P1 at 1. rewrite prov_step_get.
    destruct (prov_get P0 k) as [d|] eqn:E0; auto.
    (* stability: the ancestors' providers are settled when the entry is met *)
    assert (Hstab : lstr_eqb (e_parts i) k = true ->
              shadowed Pf (e_base i) (removelast k) = shadowed P0 (e_base i) (removelast (e_parts i))).
    { intro Eq. apply lstr_eqb_eq in Eq. subst k. apply shadowed_ext_len. intros k' Hk'.
      unfold Pf. rewrite (fold_prov_short L P1 (depth i)).
      - unfold P1. rewrite prov_step_get. destruct (prov_get P0 k'); auto.
        destruct (lstr_eqb (e_parts i) k') eqn:E. apply lstr_eqb_length in E.
        pose proof (length_removelast _ (Hne i (or_introl eq_refl))). lia. rewrite andb_false_r. reflexivity.
      - intros x Hx. apply Hall. auto.
      - pose proof (length_removelast _ (Hne i (or_introl eq_refl))). unfold depth. lia. }
    assert (He : elig Pf k i = is_init_entry i && negb (path_suffix (e_abs i) =? ".pyi") && lstr_eqb (e_parts i) k &&
                                 negb (shadowed Pf (e_base i) (removelast k))) by reflexivity.
    rewrite He. destruct (lstr_eqb (e_parts i) k) eqn:Eq.
    + rewrite Hstab by auto. rewrite !andb_true_r.
      destruct (is_init_entry i && negb (path_suffix (e_abs i) =? ".pyi")) eqn:A; simpl.
      * destruct (shadowed P0 (e_base i) (removelast (e_parts i))); simpl; reflexivity.
      * reflexivity.
    + rewrite !andb_false_r. simpl. reflexivity.
Qed.

(* among entries of one depth the stable depth sort keeps the order *)
Lemma filter_depth_sort : forall (S : entry -> bool) l j, (forall x, S x = true -> depth x = j) ->
  filter S (depth_sort l) = filter S l.
Proof.
  intros S l j HS. unfold depth_sort.
  assert (G : forall ds, NoDup ds ->
            filter S (flat_map (fun d => filter (fun e => (depth e =? d)%nat) l) ds) = if existsb (Nat.eqb j) ds then filter S l else []).
  { induction ds as [|d ds IH]; intros Hnd; simpl. reflexivity.
    inversion Hnd as [|? ? Hd Hnd']; subst. rewrite filter_app, IH by auto.
    assert (Hb : filter S (filter (fun e => (depth e =? d)%nat) l) = if (j =? d)%nat then filter S l else []).
    { clear -HS. induction l as [|x l IHl]; simpl. destruct (j =? d)%nat; reflexivity.
      destruct (S x) eqn:Sx.
      - rewrite (HS x Sx). destruct (j =? d)%nat eqn:Ej; simpl.
        + rewrite Sx, IHl. reflexivity.
        + rewrite IHl. reflexivity.
      - destruct (depth x =? d)%nat; simpl; rewrite ?Sx, IHl; destruct (j =? d)%nat; reflexivity. }
    rewrite Hb. destruct (j =? d)%nat eqn:Ej; simpl.
    - apply Nat.eqb_eq in Ej. subst d. replace (existsb (Nat.eqb j) ds) with false. rewrite app_nil_r. reflexivity.
      symmetry. apply not_true_iff_false. intro E. apply existsb_exists in E. destruct E as (y & Hy & E). apply Nat.eqb_eq in E. subst. contradiction.
    - reflexivity. }
  rewrite G by apply seq_NoDup.
  destruct (existsb (Nat.eqb j) (seq 0 (Datatypes.S (max_depth l)))) eqn:E; auto.
  (* j is beyond every depth: nothing satisfies S *)
  symmetry. induction l as [|x l0 IHl] using rev_ind; auto.
  assert (Hnone : forall y, In y (l0 ++ [x]) -> S y = false).
  { intros y Hy. destruct (S y) eqn:Sy; auto. exfalso. rewrite <- not_true_iff_false in E. apply E.
    apply existsb_exists. exists j. split. apply in_seq. pose proof (max_depth_ge _ _ Hy). rewrite (HS y Sy) in H. lia. apply Nat.eqb_refl. }
  clear -Hnone. induction (l0 ++ [x]) as [|y l IHl]; simpl; auto. rewrite (Hnone y (or_introl eq_refl)). apply IHl. intros. apply Hnone. right; auto.
Qed.

(* ------------------------------------------------------------------------------------------------------------- *)
(* A'.  what first_wins lets through: the entries that are not shadowed and, for source files, whose portion is the
   portion of the FIRST such file of that name and suffix *)
Definition fkey_eqb (a b : list string * string) : bool := lstr_eqb (fst a) (fst b) && (snd a =? snd b).

Lemma fkey_eqb_eq : forall a b, fkey_eqb a b = true <-> a = b.
Proof.
  intros [p s] [q t]. unfold fkey_eqb. simpl. rewrite andb_true_iff, lstr_eqb_eq, String.eqb_eq. split.
  intros [-> ->]; auto. intro H; inversion H; auto.
Qed.

Lemma fkey_eqb_refl : forall a, fkey_eqb a a = true.
Proof. intro a. apply fkey_eqb_eq. auto. Qed.

Lemma found_get_eqb : forall F k k', fkey_eqb k k' = true -> found_get F k = found_get F k'.
Proof. intros F k k' H. apply fkey_eqb_eq in H. subst. auto. Qed.

Definition nsh (P : provs) (x : entry) : bool := negb (shadowed P (e_base x) (e_folders x)).
Definition fsel (P : provs) (key : list string * string) (y : entry) : bool := src y && fkey_eqb (fkey y) key && nsh P y.
Definition firstb (P : provs) (subs : list entry) (key : list string * string) : option path :=
  option_map e_base (hd_error (filter (fsel P key) subs)).

Lemma fw_char : forall P subs F x,
  In x (first_wins P subs F) <->
  In x subs /\ nsh P x = true /\
  (src x = true -> match found_get F (fkey x) with Some d => Some d | None => firstb P subs (fkey x) end = Some (e_base x)).
Proof.
  intros P. induction subs as [|y r IH]; intros F x; simpl. tauto.
  assert (Hfb : forall key, fsel P key y = false -> firstb P (y :: r) key = firstb P r key).
  { intros key H. unfold firstb. simpl. rewrite H. reflexivity. }
  destruct (shadowed P (e_base y) (e_folders y)) eqn:Sh.
  - (* y is shadowed *)
    assert (Hy : forall key, fsel P key y = false) by (intro; unfold fsel, nsh; rewrite Sh; apply andb_false_r).
    rewrite IH. split.
    + intros (H1 & H2 & H3). split. right; exact H1. split. exact H2. intro Hs. rewrite Hfb by auto. auto.
    + intros (H1 & H2 & H3). destruct H1 as [Hx|H1].
      * subst x. unfold nsh in H2. rewrite Sh in H2. discriminate.
      * split. exact H1. split. exact H2. intro Hs. rewrite <- Hfb by auto. auto.
  - fold (src y). destruct (src y) eqn:Sy; simpl.
    + fold (fkey y). destruct (found_get F (fkey y)) as [d|] eqn:Fy.
      * (* the name is taken already *)
        assert (Hcase : forall x0, In x0 r -> (In x0 (first_wins P r F) <->
                   nsh P x0 = true /\ (src x0 = true -> match found_get F (fkey x0) with Some d0 => Some d0 | None => firstb P (y :: r) (fkey x0) end = Some (e_base x0)))).
        { intros x0 Hx0. rewrite IH. split.
          - intros (_ & H2 & H3). split; auto. intro Hs. specialize (H3 Hs).
            destruct (found_get F (fkey x0)) eqn:Fx; auto. rewrite Hfb; auto.
            unfold fsel. destruct (fkey_eqb (fkey y) (fkey x0)) eqn:Ek. rewrite (found_get_eqb F _ _ Ek) in Fy. congruence.
            rewrite andb_false_r. reflexivity.
          - intros (H2 & H3). split; auto. split; auto. intro Hs. specialize (H3 Hs).
            destruct (found_get F (fkey x0)) eqn:Fx; auto. rewrite Hfb in H3; auto.
            unfold fsel. destruct (fkey_eqb (fkey y) (fkey x0)) eqn:Ek. rewrite (found_get_eqb F _ _ Ek) in Fy. congruence.
            rewrite andb_false_r. reflexivity. }
        destruct (path_eqb d (e_base y)) eqn:Ed.
        -- apply path_eqb_eq in Ed. subst d. simpl. split.
           ++ intros [Hx|H].
              ** subst x. split. left; reflexivity. split. unfold nsh; rewrite Sh; reflexivity. intros _. rewrite Fy. reflexivity.
              ** pose proof (first_wins_incl P r F x H) as [Hin _]. apply (Hcase x Hin) in H. destruct H as [H2 H3].
                 split. right; exact Hin. split; assumption.
           ++ intros (H1 & H2 & H3). destruct H1 as [Hx|H1]. left; exact Hx. right. apply (Hcase x H1). split; assumption.
        -- split.
           ++ intro H. pose proof (first_wins_incl P r F x H) as [Hin _]. apply (Hcase x Hin) in H. destruct H as [H2 H3].
              split. right; exact Hin. split; assumption.
           ++ intros (H1 & H2 & H3). destruct H1 as [Hx|H1].
              ** subst x. specialize (H3 Sy). rewrite Fy in H3. inversion H3; subst. rewrite path_eqb_refl in Ed. discriminate.
              ** apply (Hcase x H1). split; assumption.
      * (* y is the first of its name *)
        assert (Hfy : firstb P (y :: r) (fkey y) = Some (e_base y)).
        { unfold firstb. simpl. unfold fsel at 1. rewrite Sy, fkey_eqb_refl. unfold nsh. rewrite Sh. reflexivity. }
        assert (Hcase : forall x0, In x0 r -> (In x0 (first_wins P r (F ++ [(fkey y, e_base y)])) <->
                   nsh P x0 = true /\ (src x0 = true -> match found_get F (fkey x0) with Some d0 => Some d0 | None => firstb P (y :: r) (fkey x0) end = Some (e_base x0)))).
        { intros x0 Hx0. rewrite IH.
          assert (Hm : match found_get (F ++ [(fkey y, e_base y)]) (fkey x0) with Some d0 => Some d0 | None => firstb P r (fkey x0) end =
                       match found_get F (fkey x0) with Some d0 => Some d0 | None => firstb P (y :: r) (fkey x0) end).
          { destruct (fkey_eqb (fkey y) (fkey x0)) eqn:Ek.
            - apply fkey_eqb_eq in Ek. rewrite <- Ek. rewrite found_get_app, Fy, Hfy. reflexivity.
            - rewrite found_get_app_other by (intro E; rewrite E, fkey_eqb_refl in Ek; discriminate).
              destruct (found_get F (fkey x0)); auto. rewrite Hfb; auto. unfold fsel. rewrite Ek. rewrite andb_false_r. reflexivity. }
          rewrite Hm. tauto. }
        simpl. split.
        -- intros [Hx|H].
           ++ subst x. split. left; reflexivity. split. unfold nsh; rewrite Sh; reflexivity. intros _. rewrite Fy. exact Hfy.
           ++ pose proof (first_wins_incl P r _ x H) as [Hin _]. apply (Hcase x Hin) in H. destruct H as [H2 H3].
              split. right; exact Hin. split; assumption.
        -- intros (H1 & H2 & H3). destruct H1 as [Hx|H1]. left; exact Hx. right. apply (Hcase x H1). split; assumption.
    + (* not a source file: never competes *)
      assert (Hy : forall key, fsel P key y = false) by (intro; unfold fsel; rewrite Sy; reflexivity).
      split.
      * intros [Hx|H].
        -- subst x. split. left; reflexivity. split. unfold nsh; rewrite Sh; reflexivity. intro Hs. congruence.
        -- apply IH in H. destruct H as (H1 & H2 & H3). split. right; exact H1. split. exact H2. intro Hs. rewrite Hfb by auto. auto.
      * intros (H1 & H2 & H3). destruct H1 as [Hx|H1]. left; exact Hx. right. apply IH. split. exact H1. split. exact H2.
        intro Hs. rewrite <- Hfb by auto. auto.
Qed.

(* ------------------------------------------------------------------------------------------------------------- *)
(* B.  two universes whose portions hold the same entries *)
Section TwoOrders.
  Variable U1 U2 : universe.
  Variable ds : list path.
  Definition bd (d : path) : path := match start_dir d with Some d' => d' | None => d end.
  Hypothesis Hset : forall d x, In d ds -> (In x (iter_one U1 d) <-> In x (iter_one U2 d)).
  Hypothesis Hdistinct : NoDup (map bd ds).

  Lemma iter_one_base : forall U d x, In x (iter_one U d) -> e_base x = bd d.
  Proof.
    intros U d x H. unfold iter_one, bd in *. destruct (start_dir d) as [d'|]; [|contradiction].
    destruct (iter_files_flat d' (portion_files U d') []) as (s & E). rewrite E in H.
    apply in_flat_map in H. destruct H as (r & _ & H). unfold ylist in H. destruct (name_to_yield r); simpl in H; try contradiction; destruct H as [<-|[]]; reflexivity.
  Qed.

  Lemma existsb_set : forall (S : entry -> bool) d, In d ds -> existsb S (iter_one U1 d) = existsb S (iter_one U2 d).
  Proof.
    intros S d Hd. destruct (existsb S (iter_one U1 d)) eqn:E1; symmetry.
    - apply existsb_exists in E1. destruct E1 as (x & Hx & Sx). apply existsb_exists. exists x. split; auto. apply Hset; auto.
    - apply not_true_iff_false. intro E2. apply existsb_exists in E2. destruct E2 as (x & Hx & Sx).
      rewrite <- not_true_iff_false in E1. apply E1. apply existsb_exists. exists x. split; auto. apply Hset; auto.
  Qed.

  (* the first element (in portion-major order) satisfying S comes from the first portion that has one *)
  Lemma hd_portions : forall U (S : entry -> bool) l,
    option_map e_base (hd_error (filter S (flat_map (iter_one U) l))) = option_map bd (find (fun d => existsb S (iter_one U d)) l).
  Proof.
    intros U S l. induction l as [|d l IH]; simpl. reflexivity.
    rewrite filter_app. destruct (existsb S (iter_one U d)) eqn:E.
    - apply existsb_exists in E. destruct E as (x & Hx & Sx).
      assert (Hin : In x (filter S (iter_one U d))) by (apply filter_In; auto).
      destruct (filter S (iter_one U d)) as [|y r] eqn:Ef; [contradiction|]. simpl.
      assert (In y (filter S (iter_one U d))) by (rewrite Ef; left; auto). apply filter_In in H. destruct H as [Hy _].
      rewrite (iter_one_base U d y Hy). reflexivity.
    - replace (filter S (iter_one U d)) with (@nil entry). simpl. apply IH.
      symmetry. rewrite <- not_true_iff_false in E. destruct (filter S (iter_one U d)) as [|y r] eqn:Ef; auto.
      exfalso. apply E. assert (In y (filter S (iter_one U d))) by (rewrite Ef; left; auto). apply filter_In in H. destruct H.
      apply existsb_exists. eauto.
  Qed.

  Lemma find_ext_in : forall (f g : path -> bool) l, (forall d, In d l -> f d = g d) -> find f l = find g l.
  Proof. induction l as [|d l IH]; intros H; simpl; auto. rewrite H by (left; auto). destruct (g d); auto. apply IH. intros. apply H. right; auto. Qed.

  Let subs1 := all_subs U1 ds.
  Let subs2 := all_subs U2 ds.
  Let P1 := providers_of subs1.
  Let P2 := providers_of subs2.

  Lemma subs_parts : forall U x, In x (depth_sort (all_subs U ds)) -> e_parts x <> [].
  Proof.
    intros U x H. apply (proj1 (depth_sort_In _ _)) in H. unfold all_subs in H. apply in_flat_map in H.
    destruct H as (d & _ & H). eapply iter_one_parts; eauto.
  Qed.

  Lemma depth_sort_dsorted : forall l, dsorted (depth_sort l).
  Proof.
    intro l. unfold dsorted.
    assert (G : forall L, sorted L -> StronglySorted (fun a b => depth a <= depth b) L).
    { induction L as [|a L IH]; intros Hs. constructor. constructor.
      - apply IH. intros E1 x E2 Heq y Hy. apply (Hs (a :: E1) x E2). rewrite Heq. reflexivity. right; auto.
      - apply Forall_forall. intros y Hy. apply in_split in Hy. destruct Hy as (l1 & l2 & ->).
        apply (Hs (a :: l1) y l2). reflexivity. left; auto. }
    apply G. apply depth_sort_sorted.
  Qed.

  (* the provider of every folder is the same *)
  Lemma providers_invariant : forall n k, List.length k <= n -> prov_get P1 k = prov_get P2 k.
  Proof.
    induction n as [|n IH]; intros k Hk.
    - destruct k; [|simpl in Hk; lia].
      unfold P1, P2, providers_of, subs1, subs2.
      rewrite (prov_char (depth_sort (all_subs U1 ds)) []), (prov_char (depth_sort (all_subs U2 ds)) [])
        by (try apply depth_sort_dsorted; apply subs_parts).
      cbn [prov_get].
      assert (G : forall U P, filter (elig P []) (depth_sort (all_subs U ds)) = []).
      { intros U P. induction (depth_sort (all_subs U ds)) as [|x l IHl] eqn:El; auto.
        assert (Hx : e_parts x <> []) by (apply (subs_parts U); rewrite El; left; auto).
        simpl. unfold elig at 1. destruct (e_parts x); [congruence|]. simpl. rewrite andb_false_r. simpl.
        clear IHl. assert (Hl : forall y, In y l -> e_parts y <> []) by (intros; apply (subs_parts U); rewrite El; right; auto).
        clear -Hl. induction l as [|y l IHl]; simpl; auto. unfold elig at 1. destruct (e_parts y) eqn:Ey. exfalso. apply (Hl y); auto. left; auto.
        simpl. rewrite andb_false_r. simpl. apply IHl. intros. apply Hl. right; auto. }
      rewrite (G U1), (G U2). reflexivity.
    - destruct (Nat.eq_dec (List.length k) (S n)) as [Hl|Hl]; [|apply IH; lia].
      unfold P1, P2, providers_of.
      rewrite (prov_char (depth_sort subs1) []), (prov_char (depth_sort subs2) [])
        by (try apply depth_sort_dsorted; apply subs_parts).
      cbn [prov_get].
      fold (providers_of subs1). fold (providers_of subs2). fold P1. fold P2.
      assert (Hel : forall i, elig P1 k i = elig P2 k i).
      { intro i. unfold elig. f_equal. f_equal. apply shadowed_ext_len. intros k' Hk'. apply IH.
        assert (k <> []) by (destruct k; simpl in Hl; [lia|discriminate]). pose proof (length_removelast k H). lia. }
      rewrite (filter_ext _ _ Hel).
      assert (Hd : forall x, elig P2 k x = true -> depth x = List.length k).
      { intros x Hx. unfold elig in Hx. apply andb_true_iff in Hx. destruct Hx as [Hx _]. apply andb_true_iff in Hx. destruct Hx as [_ Hx].
        apply lstr_eqb_length in Hx. auto. }
      rewrite !(filter_depth_sort _ _ _ Hd). unfold subs1, subs2, all_subs.
      rewrite !hd_portions. f_equal. apply find_ext_in. intros d Hdin. apply existsb_set. auto.
  Qed.

  Lemma shadowed_invariant : forall d f, shadowed P1 d f = shadowed P2 d f.
  Proof. intros. apply shadowed_ext_len. intros k _. apply (providers_invariant (List.length k)). lia. Qed.

  Lemma subs_set : forall x, In x subs1 <-> In x subs2.
  Proof.
    intro x. unfold subs1, subs2, all_subs. rewrite !in_flat_map. split; intros (d & Hd & Hx); exists d; split; auto; apply (Hset d x Hd); auto.
  Qed.

  Lemma firstb_invariant : forall key, firstb P1 subs1 key = firstb P2 subs2 key.
  Proof.
    intro key. unfold firstb.
    assert (Hsel : forall y, fsel P1 key y = fsel P2 key y).
    { intro y. unfold fsel, nsh. rewrite shadowed_invariant. reflexivity. }
    rewrite (filter_ext _ _ Hsel). unfold subs1, subs2, all_subs. rewrite !hd_portions. f_equal.
    apply find_ext_in. intros d Hd. apply existsb_set. auto.
  Qed.

  (* the same set of entries is yielded *)
  Theorem iter_portions_same_set : forall x, In x (iter_portions U1 ds) <-> In x (iter_portions U2 ds).
  Proof.
    intro x. unfold iter_portions. fold subs1 subs2 P1 P2. rewrite !fw_char. simpl.
    rewrite subs_set. unfold nsh. rewrite shadowed_invariant. rewrite firstb_invariant. tauto.
  Qed.
End TwoOrders.

(* permuting the listings leaves the entries of every portion the same, as a set *)
Lemma iter_one_perm : forall U U' d x, perm_universe U U' -> wf_universe U -> (In x (iter_one U d) <-> In x (iter_one U' d)).
Proof.
  intros U U' d x Hp Hw. unfold iter_one. destruct (start_dir d) as [d'|]; [|tauto].
  destruct (iter_files_flat d' (portion_files U d') []) as (s1 & ->).
  destruct (iter_files_flat d' (portion_files U' d') []) as (s2 & ->).
  rewrite !in_flat_map. split; intros (r & Hr & Hy); exists r; split; auto; apply (portion_files_perm U U' d' Hp Hw); auto.
Qed.

(* Under every permutation of every directory listing, iter_submodules over a list of distinct portions yields the
   same set of entries. *)
Theorem iter_portions_order_invariant : forall U U' ds,
  perm_universe U U' -> wf_universe U -> NoDup (map bd ds) ->
  forall x, In x (iter_portions U ds) <-> In x (iter_portions U' ds).
Proof.
  intros U U' ds Hp Hw Hnd x. apply iter_portions_same_set; auto.
  intros d y _. apply iter_one_perm; auto.
Qed.
