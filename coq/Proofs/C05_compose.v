(* C05: composition of the per-module theorems over a dependency order.
   Main result (end of file): for every program that satisfies the decidable side conditions wf_prog (static) and wf_run (on
   CPython's run), if CPython imports the modules in `order` without error then the dependency-order schedule of Griffe's
   per-module rules agrees with CPython on every module: agreeb top (griffe_sched top ms order) pt = true. *)
From Coq Require Import List ZArith String Ascii Bool Arith Lia.
From Verif Require Import Lib.Sexp Model.C05_imports Model.C05_wf Proofs.C05_imports Proofs.C05_resolve.
Import ListNotations.
Open Scope string_scope.
Open Scope list_scope.
Open Scope nat_scope.

(* ------------------------------------------------------------------------------------------------------------ *)
(* dictionaries                                                                                                  *)
(* ------------------------------------------------------------------------------------------------------------ *)
Lemma assign_keys_nodup {A} n (v : A) l : NoDup (map fst l) -> NoDup (map fst (assign n v l)).
Proof.
  induction l as [|[k w] r IH]; simpl; intros H.
  - constructor; auto.
  - inversion H as [|? ? Hnotin Hnd]; subst. destruct (String.eqb k n) eqn:E; simpl.
    + constructor; auto.
    + constructor; auto. intros Hin. apply in_map_iff in Hin. destruct Hin as [[k' w'] [Hk Hin]]. simpl in Hk. subst k'.
      apply In_assign in Hin. destruct Hin as [[Hk _]|Hin].
      * subst. rewrite String.eqb_refl in E. discriminate.
      * apply Hnotin. apply in_map_iff. exists (k, w'). auto.
Qed.

Lemma remove_key_In {A} n (l : list (string * A)) k v : In (k, v) (remove_key n l) -> In (k, v) l.
Proof.
  induction l as [|[k0 w] r IH]; simpl; auto.
  destruct (String.eqb k0 n); simpl; intros H; auto. destruct H; auto.
Qed.

Lemma remove_key_nodup {A} n (l : list (string * A)) : NoDup (map fst l) -> NoDup (map fst (remove_key n l)).
Proof.
  induction l as [|[k w] r IH]; simpl; intros H; auto.
  inversion H as [|? ? Hnotin Hnd]; subst. destruct (String.eqb k n); simpl; auto.
  constructor; auto. intros Hin. apply Hnotin. apply in_map_iff in Hin. destruct Hin as [[k' w'] [Hk Hin]]. simpl in Hk. subst k'.
  apply in_map_iff. exists (k, w'). split; auto. eapply remove_key_In; eauto.
Qed.

Lemma lookup_remove_same {A} n (l : list (string * A)) : NoDup (map fst l) -> lookup n (remove_key n l) = None.
Proof.
  induction l as [|[k w] r IH]; simpl; intros H; auto.
  inversion H as [|? ? Hnotin Hnd]; subst. destruct (String.eqb k n) eqn:E; simpl.
  - apply String.eqb_eq in E. subst k. destruct (lookup n r) eqn:El; auto. exfalso. apply Hnotin. eapply lookup_In_fst; eauto.
  - rewrite E. auto.
Qed.

Lemma In_lookup_nodup {A} n (v : A) l : NoDup (map fst l) -> In (n, v) l -> lookup n l = Some v.
Proof.
  induction l as [|[k w] r IH]; simpl; intros Hnd Hin; [contradiction|].
  inversion Hnd as [|? ? Hnotin Hnd']; subst. destruct Hin as [Hin|Hin].
  - inversion Hin; subst. rewrite String.eqb_refl. reflexivity.
  - destruct (String.eqb k n) eqn:E; auto. apply String.eqb_eq in E. subst k.
    exfalso. apply Hnotin. apply in_map_iff. exists (n, v). auto.
Qed.

Lemma lookup_filter {A} (f : string * A -> bool) n (l : list (string * A)) v :
  NoDup (map fst l) -> lookup n (filter f l) = Some v -> lookup n l = Some v /\ f (n, v) = true.
Proof.
  intros Hnd H. apply lookup_In in H. apply filter_In in H. destruct H as [Hin Hf]. split; auto.
  apply In_lookup_nodup; auto.
Qed.

Lemma lookup_filter_some {A} (f : string * A -> bool) n (l : list (string * A)) v :
  NoDup (map fst l) -> lookup n l = Some v -> f (n, v) = true -> lookup n (filter f l) = Some v.
Proof.
  intros Hnd Hl Hf. apply In_lookup_nodup.
  - clear -Hnd. induction l as [|[k w] r IH]; simpl; auto. inversion Hnd as [|? ? Hnotin Hnd']; subst.
    destruct (f (k, w)); simpl; auto. constructor; auto. intros Hin. apply Hnotin.
    apply in_map_iff in Hin. destruct Hin as [[k' w'] [Hk Hin]]. simpl in Hk. subst k'. apply filter_In in Hin.
    apply in_map_iff. exists (k, w'). split; auto. apply Hin.
  - apply filter_In. split; auto. apply lookup_In. auto.
Qed.

Lemma filter_keys_nodup {A} (f : string * A -> bool) (l : list (string * A)) : NoDup (map fst l) -> NoDup (map fst (filter f l)).
Proof.
  induction l as [|[k w] r IH]; simpl; intros Hnd; auto. inversion Hnd as [|? ? Hnotin Hnd']; subst.
  destruct (f (k, w)); simpl; auto. constructor; auto. intros Hin. apply Hnotin.
  apply in_map_iff in Hin. destruct Hin as [[k' w'] [Hk Hin]]. simpl in Hk. subst k'. apply filter_In in Hin.
  apply in_map_iff. exists (k, w'). split; auto. apply Hin.
Qed.

Lemma lookup_none_notin {A} n (l : list (string * A)) : lookup n l = None -> ~ In n (map fst l).
Proof. intros H Hin. apply In_fst_lookup in Hin. destruct Hin as [v Hv]. congruence. Qed.

(* ------------------------------------------------------------------------------------------------------------ *)
(* a resolution result presents a runtime value                                                                  *)
(* ------------------------------------------------------------------------------------------------------------ *)
Definition vmatch (r : fres) (v : value) : Prop := view_eqb (view_of_fres r) (view_of_value v) = true.

Lemma vmatch_mod_l q v : vmatch (FMod q) v -> v = VMod q.
Proof.
  unfold vmatch. destruct v as [k p|p|p]; simpl.
  - destruct k; discriminate.
  - intros H. apply path_eqb_eq in H. subst. reflexivity.
  - discriminate.
Qed.

Lemma vmatch_mod_r r q : vmatch r (VMod q) -> r = FMod q.
Proof.
  unfold vmatch. destruct r as [k p|p|]; simpl.
  - destruct k; discriminate.
  - intros H. apply path_eqb_eq in H. subst. reflexivity.
  - discriminate.
Qed.

Lemma vmatch_mod q : vmatch (FMod q) (VMod q).
Proof. unfold vmatch. simpl. apply path_eqb_refl. Qed.

Lemma vmatch_obj k p : vmatch (FObj k p) (VObj k p).
Proof. unfold vmatch. destruct k; simpl; apply path_eqb_refl. Qed.

Lemma vmatch_all T : vmatch (FObj KAttr (T ++ ["__all__"])) (VAll T).
Proof. unfold vmatch. simpl. apply path_eqb_refl. Qed.

(* ------------------------------------------------------------------------------------------------------------ *)
(* CPython side: tables only grow                                                                                *)
(* ------------------------------------------------------------------------------------------------------------ *)
Lemma get_py_app t e q pm : get_py t q = Some pm -> get_py (t ++ e) q = Some pm.
Proof.
  induction t as [|[k m] r IH]; simpl; try discriminate.
  destruct (path_eqb k q); auto.
Qed.

Lemma get_py_app_none t e q : get_py t q = None -> get_py (t ++ e) q = get_py e q.
Proof.
  induction t as [|[k m] r IH]; simpl; auto.
  destruct (path_eqb k q); try discriminate; auto.
Qed.

Lemma get_py_In t q pm : get_py t q = Some pm -> In (q, pm) t.
Proof.
  induction t as [|[k m] r IH]; simpl; try discriminate.
  destruct (path_eqb k q) eqn:E; intros H.
  - inversion H; subst. apply path_eqb_eq in E. subst. auto.
  - auto.
Qed.

Lemma get_py_keys t q pm : get_py t q = Some pm -> In q (map fst t).
Proof. intros H. apply get_py_In in H. apply in_map_iff. exists (q, pm). auto. Qed.

Lemma get_py_none_keys t q : ~ In q (map fst t) -> get_py t q = None.
Proof.
  induction t as [|[k m] r IH]; simpl; auto. intros H.
  destruct (path_eqb k q) eqn:E.
  - apply path_eqb_eq in E. subst. exfalso. auto.
  - auto.
Qed.

(* a read of an executed module gives the same answer in every later table *)
Lemma py_attr_mono ms t e T n tm v :
  get_py t T = Some tm -> py_attr ms t T n = POk v -> py_attr ms (t ++ e) T n = POk v.
Proof.
  intros Hg. unfold py_attr. rewrite Hg, (get_py_app t e T tm Hg).
  destruct (String.eqb n "__all__"); auto.
  destruct (lookup n (pns tm)); auto.
  destruct (mem_str n (children_of ms T)); auto.
  destruct (get_py t (T ++ [n])) as [pc|] eqn:Ec; try discriminate.
  rewrite (get_py_app t e _ pc Ec). auto.
Qed.

Lemma py_import_extends ms : forall order t pt, py_import ms order t = POk pt -> exists e, pt = t ++ e /\ map fst e = order.
Proof.
  induction order as [|mp r IH]; intros t pt H; simpl in H.
  - inversion H; subst. exists []. rewrite app_nil_r. auto.
  - destruct (find _ ms) as [m|]; try discriminate.
    destruct (py_body ms t mp (mkPy [] None) (ms_body m)) as [pm|]; try discriminate.
    destruct (IH _ _ H) as [e [He Hk]]. exists ((mp, pm) :: e). split.
    + rewrite He, <- app_assoc. reflexivity.
    + simpl. f_equal. auto.
Qed.

(* ------------------------------------------------------------------------------------------------------------ *)
(* names                                                                                                         *)
(* ------------------------------------------------------------------------------------------------------------ *)
Lemma ends_star_app a b : b <> EmptyString -> ends_star (a ++ b) = ends_star b.
Proof.
  intros Hb. induction a as [|c a IH]; simpl; auto.
  destruct (a ++ b)%string eqn:E.
  - destruct a; simpl in E; [contradiction|discriminate].
  - rewrite <- IH. reflexivity.
Qed.

Lemma concat_cons2 sep x y l : String.concat sep (x :: y :: l) = (x ++ sep ++ String.concat sep (y :: l))%string.
Proof. reflexivity. Qed.

Lemma star_name_ends_star T : ends_star (star_name T) = true.
Proof.
  unfold star_name. induction T as [|x T IH]; [reflexivity|].
  change ((x :: T) ++ ["*"]) with (x :: (T ++ ["*"])).
  destruct (T ++ ["*"]) as [|s l] eqn:E; [destruct T; discriminate|].
  rewrite concat_cons2. rewrite ends_star_app.
  - rewrite ends_star_app; [exact IH|]. intros H. rewrite H in IH. discriminate.
  - simpl. discriminate.
Qed.

Lemma plain_not_star n : plain n = true -> ~ is_star_name n.
Proof.
  intros H [T HT]. subst. unfold plain in H. rewrite star_name_ends_star in H. rewrite andb_false_r in H. discriminate.
Qed.

Lemma plain_not_all n : plain n = true -> n <> "__all__".
Proof. intros H Heq. subst. vm_compute in H. discriminate. Qed.

Lemma plain_not_dunder n : plain n = true -> is_dunder n = false.
Proof. unfold plain. intros H. apply andb_true_iff in H. destruct H as [H _]. destruct (is_dunder n); auto. Qed.
