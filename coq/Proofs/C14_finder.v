(* C14 proofs. *)
From Coq Require Import List ZArith String Ascii Bool Arith Lia Sorted Permutation.
From Verif Require Import Lib.Sexp Gen.C14_tables Model.C14_finder.
Import ListNotations.
Open Scope string_scope.
Open Scope list_scope.

(* ------------------------------------------------------------------------------------------------------------- *)
(* boolean equalities *)
Lemma lstr_eqb_refl : forall a, lstr_eqb a a = true.
Proof. induction a; simpl; auto. rewrite String.eqb_refl. auto. Qed.

Lemma lstr_eqb_eq : forall a b, lstr_eqb a b = true <-> a = b.
Proof.
  induction a; destruct b; simpl; split; intro H; try discriminate; auto.
  - apply andb_true_iff in H. destruct H as [H1 H2]. apply String.eqb_eq in H1. apply IHa in H2. subst. auto.
  - inversion H; subst. rewrite String.eqb_refl. simpl. apply IHa. auto.
Qed.

Lemma lstr_eqb_neq : forall a b, lstr_eqb a b = false <-> a <> b.
Proof.
  intros. split; intro H.
  - intro E. apply lstr_eqb_eq in E. congruence.
  - destruct (lstr_eqb a b) eqn:E; auto. apply lstr_eqb_eq in E. contradiction.
Qed.

Lemma path_eqb_eq : forall p q, path_eqb p q = true <-> p = q.
Proof.
  intros [i a] [j b]. unfold path_eqb. simpl. rewrite andb_true_iff, Nat.eqb_eq, lstr_eqb_eq.
  split; intro H. destruct H; subst; auto. inversion H; auto.
Qed.

Lemma path_eqb_refl : forall p, path_eqb p p = true.
Proof. intro. apply path_eqb_eq. auto. Qed.

(* ------------------------------------------------------------------------------------------------------------- *)
(* The constants the model has in common with finder.py / loader.py, against the tables regenerated from the source on
   every run (Gen/C14_tables.v): if one of them changes in the source, this no longer compiles. *)
Example gen_tables_agree :
  accepted_exts = gen_accepted_exts /\ accepted_exts = [".py"; ".pyc"; ".pyo"; ".pyd"; ".pyi"; ".so"] /\
  gen_walk_topdown = true /\ gen_pruned_dir = "__pycache__" /\
  gen_py_file_suffixes = [".py"; ".pyi"] /\ gen_stub_suffix = ".pyi" /\ gen_dedupe_suffixes = [".py"; ".pyi"] /\
  gen_provider_sort_by_depth = true /\
  gen_pth_snapshot = true /\ gen_pth_sorted = true /\ gen_pth_suffix = ".pth" /\
  gen_sort_key_is_depth = true /\ gen_static_suffixes = [".py"; ".pyi"] /\ gen_dot_check_all_parts = true.
Proof. repeat split; reflexivity. Qed.

(* ------------------------------------------------------------------------------------------------------------- *)
(* Part A.  find_package against PathFinder/FileFinder *)

(* what a search directory may offer for the top-level name so that the two finders are expected to agree *)
Definition top_ok (U : universe) (name : string) (i : nat) : bool :=
  let L := root U i in
  forallb (fun s => negb (has_file (name ++ s)%string L)) compiled_suffixes &&
  match lookup_entry (name ++ ".py")%string L with Some (Dir _) => false | _ => true end &&
  match lookup_entry name L with
  | None => true
  | Some (File _ _) => false
  | Some (Dir inner) =>
      forallb (fun s => negb (has_file ("__init__" ++ s)%string inner)) compiled_suffixes &&
      match lookup_entry "__init__.py" inner with
      | None => negb (has_entry "__init__.pyi" inner)          (* no stub-only package *)
      | Some (File ns _) => negb ns                             (* no pkgutil-style declaration *)
      | Some (Dir _) => false
      end
  end.

Definition find_agree (f : found) (s : pyspec) : Prop :=
  match f, s with
  | FPkg p _, PyPkg init locs => p = init /\ locs = [(fst p, removelast (snd p))]
  | FPkg p _, PyMod q => p = q
  | FNs ds, PyNs ds' => ds = ds'
  | FNone, PyNone => True
  | _, _ => False
  end.

Lemma listing_at_root : forall U i, listing_at U (i, []) = Some (root U i).
Proof. intros. unfold listing_at, node_at. simpl. reflexivity. Qed.

Lemma has_file_entry : forall n L, has_file n L = true -> has_entry n L = true.
Proof. intros n L. unfold has_file, has_entry. destruct (lookup_entry n L) as [[|]|]; auto. Qed.

Lemma find_eq_gen :
  forall U name paths nsacc all,
  forallb (top_ok U name) paths = true ->
  find_agree (g_find U name paths nsacc) (py_find_loop U name all (top_dirs paths) nsacc).
Proof.
  intros U name paths. induction paths as [|i r IH]; intros nsacc all Hok.
  - simpl. destruct nsacc; simpl; auto.
  - simpl in Hok. apply andb_true_iff in Hok. destruct Hok as [Hi Hr].
    unfold top_ok in Hi. apply andb_true_iff in Hi. destruct Hi as [Hi Hdir].
    apply andb_true_iff in Hi. destruct Hi as [Hcomp Hpy].
    simpl in Hcomp. repeat rewrite andb_true_iff in Hcomp. destruct Hcomp as (C1 & C2 & C3 & C4 & _).
    apply negb_true_iff in C1, C2, C3, C4.
    simpl top_dirs. simpl py_find_loop. unfold file_finder. rewrite listing_at_root.
    simpl g_find.
    assert (Hmod : first_file_with name py_suffixes (root U i) =
                   if has_entry (name ++ ".py")%string (root U i) then Some (name ++ ".py")%string else None).
    { simpl. rewrite C1, C2, C3, C4.
      unfold has_file, has_entry. destruct (lookup_entry (name ++ ".py")%string (root U i)) as [[|]|]; auto. discriminate. }
    rewrite Hmod. clear Hmod.
    destruct (lookup_entry name (root U i)) as [[ns pth|inner]|] eqn:Hname.
    + discriminate.
    + apply andb_true_iff in Hdir. destruct Hdir as [Hc2 Hinit].
      simpl in Hc2. repeat rewrite andb_true_iff in Hc2. destruct Hc2 as (D1 & D2 & D3 & D4 & _).
      apply negb_true_iff in D1, D2, D3, D4.
      assert (Hff : first_file_with "__init__" py_suffixes inner =
                    if has_file "__init__.py" inner then Some "__init__.py" else None).
      { simpl. rewrite D1, D2, D3, D4. reflexivity. }
      rewrite Hff. clear Hff. unfold has_file at 1.
      destruct (lookup_entry "__init__.py" inner) as [[ns pth|?]|] eqn:Hinit_e.
      * apply negb_true_iff in Hinit. subst ns.
        unfold init_declares_ns, node_at, sub. cbn [fst snd app get_node].
        rewrite Hname. cbn [get_node]. rewrite Hinit_e. cbn. auto.
      * discriminate.
      * apply negb_true_iff in Hinit. rewrite Hinit.
        destruct (has_entry (name ++ ".py")%string (root U i)).
        -- cbn. auto.
        -- unfold sub. cbn [fst snd app]. apply IH. auto.
    + destruct (has_entry (name ++ ".py")%string (root U i)).
      * cbn. auto.
      * apply IH. auto.
Qed.

Theorem find_eq_cpython :
  forall U name paths,
  forallb (top_ok U name) paths = true ->
  find_agree (g_find U name paths []) (py_find U name (top_dirs paths)).
Proof. intros. unfold py_find. apply find_eq_gen. auto. Qed.

(* ------------------------------------------------------------------------------------------------------------- *)
(* Part C.  The loader's fold over the depth-sorted submodule list, characterised key by key (regular top module) *)

Lemma lookup_set_same : forall k v M, lookup_m k (set_m k v M) = Some v.
Proof.
  induction M as [|[k' w] r IH]; simpl.
  - rewrite lstr_eqb_refl. auto.
  - destruct (lstr_eqb k' k) eqn:E; simpl; rewrite E; auto.
Qed.

Lemma lookup_set_other : forall k k' v M, k' <> k -> lookup_m k' (set_m k v M) = lookup_m k' M.
Proof.
  induction M as [|[k0 w] r IH]; simpl; intro Hn.
  - destruct (lstr_eqb k k') eqn:E; auto. apply lstr_eqb_eq in E. congruence.
  - destruct (lstr_eqb k0 k) eqn:E; simpl.
    + apply lstr_eqb_eq in E. subst k0.
      destruct (lstr_eqb k k') eqn:E2; auto. apply lstr_eqb_eq in E2. congruence.
    + destruct (lstr_eqb k0 k'); auto.
Qed.

Definition all_files (M : mstate) : Prop := forall k v, lookup_m k M = Some v -> exists p, v = MFile p.

Definition init_path (p : path) : bool := is_init_name (last (snd p) "").

(* every parent on the way is present AND is a package (__init__ module) *)
Fixpoint prefixes_present (M : mstate) (cur todo : list string) : bool :=
  match todo with
  | [] => true
  | p :: r => match lookup_m (cur ++ [p]) M with
              | Some (MFile f) => init_path f && prefixes_present M (cur ++ [p]) r
              | _ => false
              end
  end.

Lemma goc_regular : forall todo M cur k mfp, all_files M ->
  goc M cur todo k mfp = (M, if prefixes_present M cur todo then Some (cur ++ todo) else None).
Proof.
  induction todo as [|p r IH]; intros M cur k mfp HM; simpl.
  - rewrite app_nil_r. auto.
  - destruct (lookup_m (cur ++ [p]) M) as [[q|ps]|] eqn:E.
    + unfold init_path. destruct (is_init_name (last (snd q) "")); simpl; auto.
      rewrite IH by auto. rewrite <- app_assoc. simpl. auto.
    + apply HM in E. destruct E as [q E]. discriminate.
    + destruct (lookup_m cur M) as [[q|ps]|] eqn:E2; auto.
      apply HM in E2. destruct E2 as [q E2]. discriminate.
Qed.

Definition merge_path (old : option path) (newp : path) : path :=
  match old with
  | None => newp
  | Some oldp => if path_eqb oldp newp then newp
                 else if path_suffix oldp =? ".pyi" then newp
                 else if path_suffix newp =? ".pyi" then oldp
                 else newp
  end.

Definition file_of (o : option minfo) : option path :=
  match o with Some (MFile p) => Some p | _ => None end.

Lemma set_member_lookup_same : forall M key newp, all_files M ->
  lookup_m key (set_member M key newp) = Some (MFile (merge_path (file_of (lookup_m key M)) newp)).
Proof.
  intros M key newp HM. unfold set_member.
  destruct (lookup_m key M) as [[oldp|ps]|] eqn:E; simpl.
  - destruct (path_eqb oldp newp). apply lookup_set_same.
    destruct (path_suffix oldp =? ".pyi"). apply lookup_set_same.
    destruct (path_suffix newp =? ".pyi"); auto. apply lookup_set_same.
  - apply HM in E. destruct E as [q E]. discriminate.
  - apply lookup_set_same.
Qed.

Lemma set_member_lookup_other : forall M key k newp, k <> key ->
  lookup_m k (set_member M key newp) = lookup_m k M.
Proof.
  intros M key k newp Hn. unfold set_member.
  destruct (lookup_m key M) as [[oldp|ps]|]; try (apply lookup_set_other; auto).
  destruct (path_eqb oldp newp). apply lookup_set_other; auto.
  destruct (path_suffix oldp =? ".pyi"). apply lookup_set_other; auto.
  destruct (path_suffix newp =? ".pyi"); auto. apply lookup_set_other; auto.
Qed.

Lemma set_member_all_files : forall M key newp, all_files M -> all_files (set_member M key newp).
Proof.
  intros M key newp HM k v Hl.
  destruct (lstr_eqb k key) eqn:E.
  - apply lstr_eqb_eq in E. subst. rewrite set_member_lookup_same in Hl by auto. inversion Hl. eauto.
  - apply lstr_eqb_neq in E. rewrite set_member_lookup_other in Hl by auto. eauto.
Qed.

Lemma removelast_last : forall (l : list string), l <> [] -> removelast l ++ [last l ""] = l.
Proof. intros. symmetry. apply app_removelast_last. auto. Qed.

Lemma load_entry_regular : forall M e, all_files M -> e_parts e <> [] ->
  load_entry false M e =
    if entry_ok e && prefixes_present M [] (removelast (e_parts e))
    then set_member M (e_parts e) (e_abs e) else M.
Proof.
  intros M e HM Hne. unfold load_entry, entry_ok.
  destruct (existsb has_dot (e_parts e)); simpl; auto.
  rewrite goc_regular by auto.
  destruct (prefixes_present M [] (removelast (e_parts e))); simpl.
  - rewrite removelast_last by auto. rewrite orb_false_r.
    destruct (static_loadable (e_abs e)); auto.
  - rewrite andb_false_r. auto.
Qed.

(* ---- the declarative description ---- *)
Definition cand (k : list string) (e : entry) : bool := lstr_eqb (e_parts e) k && entry_ok e.
Definition cands (k : list string) (E : list entry) : list entry := filter (cand k) E.
Definition pickseq (l : list entry) : option path := fold_left (fun o e => Some (merge_path o (e_abs e))) l None.

(* the name q is taken by a package: the merge of its candidate files is an __init__ module *)
Definition init_at (E : list entry) (q : list string) : bool :=
  match pickseq (cands q E) with Some p => init_path p | None => false end.

Fixpoint chain (E : list entry) (cur todo : list string) : bool :=
  match todo with
  | [] => true
  | p :: r => init_at E (cur ++ [p]) && chain E (cur ++ [p]) r
  end.

Definition spec_lookup (top : path) (E : list entry) (k : list string) : option minfo :=
  match k with
  | [] => Some (MFile top)
  | _ => if chain E [] (removelast k) then option_map MFile (pickseq (cands k E)) else None
  end.

Definition sorted (E : list entry) : Prop :=
  forall E1 e E2, E = E1 ++ e :: E2 -> forall x, In x E1 -> depth x <= depth e.

Lemma sorted_snoc : forall E e, sorted (E ++ [e]) -> sorted E /\ forall x, In x E -> depth x <= depth e.
Proof.
  intros E e H. split.
  - intros E1 a E2 Heq x Hx. apply (H E1 a (E2 ++ [e])); auto. rewrite Heq. rewrite <- app_assoc. auto.
  - intros x Hx. apply (H E e []); auto.
Qed.

Lemma chain_app : forall E t1 c t2, chain E c (t1 ++ t2) = chain E c t1 && chain E (c ++ t1) t2.
Proof.
  induction t1 as [|p r IH]; intros; simpl.
  - rewrite app_nil_r. auto.
  - rewrite IH. rewrite <- app_assoc. simpl. rewrite andb_assoc. auto.
Qed.

Lemma chain_ext : forall E1 E2 todo cur,
  (forall j, 0 < j <= List.length todo -> cands (cur ++ firstn j todo) E1 = cands (cur ++ firstn j todo) E2) ->
  chain E1 cur todo = chain E2 cur todo.
Proof.
  induction todo as [|p r IH]; intros cur H; simpl; auto.
  pose proof (H 1) as H1. simpl in H1. unfold init_at. rewrite H1 by lia. f_equal.
  apply IH. intros j Hj. specialize (H (S j)). simpl in H. rewrite <- !app_assoc. simpl. apply H. lia.
Qed.

Lemma pickseq_nil_iff : forall l, pickseq l = None <-> l = [].
Proof.
  intros l. split; intro H; [|subst; auto].
  destruct l as [|a r]; auto. exfalso.
  destruct (exists_last (l := a :: r)) as (l' & z & Hl); [discriminate|].
  rewrite Hl in H. unfold pickseq in H. rewrite fold_left_app in H. simpl in H. discriminate.
Qed.

Lemma pickseq_snoc : forall l e, pickseq (l ++ [e]) = Some (merge_path (pickseq l) (e_abs e)).
Proof. intros. unfold pickseq. rewrite fold_left_app. auto. Qed.

Lemma cands_snoc : forall E e q, cands q (E ++ [e]) = cands q E ++ (if cand q e then [e] else []).
Proof. intros. unfold cands. rewrite filter_app. simpl. destruct (cand q e); auto. Qed.

Lemma spec_lookup_ne : forall top E k, k <> [] ->
  spec_lookup top E k = if chain E [] (removelast k) then option_map MFile (pickseq (cands k E)) else None.
Proof. intros top E k H. destruct k; [congruence|reflexivity]. Qed.

Lemma prefixes_present_chain : forall top E M,
  (forall k, lookup_m k M = spec_lookup top E k) ->
  forall todo cur, chain E [] cur = true -> prefixes_present M cur todo = chain E cur todo.
Proof.
  intros top E M HM. induction todo as [|p r IH]; intros cur Hc; simpl; auto.
  rewrite HM. rewrite spec_lookup_ne by (destruct cur; discriminate).
  rewrite List.removelast_last, Hc. unfold init_at.
  destruct (pickseq (cands (cur ++ [p]) E)) as [f|] eqn:Ep; simpl; auto.
  destruct (init_path f) eqn:Ei; simpl; auto.
  apply IH. rewrite chain_app, Hc. simpl. unfold init_at. rewrite Ep, Ei. reflexivity.
Qed.

Definition M0 (top : path) : mstate := [([], MFile top)].
Definition run (top : path) (E : list entry) : mstate := fold_left (load_entry false) E (M0 top).

Lemma cand_not_ok : forall q e, entry_ok e = false -> cand q e = false.
Proof. intros. unfold cand. rewrite H. apply andb_false_r. Qed.

Lemma length_removelast : forall (l : list string), l <> [] -> List.length l = S (List.length (removelast l)).
Proof.
  intros l H. rewrite (app_removelast_last "" H) at 1. rewrite app_length. simpl. lia.
Qed.

Lemma lstr_eqb_length : forall a b, lstr_eqb a b = true -> List.length a = List.length b.
Proof. intros a b H. apply lstr_eqb_eq in H. subst. auto. Qed.

Lemma spec_same_cands : forall top E1 E2 k,
  (forall q, cands q E1 = cands q E2) -> spec_lookup top E1 k = spec_lookup top E2 k.
Proof.
  intros top E1 E2 k Hc. destruct k as [|a r]; auto. unfold spec_lookup.
  rewrite Hc. rewrite (chain_ext E1 E2); auto.
Qed.

Lemma spec_not_ok : forall top E e k, entry_ok e = false -> spec_lookup top (E ++ [e]) k = spec_lookup top E k.
Proof.
  intros. apply spec_same_cands. intro q. rewrite cands_snoc, cand_not_ok; auto. apply app_nil_r.
Qed.

(* keys shorter than the parts of e keep their candidates *)
Lemma cands_snoc_shorter : forall E e q, List.length q <> List.length (e_parts e) -> cands q (E ++ [e]) = cands q E.
Proof.
  intros E e q H. rewrite cands_snoc. unfold cand.
  destruct (lstr_eqb (e_parts e) q) eqn:Eq. apply lstr_eqb_length in Eq. congruence. simpl. apply app_nil_r.
Qed.

Lemma chain_shorter_same : forall E e k,
  List.length k < List.length (e_parts e) -> chain (E ++ [e]) [] k = chain E [] k.
Proof.
  intros E e k H. apply chain_ext. intros j Hj. simpl. apply cands_snoc_shorter. rewrite firstn_length. lia.
Qed.

Lemma spec_other : forall top E e k,
  sorted (E ++ [e]) -> k <> e_parts e -> spec_lookup top (E ++ [e]) k = spec_lookup top E k.
Proof.
  intros top E e k Hs Hk. destruct k as [|a r]; auto.
  assert (Hc : cands (a :: r) (E ++ [e]) = cands (a :: r) E).
  { rewrite cands_snoc. unfold cand. destruct (lstr_eqb (e_parts e) (a :: r)) eqn:Eq.
    - apply lstr_eqb_eq in Eq. congruence.
    - simpl. apply app_nil_r. }
  unfold spec_lookup. rewrite Hc.
  destruct (cands (a :: r) E) as [|x l] eqn:Ec.
  - change (pickseq []) with (@None path).
    destruct (chain (E ++ [e]) [] (removelast (a :: r))), (chain E [] (removelast (a :: r))); reflexivity.
  - assert (Hx : In x (cands (a :: r) E)) by (rewrite Ec; left; auto).
    unfold cands in Hx. apply filter_In in Hx. destruct Hx as [HxE Hxc].
    unfold cand in Hxc. apply andb_true_iff in Hxc. destruct Hxc as [Hxp _]. apply lstr_eqb_eq in Hxp.
    apply sorted_snoc in Hs. destruct Hs as [_ Hle]. specialize (Hle x HxE). unfold depth in Hle. rewrite Hxp in Hle.
    rewrite chain_shorter_same; auto.
    pose proof (length_removelast (a :: r)) as Hl. specialize (Hl ltac:(discriminate)). lia.
Qed.

Lemma file_of_map : forall o : option path, file_of (option_map MFile o) = o.
Proof. destruct o; reflexivity. Qed.

Theorem run_spec : forall top E,
  sorted E -> (forall e, In e E -> e_parts e <> []) ->
  all_files (run top E) /\ forall k, lookup_m k (run top E) = spec_lookup top E k.
Proof.
  intros top E. induction E as [|e E IH] using rev_ind; intros Hs Hne.
  - split.
    + intros k v H. unfold run, M0 in H. simpl in H. destruct k; inversion H. eauto.
    + intros k. unfold run, M0. destruct k as [|c k]. reflexivity.
      unfold spec_lookup. change (cands (c :: k) []) with (@nil entry). change (pickseq []) with (@None path).
      destruct (chain [] [] (removelast (c :: k))); reflexivity.
  - pose proof (sorted_snoc _ _ Hs) as [HsE _].
    assert (HneE : forall x, In x E -> e_parts x <> []) by (intros; apply Hne; apply in_or_app; auto).
    destruct (IH HsE HneE) as [Haf Hlk]. clear IH.
    assert (Hpe : e_parts e <> []) by (apply Hne; apply in_or_app; right; left; auto).
    unfold run in *. rewrite fold_left_app. simpl.
    set (M := fold_left (load_entry false) E (M0 top)) in *.
    rewrite load_entry_regular by auto.
    rewrite (prefixes_present_chain top E M Hlk) by auto.
    assert (Hrl : chain (E ++ [e]) [] (removelast (e_parts e)) = chain E [] (removelast (e_parts e))).
    { apply chain_shorter_same. pose proof (length_removelast _ Hpe). lia. }
    destruct (entry_ok e) eqn:Hok; simpl.
    + destruct (chain E [] (removelast (e_parts e))) eqn:Hpp.
      * split. apply set_member_all_files; auto.
        intro k. destruct (lstr_eqb k (e_parts e)) eqn:Ek.
        -- apply lstr_eqb_eq in Ek. subst k.
           rewrite set_member_lookup_same by auto. rewrite Hlk.
           rewrite !spec_lookup_ne by auto. rewrite Hrl, Hpp. rewrite file_of_map.
           rewrite cands_snoc. unfold cand. rewrite lstr_eqb_refl, Hok. simpl.
           rewrite pickseq_snoc. reflexivity.
        -- apply lstr_eqb_neq in Ek. rewrite set_member_lookup_other by auto.
           rewrite Hlk. symmetry. apply spec_other; auto.
      * split; auto. intro k. rewrite Hlk.
        destruct (lstr_eqb k (e_parts e)) eqn:Ek.
        -- apply lstr_eqb_eq in Ek. subst k. rewrite !spec_lookup_ne by auto. rewrite Hrl, Hpp. reflexivity.
        -- apply lstr_eqb_neq in Ek. symmetry. apply spec_other; auto.
    + split; auto. intro k. rewrite Hlk. symmetry. apply spec_not_ok. auto.
Qed.

(* ------------------------------------------------------------------------------------------------------------- *)
(* Part D.  The characterisation only looks at the merge of the candidates of each name; the depth sort *)

Lemma chain_pick_ext : forall E1 E2, (forall q, pickseq (cands q E1) = pickseq (cands q E2)) ->
  forall todo cur, chain E1 cur todo = chain E2 cur todo.
Proof.
  intros E1 E2 H. induction todo as [|p r IH]; intros cur; simpl; auto.
  unfold init_at. rewrite H, IH. reflexivity.
Qed.

(* depth_sort: sorted, same elements *)
Lemma max_depth_ge : forall l x, In x l -> depth x <= max_depth l.
Proof.
  induction l; simpl; intros x H; [contradiction|]. destruct H as [H|H]; subst. lia. specialize (IHl x H). lia.
Qed.

Lemma depth_sort_In : forall l x, In x (depth_sort l) <-> In x l.
Proof.
  intros l x. unfold depth_sort. rewrite in_flat_map. split.
  - intros (d & _ & Hx). apply filter_In in Hx. tauto.
  - intro Hx. exists (depth x). split.
    + apply in_seq. pose proof (max_depth_ge l x Hx). lia.
    + apply filter_In. split; auto. apply Nat.eqb_refl.
Qed.

Lemma sorted_levels : forall l ds,
  StronglySorted lt ds ->
  forall E1 e E2, flat_map (fun d => filter (fun x => (depth x =? d)%nat) l) ds = E1 ++ e :: E2 ->
  forall x, In x E1 -> depth x <= depth e.
Proof.
  intros l ds Hds. induction Hds as [|d ds Hs IH Hall]; intros E1 e E2 Heq x Hx.
  - simpl in Heq. destruct E1; discriminate.
  - simpl in Heq.
    assert (Hfront : forall y, In y (filter (fun x => (depth x =? d)%nat) l) -> depth y = d).
    { intros y Hy. apply filter_In in Hy. destruct Hy as [_ Hy]. apply Nat.eqb_eq in Hy. auto. }
    assert (Hback : forall y, In y (flat_map (fun d => filter (fun x => (depth x =? d)%nat) l) ds) -> d < depth y).
    { intros y Hy. apply in_flat_map in Hy. destruct Hy as (d' & Hd' & Hy). apply filter_In in Hy. destruct Hy as [_ Hy].
      apply Nat.eqb_eq in Hy. rewrite Forall_forall in Hall. specialize (Hall d' Hd'). lia. }
    remember (filter (fun x => (depth x =? d)%nat) l) as A. remember (flat_map (fun d => filter (fun x => (depth x =? d)%nat) l) ds) as B.
    (* where does e fall? *)
    assert (Hsplit : (exists A2, A = E1 ++ e :: A2 /\ E2 = A2 ++ B) \/ (exists B1, E1 = A ++ B1 /\ B = B1 ++ e :: E2)).
    { clear -Heq. revert E1 Heq. induction A as [|a A IHA]; intros E1 Heq; simpl in *.
      - right. exists E1. auto.
      - destruct E1 as [|z E1]; simpl in *.
        + inversion Heq; subst. left. exists A. auto.
        + inversion Heq; subst. destruct (IHA E1 H1) as [(A2 & -> & ->)|(B1 & -> & ->)].
          * left. exists A2. auto.
          * right. exists B1. auto. }
    destruct Hsplit as [(A2 & HA & _)|(B1 & HE1 & HB)].
    + assert (In x A) by (rewrite HA; apply in_or_app; auto).
      assert (In e A) by (rewrite HA; apply in_or_app; right; left; auto).
      rewrite (Hfront x), (Hfront e); auto.
    + rewrite HE1 in Hx. apply in_app_or in Hx. destruct Hx as [Hx|Hx].
      * assert (In e B) by (rewrite HB; apply in_or_app; right; left; auto).
        rewrite (Hfront x Hx). specialize (Hback e H). lia.
      * apply (IH B1 e E2); auto.
Qed.

Lemma seq_sorted : forall n s, StronglySorted lt (seq s n).
Proof.
  induction n; intros; simpl; constructor; auto.
  apply Forall_forall. intros x Hx. apply in_seq in Hx. lia.
Qed.

Lemma depth_sort_sorted : forall l, sorted (depth_sort l).
Proof.
  intros l E1 e E2 Heq x Hx. unfold depth_sort in Heq.
  eapply sorted_levels; eauto. apply seq_sorted.
Qed.

(* ------------------------------------------------------------------------------------------------------------- *)
(* Part E.  Permuting directory listings *)

Inductive perm_node : node -> node -> Prop :=
| PN_refl : forall x, perm_node x x
| PN_dir : forall es es', perm_listing es es' -> perm_node (Dir es) (Dir es')
with perm_listing : listing -> listing -> Prop :=
| PL_refl : forall l, perm_listing l l
| PL_cons : forall n x y l l', perm_node x y -> perm_listing l l' -> perm_listing ((n, x) :: l) ((n, y) :: l')
| PL_swap : forall a b l, perm_listing (a :: b :: l) (b :: a :: l)
| PL_trans : forall l1 l2 l3, perm_listing l1 l2 -> perm_listing l2 l3 -> perm_listing l1 l3.

Scheme perm_node_mut := Minimality for perm_node Sort Prop
  with perm_listing_mut := Minimality for perm_listing Sort Prop.

(* what one directory entry contributes to os.walk *)
Definition contrib (pre : list string) (e : string * node) : list (list string) :=
  (if is_file (snd e) && accepted (fst e) then [pre ++ [fst e]] else []) ++
  (let '(nm, x) := e in
   match x with
   | Dir _ => if nm =? "__pycache__" then [] else walk (pre ++ [nm]) x
   | File _ _ => []
   end).

Lemma walk_dir_in : forall pre es r,
  In r (walk pre (Dir es)) <-> exists e, In e es /\ In r (contrib pre e).
Proof.
  intros pre es r. simpl. rewrite in_app_iff. unfold walk_files. rewrite !in_flat_map. unfold contrib. split.
  - intros [(e & He & Hr)|(e & He & Hr)]; exists e; split; auto; apply in_or_app; [left|right]; auto.
  - intros (e & He & Hr). apply in_app_or in Hr. destruct Hr as [Hr|Hr]; [left|right]; exists e; auto.
Qed.

Lemma walk_perm : forall x y, perm_node x y ->
  is_file x = is_file y /\ forall pre r, In r (walk pre x) <-> In r (walk pre y).
Proof.
  apply (perm_node_mut
    (fun x y => is_file x = is_file y /\ forall pre r, In r (walk pre x) <-> In r (walk pre y))
    (fun l l' => forall pre r, (exists e, In e l /\ In r (contrib pre e)) <-> (exists e, In e l' /\ In r (contrib pre e)))).
  - intros. split; tauto.
  - intros es es' _ H. split; auto. intros. rewrite !walk_dir_in. apply H.
  - intros. tauto.
  - intros n x y l l' _ [Hk Hw] _ Hl pre r.
    assert (Hc : In r (contrib pre (n, x)) <-> In r (contrib pre (n, y))).
    { unfold contrib. simpl. rewrite !in_app_iff. rewrite Hk.
      destruct x, y; simpl in Hk; try discriminate; try tauto.
      destruct (n =? "__pycache__"); [tauto|]. rewrite (Hw (pre ++ [n]) r). tauto. }
    split; intros (e & [He|He] & Hr).
    + subst e. exists (n, y). split; [left; auto|]. apply Hc; auto.
    + destruct (proj1 (Hl pre r)) as (e' & He' & Hr'). exists e; auto. exists e'. split; [right|]; auto.
    + subst e. exists (n, x). split; [left; auto|]. apply Hc; auto.
    + destruct (proj2 (Hl pre r)) as (e' & He' & Hr'). exists e; auto. exists e'. split; [right|]; auto.
  - intros a b l pre r. split; intros (e & He & Hr); exists e; split; auto; simpl in *; tauto.
  - intros l1 l2 l3 _ H12 _ H23 pre r. rewrite H12. apply H23.
Qed.

(* looking a name up in a permuted listing (names are unique in a directory) *)
Definition rel_opt (a b : option node) : Prop :=
  match a, b with
  | Some x, Some y => perm_node x y
  | None, None => True
  | _, _ => False
  end.

Lemma lookup_entry_notin : forall n l, ~ In n (map fst l) -> lookup_entry n l = None.
Proof.
  induction l as [|[k v] r IH]; simpl; intro H; auto.
  destruct (k =? n) eqn:E. apply String.eqb_eq in E. subst. tauto. apply IH. tauto.
Qed.

Lemma lookup_perm : forall l l', perm_listing l l' ->
  Permutation (map fst l) (map fst l') /\
  (NoDup (map fst l) -> forall n, rel_opt (lookup_entry n l) (lookup_entry n l')).
Proof.
  apply (perm_listing_mut (fun x y => perm_node x y)
    (fun l l' => Permutation (map fst l) (map fst l') /\
                 (NoDup (map fst l) -> forall n, rel_opt (lookup_entry n l) (lookup_entry n l')))).
  - apply PN_refl.
  - intros. apply PN_dir. auto.
  - intros l. split; auto. intros _ n. destruct (lookup_entry n l); simpl; auto. apply PN_refl.
  - intros n x y l l' Hxy _ _ [Hp Hl]. split. simpl. auto.
    intros Hnd k. simpl in *. inversion Hnd; subst.
    destruct (n =? k); simpl; auto.
  - intros [na xa] [nb xb] l. split. simpl. apply perm_swap.
    intros Hnd k. simpl in *. inversion Hnd as [|? ? Hna Hnd']; subst. simpl in Hna.
    destruct (na =? k) eqn:Ea; destruct (nb =? k) eqn:Eb; simpl; try apply PN_refl.
    + apply String.eqb_eq in Ea, Eb. subst. exfalso. apply Hna. left; auto.
    + destruct (lookup_entry k l); simpl; auto. apply PN_refl.
  - intros l1 l2 l3 _ [P12 H12] _ [P23 H23]. split. eapply perm_trans; eauto.
    intros Hnd k. specialize (H12 Hnd k).
    assert (Hnd2 : NoDup (map fst l2)) by (eapply Permutation_NoDup; eauto).
    specialize (H23 Hnd2 k).
    destruct (lookup_entry k l1), (lookup_entry k l2), (lookup_entry k l3); simpl in *; try tauto.
    (* transitivity of perm_node *)
    clear -H12 H23. revert n1 H23. induction H12; intros; auto.
    inversion H23; subst. apply PN_dir; auto. apply PN_dir. eapply PL_trans; eauto.
Qed.

Inductive wf_node : node -> Prop :=
| WF_file : forall a b, wf_node (File a b)
| WF_dir : forall es, NoDup (map fst es) -> (forall n x, In (n, x) es -> wf_node x) -> wf_node (Dir es).

Lemma lookup_entry_In : forall n l x, lookup_entry n l = Some x -> exists k, In (k, x) l.
Proof.
  induction l as [|[k v] r IH]; simpl; intros x H; [discriminate|].
  destruct (k =? n). inversion H; subst. eauto. destruct (IH x H) as [k' Hk]. eauto.
Qed.

Lemma perm_node_file_inv : forall a b y, perm_node (File a b) y -> y = File a b.
Proof. intros. inversion H; auto. Qed.

Lemma perm_node_dir_inv : forall l y, perm_node (Dir l) y -> exists l', y = Dir l' /\ perm_listing l l'.
Proof. intros. inversion H; subst. exists l. split; auto. apply PL_refl. eauto. Qed.

Lemma get_node_perm : forall comps l l', perm_listing l l' -> wf_node (Dir l) ->
  rel_opt (get_node l comps) (get_node l' comps).
Proof.
  induction comps as [|c r IH]; intros l l' Hp Hwf; simpl.
  - apply PN_dir. auto.
  - inversion Hwf as [|es Hnd Hsub]; subst.
    pose proof (proj2 (lookup_perm l l' Hp) Hnd c) as Hl.
    destruct (lookup_entry c l) as [x|] eqn:E1; destruct (lookup_entry c l') as [y|] eqn:E2; simpl in Hl; try tauto.
    destruct x as [a b|l1].
    + apply perm_node_file_inv in Hl. subst y. destruct r; simpl; auto. apply PN_refl.
    + apply perm_node_dir_inv in Hl. destruct Hl as (l1' & -> & Hl1).
      apply IH; auto. destruct (lookup_entry_In _ _ _ E1) as [k Hk]. eapply Hsub; eauto.
Qed.

Definition perm_universe (U U' : universe) : Prop :=
  Forall2 (fun a b => fst a = fst b /\ perm_listing (snd a) (snd b)) U U'.
Definition wf_universe (U : universe) : Prop := forall i l, In (i, l) U -> wf_node (Dir l).

Lemma root_perm : forall U U' i, perm_universe U U' -> perm_listing (root U i) (root U' i).
Proof.
  intros U U' i H. unfold root. induction H as [|[j l] [j' l'] U U' [Hj Hl] _ IH]; simpl.
  - apply PL_refl.
  - simpl in Hj, Hl. subst j'. destruct (j =? i)%nat; auto.
Qed.

Lemma lookup_nat_In : forall (U : universe) i l, lookup_nat i U = Some l -> In (i, l) U.
Proof.
  induction U as [|[j m] r IH]; simpl; intros i l H; [discriminate|].
  destruct (j =? i)%nat eqn:E. apply Nat.eqb_eq in E. inversion H; subst. auto. right. auto.
Qed.

Lemma root_wf : forall U i, wf_universe U -> wf_node (Dir (root U i)).
Proof.
  intros U i H. unfold root. destruct (lookup_nat i U) eqn:E.
  - apply lookup_nat_In in E. eapply H; eauto.
  - constructor. constructor. intros ? ? [].
Qed.

Lemma node_at_perm : forall U U' p, perm_universe U U' -> wf_universe U ->
  rel_opt (node_at U p) (node_at U' p).
Proof.
  intros. unfold node_at. apply get_node_perm. apply root_perm; auto. apply root_wf; auto.
Qed.

Lemma portion_files_perm : forall U U' d, perm_universe U U' -> wf_universe U ->
  forall r, In r (portion_files U d) <-> In r (portion_files U' d).
Proof.
  intros U U' d Hp Hw r. unfold portion_files.
  pose proof (node_at_perm U U' d Hp Hw) as H.
  destruct (node_at U d), (node_at U' d); simpl in H; try tauto.
  apply walk_perm; auto.
Qed.

(* iter_submodules of a regular package as a set *)
Definition yields (base : path) (rel : list string) (e : entry) : Prop :=
  match name_to_yield rel with
  | YInit parts | YMod parts => e = mkE parts base rel
  | _ => False
  end.

(* since dot-files are skipped, iterating the files of a portion never fails *)
Lemma iter_files_total : forall base skip files seen, exists es s, iter_files base skip files seen = Ok (es, s).
Proof.
  induction files as [|rel r IH]; intros seen; simpl. eauto.
  destruct (mem_lstr (removelast rel) skip). apply IH.
  destruct (name_to_yield rel).
  - apply IH.
  - destruct (IH (seen ++ [removelast rel])) as (es & s & ->). eauto.
  - destruct (IH seen) as (es & s & ->). eauto.
Qed.

Lemma iter_files_noskip : forall base files seen,
  match iter_files base [] files seen with
  | Ok (es, _) => forall e, In e es <-> exists rel, In rel files /\ yields base rel e
  | Err _ => False
  end.
Proof.
  intros base files. induction files as [|rel r IH]; intros seen; simpl.
  - intros e. split. intros []. intros (rel & [] & _).
  - unfold yields in *. destruct (name_to_yield rel) as [|parts|parts] eqn:Ey.
    + specialize (IH seen). destruct (iter_files base [] r seen) as [[es s]|x]; auto.
      intro e. rewrite IH. split; intros (rel' & Hr & Hy).
      * exists rel'. auto.
      * destruct Hr as [<-|Hr]. rewrite Ey in Hy. contradiction. eauto.
    + specialize (IH (seen ++ [removelast rel])). destruct (iter_files base [] r (seen ++ [removelast rel])) as [[es s]|x]; auto.
      intro e. simpl. rewrite IH. split.
      * intros [<-|(rel' & Hr & Hy)]. exists rel. rewrite Ey. auto. exists rel'. auto.
      * intros (rel' & [<-|Hr] & Hy). rewrite Ey in Hy. auto. right. eauto.
    + specialize (IH seen). destruct (iter_files base [] r seen) as [[es s]|x]; auto.
      intro e. simpl. rewrite IH. split.
      * intros [<-|(rel' & Hr & Hy)]. exists rel. rewrite Ey. auto. exists rel'. auto.
      * intros (rel' & [<-|Hr] & Hy). rewrite Ey in Hy. auto. right. eauto.
Qed.

Section NodeInd.
  Variable P : node -> Prop.
  Hypothesis Hf : forall a b, P (File a b).
  Hypothesis Hd : forall es, (forall n x, In (n, x) es -> P x) -> P (Dir es).
  Fixpoint node_ind' (n : node) : P n :=
    match n with
    | File a b => Hf a b
    | Dir es => Hd es ((fix go (l : listing) : forall n x, In (n, x) l -> P x :=
                          match l with
                          | [] => fun n x H => False_ind _ H
                          | (k, v) :: r => fun n x H =>
                              match H with
                              | or_introl E => eq_ind v P (node_ind' v) x (f_equal snd E)
                              | or_intror H' => go r n x H'
                              end
                          end) es)
    end.
End NodeInd.

Lemma walk_nonempty : forall n pre r, In r (walk pre n) -> r <> [].
Proof.
  induction n as [a b|es IH] using node_ind'; intros pre r H. simpl in H. contradiction.
  apply walk_dir_in in H. destruct H as ([nm x] & He & Hr). unfold contrib in Hr. simpl in Hr.
  apply in_app_or in Hr. destruct Hr as [Hr|Hr].
  - destruct (is_file x && accepted nm); simpl in Hr; [|contradiction]. destruct Hr as [<-|[]]. destruct pre; discriminate.
  - destruct x as [a b|es']; [contradiction|]. destruct (nm =? "__pycache__"); [contradiction|].
    eapply IH; eauto.
Qed.

Lemma yields_parts_nonempty : forall base rel e, rel <> [] -> yields base rel e -> e_parts e <> [].
Proof.
  intros base rel e Hrel Hy. unfold yields, name_to_yield in Hy.
  set (py := (pl_suffix (last rel "") =? ".py") || (pl_suffix (last rel "") =? ".pyi")) in *.
  set (stem := if py then pl_stem (last rel "") else before_first_dot (pl_stem (last rel ""))) in *.
  destruct (stem =? "__init__").
  - destruct (List.length rel =? 1)%nat eqn:El; [contradiction|]. subst e. simpl.
    destruct rel as [|a [|b r]]; try congruence. simpl in El. discriminate. simpl. discriminate.
  - destruct py.
    + subst e. simpl. destruct (removelast rel); discriminate.
    + destruct (stem =? ""); [contradiction|]. subst e. simpl. destruct (removelast rel); discriminate.
Qed.

Definition same_tree (a b : loaded) : Prop :=
  match a, b with
  | LOk M, LOk M' => forall k, lookup_m k M = lookup_m k M'
  | LErr x, LErr y => x = y
  | LNotFound, LNotFound => True
  | _, _ => False
  end.

(* find_package only looks names up: it does not depend on the listing order *)
Definition regular_init_of (inner : listing) : bool :=
  match lookup_entry "__init__.py" inner with
  | Some (File ns _) => negb ns
  | Some (Dir _) => true
  | None => false
  end.

Definition top_obs (name : string) (L : listing) : option (bool * bool) * bool * bool :=
  (match lookup_entry name L with
   | None => None
   | Some nd => let inner := match nd with Dir l => l | File _ _ => [] end in
                Some (regular_init_of inner, has_entry "__init__.pyi" inner)
   end,
   has_entry (name ++ ".py")%string L, has_entry (name ++ ".pyi")%string L).

Definition g_step (name : string) (i : nat) (obs : option (bool * bool) * bool * bool)
           (rest : list path -> found) (nsacc : list path) : found :=
  let '(o, py, pyi) := obs in
  let second acc := if py then FPkg (i, [(name ++ ".py")%string]) (if pyi then Some (i, [(name ++ ".pyi")%string]) else None)
                    else rest acc in
  match o with
  | None => second nsacc
  | Some (reg, stub) =>
      if reg then FPkg (i, [name; "__init__.py"]) (if stub then Some (i, [name; "__init__.pyi"]) else None)
      else if stub then FPkg (i, [name; "__init__.pyi"]) None
      else second (nsacc ++ [(i, [name])])
  end.

Lemma g_find_cons : forall U name i r nsacc,
  g_find U name (i :: r) nsacc = g_step name i (top_obs name (root U i)) (g_find U name r) nsacc.
Proof.
  intros. simpl. unfold g_step, top_obs, regular_init_of.
  destruct (lookup_entry name (root U i)) as [[ns pth|l]|]; auto.
Qed.

Lemma rel_opt_shape : forall a b, rel_opt a b ->
  match a with
  | Some (File ns pth) => b = Some (File ns pth)
  | Some (Dir l) => exists l', b = Some (Dir l') /\ perm_listing l l'
  | None => b = None
  end.
Proof.
  intros [[ns pth|l]|] [y|] H; simpl in H; try tauto.
  - apply perm_node_file_inv in H. subst. auto.
  - apply perm_node_dir_inv in H. destruct H as (l' & -> & H). eauto.
Qed.

Lemma has_entry_perm : forall l l' n, perm_listing l l' -> NoDup (map fst l) -> has_entry n l = has_entry n l'.
Proof.
  intros l l' n Hp Hnd. unfold has_entry. pose proof (proj2 (lookup_perm l l' Hp) Hnd n) as H.
  destruct (lookup_entry n l), (lookup_entry n l'); simpl in H; tauto.
Qed.

Lemma top_obs_perm : forall name L L', perm_listing L L' -> wf_node (Dir L) -> top_obs name L = top_obs name L'.
Proof.
  intros name L L' Hp Hwf. inversion Hwf as [|es Hnd Hsub]; subst. unfold top_obs.
  rewrite (has_entry_perm L L' (name ++ ".py")%string), (has_entry_perm L L' (name ++ ".pyi")%string) by auto.
  pose proof (rel_opt_shape _ _ (proj2 (lookup_perm L L' Hp) Hnd name)) as H.
  destruct (lookup_entry name L) as [[ns pth|l]|] eqn:E.
  - rewrite H. auto.
  - destruct H as (l' & -> & Hl). destruct (lookup_entry_In _ _ _ E) as [k Hk].
    pose proof (Hsub _ _ Hk) as Hwl. inversion Hwl as [|es Hndl _]; subst.
    rewrite (has_entry_perm l l' "__init__.pyi") by auto.
    unfold regular_init_of.
    pose proof (rel_opt_shape _ _ (proj2 (lookup_perm l l' Hl) Hndl "__init__.py")) as H2.
    destruct (lookup_entry "__init__.py" l) as [[ns pth|l2]|].
    + rewrite H2. auto.
    + destruct H2 as (l2' & -> & _). auto.
    + rewrite H2. auto.
  - rewrite H. auto.
Qed.

Theorem find_order_invariant : forall U U' name paths nsacc,
  perm_universe U U' -> wf_universe U ->
  g_find U name paths nsacc = g_find U' name paths nsacc.
Proof.
  intros U U' name paths. induction paths as [|i r IH]; intros nsacc Hp Hw. reflexivity.
  rewrite !g_find_cons. rewrite (top_obs_perm name (root U i) (root U' i)).
  - unfold g_step. destruct (top_obs name (root U' i)) as [[[[reg stub]|] py] pyi]; simpl;
      repeat match goal with |- context [if ?b then _ else _] => destruct b end; auto.
  - apply root_perm; auto.
  - apply root_wf; auto.
Qed.

(* ------------------------------------------------------------------------------------------------------------- *)
(* Part F.  The full statements, their refutations on the unchanged code (one witness per finding), non-vacuity *)

(* does CPython import what Griffe put at this dotted name? *)
Definition agrees (v : minfo) (s : pyspec) : bool :=
  match v, s with
  | MFile p, PyMod q => path_eqb p q
  | MFile p, PyPkg q _ => path_eqb p q
  | MFile p, PyNone => path_suffix p =? ".pyi"           (* stub-only module *)
  | MFile p, PyNs _ => path_suffix p =? ".pyi"           (* stub-only package *)
  | MNs ps, PyNs qs => negb (match ps with [] => true | _ => false end) && forallb (fun p => mem_path p qs) ps
  | _, _ => false
  end.

Definition loaded_importable (U : universe) (sps : list nat) (name : string) : bool :=
  match load false U sps name with
  | LOk M => forallb (fun kv => agrees (snd kv) (py_import U (top_dirs (py_paths U sps)) (name :: fst kv))) M
  | LErr _ => false
  | LNotFound => true
  end.

Definition F0 : node := File false [].
Definition pkg (es : listing) : node := Dir (("__init__.py", F0) :: es).

(* F1 *)
Definition U_F1 : universe := [(0, [("aa", pkg [("bar.py", F0); ("bar", Dir [("inner.py", F0)])])])].
Example loaded_importable_repaired_F1 : loaded_importable U_F1 [0] "aa" = true /\
  exists M, load false U_F1 [0] "aa" = LOk M /\ lookup_m ["bar"; "inner"] M = None /\ lookup_m ["bar"] M = Some (MFile (0, ["aa"; "bar.py"])).
Proof. split. vm_compute; reflexivity. eexists. split. vm_compute; reflexivity. split; vm_compute; reflexivity. Qed.

(* F3, F8, F10 repaired (and F9): namespace packages over two portions; the former witnesses are importable now *)
Definition U_F3 : universe :=
  [(0, [("aa", Dir [("sub", pkg [("a.py", F0)])])]);
   (1, [("aa", Dir [("sub", Dir [("x.py", F0); ("other", pkg [("z.py", F0)])])])])].
Example namespace_shadow_repaired_F3 : loaded_importable U_F3 [0; 1] "aa" = true /\
  exists M, load false U_F3 [0; 1] "aa" = LOk M /\ lookup_m ["sub"; "other"] M = None /\ lookup_m ["sub"; "a"] M = Some (MFile (0, ["aa"; "sub"; "a.py"])).
Proof. split. vm_compute; reflexivity. eexists. split. vm_compute; reflexivity. split; vm_compute; reflexivity. Qed.

Definition U_F8 : universe := [(0, [("aa", Dir [("n.py", F0); ("x.py", F0)])]); (1, [("aa", Dir [("n.py", F0)])])].
Example namespace_first_portion_wins_repaired_F8 : loaded_importable U_F8 [0; 1] "aa" = true /\
  exists M, load false U_F8 [0; 1] "aa" = LOk M /\ lookup_m ["n"] M = Some (MFile (0, ["aa"; "n.py"])).
Proof. split. vm_compute; reflexivity. eexists. split; vm_compute; reflexivity. Qed.

Definition U_F9 : universe :=
  [(0, [("aa", Dir [("sub", Dir [("deep", Dir [(("__init__" ++ ext_suffix)%string, F0)])])])]);
   (1, [("aa", Dir [("sub", Dir [("b.py", F0)])])])].
Example namespace_portion_dirs_repaired_F9 : loaded_importable U_F9 [0; 1] "aa" = true /\
  exists M, load false U_F9 [0; 1] "aa" = LOk M /\ lookup_m ["sub"] M = Some (MNs [(0, ["aa"; "sub"]); (1, ["aa"; "sub"])]).
Proof. split. vm_compute; reflexivity. eexists. split; vm_compute; reflexivity. Qed.

Definition U_F10 : universe :=
  [(0, [("aa", Dir [("sub", Dir [("early.py", F0)])])]); (1, [("aa", Dir [("sub", pkg [("late.py", F0)])])])].
Example namespace_shadow_repaired_F10 : loaded_importable U_F10 [0; 1] "aa" = true /\
  exists M, load false U_F10 [0; 1] "aa" = LOk M /\ lookup_m ["sub"; "early"] M = None /\
            lookup_m ["sub"; "late"] M = Some (MFile (1, ["aa"; "sub"; "late.py"])).
Proof. split. vm_compute; reflexivity. eexists. split. vm_compute; reflexivity. split; vm_compute; reflexivity. Qed.

(* the provider of a folder is decided top-down: a deep regular package of an earlier portion does not hide the same
   folder of the later portion that provides the regular package above it *)
Definition U_topdown : universe :=
  [(0, [("aa", Dir [("sub", Dir [("deep", pkg [("a.py", F0)])])])]);
   (1, [("aa", Dir [("sub", pkg [("deep", pkg [("x.py", F0)])])])])].
Example namespace_provider_topdown : loaded_importable U_topdown [0; 1] "aa" = true /\
  exists M, load false U_topdown [0; 1] "aa" = LOk M /\ lookup_m ["sub"; "deep"; "a"] M = None /\
            lookup_m ["sub"; "deep"; "x"] M = Some (MFile (1, ["aa"; "sub"; "deep"; "x.py"])).
Proof. split. vm_compute; reflexivity. eexists. split. vm_compute; reflexivity. split; vm_compute; reflexivity. Qed.

(* F4 repaired: a dot-file with a module extension is skipped *)
Definition U_F4 : universe := [(0, [("aa", pkg [("m.py", F0); (".x.pyi", F0)])])].
Example load_total_repaired_F4 :
  exists M, load false U_F4 [0] "aa" = LOk M /\ lookup_m ["m"] M = Some (MFile (0, ["aa"; "m.py"])) /\ loaded_importable U_F4 [0] "aa" = true.
Proof. eexists. split. vm_compute; reflexivity. split; vm_compute; reflexivity. Qed.

(* F5 repaired: r.x.pyi is not the stubs of r any more; both listing orders load r.pyi *)
Definition U_F5a : universe := [(0, [("aa", pkg [("r.pyi", F0); ("r.x.pyi", F0)])])].
Definition U_F5b : universe := [(0, [("aa", pkg [("r.x.pyi", F0); ("r.pyi", F0)])])].
Example listing_order_repaired_F5 :
  same_tree (load false U_F5a [0] "aa") (load false U_F5b [0] "aa") /\
  exists M, load false U_F5b [0] "aa" = LOk M /\ lookup_m ["r"] M = Some (MFile (0, ["aa"; "r.pyi"])).
Proof. split. vm_compute. intro k. reflexivity. eexists. split; vm_compute; reflexivity. Qed.

(* .pth handling (F2 repaired: sorted order; F7 repaired: not transitive; F6 repaired for lines relative to the .pth file) *)
Definition pkgdir (m : string) : listing := [("aa", pkg [(m, F0)])].
Definition U_F2a : universe := [(0, [("a.pth", File false [(false, 2)]); ("b.pth", File false [(false, 1)])]); (1, pkgdir "one.py"); (2, pkgdir "two.py")].
Definition U_F2b : universe := [(0, [("b.pth", File false [(false, 1)]); ("a.pth", File false [(false, 2)])]); (1, pkgdir "one.py"); (2, pkgdir "two.py")].
Example paths_order_repaired_F2 :
  perm_universe U_F2a U_F2b /\
  g_paths U_F2a [0] = [0; 2; 1] /\ g_paths U_F2b [0] = [0; 2; 1] /\ py_paths U_F2b [0] = [0; 2; 1] /\
  same_tree (load false U_F2a [0] "aa") (load false U_F2b [0] "aa").
Proof.
  split. { constructor. split; auto. simpl. apply PL_swap. constructor. split; auto. apply PL_refl.
           constructor. split; auto. apply PL_refl. constructor. }
  split; [vm_compute; reflexivity|]. split; [vm_compute; reflexivity|]. split; [vm_compute; reflexivity|].
  vm_compute. intro k. reflexivity.
Qed.

(* what is left of F6: a line that exists relative to the current directory only is still added (site ignores it) *)
Definition U_F6 : universe := [(0, [("a.pth", File false [(true, 1)])]); (1, pkgdir "m.py")].
Lemma paths_eq_refuted_F6 : gapU_F6 U_F6 = true /\ g_paths U_F6 [0] = [0; 1] /\ py_paths U_F6 [0] = [0].
Proof. repeat split; vm_compute; reflexivity. Qed.

Definition U_F7 : universe := [(0, [("a.pth", File false [(false, 1)])]); (1, [("b.pth", File false [(false, 2)])]); (2, pkgdir "m.py")].
Example paths_not_transitive_repaired_F7 : g_paths U_F7 [0] = [0; 1] /\ py_paths U_F7 [0] = [0; 1].
Proof. repeat split; vm_compute; reflexivity. Qed.

(* the finder precedence theorem needs its hypotheses: compiled top-level module, stub-only package, pkgutil namespace *)
Lemma find_eq_refuted_outside_scope :
  (exists U, ~ find_agree (g_find U "aa" [0] []) (py_find U "aa" (top_dirs [0]))) /\
  (exists U, g_find U "aa" [0; 1] [] = FPkg (0, ["aa"; "__init__.pyi"]) None /\ py_find U "aa" (top_dirs [0; 1]) = PyMod (1, ["aa.py"])) /\
  (exists U, g_find U "aa" [0] [] = FNs [(0, ["aa"])] /\ exists l, py_find U "aa" (top_dirs [0]) = PyPkg (0, ["aa"; "__init__.py"]) l).
Proof.
  split; [|split].
  - exists [(0, [("aa.so", F0)])]. vm_compute. tauto.
  - exists [(0, [("aa", Dir [("__init__.pyi", F0)])]); (1, [("aa.py", F0)])]. split; vm_compute; reflexivity.
  - exists [(0, [("aa", Dir [("__init__.py", File true [])])])]. split. vm_compute; reflexivity. eexists. vm_compute. reflexivity.
Qed.

(* non-vacuity: the hypotheses of the positive theorems hold of an ordinary layout, and the conclusions are not trivial *)
Definition U_ok : universe :=
  [(0, [("aa", Dir [("m.py", F0)])]);
   (1, [("README", F0); ("aa", pkg [("m.py", F0); ("m.pyi", F0); ("sub", pkg [("x.py", F0); ("__pycache__", Dir [("x.cpython-312.pyc", F0)])]);
                                   ("noinit", Dir [("y.py", F0)]); ("n.py", F0); ("n", pkg [])])])].
Example top_ok_example : forallb (top_ok U_ok "aa") [0; 1] = true.
Proof. vm_compute. reflexivity. Qed.
Example find_example : g_find U_ok "aa" [0; 1] [] = FPkg (1, ["aa"; "__init__.py"]) None /\
                       exists l, py_find U_ok "aa" (top_dirs [0; 1]) = PyPkg (1, ["aa"; "__init__.py"]) l.
Proof. split. vm_compute. reflexivity. eexists. vm_compute. reflexivity. Qed.
Definition U_ok2 : universe :=
  [(1, [("aa", pkg [("m.py", F0); ("m.pyi", F0); ("sub", pkg [("x.py", F0); ("__init__.pyi", F0)]); ("noinit", Dir [("y.py", F0)]); ("n", pkg [])])])].
Example loaded_example :
  exists M, load false U_ok [0; 1] "aa" = LOk M /\
            lookup_m ["m"] M = Some (MFile (1, ["aa"; "m.py"])) /\
            lookup_m ["n"] M = Some (MFile (1, ["aa"; "n"; "__init__.py"])) /\
            lookup_m ["sub"; "x"] M = Some (MFile (1, ["aa"; "sub"; "x.py"])) /\
            lookup_m ["noinit"; "y"] M = None /\
            loaded_importable U_ok [0; 1] "aa" = true.
Proof. eexists. split. vm_compute. reflexivity. repeat split; vm_compute; reflexivity. Qed.

(* ------------------------------------------------------------------------------------------------------------- *)
(* Part G.  Totality *)

Lemma mem_nat_In : forall x l, mem_nat x l = true <-> In x l.
Proof.
  intros. unfold mem_nat. rewrite existsb_exists. split.
  - intros (y & Hy & E). apply Nat.eqb_eq in E. subst. auto.
  - intro H. exists x. split; auto. apply Nat.eqb_refl.
Qed.

Lemma add_new_spec : forall xs known,
  NoDup (add_new xs known) /\ forall x, In x (add_new xs known) -> In x xs /\ ~ In x known.
Proof.
  induction xs as [|a r IH]; intros known; simpl.
  - split. constructor. intros x [].
  - destruct (mem_nat a known) eqn:E.
    + destruct (IH known) as [H1 H2]. split; auto. intros x Hx. destruct (H2 x Hx). auto.
    + destruct (IH (known ++ [a])) as [H1 H2]. split.
      * constructor; auto. intro Ha. destruct (H2 a Ha) as [_ Hn]. apply Hn. apply in_or_app. right. left. auto.
      * intros x [<-|Hx].
        -- split; auto. intro Hk. apply mem_nat_In in Hk. congruence.
        -- destruct (H2 x Hx) as [Hr Hn]. split; auto. intro Hk. apply Hn. apply in_or_app. auto.
Qed.

(* Static loading is total: the only error left is reading a directory that is called like the package's module file *)
Theorem load_total : forall insp U sps name e, load insp U sps name = LErr e -> e = "LoadingError".
Proof.
  intros insp U sps name e. unfold load.
  unfold load_found. destruct (g_find U name (g_paths U sps) []) as [p st|ds|]; try discriminate.
  destruct (node_at U p) as [[a b|l]|]; try (intro H0; inversion H0; reflexivity).
  unfold iter_regular. destruct (start_dir p) as [d|]; try discriminate.
  destruct (iter_files_total d [] (portion_files U d) []) as (es & s & ->). discriminate.
Qed.

